(* C31 -- a downloaded snap is only kept if its digest matches.
   This file holds the property theorems only: statement, `exact <lemma>`, Print Assumptions.
   Model: models/Download.v (store/store_download.go: Store.Download and downloadImpl, function by function; SHA3-384 is
   ideal, i.e. `digest matches` is equality of contents; the server is an arbitrary script of per-request behaviours).
   Every theorem is for EVERY server script, EVERY retry budget and EVERY pre-existing partial file. *)
From Coq Require Import List NArith Bool.
Import ListNotations.
Require Import V.lib.Bytes V.models.Download V.proofs.DownloadProofs.
Open Scope N_scope.

(* loop invariant of downloadImpl: whatever the server did, the error is nil only if the bytes of the file below the
   write position are the expected content (the running hash is the hash of file[0..pos)); pos never passes the end.
   Preconditions = what Store.Download establishes: the position is inside the file and is 0 when resume is 0. *)
Theorem C31_hash_tracks_file : forall trunc r script expected f pos resume e f' p' rest,
  (pos <= length f)%nat -> (resume = 0%nat -> pos = 0%nat) ->
  dl_loop trunc r script expected f pos resume = (e, f', p', rest) ->
  (p' <= length f')%nat /\ (e = ENone -> firstn p' f' = expected).
Proof. exact hash_tracks_file. Qed.
Print Assumptions C31_hash_tracks_file.

(* on any failure no target exists (it is only ever produced by the final rename), and a target implies a nil error *)
Theorem C31_failure_leaves_no_target : forall size expected partial leave attempts script,
  o_target (download size expected partial leave attempts script) = None <->
  o_err (download size expected partial leave attempts script) <> ENone.
Proof. exact (failure_leaves_no_target false). Qed.
Print Assumptions C31_failure_leaves_no_target.

(* FULL STATEMENT of the property (C31_target_only_if_match):
     forall size expected partial leave attempts script, 0 < size -> N.of_nat (length expected) = size ->
       o_err (download ...) = ENone -> o_target (download ...) = Some expected.
   It is FALSE of the faithful model and of the real code (finding, KNOWN_FINDINGS key stale-tail; replayed on the
   implementation on every run): after a lost connection that left more bytes in the file than the snap has, a
   server that ignores Range makes downloadImpl seek back to 0 WITHOUT truncating; the hash of the rewritten prefix
   matches and the file is renamed with a stale tail. *)
Theorem C31_target_only_if_match_refuted : exists size expected partial leave attempts script,
  0 < size /\ N.of_nat (length expected) = size /\
  o_err (download size expected partial leave attempts script) = ENone /\
  o_target (download size expected partial leave attempts script) <> Some expected.
Proof. exact target_only_if_match_refuted. Qed.
Print Assumptions C31_target_only_if_match_refuted.

(* what does hold unconditionally: on success the target BEGINS with the expected content *)
Theorem C31_success_has_expected_prefix : forall size expected partial leave attempts script,
  o_err (download size expected partial leave attempts script) = ENone ->
  exists tail, o_target (download size expected partial leave attempts script) = Some (expected ++ tail).
Proof. exact success_has_expected_prefix. Qed.
Print Assumptions C31_success_has_expected_prefix.

(* the full conclusion under a guard on the server: no response body is longer than the declared size and status 206
   is only sent when the requested range is honoured (dropped connections, ignored ranges, corrupted or truncated
   bodies, 5xx, redirects, garbage are all still allowed), for a declared non-zero size consistent with the digest *)
Theorem C31_target_only_if_match_guarded : forall size expected partial leave attempts script,
  0 < size -> N.of_nat (length expected) = size ->
  forallb (beh_within (length expected)) script = true ->
  o_err (download size expected partial leave attempts script) = ENone ->
  o_target (download size expected partial leave attempts script) = Some expected.
Proof. exact target_only_if_match_guarded. Qed.
Print Assumptions C31_target_only_if_match_guarded.

(* why 0 < size is in the guard: an undeclared size with an over-long partial file and a server that merely ignores
   Range (within the guard otherwise) also ends with a stale tail *)
Theorem C31_unknown_size_refuted : exists expected partial leave attempts script,
  forallb (beh_within (length expected)) script = true /\
  o_err (download 0 expected partial leave attempts script) = ENone /\
  o_target (download 0 expected partial leave attempts script) <> Some expected.
Proof. exact unknown_size_refuted. Qed.
Print Assumptions C31_unknown_size_refuted.

(* the full statement, with no guard at all (any size, any script), for the code with the repair of
   notes/C31-fix.diff (truncate the file where the position is reset because the server ignored Range) *)
Theorem C31_fixed_target_only_if_match : forall size expected partial leave attempts script,
  o_err (download_fixed size expected partial leave attempts script) = ENone ->
  o_target (download_fixed size expected partial leave attempts script) = Some expected.
Proof. exact fixed_target_only_if_match. Qed.
Print Assumptions C31_fixed_target_only_if_match.

Theorem C31_fixed_failure_leaves_no_target : forall size expected partial leave attempts script,
  o_target (download_fixed size expected partial leave attempts script) = None <->
  o_err (download_fixed size expected partial leave attempts script) <> ENone.
Proof. exact (failure_leaves_no_target true). Qed.
Print Assumptions C31_fixed_failure_leaves_no_target.

(* ---- non-vacuity: the hypotheses are met by runs that do succeed / fail in interesting ways *)
Definition abcd : bytes := [97;98;99;100].
Definition honest : beh := Resp 200 true abcd Full.

(* resume of a correct prefix after a lost connection, within the guard: success, target = content *)
Example C31_ex_resume :
  let s := [Resp 200 true abcd (EarlyClose 1); Drop; honest] in
  forallb (beh_within 4) s = true /\
  download 4 abcd [97] false 3 s = {| o_err := ENone; o_target := Some abcd; o_partial := None |}.
Proof. vm_compute. split; reflexivity. Qed.

(* wrong partial prefix: the hash error is met once, the file is truncated and the second download succeeds *)
Example C31_ex_hash_retry :
  download 4 abcd [97;88] false 3 [honest; honest] = {| o_err := ENone; o_target := Some abcd; o_partial := None |}.
Proof. vm_compute. reflexivity. Qed.

(* corrupted body twice: hash error, no target; the partial file is kept only if asked for *)
Example C31_ex_hash_fail :
  let bad := Resp 200 true [97;98;99;88] Full in
  download 4 abcd [] true 3 [bad; bad] = {| o_err := EHash; o_target := None; o_partial := Some [97;98;99;88] |} /\
  download 4 abcd [] false 3 [bad; bad] = {| o_err := EHash; o_target := None; o_partial := None |}.
Proof. vm_compute. split; reflexivity. Qed.

(* the refuting run, and the same run on the repaired code (hash error on the over-long data is impossible there:
   the stale bytes are gone, the download succeeds with the right content) *)
Example C31_ex_stale_tail :
  o_target (download 4 abcd [] false 3 refute_script) = Some [97;98;99;100;88;88;88;88] /\
  o_target (download_fixed 4 abcd [] false 3 refute_script) = Some abcd.
Proof. vm_compute. split; reflexivity. Qed.
