(* C20 - assertions survive encoding and malformed input is rejected safely.

   Full statement of the property: every valid signed assertion decodes back from its encoding to an assertion with
   identical headers, body, revision and signature, also when several are streamed together; arbitrary or truncated
   input is rejected with an error and never crashes or hangs the decoder; the stream decoder enforces its limits on
   header, body and signature sizes.

   Proved here, for all inputs, on the model of asserts/headers.go and of the Decoder of asserts/asserts.go:
   the header text round trip for every normalised header tree of any depth, line splitting, totality of the header
   parser (no out-of-range index, termination within 2*lines+1 steps) on every byte string, the size bounds of
   readUntil and of every assertion a Decoder.Decode call hands on, and that Decoder.Decode never panics (the negative
   body-length panic found by this check is repaired in /repo, commit 94ffaa1),
   the byte-level round trip of a whole serialized assertion (C20_assertion_roundtrip), and that bufio-style Peek does not
   depend on the reader's chunking (C20_peek_chunking_independent).
   and the stream round trip: Decoder.Decode called repeatedly on what one Encoder wrote for any list of assertions returns
   exactly those assertions, then EOF (C20_stream_roundtrip, by induction on the list through the doubling loop of readUntil).
   Not proved (monitored on the implementation by the differential run): that the result of the stream decoder does not
   depend on how the underlying reader splits the bytes (the model abstracts bufio.Reader.Peek as delivering the requested
   bytes; the driver reads every boundary-placed stream through readers handing out 1, 2, 3, 7, B-1, B, B+1 or random
   numbers of bytes per Read, also with the last bytes delivered together with EOF), the per-type checks of assemble, and absence of hangs in the real decoder. *)
From Coq Require Import List NArith ZArith Bool String.
Import ListNotations.
Require Import V.lib.Bytes V.models.AssertCodec V.proofs.AssertCodecProofs V.proofs.AssertStreamProofs.
Open Scope string_scope.
Open Scope list_scope.
Open Scope N_scope.

Theorem C20_roundtrip : forall h, norm_headers h = true -> parse_header_lines (format_headers h) = Ok h.
Proof. exact roundtrip_lines. Qed.
Print Assumptions C20_roundtrip.

Theorem C20_roundtrip_bytes : forall h,
  norm_headers h = true -> h <> [] ->
  forallb no_nl (format_headers h) = true -> utf8_valid (join_lines (format_headers h)) = true ->
  parse_headers (join_lines (format_headers h)) = Ok h.
Proof. exact roundtrip_bytes. Qed.
Print Assumptions C20_roundtrip_bytes.

Theorem C20_split_join : forall ls, ls <> [] -> forallb no_nl ls = true -> split_lines (join_lines ls) = ls.
Proof. exact split_join. Qed.
Print Assumptions C20_split_join.

Theorem C20_join_split : forall s, join_lines (split_lines s) = s.
Proof. exact join_split. Qed.
Print Assumptions C20_join_split.

(* Decode (Encode a) at byte level: for every normalised header tree h, every body and every signature text, the
   serialized form (header lines, blank line + body if the body is not empty, blank line, signature) is split and
   parsed back to exactly (h, body, signature), and the signed content kept with the assertion is the original content,
   so that Encode of the decoded assertion is the original byte string (C20_reencode_identity).  Constraints of the format, all of them hypotheses: the lines of header
   strings contain no newline byte, the header text is valid UTF-8, the signature has no blank line inside and does not
   start with a newline.  The body is arbitrary (blank lines and trailing newlines included).  That assemble then accepts
   the parts (body-length header = length of the body, type-specific checks) is outside the model. *)
Theorem C20_assertion_roundtrip : forall h body sig,
  norm_headers h = true -> h <> [] ->
  forallb no_nl (format_headers h) = true -> utf8_valid (join_lines (format_headers h)) = true ->
  cut_first_nlnl sig = None -> has_prefix [NL] sig = false ->
  decode_parts (encode_assertion h body sig) = Ok (mkParts h body sig (content_of (join_lines (format_headers h)) body)).
Proof. exact assertion_roundtrip. Qed.
Print Assumptions C20_assertion_roundtrip.

Theorem C20_reencode_identity : forall h body sig,
  norm_headers h = true -> h <> [] ->
  forallb no_nl (format_headers h) = true -> utf8_valid (join_lines (format_headers h)) = true ->
  cut_first_nlnl sig = None -> has_prefix [NL] sig = false ->
  exists p, decode_parts (encode_assertion h body sig) = Ok p /\ encode (p_content p) (p_sig p) = encode_assertion h body sig.
Proof. exact reencode_identity. Qed.
Print Assumptions C20_reencode_identity.

(* STREAM round trip.  Any list of assertions (normalised headers whose body-length is the length of the body, arbitrary
   body, signature text s without blank line, not ending in a newline, stored as s + newline) handed to ONE Encoder - each
   one complete or without the final newline of its signature (WriteEncoded / WriteContentSignature of a trimmed
   signature) - and then read back by calling Decoder.Decode repeatedly gives exactly those assertions (headers, body,
   signature, signed content), in order, and then EOF.  Side conditions: each component fits the limits in the sense of
   the doubling loop (lim_ok; for the production limits: header text and signature text <= 128 KiB - 2, body <= 2 MiB,
   C20_limits_default), initial buffer >= 1.  Holds for every incoming state of the sticky EOF flag. *)
Theorem C20_stream_roundtrip : forall lim (l : list (bool * item)) ef,
  1 <= l_buf lim -> Forall (fun x => wf_item (snd x)) l -> Forall (fun x => lim_ok lim (snd x)) l ->
  stream_all lim (mkD (encode_stream (enc_items l)) ef) (repeat true (S (List.length l)))
  = map (fun x => SOk (i_parts (snd x))) l ++ [SEof].
Proof. exact stream_roundtrip. Qed.
Print Assumptions C20_stream_roundtrip.

Theorem C20_limits_default : forall it,
  lenN (i_head it) + 2 <= 131072 -> lenN (i_body it) <= 2097152 -> lenN (i_s it) + 2 <= 131072 -> lim_ok default_limits it.
Proof. exact lim_ok_default. Qed.
Print Assumptions C20_limits_default.

(* readUntil returns the text up to and including the first blank line whenever the doubling loop can reach it *)
Theorem C20_read_until_finds : forall fuel size maxSize d e,
  delim_end (d_rem d) = Some e -> ru_ok fuel size maxSize e = true ->
  exists ef, read_until fuel size maxSize d = (RFound (takeN e (d_rem d)), mkD (dropN e (d_rem d)) ef).
Proof. exact read_until_finds. Qed.
Print Assumptions C20_read_until_finds.

(* bufio.Reader.Peek(n) over a reader that hands out its data in arbitrary pieces returns the first n of the bytes still
   to come, or all of them with EOF if there are fewer - whatever the pieces: this is the [peek] the stream decoder model
   is built on.  (Assumed about bufio: see models/AssertCodec.v at peek_fill.)  The stream decoder touches its reader
   only through peek and Discard, so its result does not depend on the chunking; that last lifting step is not a
   theorem here (monitored with the chopped readers). *)
Theorem C20_peek_chunking_independent : forall n buf1 chunks1 buf2 chunks2,
  buf1 ++ List.concat chunks1 = buf2 ++ List.concat chunks2 -> chunk_peek n buf1 chunks1 = chunk_peek n buf2 chunks2.
Proof. exact chunk_peek_independent. Qed.
Print Assumptions C20_peek_chunking_independent.

Theorem C20_peek_is_flat_peek : forall n buf chunks,
  chunk_peek n buf chunks =
  let flat := buf ++ List.concat chunks in
  if Nat.ltb (List.length flat) n then (flat, true) else (firstn n flat, false).
Proof. exact chunk_peek_flat. Qed.
Print Assumptions C20_peek_is_flat_peek.

(* the parser never indexes out of range and never runs out of its fuel of 2*lines+1 steps, whatever the input *)
Theorem C20_no_panic : forall head, parse_headers head = Err \/ exists h, parse_headers head = Ok h.
Proof. exact parse_headers_total. Qed.
Print Assumptions C20_no_panic.

Theorem C20_no_panic_lines : forall ls, parse_header_lines ls = Err \/ exists h, parse_header_lines ls = Ok h.
Proof. exact parse_header_lines_total. Qed.
Print Assumptions C20_no_panic_lines.

(* readUntil never returns more than the limit (or the initial buffer size if that is larger) *)
Theorem C20_read_until_bound : forall fuel size maxSize d buf d',
  read_until fuel size maxSize d = (RFound buf, d') -> lenN buf <= N.max size maxSize.
Proof. exact read_until_bound. Qed.
Print Assumptions C20_read_until_bound.

(* the loop of readUntil as written in Go searches only buf[last:] with last = size - len(delim) + 1 of the previous round;
   that overlap loses no delimiter: for every input it finds exactly what a search of the whole buffer finds (a delimiter
   straddling two rounds included).  All other theorems are stated on the whole-buffer form. *)
Theorem C20_read_until_overlap : forall fuel size maxSize d,
  1 <= size -> read_until_go fuel 0 size maxSize d = read_until fuel size maxSize d.
Proof. exact read_until_overlap. Qed.
Print Assumptions C20_read_until_overlap.

Theorem C20_limits : forall lim d p d',
  stream_decode lim d = (SOk p, d') ->
  lenN (p_body p) <= l_body lim /\ lenN (p_sig p) <= N.max (l_buf lim) (l_sig lim).
Proof. exact stream_limits. Qed.
Print Assumptions C20_limits.

(* the stream decoder never panics, whatever the stream and the limits (a negative body-length is rejected with an
   error before the buffer is allocated; repaired in /repo commit 94ffaa1, see KNOWN_FINDINGS `fixed:`) *)
Theorem C20_stream_never_panics : forall lim d, fst (stream_decode lim d) <> SPanic.
Proof. exact stream_never_panics. Qed.
Print Assumptions C20_stream_never_panics.

Theorem C20_stream_loop_never_panics : forall accepted lim d, ~ In SPanic (stream_all lim d accepted).
Proof. exact stream_all_never_panics. Qed.
Print Assumptions C20_stream_loop_never_panics.

(* the input that used to panic the decoder *)
Definition neg_length_stream : bytes := bs "body-length: -100" ++ [10; 10] ++ bs "x".

(* the normal-form hypothesis of the round trip is needed: an empty list inside a list is dropped by appendEntry
   (assembleAndSign accepts such headers; confirmed on the real code), a list of empty lists cannot be read back *)
Definition dropped_tree : list (bytes * hv) := [(bs "foo", Lst [Str [bs "a"]; Lst []])].
Definition unreadable_tree : list (bytes * hv) := [(bs "foo", Lst [Lst []])].

Theorem C20_roundtrip_any_tree_refuted :
  exists h, parse_header_lines (format_headers h) <> Ok h.
Proof. exists dropped_tree. vm_compute. discriminate. Qed.
Print Assumptions C20_roundtrip_any_tree_refuted.

(* non-vacuity *)
Example C20_ex_tree : list (bytes * hv) :=
  [(bs "type", Str [bs "test-only"]);
   (bs "plugs", Map [(bs "a", Lst [Str [bs "x"]; Lst [Str [bs "l1"; []; bs "  l3"]]; Map [(bs "k", Str [[]])]]);
                     (bs "b-2", Str [bs "- not a list"; bs "x: y"])])].
Example C20_ex_norm : norm_headers C20_ex_tree = true.
Proof. vm_compute. reflexivity. Qed.
Example C20_ex_roundtrip : parse_headers (join_lines (format_headers C20_ex_tree)) = Ok C20_ex_tree.
Proof. vm_compute. reflexivity. Qed.
Example C20_ex_assertion :
  decode_parts (encode_assertion C20_ex_tree (bs "body" ++ [10; 10] ++ bs "more" ++ [10]) (bs "AcLBXAQ=" ++ [10]))
  = Ok (mkParts C20_ex_tree (bs "body" ++ [10; 10] ++ bs "more" ++ [10]) (bs "AcLBXAQ=" ++ [10])
                (content_of (join_lines (format_headers C20_ex_tree)) (bs "body" ++ [10; 10] ++ bs "more" ++ [10]))).
Proof. vm_compute. reflexivity. Qed.
Definition C20_ex_item (body : bytes) (len : bytes) : item :=
  mkItem [(bs "type", Str [bs "test-only"]); (bs "body-length", Str [len]); (bs "note", Str [bs "a"; bs "b"])] body (bs "AcLB" ++ [10] ++ bs "XAQ=").
Example C20_ex_wf : wf_item (C20_ex_item (bs "body" ++ [10; 10] ++ bs "x") (bs "7")) /\ lim_ok default_limits (C20_ex_item (bs "body" ++ [10; 10] ++ bs "x") (bs "7")).
Proof. split; [unfold wf_item|unfold lim_ok]; repeat split; try (vm_compute; reflexivity); try (vm_compute; discriminate); vm_compute; discriminate. Qed.
Example C20_ex_stream :
  let a := C20_ex_item (bs "body" ++ [10; 10] ++ bs "x") (bs "7") in
  let b := C20_ex_item [] (bs "0") in
  stream_all default_limits (mkD (encode_stream (enc_items [(true, a); (false, b); (true, a)])) false) (repeat true 4)
  = [SOk (i_parts a); SOk (i_parts b); SOk (i_parts a); SEof].
Proof. vm_compute. reflexivity. Qed.
Example C20_ex_dropped : parse_header_lines (format_headers dropped_tree) = Ok [(bs "foo", Lst [Str [bs "a"]])].
Proof. vm_compute. reflexivity. Qed.
Example C20_ex_unreadable : parse_header_lines (format_headers unreadable_tree) = Err.
Proof. vm_compute. reflexivity. Qed.
Example C20_ex_reject : parse_headers (bs "a:" ++ [10] ++ bs "  -") = Err.
Proof. vm_compute. reflexivity. Qed.
Example C20_ex_negative_length_rejected : fst (stream_decode default_limits (mkD neg_length_stream false)) = SErr.
Proof. vm_compute. reflexivity. Qed.
Example C20_ex_straddle :   (* the blank line sits on bytes 7 and 8, across the first 8-byte round *)
  fst (read_until_go ru_fuel 0 8 64 (mkD (repeat 97 7 ++ [10; 10] ++ repeat 98 20) false)) = RFound (repeat 97 7 ++ [10; 10]).
Proof. vm_compute. reflexivity. Qed.
Example C20_ex_limit : fst (read_until ru_fuel 16 64 (mkD (repeat 97 200) false)) = RTooBig.
Proof. vm_compute. reflexivity. Qed.
