(* C32 -- snapshot import and restore cannot escape or corrupt snap data.
   This file holds the property theorems only: statement, `exact <lemma>`, Print Assumptions.
   Model: models/Snapshot.v (overlord/snapshotstate/backend: backend.go unpackVerifySnapshotImport /
   writeOneSnapshotFile; reader.go Reader.Restore / moveFile; restorestate.go RestoreState.Revert / Cleanup). *)
From Coq Require Import List NArith Bool.
Import ListNotations.
Require Import V.lib.Bytes V.models.Snapshot V.proofs.SnapshotProofs.
Open Scope N_scope.

(* IMPORT, for EVERY stream of members (every name: `..`, absolute, nested, empty, duplicates; directories; a stream
   that breaks at any point), every snapshots directory, every set of directories already inside it: every path on
   which a file is created or written is the snapshots directory followed by at least one component, none of which is
   empty, `.` or `..` -- or the member is rejected / the open fails without side effect. The only hypothesis: the
   set id is printed without a slash (it is a decimal number). *)
Theorem C32_import_inside : forall sdir idb dirs ms export_found,
  forallb (fun b => negb (b =? c_slash)) idb = true ->
  forallb (strictly_below sdir) (fst (import_run sdir idb dirs ms export_found)) = true.
Proof. exact import_inside. Qed.
Print Assumptions C32_import_inside.

(* the computed target path for every member name that passes the `../` check *)
Theorem C32_import_target_shape : forall sdir idb rest,
  forallb (fun b => negb (b =? c_slash)) idb = true ->
  contains s_dotdotslash rest = false ->
  exists rel, import_target sdir idb rest = sdir ++ rel /\ forallb plain_comp rel = true.
Proof. exact import_target_shape. Qed.
Print Assumptions C32_import_target_shape.

(* RESTORE, for EVERY list of entries (any trees extracted by tar, any pre-existing content of the data directories,
   missing parent directories, any current revision) and EVERY failure point f (each fallible step of every entry,
   including the step between the two renames of moveFile, extraction failure, size/digest mismatch): if Restore fails
   (it then reverts itself) -- or succeeds and is reverted later -- every data directory is exactly as before. *)
Theorem C32_restore_failure_identity : forall cur es f a,
  wf_case cur es = true ->
  fst (restore cur es f a) = false \/ a = ARevert ->
  all_peq (snd (restore cur es f a)) (map fst es).
Proof. exact restore_failure_identity. Qed.
Print Assumptions C32_restore_failure_identity.

(* a size / digest mismatch or a failing extraction is detected before anything in the data directory is moved *)
Theorem C32_mismatch_detected_before_move : forall cur st e f st' lg ok f',
  e_extract_ok e = false \/ e_digest_ok e = false ->
  restore_one cur st e f = (st', lg, ok, f') ->
  ok = false /\ l_created lg = [] /\ l_moved lg = [] /\ (st' = st \/ (st = None /\ st' = Some [])).
Proof. exact mismatch_detected_before_move. Qed.
Print Assumptions C32_mismatch_detected_before_move.

(* RESTORE, success half, for EVERY list of entries and every fuel: if Restore succeeds (optionally followed by Cleanup)
   every data directory holds EXACTLY: the extracted `common` and revision trees (the latter under the current revision's
   name), every other real name as before, under the backup names of `common` / the revision directory the old tree
   that was moved aside (these are what Revert puts back, theorem above with a = ARevert) -- and nothing under any
   backup name after Cleanup. expected_lookup is total: the statement fixes the content of every name. *)
Theorem C32_restore_success : forall cur es f a,
  wf_case cur es = true -> a <> ARevert ->
  fst (restore cur es f a) = true ->
  all_expected cur a es (snd (restore cur es f a)).
Proof. exact restore_success. Qed.
Print Assumptions C32_restore_success.

(* the same, as the executable predicate the check evaluates on the implementation's observed directories *)
Theorem C32_restore_success_monitor : forall cur es f a,
  wf_case cur es = true -> a <> ARevert ->
  fst (restore cur es f a) = true ->
  success_all cur a es (snd (restore cur es f a)) = true.
Proof. exact restore_success_monitor. Qed.
Print Assumptions C32_restore_success_monitor.

(* CHECK (Reader.Check, digest idealised as content identity): it succeeds iff every entry it looks at (all of them, or
   with a user list: the non-user entries and the listed users') is present in the zip, reads without error, has the
   size the zip header reports and the content whose digest is recorded *)
Theorem C32_check_iff : forall users zs,
  check users zs = true <->
  forall z, In z zs -> selected users z = true ->
    z_present z = true /\ z_read_ok z = true /\ z_read z = z_reported z /\ z_actual z = z_recorded z.
Proof. exact check_iff. Qed.
Print Assumptions C32_check_iff.

(* IMPORT with contents and DUPLICATE member names, for every stream and every set of files already there: the writes go
   to the same (inside) paths; each write stores overlay (content of that path after the earlier writes) (body): the file
   is opened without O_TRUNC, so a later member with the same target overwrites the earlier one from offset 0 ... *)
Theorem C32_import_writes_inside : forall sdir idb dirs fs ms export_found,
  forallb (fun b => negb (b =? c_slash)) idb = true ->
  forallb (strictly_below sdir) (map fst (fst (import_writes sdir idb dirs fs ms export_found))) = true.
Proof. exact import_writes_inside. Qed.
Print Assumptions C32_import_writes_inside.

Theorem C32_import_duplicates_overlay : forall sdir idb dirs ms fs export_found,
  writes_from fs (fst (import_writes sdir idb dirs fs ms export_found)).
Proof. exact import_writes_overlay. Qed.
Print Assumptions C32_import_duplicates_overlay.

(* ... completely when it is at least as long; otherwise the tail of the earlier content survives behind the new body
   (inside the snapshots directory only; such a file is then handed to Open/Check, which is outside this model) *)
Theorem C32_overlay_shape : forall old data,
  ((length old <= length data)%nat -> overlay old data = data) /\
  firstn (length data) (overlay old data) = data /\
  skipn (length data) (overlay old data) = skipn (length data) old /\
  length (overlay old data) = Nat.max (length old) (length data).
Proof. intros old data. split; [apply overlay_replaces | apply overlay_shape]. Qed.
Print Assumptions C32_overlay_shape.

(* IMPORT, nothing is committed unless every member verifies. backendOpen + Reader.Check on each written file are an
   oracle (m_valid). (a) one snapshot member they reject, ANYWHERE in ANY stream, makes the import fail; (b) after a failed
   import -- whatever the reason: rejected member, directory member, `../`, name without `_`, broken tar, missing
   export.json -- no file <id>_*.zip is left in the snapshots directory (the deferred Cancel removes what was written);
   (c) hence a committed import has verified every snapshot member it contains. (Files written under other names, e.g.
   `<id>_foo` without .zip or below an existing sub-directory, are NOT removed by Cancel: they stay, inside the
   snapshots directory -- observed on the real code, recorded in the notes.) *)
Theorem C32_invalid_member_fails : forall sdir idb dirs ms1 m ms2 fs export_found,
  m_kind m = MFile -> m_valid m = false ->
  beq (m_name m) s_content_json = false -> beq (m_name m) s_export_json = false ->
  snd (import_writes sdir idb dirs fs (ms1 ++ m :: ms2) export_found) = false.
Proof. exact invalid_member_fails. Qed.
Print Assumptions C32_invalid_member_fails.

Theorem C32_failed_import_commits_nothing : forall sdir idb dirs fs ms n,
  snd (import_final sdir idb dirs fs ms) = false ->
  glob_id_zip idb n = true ->
  path_lookup (sdir ++ [n]) (fst (import_final sdir idb dirs fs ms)) = None.
Proof. exact failed_import_commits_nothing. Qed.
Print Assumptions C32_failed_import_commits_nothing.

Theorem C32_committed_import_all_valid : forall sdir idb dirs fs ms m,
  snd (import_final sdir idb dirs fs ms) = true -> In m ms ->
  m_kind m = MFile -> beq (m_name m) s_content_json = false -> beq (m_name m) s_export_json = false ->
  m_valid m = true.
Proof. exact committed_import_all_valid. Qed.
Print Assumptions C32_committed_import_all_valid.

(* EXPORT -> IMPORT round trip, for EVERY list of snapshot files <ida>_<rest> (names without slash, pairwise distinct,
   targets free): the stream of SnapshotExport.StreamTo (content.json, the files under their base names, export.json)
   imported under another set id writes exactly the files <idb>_<rest> with exactly the exported contents, and succeeds *)
Theorem C32_export_import_roundtrip : forall sdir ida idb dirs fs files,
  forallb (fun b => negb (b =? c_under)) ida = true -> noslash ida = true -> noslash idb = true ->
  Forall (fun rc => noslash (fst rc) = true) files ->
  NoDup (map fst files) ->
  Forall (fun rc => path_lookup (fst (rt_target sdir idb rc)) fs = None /\
                    existsb (list_beq (fst (rt_target sdir idb rc))) dirs = false) files ->
  import_writes sdir idb dirs fs
    (export_members (map (fun rc => (ida ++ c_under :: fst rc, snd rc)) files)) false
  = (map (rt_target sdir idb) files, true).
Proof. exact export_import_roundtrip. Qed.
Print Assumptions C32_export_import_roundtrip.

(* ---- non-vacuity *)
Definition ex_init : pstate := Some [(0, 10); (4, 11); (8, 12)].          (* common, rev 4, another directory *)
Definition ex_entry (ok : bool) : rentry :=
  {| e_rev := 4; e_extract_ok := true; e_extracted := [(0, 20); (4, 21)]; e_digest_ok := ok |}.

(* success: common and the revision directory are replaced, the old ones are kept as backups 1 and 5 *)
Example C32_ex_success :
  wf_case (Some 4) [(ex_init, ex_entry true)] = true /\
  restore (Some 4) [(ex_init, ex_entry true)] 100 ANone = (true, [Some [(4, 21); (5, 11); (0, 20); (1, 10); (8, 12)]]).
Proof. vm_compute. split; reflexivity. Qed.

(* failure between the two renames of the second moveFile (step 11), second entry failing after the first was moved *)
Example C32_ex_fail_between_renames :
  fst (restore (Some 4) [(ex_init, ex_entry true)] 8 ANone) = false /\
  pstates_eqb (snd (restore (Some 4) [(ex_init, ex_entry true)] 8 ANone)) [ex_init] = true /\
  fst (restore (Some 4) [(ex_init, ex_entry true); (None, ex_entry false)] 100 ANone) = false /\
  pstates_eqb (snd (restore (Some 4) [(ex_init, ex_entry true); (None, ex_entry false)] 100 ANone)) [ex_init; None] = true.
Proof. vm_compute. repeat split; reflexivity. Qed.

(* import: `1_d/..` resolves to the snapshots directory itself (open fails, nothing written), `/etc_/passwd` lands inside *)
Example C32_ex_import :
  let sdir := [[115]; [115;110]] in
  import_run sdir [55] [] [{| m_name := [49;95;100;47;46;46]; m_kind := MFile; m_body := [120]; m_valid := true |}] false = ([], false) /\
  fst (import_run sdir [55] [sdir ++ [[55;95]]] [{| m_name := [47;101;116;99;95;47;112]; m_kind := MFile; m_body := [120]; m_valid := true |}] false)
    = [sdir ++ [[55;95]; [112]]].
Proof. vm_compute. split; reflexivity. Qed.

(* duplicates: second member shorter than the first -> new body then the tail of the first; Check on a wrong digest *)
Example C32_ex_duplicates_and_check :
  let sdir := [[115]] in
  fst (import_writes sdir [55] [] [] [{| m_name := [49;95;97]; m_kind := MFile; m_body := [1;2;3]; m_valid := true |};
                                      {| m_name := [50;95;97]; m_kind := MFile; m_body := [9]; m_valid := true |}] false)
    = [([[115]; [55;95;97]], [1;2;3]); ([[115]; [55;95;97]], [9;2;3])] /\
  check [] [{| z_user := None; z_present := true; z_read_ok := true; z_reported := 5; z_read := 5; z_actual := 1; z_recorded := 2 |}] = false /\
  check [[117]] [{| z_user := Some [118]; z_present := false; z_read_ok := true; z_reported := 5; z_read := 5; z_actual := 1; z_recorded := 2 |}] = true.
Proof. vm_compute. repeat split; reflexivity. Qed.

(* commit / cancel: accepted, kept-name, nested and rejected members -- after the failure 7_a.zip is gone again, 7_keep and
   7_d/n.zip are still there; and a two-file round trip from set 3 to set 7 *)
Example C32_ex_cancel_and_roundtrip :
  let sdir := [[115]] in
  let mk n b v := {| m_name := n; m_kind := MFile; m_body := b; m_valid := v |} in
  import_final sdir [55] [[[115]; [55;95;100]]] []
    [mk [49;95;97;46;122;105;112] [1] true; mk [49;95;107] [2] true; mk [49;95;100;47;110;46;122;105;112] [3] true;
     mk [49;95;66;46;122;105;112] [4] false; mk [49;95;122;46;122;105;112] [5] true]
  = ([([[115]; [55;95;100]; [110;46;122;105;112]], [3]); ([[115]; [55;95;107]], [2])], false) /\
  import_writes sdir [55] [] [] (export_members [([51;95;97], [1;2]); ([51;95;98], [3])]) false
  = ([([[115]; [55;95;97]], [1;2]); ([[115]; [55;95;98]], [3])], true).
Proof. vm_compute. split; reflexivity. Qed.
