(* C32 -- snapshot import and restore cannot escape or corrupt snap data.
   This file holds the property theorems only: statement, `exact <lemma>`, Print Assumptions.
   Model: models/Snapshot.v (overlord/snapshotstate/backend: backend.go unpackVerifySnapshotImport /
   writeOneSnapshotFile; reader.go Reader.Restore / moveFile; restorestate.go RestoreState.Revert / Cleanup). *)
From Coq Require Import List NArith Bool.
Import ListNotations.
Require Import V.lib.Bytes V.models.Snapshot V.proofs.SnapshotProofs.
Open Scope N_scope.

(* IMPORT, for EVERY stream of members (every name: `..`, absolute, nested, empty, duplicates; directories; a stream
   that breaks at any point), every snapshots directory, every set of directories already inside it: every path on
   which a file is created or written is the snapshots directory followed by at least one component, none of which is
   empty, `.` or `..` -- or the member is rejected / the open fails without side effect. The only hypothesis: the
   set id is printed without a slash (it is a decimal number). *)
Theorem C32_import_inside : forall sdir idb dirs ms export_found,
  forallb (fun b => negb (b =? c_slash)) idb = true ->
  forallb (strictly_below sdir) (fst (import_run sdir idb dirs ms export_found)) = true.
Proof. exact import_inside. Qed.
Print Assumptions C32_import_inside.

(* the computed target path for every member name that passes the `../` check *)
Theorem C32_import_target_shape : forall sdir idb rest,
  forallb (fun b => negb (b =? c_slash)) idb = true ->
  contains s_dotdotslash rest = false ->
  exists rel, import_target sdir idb rest = sdir ++ rel /\ forallb plain_comp rel = true.
Proof. exact import_target_shape. Qed.
Print Assumptions C32_import_target_shape.

(* RESTORE, for EVERY list of entries (any trees extracted by tar, any pre-existing content of the data directories,
   missing parent directories, any current revision) and EVERY failure point f (each fallible step of every entry,
   including the step between the two renames of moveFile, extraction failure, size/digest mismatch): if Restore fails
   (it then reverts itself) -- or succeeds and is reverted later -- every data directory is exactly as before. *)
Theorem C32_restore_failure_identity : forall cur es f a,
  wf_case cur es = true ->
  fst (restore cur es f a) = false \/ a = ARevert ->
  all_peq (snd (restore cur es f a)) (map fst es).
Proof. exact restore_failure_identity. Qed.
Print Assumptions C32_restore_failure_identity.

(* a size / digest mismatch or a failing extraction is detected before anything in the data directory is moved *)
Theorem C32_mismatch_detected_before_move : forall cur st e f st' lg ok f',
  e_extract_ok e = false \/ e_digest_ok e = false ->
  restore_one cur st e f = (st', lg, ok, f') ->
  ok = false /\ l_created lg = [] /\ l_moved lg = [] /\ (st' = st \/ (st = None /\ st' = Some [])).
Proof. exact mismatch_detected_before_move. Qed.
Print Assumptions C32_mismatch_detected_before_move.

(* PARTIAL. Not proved: C32_restore_success (on success every data directory holds exactly the extracted `common` and
   revision trees, everything else untouched, backups gone after Cleanup). That statement is the executable predicate
   Snapshot.success_all, which the check evaluates on the implementation's observed directories in every run
   (monitor), i.e. it is tested, not proved. *)

(* ---- non-vacuity *)
Definition ex_init : pstate := Some [(0, 10); (4, 11); (8, 12)].          (* common, rev 4, another directory *)
Definition ex_entry (ok : bool) : rentry :=
  {| e_rev := 4; e_extract_ok := true; e_extracted := [(0, 20); (4, 21)]; e_digest_ok := ok |}.

(* success: common and the revision directory are replaced, the old ones are kept as backups 1 and 5 *)
Example C32_ex_success :
  wf_case (Some 4) [(ex_init, ex_entry true)] = true /\
  restore (Some 4) [(ex_init, ex_entry true)] 100 ANone = (true, [Some [(4, 21); (5, 11); (0, 20); (1, 10); (8, 12)]]).
Proof. vm_compute. split; reflexivity. Qed.

(* failure between the two renames of the second moveFile (step 11), second entry failing after the first was moved *)
Example C32_ex_fail_between_renames :
  fst (restore (Some 4) [(ex_init, ex_entry true)] 8 ANone) = false /\
  pstates_eqb (snd (restore (Some 4) [(ex_init, ex_entry true)] 8 ANone)) [ex_init] = true /\
  fst (restore (Some 4) [(ex_init, ex_entry true); (None, ex_entry false)] 100 ANone) = false /\
  pstates_eqb (snd (restore (Some 4) [(ex_init, ex_entry true); (None, ex_entry false)] 100 ANone)) [ex_init; None] = true.
Proof. vm_compute. repeat split; reflexivity. Qed.

(* import: `1_d/..` resolves to the snapshots directory itself (open fails, nothing written), `/etc_/passwd` lands inside *)
Example C32_ex_import :
  let sdir := [[115]; [115;110]] in
  import_run sdir [55] [] [{| m_name := [49;95;100;47;46;46]; m_kind := MFile |}] false = ([], false) /\
  fst (import_run sdir [55] [sdir ++ [[55;95]]] [{| m_name := [47;101;116;99;95;47;112]; m_kind := MFile |}] false)
    = [sdir ++ [[55;95]; [112]]].
Proof. vm_compute. split; reflexivity. Qed.
