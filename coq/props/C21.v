(* C21 — placeholder while building *)
From Coq Require Import List NArith ZArith Bool.
Import ListNotations.
Require Import V.lib.Bytes V.models.Policy.
Theorem C21_tmp : True. Proof. exact I. Qed.
Print Assumptions C21_tmp.
