(* C21 — interface connection decisions follow the declared policy rules.
   This file holds the property theorems only: statement, `exact <lemma>`, Print Assumptions.
   Model: models/Policy.v (interfaces/policy/policy.go, helpers.go, asserts/ifacedecls.go, asserts/constraint.go).
   Scope of the model: name/attribute regexps are literals; the leaf classification of attribute constraints
   ($MISSING, $SLOT(), $PLUG(), $*_PUBLISHER_ID) is done by the driver. The theorems below quantify over ALL rule
   sets, declarations and candidates of the model and do not depend on how a single alternative matches. *)
From Coq Require Import List NArith ZArith Bool String.
Import ListNotations.
Require Import V.lib.Bytes V.models.Policy V.proofs.PolicyProofs.
Open Scope N_scope.

(* The most specific applicable rule decides: plug snap-declaration, then slot snap-declaration, then the
   base-declaration plug rule, then its slot rule; with no rule at any level the connection is allowed. *)
Theorem C21_first_rule_levels : forall ds iface,
  (forall r, level1 ds iface = Some r -> first_rule ds iface = Some (true, r)) /\
  (forall r, level1 ds iface = None -> level2 ds iface = Some r -> first_rule ds iface = Some (false, r)) /\
  (forall r, level1 ds iface = None -> level2 ds iface = None -> level3 ds iface = Some r ->
             first_rule ds iface = Some (true, r)) /\
  (forall r, level1 ds iface = None -> level2 ds iface = None -> level3 ds iface = None -> level4 ds iface = Some r ->
             first_rule ds iface = Some (false, r)) /\
  (level1 ds iface = None -> level2 ds iface = None -> level3 ds iface = None -> level4 ds iface = None ->
   first_rule ds iface = None).
Proof. exact first_rule_levels. Qed.
Print Assumptions C21_first_rule_levels.

(* ... and everything else in the declarations is ignored: two sets of declarations with the same snap/publisher ids
   and the same first rule for the plug's interface give the same verdict (connection and auto-connection) *)
Theorem C21_precedence : forall auto c ds',
  same_ids (k_decls c) ds' ->
  first_rule ds' (f_iface (k_plug c)) = first_rule (k_decls c) (f_iface (k_plug c)) ->
  check_connect auto (with_decls c ds') = check_connect auto c.
Proof. exact precedence. Qed.
Print Assumptions C21_precedence.

(* the same as a statement about editing declarations: replace or remove the rules of every level below the deciding
   one (this is the variant the driver runs on the real code for every case) *)
Theorem C21_lower_levels_ignored : forall auto c low,
  check_connect auto (conn_low_variant c low) = check_connect auto c.
Proof. exact lower_levels_ignored. Qed.
Print Assumptions C21_lower_levels_ignored.

(* For every candidate whose declarations compile: the connection is allowed exactly when the interfaces agree and
   either no level has a rule, or in the deciding rule NO deny alternative matches and SOME allow alternative matches
   (deny wins over allow; an allow match is needed); and the evaluation never dereferences a missing alternative. *)
Theorem C21_connect_spec : forall auto c, decls_valid (k_decls c) = true ->
  is_allow (check_connect auto c) = spec_connect_allowed auto c /\ check_connect auto c <> VPanic.
Proof. exact connect_spec_valid. Qed.
Print Assumptions C21_connect_spec.

(* deny wins, stated on the rule evaluation itself, for arbitrary lists and an arbitrary matching predicate *)
Theorem C21_deny_wins : forall (f : alt -> bool) auto deny allow,
  existsb f deny = true -> eval_conn f auto deny allow = VRefuse.
Proof. exact eval_conn_deny_wins. Qed.
Print Assumptions C21_deny_wins.

(* an allowed connection has a matching allow alternative (the first one fixes slots-per-plug) and no matching deny *)
Theorem C21_allow_needed : forall (f : alt -> bool) auto deny allow any,
  eval_conn f auto deny allow = VAllow any ->
  deny <> [] /\ existsb f deny = false /\
  exists a, In a allow /\ f a = true /\ find f allow = Some a /\ any = arity_any auto a.
Proof. exact eval_conn_allowed_inv. Qed.
Print Assumptions C21_allow_needed.

(* rule compilation supplies a default alternative for every missing subrule: all six lists are non-empty *)
Theorem C21_compiled_nonempty : forall r, rule_valid r = true -> nonempty6 (compile_rule r).
Proof. exact compile_nonempty. Qed.
Print Assumptions C21_compiled_nonempty.

(* Monotonicity, on lists: inserting a deny alternative anywhere never turns Refused into Allowed, provided the deny
   list was not empty ... *)
Theorem C21_deny_monotone_lists : forall (f : alt -> bool) auto deny1 deny2 allow d, deny1 ++ deny2 <> [] ->
  is_allow (eval_conn f auto (deny1 ++ d :: deny2) allow) = true ->
  is_allow (eval_conn f auto (deny1 ++ deny2) allow) = true.
Proof. exact deny_monotone_lists. Qed.
Print Assumptions C21_deny_monotone_lists.

(* ... and the guard is needed: an EMPTY deny list refuses everything (the Go loop over no alternatives returns no
   error, which checkPlugRule/checkSlotRule read as `denied`), so adding a non-matching alternative allows. Compiled
   rules never have an empty list (C21_compiled_nonempty; the driver asserts it on every real compiled rule). *)
Theorem C21_empty_deny_refuted : exists (f : alt -> bool) auto deny allow d,
  is_allow (eval_conn f auto (deny ++ [d]) allow) = true /\ is_allow (eval_conn f auto deny allow) = false.
Proof. exact empty_deny_refuted. Qed.
Print Assumptions C21_empty_deny_refuted.

(* Monotonicity, on declarations (the full statement, no guard left): take any candidate whose declarations compile and
   add a deny alternative (xp to plug rules, xs to slot rules) to the deny-connection / deny-auto-connection subrule of
   EVERY rule of EVERY declaration; if the connection is allowed afterwards it was allowed before. *)
Theorem C21_deny_monotone : forall auto c xp xs, decls_valid (k_decls c) = true ->
  is_allow (check_connect auto (conn_deny_variant auto c xp xs)) = true -> is_allow (check_connect auto c) = true.
Proof. exact deny_monotone. Qed.
Print Assumptions C21_deny_monotone.

(* Installation: same deny-over-allow semantics, for every slot and every plug of the snap *)
Theorem C21_install_spec : forall i, inst_valid i = true -> check_install i = spec_install_allowed i.
Proof. exact install_spec_valid. Qed.
Print Assumptions C21_install_spec.

Theorem C21_install_deny_wins : forall (f : alt -> bool) deny allow, existsb f deny = true -> eval_inst f deny allow = false.
Proof. exact eval_inst_deny_wins. Qed.
Print Assumptions C21_install_deny_wins.

(* a snap-declaration rule shadows the base-declaration rule for the same interface: changing shadowed base rules
   changes nothing *)
Theorem C21_install_precedence : forall i b',
  (forall iface, match i_decl i with Some d => slot_rule d iface | None => None end = None ->
                 slot_rule b' iface = slot_rule (i_base i) iface) ->
  (forall iface, match i_decl i with Some d => plug_rule d iface | None => None end = None ->
                 plug_rule b' iface = plug_rule (i_base i) iface) ->
  check_install (inst_with i (i_decl i) b') = check_install i.
Proof. exact install_precedence. Qed.
Print Assumptions C21_install_precedence.

Theorem C21_install_deny_monotone_lists : forall (f : alt -> bool) deny1 deny2 allow d, deny1 ++ deny2 <> [] ->
  eval_inst f (deny1 ++ d :: deny2) allow = true -> eval_inst f (deny1 ++ deny2) allow = true.
Proof. exact inst_deny_monotone_lists. Qed.
Print Assumptions C21_install_deny_monotone_lists.

Theorem C21_install_empty_deny_refuted : exists (f : alt -> bool) deny allow d,
  eval_inst f (deny ++ [d]) allow = true /\ eval_inst f deny allow = false.
Proof. exact inst_empty_deny_refuted. Qed.
Print Assumptions C21_install_empty_deny_refuted.

Theorem C21_install_deny_monotone : forall i xp xs, inst_valid i = true ->
  check_install (inst_deny_variant i xp xs) = true -> check_install i = true.
Proof. exact install_deny_monotone. Qed.
Print Assumptions C21_install_deny_monotone.

(* What `an alternative matches` means in C21_connect_spec: the conjunction of ALL its atomic constraints - names,
   attributes, snap types, snap ids, publisher ids (with $PLUG_PUBLISHER_ID / $SLOT_PUBLISHER_ID), on-classic,
   on-core-desktop and the device scope (on-store / on-brand / on-model) *)
Theorem C21_plug_alternative_atoms : forall c a, check_plug_conn1 c a = true <->
  check_names (a_plug_names a) (f_iface (k_plug c)) (f_name (k_plug c)) = true /\
  check_names (a_slot_names a) (f_iface (k_slot c)) (f_name (k_slot c)) = true /\
  attrs_check (Some (conn_ctx c)) (a_plug_attrs a) (side_attrs (k_plug c)) = true /\
  attrs_check (Some (conn_ctx c)) (a_slot_attrs a) (side_attrs (k_slot c)) = true /\
  check_snap_type (f_type (k_slot c)) (a_slot_snap_types a) = true /\
  check_id (od_snap_id (slot_decl (k_decls c))) (a_slot_snap_ids a) no_special = true /\
  check_id (od_pub_id (slot_decl (k_decls c))) (a_slot_pub_ids a)
           (one_special (bs "$PLUG_PUBLISHER_ID") (od_pub_id (plug_decl (k_decls c)))) = true /\
  check_on_classic (k_env c) (a_on_classic a) = true /\
  check_on_core_desktop (k_env c) (a_on_core_desktop a) = true /\
  check_device_scope (k_env c) (a_device a) = true.
Proof. exact plug_conn1_atoms. Qed.
Print Assumptions C21_plug_alternative_atoms.

Theorem C21_slot_alternative_atoms : forall c a, check_slot_conn1 c a = true <->
  check_names (a_plug_names a) (f_iface (k_plug c)) (f_name (k_plug c)) = true /\
  check_names (a_slot_names a) (f_iface (k_slot c)) (f_name (k_slot c)) = true /\
  attrs_check (Some (conn_ctx c)) (a_plug_attrs a) (side_attrs (k_plug c)) = true /\
  attrs_check (Some (conn_ctx c)) (a_slot_attrs a) (side_attrs (k_slot c)) = true /\
  check_snap_type (f_type (k_slot c)) (a_slot_snap_types a) = true /\
  check_snap_type (f_type (k_plug c)) (a_plug_snap_types a) = true /\
  check_id (od_snap_id (plug_decl (k_decls c))) (a_plug_snap_ids a) no_special = true /\
  check_id (od_pub_id (plug_decl (k_decls c))) (a_plug_pub_ids a)
           (one_special (bs "$SLOT_PUBLISHER_ID") (od_pub_id (slot_decl (k_decls c)))) = true /\
  check_on_classic (k_env c) (a_on_classic a) = true /\
  check_on_core_desktop (k_env c) (a_on_core_desktop a) = true /\
  check_device_scope (k_env c) (a_device a) = true.
Proof. exact slot_conn1_atoms. Qed.
Print Assumptions C21_slot_alternative_atoms.

(* the on-core-desktop atom: `on-core-desktop: b` holds exactly when b is the system's core-desktop flag (classic: false,
   core: false, core desktop: true); being on classic makes no constraint hold; the monitor's own statement agrees *)
Theorem C21_on_core_desktop_atom : forall e b, check_on_core_desktop e (Some b) = Bool.eqb b (e_core_desktop e).
Proof. exact on_core_desktop_atom. Qed.
Print Assumptions C21_on_core_desktop_atom.

Theorem C21_on_core_desktop_classic_irrelevant : forall cl cl' os os' cd m st c,
  check_on_core_desktop (mkEnv cl os cd m st) c = check_on_core_desktop (mkEnv cl' os' cd m st) c.
Proof. exact on_core_desktop_classic_irrelevant. Qed.
Print Assumptions C21_on_core_desktop_classic_irrelevant.

Theorem C21_core_desktop_ref_agrees : forall e c, core_desktop_ref e c = check_on_core_desktop e c.
Proof. exact core_desktop_ref_eq. Qed.
Print Assumptions C21_core_desktop_ref_agrees.

(* A *-snap-id / *-publisher-id list is an ALTERNATION: the constraint holds exactly when the list is empty, or the id is
   set and equals what SOME entry stands for - a $NAME stands for the value it resolves to, and an entry that cannot be
   resolved (no declaration on the other side, unknown name) matches nothing but does not stop the search: entries after
   it are still alternatives. Order and position of the entries do not matter. (The monitor uses its own matcher,
   check_id_ref, a plain recursion over the list; compared with check_id on every case, equality not proved.) *)
Theorem C21_id_list_is_alternation : forall id ids special, check_id id ids special = true <->
  ids = [] \/ (id <> [] /\ exists cand, In cand ids /\ resolve special cand <> [] /\ id = resolve special cand).
Proof. exact check_id_alternation. Qed.
Print Assumptions C21_id_list_is_alternation.

Theorem C21_id_list_order_irrelevant : forall id ids ids' special,
  ids <> [] -> ids' <> [] -> (forall c, In c ids <-> In c ids') -> check_id id ids special = check_id id ids' special.
Proof. exact check_id_order_irrelevant. Qed.
Print Assumptions C21_id_list_order_irrelevant.

Theorem C21_id_unresolvable_skipped : forall id l1 c l2 special, resolve special c = [] -> l1 ++ l2 <> [] ->
  check_id id (l1 ++ c :: l2) special = check_id id (l1 ++ l2) special.
Proof. exact check_id_unresolvable_skipped. Qed.
Print Assumptions C21_id_unresolvable_skipped.

Example C21_ex_id_list :
  let sp := one_special (bs "$SLOT_PUBLISHER_ID") [] in   (* the slot snap has no declaration *)
  check_id (bs "canonical") [bs "$SLOT_PUBLISHER_ID"; bs "canonical"] sp = true /\
  check_id (bs "canonical") [bs "pub-two"; bs "$SLOT_PUBLISHER_ID"; bs "canonical"] sp = true /\
  check_id (bs "pub-one") [bs "$SLOT_PUBLISHER_ID"; bs "canonical"] sp = false /\
  check_id_ref (bs "canonical") [bs "$SLOT_PUBLISHER_ID"; bs "canonical"] sp = true.
Proof. repeat split. Qed.

(* A plug-names / slot-names regexp (restricted to a top-level alternation of literals, not starting with `$`) matches
   exactly when the WHOLE name equals one of the alternatives: `led|buzzer` matches neither `led-admin` nor `xbuzzer`. The
   same function decides literal attribute-value regexps. (The monitor uses a second, independently written matcher,
   name_match_ref; the two are compared on every case by the run, their equality is not proved.) *)
Theorem C21_name_whole_match : forall iface name c entry, c <> 36%N ->
  name_match iface name (c :: entry) = true <-> In name (split_bar (c :: entry)).
Proof. exact name_match_whole. Qed.
Print Assumptions C21_name_whole_match.

Example C21_ex_alternation :
  name_match (bs "ia") (bs "led") (bs "led|buzzer") = true /\ name_match (bs "ia") (bs "buzzer") (bs "led|buzzer") = true /\
  name_match (bs "ia") (bs "led-admin") (bs "led|buzzer") = false /\ name_match (bs "ia") (bs "xbuzzer") (bs "led|buzzer") = false /\
  name_match_ref (bs "ia") (bs "led-admin") (bs "led|buzzer") = false /\ name_match_ref (bs "ia") (bs "buzzer") (bs "led|buzzer") = true.
Proof. repeat split. Qed.

(* ------------------------------------------------------------------ non-vacuity *)
Definition ex_env := mkEnv true (bs "ubuntu") false None None.
Definition ex_plug := mkSide (bs "n1") (bs "ia") (bs "app") [(bs "k1", VStr (bs "x"))] [].
Definition ex_slot := mkSide (bs "n2") (bs "ia") (bs "os") [(bs "k1", VStr (bs "x"))] [].
Definition on_classic_alt (b : bool) := mkAlt None None None None [] [] [] [] [] [] None (Some (b, [])) None None.
Definition attr_alt := mkAlt None None None (Some (MMap [(bs "k1", MEval false (bs "k1"))])) [] [] [] [] [] [] None None None None.
(* base plug rule: allow when the slot's k1 equals the plug's k1; deny on core systems *)
Definition ex_rule := RMap (mkRuleMap None None (Some (SOne attr_alt)) (Some (SOne (on_classic_alt false))) None None).
Definition ex_decls := mkDecls (Some (mkDecl (bs "id1") (bs "pub-one") [] [])) None
                               (mkDecl [] [] [(bs "ia", ex_rule)] [(bs "ia", RShort false)]).
Definition ex_conn := mkConn ex_env ex_plug ex_slot ex_decls.

(* the hypotheses of C21_connect_spec / C21_deny_monotone are met by a candidate that is allowed by an attribute
   match at level 3 while level 4 would refuse ... *)
Example C21_ex_valid : decls_valid (k_decls ex_conn) = true. Proof. reflexivity. Qed.
Example C21_ex_allowed : check_connect false ex_conn = VAllow true. Proof. vm_compute. reflexivity. Qed.
Example C21_ex_level : level1 ex_decls (bs "ia") = None /\ level2 ex_decls (bs "ia") = None /\
                       exists r, level3 ex_decls (bs "ia") = Some r /\ exists r', level4 ex_decls (bs "ia") = Some r'.
Proof. repeat split. eexists; split; [reflexivity|]. eexists. reflexivity. Qed.
(* ... and an added matching deny alternative turns it into a refusal (so the monotone direction is not trivial) *)
Example C21_ex_deny_added : check_connect false (conn_deny_variant false ex_conn (on_classic_alt true) alt_empty) = VRefuse.
Proof. vm_compute. reflexivity. Qed.
(* installation *)
Definition ex_inst := mkInst ex_env (bs "app") [] [ex_plug] None
  (mkDecl [] [] [(bs "ia", RMap (mkRuleMap (Some (SOne (on_classic_alt true))) None None None None None))] []).
Example C21_ex_inst : inst_valid ex_inst = true /\ check_install ex_inst = true /\
                      check_install (inst_deny_variant ex_inst (on_classic_alt true) alt_empty) = false.
Proof. repeat split. Qed.
