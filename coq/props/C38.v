(* C38 — accepted gadget volumes lay out into disjoint structures.
   This file holds the property theorems only: statement, `exact <lemma>`, Print Assumptions.
   Model: models/Gadget.v (gadget/gadget.go, gadget/ondisk.go, gadget/layout.go, gadget/quantity function by function).

   Full statement of the property: for EVERY volume definition that InfoFromGadgetYaml accepts, the layout places the
   structures in increasing order, no two overlapping, every laid-out content inside its structure.
   It is FALSE of the faithful model and of the real code when one of the uint64 sums of the implementation wraps
   (C38_wrap_refuted, reachable from gadget.yaml text: finding, KNOWN_FINDINGS key offset-sum-wraps-uint64).
   It is proved for every volume definition whose laid-out structures all end below 2^64 (hypothesis `Forall fits`). *)
From Coq Require Import List NArith ZArith Bool Sorting.Sorted.
Import ListNotations.
Require Import V.models.Gadget V.proofs.GadgetProofs.
Open Scope N_scope.

(* every ordered structure list that validateCrossVolumeStructure accepts: OnDiskStructsFromGadget yields a list in which
   every structure ends at or before the start of every later one (so starts increase and no two structures overlap),
   provided no laid-out structure ends at or beyond 2^64. By induction on the structure list; any number of structures,
   any sizes, explicit and floating offsets. *)
Theorem C38_disjoint_increasing : forall l : list structure,
  validate_cross l = true -> Forall fits (on_disk l) -> StronglySorted before (on_disk l).
Proof. exact validate_cross_disjoint. Qed.
Print Assumptions C38_disjoint_increasing.

(* the same from the gadget.yaml text: quantity parsing, implicit offsets and min-sizes, reordering by offset, validation *)
Theorem C38_accepted_disjoint : forall (v : raw_volume) (l : list structure),
  accept v = Some l -> Forall fits (on_disk l) ->
  StronglySorted before (on_disk l) /\ StronglySorted (fun a b => fst a <= fst b) (on_disk l).
Proof. exact accepted_disjoint_increasing. Qed.
Print Assumptions C38_accepted_disjoint.

(* ... and for ANY actual sizes up to the declared ones (a disk may hold a min-size..size structure at any size in between,
   structures without an offset of their own then start at the actual end of their predecessor): still no overlap.
   So validating with the full sizes, as validateCrossVolumeStructure does, covers every admissible disk *)
Theorem C38_accepted_disjoint_any_sizes : forall (v : raw_volume) (l : list structure) (zs : list N),
  accept v = Some l -> Forall fits (on_disk l) -> Forall2 (fun s z => z <= s_size s) l zs ->
  StronglySorted before (on_disk_sized l zs).
Proof. exact accepted_disjoint_any_sizes. Qed.
Print Assumptions C38_accepted_disjoint_any_sizes.

(* ... and they stay inside the volume: every structure ends at or before the end of the last one, which is below 2^64 *)
Theorem C38_inside_volume : forall (v : raw_volume) (l : list structure),
  accept v = Some l -> Forall fits (on_disk l) ->
  Forall (fun p => fst p + snd p <= layout_end (on_disk l)) (on_disk l) /\ (on_disk l <> [] -> layout_end (on_disk l) < W).
Proof. exact accepted_inside_volume'. Qed.
Print Assumptions C38_inside_volume.

(* offset-write: in an accepted volume every 4-byte offset-write pointer lies inside the min-size of the first structure, which
   then is at offset 0 (form `name+off`, name = the first structure), or inside the minimal volume size (absolute form) *)
Theorem C38_offset_write_inside : forall (v : raw_volume) (l : list structure) (first : structure) (r : list structure),
  accept v = Some l -> l = first :: r -> Forall (ow_inside first (vol_min_size l)) l.
Proof. exact accepted_offset_write_inside. Qed.
Print Assumptions C38_offset_write_inside.

(* the entries of the layout are the structures: same sizes, declared offsets respected, the MBR at 0 *)
Theorem C38_layout_is_of_the_structures : forall (v : raw_volume) (l : list structure),
  accept v = Some l ->
  map snd (on_disk l) = map s_size l /\
  Forall2 (fun s p => forall o, s_offset s = Some o -> fst p = o) l (on_disk l) /\
  Forall2 (fun s p => s_mbr s = true -> fst p = 0) l (on_disk l).
Proof. exact layout_is_of_the_structures. Qed.
Print Assumptions C38_layout_is_of_the_structures.

(* content: whenever layOutStructureContent succeeds for a structure that ends below 2^64 and whose quantities are below
   2^63, every laid-out image lies inside the structure and the images are in increasing order without overlap *)
Theorem C38_content_inside : forall (st : N) (s : structure) (cs : list (N * N)),
  layout_content st s = Some cs -> st + s_size s < W -> small_struct s ->
  Forall (within st (s_size s)) cs /\ StronglySorted before cs.
Proof. exact layout_content_inside. Qed.
Print Assumptions C38_content_inside.

(* ... and the quantities are always below 2^63 when they come from gadget.yaml (image sizes are file sizes, int64):
   the content statement for a whole accepted volume *)
Theorem C38_accepted_content_inside : forall (v : raw_volume) (l : list structure) (lay : list (list (N * N))),
  Forall raw_images_small (rv_structs v) -> accept v = Some l -> Forall fits (on_disk l) ->
  layout_all l (on_disk l) = Some lay ->
  Forall2 (fun p cs => Forall (within (fst p) (snd p)) cs /\ StronglySorted before cs) (on_disk l) lay.
Proof. exact accepted_content_inside. Qed.
Print Assumptions C38_accepted_content_inside.

(* the size / offset parser: whatever it accepts is below 2^63; it is exact on quantities that denote a number in
   [0, 2^63) and refuses those in [-2^63, 0) *)
Theorem C38_quantity_parser : forall q : qty,
  (forall n, parse_qty q = Some n -> n < two63) /\
  ((0 <= qty_value q < 9223372036854775808)%Z -> parse_qty q = Some (Z.to_N (qty_value q))) /\
  ((- 9223372036854775808 <= qty_value q < 0)%Z -> parse_qty q = None).
Proof. exact quantity_parser. Qed.
Print Assumptions C38_quantity_parser.

(* the unguarded statement is false: a gadget.yaml volume of three structures, every quantity accepted by the parser,
   is accepted by validation and laid out with the third structure strictly inside the first (the running end
   2*(2^63-2^30) + 4G wraps to 2^31). Confirmed on the real code on every run (driver witness 0). *)
Theorem C38_wrap_refuted : exists (v : raw_volume) (l : list structure),
  accept v = Some l /\ disjoint_incr (on_disk l) = false /\
  exists a b, In a (on_disk l) /\ In b (on_disk l) /\ fst a < fst b /\ fst b + snd b < fst a + snd a.
Proof. exact wrap_refuted. Qed.
Print Assumptions C38_wrap_refuted.

(* the mechanism behind it: number * unit is an int64 product without overflow check. 17179869185G is read as 1G,
   17179869184G (= 2^64) as 0, -17179869183G as 1G. Outside [-2^63, 2^63) the parser is not exact. *)
Theorem C38_parse_wrap_refuted : exists q : qty, exists n : N,
  (0 <= q_num q)%Z /\ parse_qty q = Some n /\ Z.of_N n <> qty_value q.
Proof. exact parse_wrap_refuted. Qed.
Print Assumptions C38_parse_wrap_refuted.

(* non-vacuity: an ordinary volume (mbr, a floating structure after a min-size one, content) is accepted, fits and is laid out *)
Example C38_nonvacuous :
  let v := RV false [ RS None (Some (Q 440 UB)) None true false None [RC None None (Some 440)];
                      RS (Some (Q 1 UM)) (Some (Q 2 UM)) (Some (Q 1 UM)) false true None [];
                      RS None (Some (Q 1 UG)) None false true None [];
                      RS (Some (Q 2 UG)) (Some (Q 8 UM)) None false false (Some (Some 0, Q 92 UB))
                         [RC None (Some (Q 512 UB)) (Some 300); RC (Some (Q 1 UM)) None (Some 4096)] ] in
  exists l lay, accept v = Some l /\ Forall fits (on_disk l) /\ layout_all l (on_disk l) = Some lay /\
                on_disk l = [(0, 440); (1048576, 2097152); (3145728, 1073741824); (2147483648, 8388608)] /\
                lay = [[(0, 440)]; []; []; [(2147483648, 512); (2148532224, 4096)]].
Proof.
  eexists. eexists. split; [vm_compute; reflexivity|]. split; [|split; [vm_compute; reflexivity|split; reflexivity]].
  repeat constructor.
Qed.

(* non-vacuity of the any-sizes theorem: the floating structure s2 (min 1M, size 2M) and its predecessor at their minimal sizes *)
Example C38_any_sizes_nonvacuous :
  let v := RV false [ RS (Some (Q 1 UM)) (Some (Q 2 UM)) (Some (Q 1 UM)) false true None [];
                      RS None (Some (Q 2 UM)) (Some (Q 1 UM)) false true None [];
                      RS (Some (Q 5 UM)) (Some (Q 1 UM)) None false true None [] ] in
  exists l, accept v = Some l /\ Forall fits (on_disk l) /\
            Forall2 (fun s z => z <= s_size s) l [1048576; 1048576; 1048576] /\
            on_disk l = [(1048576, 2097152); (3145728, 2097152); (5242880, 1048576)] /\
            on_disk_sized l [1048576; 1048576; 1048576] = [(1048576, 1048576); (2097152, 1048576); (5242880, 1048576)].
Proof.
  eexists. split; [vm_compute; reflexivity|]. split; [repeat constructor|].
  split; [repeat constructor; vm_compute; discriminate|]. split; reflexivity.
Qed.

(* non-vacuity of the offset-write theorem: relative and absolute forms accepted, one byte too far refused *)
Example C38_offset_write_nonvacuous :
  let mk ow := RV false [ RS None (Some (Q 440 UB)) None true false None [];
                          RS (Some (Q 1 UM)) (Some (Q 1 UM)) None false true ow [] ] in
  (exists l, accept (mk (Some (Some 0, Q 436 UB))) = Some l) /\ accept (mk (Some (Some 0, Q 437 UB))) = None /\
  (exists l, accept (mk (Some (None, Q 2097148 UB))) = Some l) /\ accept (mk (Some (None, Q 2097149 UB))) = None /\
  accept (mk (Some (Some 1, Q 0 UB))) = None.
Proof.
  split; [eexists; vm_compute; reflexivity|]. split; [vm_compute; reflexivity|].
  split; [eexists; vm_compute; reflexivity|]. split; vm_compute; reflexivity.
Qed.
