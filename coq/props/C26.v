(* C26 -- REST API requests are served only to callers the endpoint's access level allows.
   This file holds the property theorems only: statement, `exact <lemma>`, Print Assumptions.
   Model: models/Access.v (daemon/ucrednet.go, daemon/access.go, Command.ServeHTTP of daemon/daemon.go, function by
   function); endpoint table: gen/Endpoints.v, regenerated from the Command literals of daemon/api*.go on every run;
   specification: proofs/AccessProofs.v (peer, connected, authenticated, level_ok, allowed -- written over the raw
   RemoteAddr string and the request context, without the model's parser or checkers). *)
From Coq Require Import List NArith ZArith Bool String.
Import ListNotations.
Require Import V.lib.Bytes V.lib.Dec V.gen.Endpoints V.models.Access V.proofs.AccessProofs.
Open Scope N_scope.

(* for EVERY endpoint record, verb and request context: the handler runs only if the verb is registered, the request
   carries peer credentials that satisfy the level declared for the verb, and the daemon is not degraded unless GET *)
Theorem C26_served_implies_declared : forall (e : endpoint) (m : meth) (x : ctx),
  fst (serve e m x) = Handler ->
  registered e m = true /\ allowed (declared e m) x /\ (x_degraded x = true -> m = GET).
Proof. exact served_implies_declared. Qed.
Print Assumptions C26_served_implies_declared.

(* ... and conversely: the decision is EXACTLY the declared level (for every endpoint record, verb and context) *)
Theorem C26_decision_is_declared_level : forall (e : endpoint) (m : meth) (x : ctx),
  fst (serve e m x) = Handler <->
  (registered e m = true /\ allowed (declared e m) x /\ (x_degraded x = true -> m = GET)).
Proof. exact decision_is_declared_level. Qed.
Print Assumptions C26_decision_is_declared_level.

(* for every endpoint of the ACTUAL table (daemon/api.go as it is now), every verb and every context: the handler runs
   only if the request carries peer credentials satisfying the level the pinned policy demands for that path and verb
   (root-only: uid 0 on snapd.socket; authenticated: snapd.socket and root / logged-in user / polkit yes for the
   action; open: snapd.socket; snapctl: snapd-snap.socket; interface-gated: snapd.socket, or snapd-snap.socket with an
   active connection of a listed interface plugged by the calling snap). Re-checked against the regenerated table. *)
Theorem C26_served_implies_allowed : forall e : endpoint, In e api -> forall (m : meth) (x : ctx),
  fst (serve e m x) = Handler ->
  exists p : access, policy_for (ep_path e) m = Some p /\ allowed p x.
Proof. exact served_implies_policy. Qed.
Print Assumptions C26_served_implies_allowed.

(* table obligation: every registered verb of every endpoint has a checker, a policy entry, and a declared level at
   least as strict as the policy (computed on the generated table) *)
Theorem C26_table_meets_policy : table_ok api = true.
Proof. exact table_ok_api. Qed.
Print Assumptions C26_table_meets_policy.

(* ... so CheckAccess is never called on a nil checker *)
Theorem C26_table_no_nil_checker : forall e : endpoint, In e api -> forall (m : meth) (x : ctx),
  fst (serve e m x) <> NilChecker.
Proof. exact table_no_nil_checker. Qed.
Print Assumptions C26_table_no_nil_checker.

(* the order used for `at least as strict` is sound for the specification *)
Theorem C26_stricter_is_sound : forall (a p : access) (x : ctx) (u : ucred),
  acc_le a p = true -> level_ok a x u -> level_ok p x u.
Proof. exact acc_le_sound. Qed.
Print Assumptions C26_stricter_is_sound.

(* missing or unparsable peer credentials never reach a handler -- any endpoint, any verb, any context whose RemoteAddr
   is not a credential string of a real peer (pid in 1..2^31-1, uid other than 2^32-1) *)
Theorem C26_no_creds_never : forall (e : endpoint) (m : meth) (x : ctx),
  (forall u : ucred, ~ peer x u) -> fst (serve e m x) <> Handler.
Proof. exact no_creds_never. Qed.
Print Assumptions C26_no_creds_never.

(* requests arriving on the snap socket are served only by snapAccess endpoints, or by interface-gated ones when the
   calling snap has an active connection of a listed interface *)
Theorem C26_snap_socket_only_gated : forall (e : endpoint) (m : meth) (x : ctx) (u : ucred),
  fst (serve e m x) = Handler -> peer x u -> u_socket u = snap_socket ->
  declared e m = ASnap \/
  exists names, (declared e m = AIfaceOpen names \/ exists k, declared e m = AIfaceAuth names k /\ authenticated x u k)
                /\ connected x names.
Proof. exact snap_socket_only_gated. Qed.
Print Assumptions C26_snap_socket_only_gated.

(* ... spelled out: the PLUG side of an active connection of a listed interface is EXACTLY the calling instance name
   (the bytes cgroupSnapNameFromPid returned). Another instance of the same snap (some-snap vs some-snap_dev), a
   connection in which the caller is only the slot side, an undesired or hotplug-gone connection, or an interface whose
   name merely resembles a listed one does not open the endpoint. *)
Theorem C26_snap_socket_exact_instance : forall (e : endpoint) (m : meth) (x : ctx) (u : ucred) (sn : bytes),
  fst (serve e m x) = Handler -> peer x u -> u_socket u = snap_socket -> declared e m <> ASnap ->
  x_snap_of_pid x = Some sn ->
  exists names c,
    (declared e m = AIfaceOpen names \/ exists k, declared e m = AIfaceAuth names k) /\
    In c (x_conns x) /\ c_plug_snap c = sn /\ In (c_iface c) names /\
    c_undesired c = false /\ c_hotplug_gone c = false.
Proof. exact snap_socket_exact_instance. Qed.
Print Assumptions C26_snap_socket_exact_instance.

Theorem C26_snap_socket_needs_snap_name : forall (e : endpoint) (m : meth) (x : ctx) (u : ucred),
  fst (serve e m x) = Handler -> peer x u -> u_socket u = snap_socket -> declared e m <> ASnap ->
  x_snap_of_pid x <> None.
Proof. exact snap_socket_needs_snap_name. Qed.
Print Assumptions C26_snap_socket_needs_snap_name.

(* root-only endpoints of the table are reached only by uid 0 on the main socket *)
Theorem C26_root_only : forall e : endpoint, In e api -> forall (m : meth) (x : ctx),
  policy_for (ep_path e) m = Some ARoot -> fst (serve e m x) = Handler ->
  exists u : ucred, peer x u /\ u_socket u = snapd_socket /\ u_uid u = 0.
Proof. exact root_only. Qed.
Print Assumptions C26_root_only.

(* on the actual table, a PUT/POST arriving on the snap socket reaches a handler only at /v2/snapctl, or at
   /v2/accessories/themes when the calling instance has snap-themes-control actively connected AND is root / logged in /
   granted io.snapcraft.snapd.manage (computed over the regenerated table: a new write endpoint open to the snap socket
   breaks this obligation) *)
Theorem C26_snap_socket_writes : forall e : endpoint, In e api -> forall (m : meth) (x : ctx) (u : ucred),
  m <> GET -> fst (serve e m x) = Handler -> peer x u -> u_socket u = snap_socket ->
  ep_path e = bs "/v2/snapctl" \/
  (ep_path e = bs "/v2/accessories/themes" /\ connected x [if_themes] /\ authenticated x u pk_manage).
Proof. exact snap_socket_writes. Qed.
Print Assumptions C26_snap_socket_writes.

(* what the handler finds attached: when the address is what the listener printed for a real peer, every interface in
   r.RemoteAddr at handler time is one the calling instance has actively connected (plug side, exact instance) *)
Theorem C26_handler_ifaces_are_connected : forall (e : endpoint) (m : meth) (x : ctx) (r' : bytes) (u : ucred),
  names_plain (declared e m) = true ->
  x_remote x = print_ucred u -> 0 < u_pid u < 2147483648 -> u_uid u < 4294967295 -> forallb not_semi (u_socket u) = true ->
  serve e m x = (Handler, r') ->
  exists l', ucrednet_get_with_interfaces r' = Some (u, l') /\ forall i, In i l' -> connected x [i].
Proof. exact served_ifaces_are_connected. Qed.
Print Assumptions C26_handler_ifaces_are_connected.

(* END TO END for the notices handlers' type filter (noticeTypesViewableBySnap, with the generated noticeReadInterfaces):
   over the actual table, a snap on snapd-snap.socket is told `viewable` for a set of notice types only if for EVERY
   requested type the calling instance has an active plug-side connection of an interface the hand-written table lists
   for that type (refresh-observe for change-update / refresh-inhibit / snap-run-inhibit, interfaces-requests-control
   for the two prompting types, nothing for warning) *)
Theorem C26_notices_types_need_connection : forall e : endpoint, In e api ->
  forall (m : meth) (x : ctx) (r' : bytes) (u : ucred) (types : list bytes) (t : bytes),
  x_remote x = print_ucred u -> 0 < u_pid u < 2147483648 -> u_uid u < 4294967295 -> u_socket u = snap_socket ->
  serve e m x = (Handler, r') ->
  notice_types_viewable types r' = true -> In t types ->
  exists i, In i (lookup_ifaces spec_notice_ifaces t) /\ connected x [i].
Proof. exact notices_types_need_connection. Qed.
Print Assumptions C26_notices_types_need_connection.

(* the link to C25: on the actual table, when /v2/snapctl's handler runs the request came from a real peer on
   snapd-snap.socket, and the uid that runSnapctl hands to ctlcmd.Run (the uid C25's gate judges) is that peer's uid *)
Theorem C26_snapctl_uid_is_peer : forall e : endpoint, In e api -> ep_path e = bs "/v2/snapctl" ->
  forall (x : ctx) (r' : bytes), serve e POST x = (Handler, r') ->
  exists u : ucred, peer x u /\ u_socket u = snap_socket /\ ucrednet_get r' = Some u /\ snapctl_uid r' = u_uid u.
Proof. exact snapctl_uid_is_peer. Qed.
Print Assumptions C26_snapctl_uid_is_peer.

(* the model's parser accepts exactly the credential strings of real peers (so `peer` and ucrednetGet agree) *)
Theorem C26_parser_is_peer : forall (x : ctx) (u : ucred), ucrednet_get (x_remote x) = Some u <-> peer x u.
Proof. intros x u. split; [apply get_some_peer | apply peer_get]. Qed.
Print Assumptions C26_parser_is_peer.

(* the peer credential encoding round-trips exactly: what the listener prints for a real peer (pid in 1..2^31-1, uid
   other than nobody, socket path without ;) reads back as the same pid, uid and socket with no interface attached *)
Theorem C26_ucred_roundtrip : forall u : ucred,
  0 < u_pid u < 2147483648 -> u_uid u < 4294967295 -> forallb not_semi (u_socket u) = true ->
  ucrednet_get_with_interfaces (print_ucred u) = Some (u, []).
Proof. exact ucred_roundtrip. Qed.
Print Assumptions C26_ucred_roundtrip.

(* attaching an interface (name without ;) to any accepted address never changes the credentials found later; an
   interface already attached leaves the list unchanged; attaching to a fresh address yields exactly that interface *)
Theorem C26_attach_preserves_creds : forall (s : bytes) (u : ucred) (l : list bytes) (i : bytes),
  ucrednet_get_with_interfaces s = Some (u, l) -> forallb not_semi i = true ->
  exists l', ucrednet_get_with_interfaces (ucrednet_attach_interface s i) = Some (u, l') /\
             (l = [] -> l' = split_amp i) /\ (In i l -> l' = l).
Proof. exact attach_preserves_creds. Qed.
Print Assumptions C26_attach_preserves_creds.

(* FULL attach round trip: for EVERY accepted address s (fresh, or already carrying any attachment string), every
   credentials u and list l read from it, and EVERY interface string i without ; (including strings with & inside):
   after ucrednetAttachInterface(s, i) a parse finds the same pid, uid and socket, and the interface list is l if i was
   already in it, else l followed by the &-separated fields of i *)
Theorem C26_attach_roundtrip : forall (s : bytes) (u : ucred) (l : list bytes) (i : bytes),
  ucrednet_get_with_interfaces s = Some (u, l) -> forallb not_semi i = true ->
  ucrednet_get_with_interfaces (ucrednet_attach_interface s i) = Some (u, if mem i l then l else l ++ split_amp i).
Proof. exact attach_full. Qed.
Print Assumptions C26_attach_roundtrip.

(* for a proper interface name (no ; no &) the list grows by exactly that name, once; a second attach is the identity *)
Theorem C26_attach_roundtrip_plain : forall (s : bytes) (u : ucred) (l : list bytes) (i : bytes),
  ucrednet_get_with_interfaces s = Some (u, l) -> forallb not_semi i = true -> forallb not_amp i = true ->
  ucrednet_get_with_interfaces (ucrednet_attach_interface s i) = Some (u, if mem i l then l else l ++ [i]).
Proof. exact attach_full_plain. Qed.
Print Assumptions C26_attach_roundtrip_plain.

Theorem C26_attach_idempotent : forall (s : bytes) (u : ucred) (l : list bytes) (i : bytes),
  ucrednet_get_with_interfaces s = Some (u, l) -> forallb not_semi i = true -> forallb not_amp i = true ->
  ucrednet_attach_interface (ucrednet_attach_interface s i) i = ucrednet_attach_interface s i.
Proof. exact attach_idempotent. Qed.
Print Assumptions C26_attach_idempotent.

(* the guards are needed: WITHOUT them the round trip is false of the faithful model (each witness is replayed on the
   real code by the driver on every run: cases cred / attachparse). None of these strings can occur in snapd: the socket
   is the listener's own address and interface names match [a-z0-9-]+; so they document the guards, they are not findings.
   (a) a socket path containing ;iface=y; reads back as ANOTHER socket plus a forged attachment, one with a bare ; as
       no credentials; (b) an interface string with & reads back as two interfaces and attaching it again doubles them;
   (c) an interface string with ; makes the address unparsable (credentials lost: every checker then denies). *)
Theorem C26_roundtrip_unguarded_refuted :
  (exists u, 0 < u_pid u < 2147483648 /\ u_uid u < 4294967295 /\
             exists v l, ucrednet_get_with_interfaces (print_ucred u) = Some (v, l) /\ (v <> u /\ l <> [])) /\
  (exists u, 0 < u_pid u < 2147483648 /\ u_uid u < 4294967295 /\ ucrednet_get_with_interfaces (print_ucred u) = None) /\
  (exists u i, ucrednet_get_with_interfaces (print_ucred u) = Some (u, []) /\
               ucrednet_get_with_interfaces (ucrednet_attach_interface (print_ucred u) i) <> Some (u, [i]) /\
               ucrednet_attach_interface (ucrednet_attach_interface (print_ucred u) i) i <> ucrednet_attach_interface (print_ucred u) i) /\
  (exists u i, ucrednet_get_with_interfaces (print_ucred u) = Some (u, []) /\
               ucrednet_get_with_interfaces (ucrednet_attach_interface (print_ucred u) i) = None).
Proof.
  split; [|split; [|split]].
  - exists (wit_u (bs "x;iface=y")). split; [vm_compute; auto|]. split; [vm_compute; reflexivity|].
    exists (wit_u (bs "x")), [bs "y"]. split; [exact roundtrip_semicolon_socket_refuted|]. split; discriminate.
  - exists (wit_u (bs "a;b")). split; [vm_compute; auto|]. split; [vm_compute; reflexivity|exact roundtrip_semicolon_socket_lost].
  - exists (wit_u snap_socket), (bs "a&b"). split; [vm_compute; reflexivity|]. split; [vm_compute; discriminate|vm_compute; discriminate].
  - exists (wit_u snap_socket), (bs "a;iface=b"). split; [vm_compute; reflexivity|exact attach_semicolon_refuted].
Qed.
Print Assumptions C26_roundtrip_unguarded_refuted.

(* on every endpoint of the table, a served handler finds the peer's own credentials in r.RemoteAddr, whatever
   interfaces the checker attached on the way *)
Theorem C26_handler_sees_peer_creds : forall e : endpoint, In e api -> forall (m : meth) (x : ctx) (r' : bytes),
  serve e m x = (Handler, r') -> ucrednet_get r' = ucrednet_get (x_remote x) /\ ucrednet_get r' <> None.
Proof. exact served_keeps_creds_api. Qed.
Print Assumptions C26_handler_sees_peer_creds.

(* ---- non-vacuity: the hypotheses are satisfiable, handlers are reachable ---- *)
Definition ex_ctx (remote : string) (user : bool) : ctx :=
  mkCtx (bs remote) user (pk_table [] PkNo) (Some (bs "some-snap"))
        [mkConn (bs "some-snap") (bs "core") (bs "snap-themes-control") false false] false.

(* root on the main socket reaches POST /v2/users (root-only) *)
Example ex_root_served : exists e, In e api /\ ep_path e = bs "/v2/users" /\
  fst (serve e POST (ex_ctx "pid=100;uid=0;socket=/run/snapd.socket;" false)) = Handler.
Proof.
  exists (nth 20 api (mkEp [] false false false false ANil ANil)).
  split; [apply nth_In; vm_compute; repeat constructor | split; vm_compute; reflexivity].
Qed.

(* a plain user is refused there, a logged-in one too *)
Example ex_user_denied : exists e, In e api /\ ep_path e = bs "/v2/users" /\
  fst (serve e POST (ex_ctx "pid=100;uid=1000;socket=/run/snapd.socket;" true)) = Denied Forbidden.
Proof.
  exists (nth 20 api (mkEp [] false false false false ANil ANil)).
  split; [apply nth_In; vm_compute; repeat constructor | split; vm_compute; reflexivity].
Qed.

(* a snap with the themes interface connected reaches GET /v2/accessories/themes over the snap socket, and the handler
   sees the interface attached *)
Example ex_snap_served : exists e, In e api /\ ep_path e = bs "/v2/accessories/themes" /\
  serve e GET (ex_ctx "pid=42;uid=1000;socket=/run/snapd-snap.socket;" false) =
  (Handler, bs "pid=42;uid=1000;socket=/run/snapd-snap.socket;iface=snap-themes-control;").
Proof.
  exists (nth 37 api (mkEp [] false false false false ANil ANil)).
  split; [apply nth_In; vm_compute; repeat constructor | split; vm_compute; reflexivity].
Qed.

(* the peer predicate is inhabited, and the nil receiver's string is not a peer *)
Example ex_peer : peer (ex_ctx "pid=42;uid=1000;socket=/run/snapd-snap.socket;" false) (mkUcred 42 1000 snap_socket).
Proof. apply get_some_peer. vm_compute. reflexivity. Qed.
Example ex_nil_no_peer : forall u, ~ peer (ex_ctx "pid=;uid=;socket=;" true) u.
Proof. intros u H. apply peer_get in H. vm_compute in H. discriminate. Qed.

(* parallel instances: only some-snap has the interface connected; a request from some-snap_dev is refused, and so is
   one from a snap that is merely the SLOT side of such a connection *)
Definition ex_inst_ctx (caller : string) (conns : list conn) : ctx :=
  mkCtx (bs "pid=42;uid=1000;socket=/run/snapd-snap.socket;") false (pk_table [] PkNo) (Some (bs caller)) conns false.
Example ex_other_instance_denied :
  fst (serve (nth 46 api (mkEp [] false false false false ANil ANil)) GET
         (ex_inst_ctx "some-snap_dev" [mkConn (bs "some-snap") (bs "core") (bs "snap-refresh-observe") false false]))
  = Denied Forbidden /\
  fst (serve (nth 46 api (mkEp [] false false false false ANil ANil)) GET
         (ex_inst_ctx "some-snap" [mkConn (bs "some-snap") (bs "core") (bs "snap-refresh-observe") false false]))
  = Handler /\
  ep_path (nth 46 api (mkEp [] false false false false ANil ANil)) = bs "/v2/notices".
Proof. vm_compute. auto. Qed.
Example ex_slot_side_denied :
  fst (serve (nth 46 api (mkEp [] false false false false ANil ANil)) GET
         (ex_inst_ctx "some-snap" [mkConn (bs "other-snap") (bs "some-snap") (bs "snap-refresh-observe") false false]))
  = Denied Forbidden.
Proof. vm_compute. reflexivity. Qed.

(* the notices filter: with refresh-observe attached, change-update is viewable, the prompting type and warning are not,
   and the empty request is not; on the main socket everything is *)
Example ex_viewable :
  notice_types_viewable [bs "change-update"; bs "refresh-inhibit"] (bs "pid=42;uid=1000;socket=/run/snapd-snap.socket;iface=snap-refresh-observe;") = true /\
  notice_types_viewable [bs "change-update"; bs "interfaces-requests-prompt"] (bs "pid=42;uid=1000;socket=/run/snapd-snap.socket;iface=snap-refresh-observe;") = false /\
  notice_types_viewable [bs "warning"] (bs "pid=42;uid=1000;socket=/run/snapd-snap.socket;iface=snap-refresh-observe&snap-interfaces-requests-control;") = false /\
  notice_types_viewable [] (bs "pid=42;uid=1000;socket=/run/snapd-snap.socket;iface=snap-refresh-observe;") = false /\
  notice_types_viewable [bs "warning"] (bs "pid=42;uid=1000;socket=/run/snapd.socket;") = true.
Proof. vm_compute. auto. Qed.

(* both directions of the decision theorem are inhabited: root on the main socket satisfies the level of POST /v2/users *)
Example ex_allowed_root : allowed ARoot (ex_ctx "pid=100;uid=0;socket=/run/snapd.socket;" false).
Proof.
  exists (mkUcred 100 0 snapd_socket). split; [apply get_some_peer; vm_compute; reflexivity|cbn; auto].
Qed.
