(* C37 — path patterns match exactly their expansions; precedence is order-independent.
   This file holds the property theorems only: statement, `exact <lemma>`, Print Assumptions.
   Model: models/Patterns.v (interfaces/prompting/patterns: scan.go, parse.go, render.go, variant.go, patterns.go).
   doublestar.Match is third-party: ported as `path_pattern_matches` (pinned by the tie) and generic `gm` in the guarded theorem;
   regexp submatches: an arbitrary decomposition. *)
From Coq Require Import String List NArith ZArith Bool Permutation.
Import ListNotations.
Require Import V.lib.Bytes V.models.Patterns V.proofs.PatternsProofs.
Open Scope N_scope.

(* the number of variants of EVERY render tree equals the number of enumerated expansions (structural induction) *)
Theorem C37_count : forall t : node, N.of_nat (length (expand t)) = num_variants t.
Proof. exact count_is_length. Qed.
Print Assumptions C37_count.

(* NumVariants is computed in Go ints and saturates at math.MaxInt (/repo commit 1160e46): for EVERY tree the reported
   count lies in [0, MaxInt] and is either MaxInt or exactly the mathematical count *)
Theorem C37_count_go_int : forall t : node,
  (0 <= num_variants64 t <= max_int)%Z /\ (num_variants64 t = max_int \/ num_variants64 t = Z.of_N (num_variants t)).
Proof. exact count64_saturates. Qed.
Print Assumptions C37_count_go_int.

(* accepted patterns, unguarded: the reported count is the number of expansions and is at most 1000 *)
Theorem C37_accepted_within_limit : forall (p : bytes) (t : node),
  parse_pattern p = Some t ->
  num_variants64 t = Z.of_nat (length (expand t)) /\ (length (expand t) <= 1000)%nat.
Proof. exact accepted_within_limit. Qed.
Print Assumptions C37_accepted_within_limit.

(* ... and RenderAllVariants yields exactly one rendered variant per expansion *)
Theorem C37_rendered_count : forall (t : node) (rs : list bytes), render_all t = Some rs -> length rs = length (expand t).
Proof. exact render_all_length. Qed.
Print Assumptions C37_rendered_count.

(* regression case of the repaired finding (KNOWN_FINDINGS `fixed:` 1160e46): `/` followed by 64 groups {a,b} has 2^64
   expansions; its count saturates to MaxInt and the pattern is rejected (before the repair: reported 0, accepted) *)
Example C37_count_overflow_rejected :
  parse_pattern overflow_pattern = None /\
  exists ts t, scan overflow_pattern = Some ts /\ parse_go ts [] [] = Some t /\
               num_variants64 t = max_int /\ num_variants t = 18446744073709551616.
Proof. exact overflow_pattern_rejected. Qed.

(* invalid patterns are rejected: whatever is accepted starts with a slash, has no trailing backslash and no unescaped
   square bracket, has balanced braces, and its reported count is at most 1000 *)
Theorem C37_invalid_rejected : forall (p : bytes) (t : node), parse_pattern p = Some t ->
  (exists r, p = cSLASH :: r) /\ lexically_ok p = true /\
  (exists ts, scan p = Some ts /\ balanced ts 0 = true) /\ (num_variants64 t <= 1000)%Z.
Proof. exact accepted_is_wellformed. Qed.
Print Assumptions C37_invalid_rejected.

(* matching — PARTIAL. Full statement: PathPatternMatches(pattern, path) iff some rendered variant matches the path.
   `gm` stands for PathPatternMatches on a pattern text (doublestar.Match, third party, not modelled). Proved: for patterns
   in normal form (rendering rewrites none of the expansions), IF doublestar's treatment of the groups of this pattern
   amounts to trying every alternative (hypothesis, validated by the tie; it fails for a star directly before a group),
   THEN the pattern matches a path exactly when one of its rendered variants does. *)
Theorem C37_match_iff_some_variant_partial : forall (gm : bytes -> bytes -> bool) (p : bytes) (t : node) (rs : list bytes) (path : bytes),
  parse_pattern p = Some t -> render_all t = Some rs -> normal_form t = true ->
  gm p path = existsb (fun s => gm s path) (expand t) ->
  gm p path = existsb (fun v => gm v path) rs.
Proof. exact match_iff_some_rendered_variant. Qed.
Print Assumptions C37_match_iff_some_variant_partial.

(* outside the normal form the full statement is false (finding 12, KNOWN_FINDINGS key render-rewrites-expansion): for every
   matcher that agrees with doublestar on the two observed facts `/**/*` does not match `/` and `/**` matches `/`, the
   pattern `/**/*` (its only expansion is itself, its only rendered variant is `/**`) is a counterexample *)
Theorem C37_normalised_variant_refuted : forall gm : bytes -> bytes -> bool,
  gm p_dsstar [cSLASH] = false -> gm p_ds [cSLASH] = true ->
  exists p t rs path, parse_pattern p = Some t /\ render_all t = Some rs /\ normal_form t = false /\
                      expand t = [p] /\ gm p path <> existsb (fun v => gm v path) rs.
Proof. exact normalised_variant_refuted. Qed.
Print Assumptions C37_normalised_variant_refuted.

(* the same, closed, for the ported doublestar matcher `path_pattern_matches` (pinned to the real PathPatternMatches by the
   differential run: original pattern and every rendered variant on every generated path) *)
Theorem C37_normalised_variant_refuted_ported :
  exists p t rs path, parse_pattern p = Some t /\ render_all t = Some rs /\ normal_form t = false /\ expand t = [p] /\
                      path_pattern_matches p path <> existsb (fun v => path_pattern_matches v path) rs.
Proof. exact ported_normalised_variant_refuted. Qed.
Print Assumptions C37_normalised_variant_refuted_ported.

(* `matches the original iff matches some element of the syntactic expansion` is FALSE for the faithful matcher, even for a
   normal-form pattern: slash-star-empty-group does not match the root path although its only expansion slash-star does
   (findings star-before-group / doublestar-slash-before-group). This is why C37_match_iff_some_variant_partial keeps the
   per-pattern hypothesis on the matcher instead of an unconditional structural induction. *)
Theorem C37_match_iff_some_syntactic_expansion_refuted :
  exists p t path, parse_pattern p = Some t /\ normal_form t = true /\
                   path_pattern_matches p path = false /\ existsb (fun s => path_pattern_matches s path) (expand t) = true.
Proof. exact ported_syntactic_expansion_refuted. Qed.
Print Assumptions C37_match_iff_some_syntactic_expansion_refuted.

(* rendering keeps escapes: for EVERY string parsePatternVariant accepts, the variant string it rebuilds has every square
   bracket and brace escaped and no dangling backslash (`scan_ok`, written independently of the renderer) - so a rendered
   variant never contains a character class or a group the user did not write; and hence every variant RenderAllVariants yields *)
Theorem C37_variants_keep_escapes : forall (s : bytes) (cs : list comp),
  components s = Some cs -> scan_ok false (variant_string cs) = true.
Proof. exact variants_keep_escapes. Qed.
Print Assumptions C37_variants_keep_escapes.

Theorem C37_rendered_keep_escapes : forall (t : node) (rs : list bytes),
  render_all t = Some rs -> Forall (fun v => scan_ok false v = true) rs.
Proof. exact rendered_keep_escapes. Qed.
Print Assumptions C37_rendered_keep_escapes.

(* the match statement with the CONCRETE (ported, tie-pinned) matcher: for a normal-form pattern whose groups the matcher
   treats transparently on this path (an executable check, `group_transparent`), the pattern matches the path iff one of its
   rendered variants does *)
Theorem C37_match_iff_some_variant_ported : forall (p : bytes) (t : node) (rs : list bytes) (path : bytes),
  parse_pattern p = Some t -> render_all t = Some rs -> normal_form t = true -> group_transparent p t path = true ->
  path_pattern_matches p path = existsb (fun v => path_pattern_matches v path) rs.
Proof. exact ported_match_iff_some_rendered_variant. Qed.
Print Assumptions C37_match_iff_some_variant_ported.

(* ... and with the recorded findings carved out SYNTACTICALLY (`carved`: rendering rewrites an expansion, or a star, a
   doublestar-slash, or a slash followed by a doublestar alternative stands where a group alternative is spliced in), on a
   complete finite scope: EVERY pattern consisting of a slash and at most 3 tokens over a b / * ? { , } ** (820 patterns) and
   EVERY clean path of length at most 4 over a b / (25 paths); checked by evaluation inside the kernel (vm_compute) *)
Theorem C37_match_iff_some_variant_on_scope : forall (p path : bytes) (t : node) (rs : list bytes),
  In p (scope_patterns 3) -> In path (scope_paths 3) ->
  parse_pattern p = Some t -> render_all t = Some rs -> carved p t = false ->
  path_pattern_matches p path = existsb (fun v => path_pattern_matches v path) rs.
Proof. exact match_iff_some_variant_on_scope. Qed.
Print Assumptions C37_match_iff_some_variant_on_scope.

(* fourth facet of the matching-vs-rendering finding (key slash-before-doublestar-group): slash a slash group(doublestar) does
   not match slash a, its rendered variant does; the pattern is in normal form *)
Theorem C37_slash_before_doublestar_group_refuted :
  exists p t rs path, parse_pattern p = Some t /\ render_all t = Some rs /\ normal_form t = true /\
                      path_pattern_matches p path = false /\ existsb (fun v => path_pattern_matches v path) rs = true.
Proof. exact slash_before_doublestar_group_refuted. Qed.
Print Assumptions C37_slash_before_doublestar_group_refuted.

(* Compare, for ANY component lists and ANY submatch decomposition: swapping the operands flips the sign *)
Theorem C37_compare_antisym : forall l1 l2 : list kcomp, compare l2 l1 = CompOpp (compare l1 l2).
Proof. exact compare_antisym. Qed.
Print Assumptions C37_compare_antisym.

(* ... and it is transitive *)
Theorem C37_compare_trans : forall a b c : list kcomp, compare a b = Lt -> compare b c = Lt -> compare a c = Lt.
Proof. exact compare_trans_lt. Qed.
Print Assumptions C37_compare_trans.

(* Compare is a strict order on canonical keys: irreflexive; 0 only when the two variants have the same canonical key sequence
   (component types up to the terminal, submatch LENGTHS of * and /**, submatch text of literals); hence total on variants with
   distinct canonical keys *)
Theorem C37_compare_irreflexive : forall a : list kcomp, compare a a <> Lt.
Proof. exact compare_irreflexive. Qed.
Print Assumptions C37_compare_irreflexive.

Theorem C37_compare_eq_same_keys : forall a b : list kcomp, compare a b = Eq -> map key (canon a) = map key (canon b).
Proof. exact compare_eq_same_keys. Qed.
Print Assumptions C37_compare_eq_same_keys.

Theorem C37_compare_total_on_distinct : forall a b : list kcomp, map key (canon a) <> map key (canon b) ->
  (compare a b = Lt /\ compare b a = Gt) \/ (compare a b = Gt /\ compare b a = Lt).
Proof. exact compare_total_on_distinct. Qed.
Print Assumptions C37_compare_total_on_distinct.

(* the variant HighestPrecedencePattern returns is one of the given variants and none of them has higher precedence *)
Theorem C37_highest_is_maximum : forall (l : list (bytes * list kcomp)) (m : bytes * list kcomp),
  (forall x y, In x l -> In y l -> vcmp x y = Eq -> x = y) ->
  highest vcmp l = Some m -> In m l /\ (forall y, In y l -> vcmp m y <> Lt).
Proof. exact highest_precedence_is_maximum. Qed.
Print Assumptions C37_highest_is_maximum.

(* HighestPrecedencePattern over ANY permutation of the same variants selects the same variant, provided Compare returns 0
   only between equal variants (monitored on the implementation) — lists of any length *)
Theorem C37_highest_order_independent : forall l l' : list (bytes * list kcomp),
  Permutation l l' ->
  (forall x y, In x l -> In y l -> vcmp x y = Eq -> x = y) ->
  highest vcmp l = highest vcmp l'.
Proof. exact highest_precedence_order_independent. Qed.
Print Assumptions C37_highest_order_independent.

(* non-vacuity *)
Example C37_nonvacuous :
  exists t, parse_pattern (bs "/a/{b,c*}/**"%string) = Some t /\ num_variants t = 2 /\ normal_form t = true /\
            render_all t = Some [bs "/a/b/**"%string; bs "/a/c*/**"%string].
Proof. eexists. split; [vm_compute; reflexivity|]. repeat split; vm_compute; reflexivity. Qed.

Example C37_compare_example :   (* /a/b* against /a/* on /a/bc: the literal wins *)
  compare [(tSEP, bs "/"%string); (tLIT, bs "a"%string); (tSEP, bs "/"%string); (tLIT, bs "b"%string); (tGLOB, bs "c"%string); (tTERM, [])]
          [(tSEP, bs "/"%string); (tLIT, bs "a"%string); (tSEP, bs "/"%string); (tGLOB, bs "bc"%string); (tTERM, [])] = Gt.
Proof. vm_compute. reflexivity. Qed.

(* non-vacuity of the concrete-matcher theorems *)
Example C37_ported_nonvacuous :
  exists t rs, parse_pattern (bs "/a/{b,c*}/**"%string) = Some t /\ render_all t = Some rs /\ normal_form t = true /\
               group_transparent (bs "/a/{b,c*}/**"%string) t (bs "/a/cx/y/z"%string) = true /\
               path_pattern_matches (bs "/a/{b,c*}/**"%string) (bs "/a/cx/y/z"%string) = true /\
               path_pattern_matches (bs "/a/{b,c*}/**"%string) (bs "/a/d"%string) = false.
Proof. eexists. eexists. split; [vm_compute; reflexivity|]. repeat split; vm_compute; reflexivity. Qed.

Example C37_scope_nonvacuous :
  existsb (beq (bs "/{a}"%string)) (scope_patterns 3) = true /\ existsb (beq (bs "/a/"%string)) (scope_paths 3) = true /\
  (exists t, parse_pattern (bs "/{a}"%string) = Some t /\ carved (bs "/{a}"%string) t = false) /\
  path_pattern_matches (bs "/{a}"%string) (bs "/a/"%string) = true.
Proof.
  split; [vm_compute; reflexivity|]. split; [vm_compute; reflexivity|]. split; [eexists; split; vm_compute; reflexivity|].
  vm_compute. reflexivity.
Qed.

Example C37_highest_example :   (* /a/b* , /a/* and /a/** on /a/bc: the literal-prefix variant wins whatever the order *)
  let v1 := (bs "/a/b*"%string, [(tSEP, bs "/"%string); (tLIT, bs "a"%string); (tSEP, bs "/"%string); (tLIT, bs "b"%string); (tGLOB, bs "c"%string); (tTERM, [])]) in
  let v2 := (bs "/a/*"%string, [(tSEP, bs "/"%string); (tLIT, bs "a"%string); (tSEP, bs "/"%string); (tGLOB, bs "bc"%string); (tTERM, [])]) in
  let v3 := (bs "/a/**"%string, [(tSEP, bs "/"%string); (tLIT, bs "a"%string); (tSDT, bs "/bc"%string)]) in
  highest vcmp [v1; v2; v3] = Some v1 /\ highest vcmp [v3; v2; v1] = Some v1 /\ highest vcmp [v2; v3; v1] = Some v1.
Proof. vm_compute. repeat split. Qed.
