(* C34 - channel names normalise consistently; pinned tracks cannot be switched. *)
From Coq Require Import List NArith Bool.
Import ListNotations.
Require Import V.lib.Bytes V.gen.ChannelRisks V.models.Channel V.proofs.ChannelProofs.

Theorem C34_clean_idempotent : forall c : chan, clean (clean c) = clean c.
Proof. exact clean_idempotent. Qed.
Print Assumptions C34_clean_idempotent.
