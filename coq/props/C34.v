(* C34 - channel names normalise consistently; pinned tracks cannot be switched.
   This file holds the property theorems only: statement, `exact <lemma>`, Print Assumptions.
   Model: models/Channel.v (snap/channel/channel.go function by function); the risk list and the two defaults of
   Channel.Clean come from gen/ChannelRisks.v, regenerated from the Go source on every run.
   All theorems quantify over ALL byte strings / ALL Channel values (no bound). *)
From Coq Require Import List NArith Bool String.
Import ListNotations.
Require Import V.lib.Bytes V.gen.ChannelRisks V.models.Channel V.proofs.ChannelProofs.

(* normalising twice equals normalising once - for every Channel value, whether or not it came from the parser *)
Theorem C34_clean_idempotent : forall c : chan, clean (clean c) = clean c.
Proof. exact clean_idempotent. Qed.
Print Assumptions C34_clean_idempotent.

(* parsing a channel and printing it again is stable: whenever Parse(s, arch) succeeds with c, Parse(c.String(), arch)
   succeeds with the very same channel (architecture, name, track, risk and branch) *)
Theorem C34_parse_print_stable : forall (sys s arch : bytes) (c : chan),
  parse sys s arch = Some c -> parse sys (chan_string c) arch = Some c.
Proof. exact parse_print_stable. Qed.
Print Assumptions C34_parse_print_stable.

(* the full form of every parsed channel is track/risk[/branch]: the risk is one of the four, the shown track is never
   empty and is `latest` exactly when the channel has no track, and Channel.Full never panics *)
Theorem C34_full_names_track_and_risk : forall (sys s arch : bytes) (c : chan),
  parse sys s arch = Some c ->
  In (c_risk c) risks /\
  shown_track c <> [] /\
  (shown_track c = default_track <-> c_track c = []) /\
  chan_full c = Some (shown_track c ++ slash :: c_risk c ++ (if is_nil_b (c_branch c) then [] else slash :: c_branch c)).
Proof. exact full_names_track_and_risk. Qed.
Print Assumptions C34_full_names_track_and_risk.

(* the string-level Full(s): normalising twice equals normalising once, for every byte string on which it succeeds *)
Theorem C34_full_idempotent : forall s r : bytes, full_of_string s = Some r -> full_of_string r = Some r.
Proof. exact full_string_idempotent. Qed.
Print Assumptions C34_full_idempotent.

(* ... and its result is empty (no component in s) or track/risk or track/risk/branch with no empty component; where Full
   itself fills in or places the risk (s has one component, or two starting with a risk name) the risk position holds one of
   the four risks. Full does not validate a risk that the input supplies after a track: Full(foo/bar) = foo/bar and
   Full(a/b/c) = a/b/c, so `risk from the table` cannot be claimed for those inputs (it is claimed, and proved, for parsed
   channels in C34_full_names_track_and_risk). *)
Theorem C34_full_shape : forall s r : bytes, full_of_string s = Some r ->
  r = [] \/
  exists cs, split_slash r = cs /\ (List.length cs = 2%nat \/ List.length cs = 3%nat) /\
             Forall (fun c => c <> []) cs /\
             ((List.length (fields_slash s) = 1%nat \/
               (List.length (fields_slash s) = 2%nat /\ is_risk (hd [] (fields_slash s)) = true)) ->
              In (nth 1 cs []) risks).
Proof. exact full_string_shape. Qed.
Print Assumptions C34_full_shape.

(* a request that starts with a risk name is resolved to <current track>/<request> when the current channel has a track *)
Theorem C34_resolve_risk_first : forall (cur new : bytes) (ch : chan),
  parse_verbatim [] cur dash = Some ch -> is_nil_b new = false -> is_risk (hd_comp new) = true ->
  resolve cur new = Some (if is_nil_b (c_track ch) then new else c_track ch ++ slash :: new).
Proof. exact resolve_risk_first. Qed.
Print Assumptions C34_resolve_risk_first.

(* a risk-only (or risk/branch) request keeps the current track: the resolved channel parses, with the current track and
   the requested risk and branch.
   GUARD: the current track is not spelled like a risk name. The full statement (without `is_risk (c_track ch) = false`)
   is false, see C34_risk_only_track_named_like_risk_refuted. *)
Theorem C34_risk_only_keeps_track : forall (cur new : bytes) (ch nc : chan),
  parse_verbatim [] cur dash = Some ch ->
  parse_verbatim [] new dash = Some nc ->
  c_track nc = [] ->
  is_risk (c_track ch) = false ->
  exists r rc,
    resolve cur new = Some r /\
    r = (if is_nil_b (c_track ch) then new else c_track ch ++ slash :: new) /\
    parse_verbatim [] r dash = Some rc /\
    c_track rc = c_track ch /\ c_risk rc = c_risk nc /\ c_branch rc = c_branch nc.
Proof. exact risk_only_keeps_track. Qed.
Print Assumptions C34_risk_only_keeps_track.

(* ... and without the guard it fails: Resolve(edge/stable/hotfix, beta) = edge/beta, which the parser reads as
   risk edge, branch beta (KNOWN_FINDINGS key resolve-track-spelled-like-risk; replayed on the implementation on every run) *)
Theorem C34_risk_only_track_named_like_risk_refuted :
  exists cur new ch nc r rc,
    parse_verbatim [] cur dash = Some ch /\ parse_verbatim [] new dash = Some nc /\ c_track nc = [] /\
    resolve cur new = Some r /\ parse_verbatim [] r dash = Some rc /\ c_track rc <> c_track ch.
Proof. exact risk_only_refuted. Qed.
Print Assumptions C34_risk_only_track_named_like_risk_refuted.

(* under a pinned track a request is refused, or the result is the pinned track itself or starts with `track/`; and
   whatever the parser then reads in the result has exactly the pinned track: the pinned track cannot be switched *)
Theorem C34_pinned : forall track new : bytes, track <> [] ->
  match resolve_pinned track new with
  | POk r => (r = track \/ has_prefix (track ++ [slash]) r = true) /\
             (forall rc, parse_verbatim [] r dash = Some rc -> c_track rc = track)
  | PInvalid | PSwitch => True
  end.
Proof. exact pinned_cannot_switch. Qed.
Print Assumptions C34_pinned.

(* Resolve laws. Resolving twice equals resolving once: if cur parses and its track is not spelled like a risk name (the
   carve-out is exactly the class of the recorded finding; C34_resolve_idempotent_refuted shows it is needed), then
   Resolve(cur, Resolve(cur, new)) = Resolve(cur, new). The empty channel is a unit on both sides. *)
Theorem C34_resolve_idempotent : forall (cur new r : bytes) (ch : chan),
  parse_verbatim [] cur dash = Some ch -> is_risk (c_track ch) = false ->
  resolve cur new = Some r -> resolve cur r = Some r.
Proof. exact resolve_idempotent. Qed.
Print Assumptions C34_resolve_idempotent.

Theorem C34_resolve_idempotent_refuted : exists (cur new r : bytes) (ch : chan),
  parse_verbatim [] cur dash = Some ch /\ resolve cur new = Some r /\ resolve cur r <> Some r.
Proof. exact resolve_idempotent_refuted. Qed.
Print Assumptions C34_resolve_idempotent_refuted.

Theorem C34_resolve_units : forall s : bytes, resolve s [] = Some s /\ resolve [] s = Some s.
Proof. exact resolve_units. Qed.
Print Assumptions C34_resolve_units.

(* under a pinned track (or none) resolving twice equals resolving once, for every track and every request - no guard *)
Theorem C34_pinned_idempotent : forall track new r : bytes,
  resolve_pinned track new = POk r -> resolve_pinned track r = POk r.
Proof. exact pinned_idempotent. Qed.
Print Assumptions C34_pinned_idempotent.

(* the system-level sentence, at the entry point snapd uses (overlord/snapstate resolveChannel): for the snap the device model
   pins to a track (its kernel with a kernel track, its gadget with a gadget track), every non-empty request - whatever the
   current channel is, also when the request spells the current channel - is refused or resolved to the pinned track
   itself or to track/..., and whatever the parser reads in the result has the pinned track; an empty request keeps the
   current channel; without a pin it is channel.Resolve *)
Theorem C34_snapstate_pinned : forall (is_kernel is_gadget : bool) (ktrack gtrack old new : bytes),
  pinned_for is_kernel is_gadget ktrack gtrack <> [] -> new <> [] ->
  match resolve_channel is_kernel is_gadget ktrack gtrack old new with
  | Some r => (r = pinned_for is_kernel is_gadget ktrack gtrack \/
               has_prefix (pinned_for is_kernel is_gadget ktrack gtrack ++ [slash]) r = true) /\
              (forall rc, parse_verbatim [] r dash = Some rc -> c_track rc = pinned_for is_kernel is_gadget ktrack gtrack)
  | None => True
  end.
Proof. exact snapstate_pinned. Qed.
Print Assumptions C34_snapstate_pinned.

Theorem C34_snapstate_no_request_or_no_pin : forall (ik ig : bool) (kt gt old new : bytes),
  resolve_channel ik ig kt gt old [] = Some old /\
  (pinned_for ik ig kt gt = [] -> new <> [] -> resolve_channel ik ig kt gt old new = resolve old new).
Proof. intros. split; [apply snapstate_no_request|apply snapstate_unpinned]. Qed.
Print Assumptions C34_snapstate_no_request_or_no_pin.

(* non-vacuity: the hypotheses are satisfiable and the functions do what the names say on ordinary inputs *)
Example C34_ex_parse : parse (bs "amd64") (bs "latest/edge") [] = Some (mkChan (bs "amd64") (bs "edge") [] (bs "edge") []).
Proof. vm_compute. reflexivity. Qed.
Example C34_ex_parse_track : parse [] (bs "foo") (bs "arm64") = Some (mkChan (bs "arm64") (bs "foo/stable") (bs "foo") (bs "stable") []).
Proof. vm_compute. reflexivity. Qed.
Example C34_ex_full : chan_full (mkChan (bs "arm64") (bs "edge/fix") [] (bs "edge") (bs "fix")) = Some (bs "latest/edge/fix").
Proof. vm_compute. reflexivity. Qed.
Example C34_ex_resolve : resolve (bs "foo/stable") (bs "edge") = Some (bs "foo/edge").
Proof. vm_compute. reflexivity. Qed.
Example C34_ex_resolve_hyps : exists ch nc, parse_verbatim [] (bs "foo/stable") dash = Some ch /\
  parse_verbatim [] (bs "edge/fix") dash = Some nc /\ c_track nc = [] /\ is_risk (c_track ch) = false.
Proof. eexists. eexists. split; [vm_compute; reflexivity|]. split; [vm_compute; reflexivity|]. split; vm_compute; reflexivity. Qed.
Example C34_ex_pinned_ok : resolve_pinned (bs "foo") (bs "edge") = POk (bs "foo/edge").
Proof. vm_compute. reflexivity. Qed.
Example C34_ex_pinned_same : resolve_pinned (bs "foo") (bs "foo/beta") = POk (bs "foo/beta").
Proof. vm_compute. reflexivity. Qed.
Example C34_ex_pinned_switch : resolve_pinned (bs "foo") (bs "bar/edge") = PSwitch.
Proof. vm_compute. reflexivity. Qed.
Example C34_ex_pinned_invalid : resolve_pinned (bs "foo/edge") (bs "edge") = PInvalid.
Proof. vm_compute. reflexivity. Qed.
Example C34_ex_fullstr : full_of_string (bs "edge//fix") = Some (bs "latest/edge/fix").
Proof. vm_compute. reflexivity. Qed.
Example C34_ex_fullstr_unvalidated : full_of_string (bs "foo/bar") = Some (bs "foo/bar").
Proof. vm_compute. reflexivity. Qed.
Example C34_ex_snapstate_same : resolve_channel true false (bs "18") [] (bs "latest/stable") (bs "latest/stable") = None.
Proof. vm_compute. reflexivity. Qed.
Example C34_ex_snapstate_risk : resolve_channel true false (bs "18") [] (bs "latest/stable") (bs "stable") = Some (bs "18/stable").
Proof. vm_compute. reflexivity. Qed.
Example C34_ex_snapstate_other_snap : resolve_channel false false (bs "18") [] (bs "foo/stable") (bs "edge") = Some (bs "foo/edge").
Proof. vm_compute. reflexivity. Qed.
