(* C04 — a restart at any checkpoint resumes changes without redoing finished work.
   This file holds the property theorems only. Model: models/Restart.v (TaskRunner.Ensure/run/mustWait/tryUndo and the
   single-lane abort of overlord/state/taskrunner.go, with persist/reload; self-contained, not TaskEngine.v).
   An event list is any sequence of Ensure passes, handler completions, graceful stops (EStop = TaskRunner.Stop with the
   handlers in flight honouring their tombs: the cancellation error counts as Retry in both directions, the task stays Doing /
   Undoing) and restarts (ERestart = reload of the last payload), anywhere, any number. *)
From Coq Require Import List NArith Bool.
Import ListNotations.
Require Import V.lib.Bytes V.models.Restart V.gen.UnlockOrder V.proofs.RestartProofs V.proofs.RestartTieProofs.
Open Scope N_scope.

(* a handler phase recorded as finished is never started again: once a task has left Do/Doing (rank >= 2: Done, Abort,
   Undo, Undoing, Undone, Hold, Error) no event list — with restarts anywhere — starts its do handler again, and once it is
   Undone/Hold/Error none starts its undo handler again. [count id u log] is the number of starts of the do (u = false) or
   undo (u = true) handler of task id recorded so far. *)
Theorem C04_never_after_done : forall c evs s id,
  (2 <= rk (status_of (tasks s) id) -> count id false (log (run_events c s evs)) = count id false (log s)) /\
  (5 <= rk (status_of (tasks s) id) -> count id true (log (run_events c s evs)) = count id true (log s)).
Proof. exact never_after_done. Qed.
Print Assumptions C04_never_after_done.

(* no change or task is lost, duplicated or rewired by any event list, and statuses only move forward *)
Theorem C04_no_loss_no_dup : forall c evs s,
  (forall id, rk (status_of (tasks s) id) <= rk (status_of (tasks (run_events c s evs)) id)) /\
  map t_id (tasks (run_events c s evs)) = map t_id (tasks s) /\
  map t_waits (tasks (run_events c s evs)) = map t_waits (tasks s).
Proof. exact forward_no_loss_no_dup. Qed.
Print Assumptions C04_no_loss_no_dup.

(* what a restart is: every persisted field survives, the set of running handlers is empty *)
Theorem C04_reload_persist : forall s, tasks (restart s) = tasks s /\ running (restart s) = [] /\ log (restart s) = log s.
Proof. exact reload_persist_id. Qed.
Print Assumptions C04_reload_persist.

(* same outcome, every graph, every configuration, every continuation: in a state whose running handlers all belong to
   tasks in Doing or Undoing - i.e. NO RUNNING TASK IS IN ABORT at the restart point - a restart followed by an Ensure pass
   and any further events (more restarts included) gives exactly the tasks, statuses and set of running handlers that
   the same Ensure pass and events give without the restart ([eqv]: same task list, same running set; the log of
   handler starts is not compared: after a restart the running handlers are started again). By induction over the Ensure
   pass (two passes side by side) and over the event list; no bound on the graph.
   The baseline is the run without restart in which an Ensure pass happens at that moment (Ensure may run at any time:
   State.EnsureBefore); the driver builds exactly that baseline on the real code. *)
Theorem C04_same_outcome : forall c s evs, NoDup (map t_id (tasks s)) ->
  (forall id, mem id (running s) = true -> status_of (tasks s) id = 3 \/ status_of (tasks s) id = 7) ->
  eqv (run_events c s (ERestart :: EEnsure :: evs)) (run_events c s (EEnsure :: evs)).
Proof. exact same_outcome. Qed.
Print Assumptions C04_same_outcome.

(* the same for a graceful stop before the process goes away: TaskRunner.Stop, then the restart *)
Theorem C04_same_outcome_stop : forall c s evs, NoDup (map t_id (tasks s)) ->
  (forall id, mem id (running s) = true -> status_of (tasks s) id = 3 \/ status_of (tasks s) id = 7) ->
  eqv (run_events c s (EStop :: ERestart :: EEnsure :: evs)) (run_events c s (EEnsure :: evs)).
Proof. exact same_outcome_stop. Qed.
Print Assumptions C04_same_outcome_stop.

(* in addition, on a complete finite domain and against the fixed round policy itself (no Ensure inserted in the baseline):
   all chains of at most 3 tasks with any extra edges to earlier tasks, all 64 handler configurations, every one of the
   first 40 single steps of the deterministic schedule as the crash point: same final status vector *)
Theorem C04_same_outcome_chains_bounded : forall x, In x same_outcome_domain -> same_outcome_ok x = true.
Proof. exact same_outcome_bounded. Qed.
Print Assumptions C04_same_outcome_chains_bounded.

(* the guard of C04_same_outcome matters (KNOWN_FINDINGS key restart-with-task-in-abort, replayed on the implementation
   on every run): with two parallel failing tasks, a restart taken while the second one is in Abort (aborted while its
   handler was running) gives Undone instead of Error for it: an Abort task is not run again after a restart, it is
   undone directly (TaskRunner.Ensure -> tryUndo), so its own failure is never observed *)
Theorem C04_same_outcome_parallel_refuted :
  let g := [(1, []); (2, [])] in let c := mkCfg [1; 2] [] in
  statuses (settle 16 c (restart (iter 2 c (init g)))) <> statuses (settle 16 c (init g)).
Proof. exact same_outcome_abort_refuted. Qed.
Print Assumptions C04_same_outcome_parallel_refuted.

(* ---- the persistence assumption: checkpoints are atomic with respect to state mutations and totally ordered.
   [restart] above reloads the in-memory task list; that is justified exactly when the store holds the payload of the last
   unlock. C04_store_is_memory: in the model with an explicit store, for every history of runner steps (each followed by its
   checkpoint) and crashes WITHOUT stale writes, the store always equals the in-memory task list and the history is the
   runner model's history with ERestart for every crash - so every theorem above applies to crashes. *)
Theorem C04_store_is_memory : forall c evs w, no_stale evs = true -> w_disk w = tasks (w_mem w) ->
  w_disk (wrun c w evs) = tasks (w_mem (wrun c w evs)) /\
  w_mem (wrun c w evs) = run_events c (w_mem w) (flat_map erase evs).
Proof. exact store_is_memory. Qed.
Print Assumptions C04_store_is_memory.

(* ... and the hypothesis is needed: one stale write (the older payload, task 1 Doing, completing after the newer one, task 1
   Done - a checkpoint written outside the state lock) and a crash, and the finished task is run again *)
Theorem C04_stale_checkpoint_refuted :
  let c := mkCfg [] [] in let w0 := mkW (init [(1, [])]) (tasks (init [(1, [])])) in
  let w2 := wrun c w0 [WStep EEnsure; WStep (EFinish 1)] in
  let wf := wrun c w2 [WStale (tasks (w_mem (wrun c w0 [WStep EEnsure]))); WCrash; WStep EEnsure] in
  status_of (tasks (w_mem w2)) 1 = 4 /\ count 1 false (log (w_mem w2)) = 1 /\ count 1 false (log (w_mem wf)) = 2.
Proof. exact stale_checkpoint_redoes_work. Qed.
Print Assumptions C04_stale_checkpoint_refuted.

(* checkpoint failure and retry (State.Unlock keeps the lock while it retries a failing Backend.Checkpoint): over every history
   of steps whose checkpoint succeeds at once or is still failing, successful retries and crashes, the store always holds the
   image of a state whose unlock completed - the current one or, while an unlock is retrying, the one before the step in
   progress; never anything older, never a mixture; and a crash during the retry loses exactly that unacknowledged step *)
Theorem C04_store_always_an_unlocked_state : forall c evs w, store_inv c w -> store_inv c (crun c w evs).
Proof. exact store_always_an_unlocked_state. Qed.
Print Assumptions C04_store_always_an_unlocked_state.

Theorem C04_crash_during_retry : forall c w, store_inv c w -> c_dirty w = true ->
  exists m0 e, c_mem w = step c m0 e /\ tasks (c_mem (cstep c w CCrash)) = tasks m0.
Proof. exact crash_during_retry. Qed.
Print Assumptions C04_crash_during_retry.

(* ... connected to the runner model: when no write fails, a history with crashes IS the runner model's history with ERestart
   for each crash (so every theorem about [run_events] applies); a step whose write fails followed by the successful retry is
   the step with an immediate write; a step whose write fails followed by a crash is the crash alone (same tasks, nothing
   running, same store): the unacknowledged step is lost and nothing else *)
Theorem C04_crun_is_run_events : forall c evs w, all_written evs = true -> c_dirty w = false -> c_disk w = tasks (c_mem w) ->
  c_dirty (crun c w evs) = false /\ c_disk (crun c w evs) = tasks (c_mem (crun c w evs)) /\
  c_mem (crun c w evs) = run_events c (c_mem w) (flat_map cerase evs).
Proof. exact crun_is_run_events. Qed.
Print Assumptions C04_crun_is_run_events.

Theorem C04_failed_then_retry : forall c w e, c_dirty w = false -> e <> ERestart ->
  cstep c (cstep c w (CStep e false)) CRetry = cstep c w (CStep e true).
Proof. exact failed_then_retry. Qed.
Print Assumptions C04_failed_then_retry.

Theorem C04_failed_then_crash : forall c w e, c_dirty w = false -> e <> ERestart ->
  tasks (c_mem (cstep c (cstep c w (CStep e false)) CCrash)) = tasks (c_mem (cstep c w CCrash)) /\
  running (c_mem (cstep c (cstep c w (CStep e false)) CCrash)) = [] /\
  c_disk (cstep c (cstep c w (CStep e false)) CCrash) = c_disk w.
Proof. exact failed_then_crash. Qed.
Print Assumptions C04_failed_then_crash.

(* THE normal form: ANY history of steps whose write succeeds at once or is still failing, steps attempted while the lock is
   held by a retrying unlock, successful retries and crashes, from a state whose store is up to date, leaves the runner in a
   state equivalent (same tasks with statuses and edges, same set of running handlers; the observer's log of handler starts is
   not compared: a handler whose step was lost did start) to [run_events] of [cflat None evs]: the steps whose unlock completed,
   in order, an ERestart for every crash, the unacknowledged steps dropped. Hence every theorem about [run_events] above speaks
   about every store history. *)
Theorem C04_store_normal_form : forall c evs w, c_dirty w = false -> c_disk w = tasks (c_mem w) ->
  eqv (c_mem (crun c w evs)) (run_events c (c_mem w) (cflat None evs)).
Proof. exact store_normal_form. Qed.
Print Assumptions C04_store_normal_form.

(* the hypothesis is tied to the code twice: (T) over the step list of State.Unlock regenerated from overlord/state/state.go
   on every run: in Unlock the data is marshalled and the checkpoint written before the state lock is released (a deferred
   unlock, no other unlock before the last Checkpoint call, no goroutine); the closure returned by Unlocker - the second
   release path - goes through s.Unlock() and hands back s.Lock; the bare s.unlock() has no caller in overlord/state other
   than Unlock itself and ReadState (fresh unmodified state), and s.mu.Unlock() none other than s.unlock(): every lock release
   that can follow a modification checkpoints first; (C) the drivers observe that what a handler or goroutine recorded before
   releasing the lock - through Unlock or through Unlocker - is in a completed payload; the second driver also observes on the real Unlock that the
   lock is held during every Checkpoint call and that writes complete in unlock order *)
Theorem C04_checkpoint_written_under_lock : every_release_checkpoints = true.
Proof. exact every_release_checkpoints_holds. Qed.
Print Assumptions C04_checkpoint_written_under_lock.

(* non-vacuity: a chain of three tasks whose last do handler fails, restarted after five steps: the first task is Done
   at that point, is not done again, and everything ends undone *)
Example C04_example :
  let g := [(1, []); (2, [1]); (3, [2])] in let c := mkCfg [3] [] in
  let s := iter 5 c (init g) in let f := settle 16 c (restart s) in
  statuses s = [(1, 4); (2, 4); (3, 3)] /\ statuses f = [(1, 8); (2, 8); (3, 9)] /\
  count 1 false (log f) = 1 /\ count 3 false (log f) = 2 /\ count 1 true (log f) = 1.
Proof. vm_compute. repeat split; reflexivity. Qed.

(* non-vacuity of the hypotheses of C04_same_outcome: two parallel tasks, both running after the first Ensure pass *)
Example C04_same_outcome_hypotheses_satisfiable :
  let s := ensure (mkCfg [] []) (init [(1, []); (2, [])]) in
  running s = [1; 2] /\ forallb (fun id => (status_of (tasks s) id =? 3) || (status_of (tasks s) id =? 7)) (running s) = true.
Proof. vm_compute. split; reflexivity. Qed.

(* non-vacuity: a step whose checkpoint is failing, another step that cannot happen meanwhile, a crash: the task is back in Do *)
Example C04_retry_example :
  let c := mkCfg [] [] in let w0 := mkC (init [(1, [])]) (tasks (init [(1, [])])) false in
  let w1 := crun c w0 [CStep EEnsure false; CStep (EFinish 1) true] in
  store_inv c w0 /\ c_dirty w1 = true /\ statuses (c_mem w1) = [(1, 3)] /\
  statuses (c_mem (crun c w1 [CCrash])) = [(1, 2)] /\ statuses (c_mem (crun c w1 [CRetry; CStep (EFinish 1) true; CCrash])) = [(1, 4)].
Proof. vm_compute. repeat split; try reflexivity. left. split; reflexivity. Qed.

(* non-vacuity of the normal form: a failing write, an attempt while the lock is held, a crash (step lost), then a failing
   write that is retried successfully, a crash *)
Example C04_normal_form_example :
  cflat None [CStep EEnsure false; CStep (EFinish 1) true; CCrash; CStep EEnsure false; CRetry; CStep (EFinish 1) true; CCrash]
  = [ERestart; EEnsure; EFinish 1; ERestart].
Proof. reflexivity. Qed.
