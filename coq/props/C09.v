(* C09 — pruning removes only finished changes, together with all their tasks; unfinished changes are kept and aborted
   only after the abort period unless a pending predicate objects; expired warnings and notices disappear.
   This file holds the property theorems only. Model: models/Prune.v (State.Prune in overlord/state/state.go).
   Every theorem is for every state, every choice of clock, retention period, abort period, limit, start of operation and
   pending predicates, and every order in which the changes are visited (the oldest-first theorem needs the order to be
   sorted by ready time, which is what sort.Sort(byReadyTime) establishes, stably or not). *)
From Coq Require Import List NArith ZArith Bool Sorting.Sorted.
Import ListNotations.
Require Import V.models.Prune V.proofs.PruneProofs.
Open Scope Z_scope.

(* a change that is gone after Prune was either finished (ready time set) and then ready before the prune limit or
   visited while the number of ready changes exceeded the limit, or it was an unready change without tasks spawned
   (counting from the start of operation at the earliest) before the prune limit *)
Theorem C09_removed_only_if : forall p order s id,
  has_id (ps_changes s) id -> ~ has_id (r_changes (prune_with p order s)) id ->
  exists c count, In c order /\ pc_id c = id /\
    ((exists r, pc_ready c = Some r /\ (r < prune_limit p \/ p_max_ready p < count)) \/
     (pc_ready c = None /\ pc_tasks c = [] /\ clamped_spawn p c < prune_limit p)).
Proof. exact removed_only_if. Qed.
Print Assumptions C09_removed_only_if.

(* under the count limit the oldest go first: a removed finished change is never newer than a kept finished change *)
Theorem C09_oldest_first : forall p order, StronglySorted not_after order ->
  forall count c c' r r', In (c, RemoveReady) (visit p count order) -> In (c', Keep) (visit p count order) ->
  pc_ready c = Some r -> pc_ready c' = Some r' -> r <= r'.
Proof. exact oldest_first. Qed.
Print Assumptions C09_oldest_first.

(* the order the model itself uses is sorted and has the same elements *)
Theorem C09_model_order_sorted : forall l, StronglySorted not_after (sort_changes l) /\ forall x, In x (sort_changes l) <-> In x l.
Proof. exact sort_changes_ok. Qed.
Print Assumptions C09_model_order_sorted.

(* all tasks of a removed finished change are removed with it *)
Theorem C09_tasks_go_with_change : forall p order s c id,
  NoDup (map pc_id order) -> In c order -> pc_ready c <> None -> has_id (ps_changes s) (pc_id c) ->
  ~ has_id (r_changes (prune_with p order s)) (pc_id c) ->
  mem id (pc_tasks c) = true -> ~ In id (map pt_id (r_tasks (prune_with p order s))).
Proof. exact tasks_go_with_change. Qed.
Print Assumptions C09_tasks_go_with_change.

(* ... and only with it: a task that no removed finished change lists stays if its change is still there or it is young *)
Theorem C09_tasks_kept_with_change : forall p order s id ch sp,
  has_task (ps_tasks s) id ch sp ->
  (forall c, In (c, RemoveReady) (vs_of p order) -> mem id (pc_tasks c) = false) ->
  (has_id (r_changes (prune_with p order s)) ch \/ prune_limit p <= sp) ->
  In id (map pt_id (r_tasks (prune_with p order s))).
Proof. exact tasks_kept_with_change. Qed.
Print Assumptions C09_tasks_kept_with_change.

(* an unfinished change that has tasks is never removed *)
Theorem C09_unfinished_kept : forall p order s id,
  has_id (ps_changes s) id -> (forall c, In c order -> pc_id c = id -> pc_ready c = None /\ pc_tasks c <> []) ->
  has_id (r_changes (prune_with p order s)) id.
Proof. exact unfinished_kept. Qed.
Print Assumptions C09_unfinished_kept.

(* the abort runs only on unfinished changes that have existed (from the start of operation at the earliest) for the
   abort period and for which no registered predicate on an attribute they carry says "pending" *)
Theorem C09_abort_only_after : forall p order s id, In id (r_aborted (prune_with p order s)) ->
  exists c, In c order /\ pc_id c = id /\ pc_ready c = None /\ clamped_spawn p c < abort_limit p /\ is_pending p c = false.
Proof. exact abort_only_after. Qed.
Print Assumptions C09_abort_only_after.

(* a task listed by no aborted and no removed change keeps its status (and stays, if linked to a remaining change or young) *)
Theorem C09_status_untouched : forall p order s t, In t (ps_tasks s) ->
  (forall c, In (c, AbortIt) (vs_of p order) -> mem (pt_id t) (pc_tasks c) = false) ->
  (forall c, In (c, RemoveReady) (vs_of p order) -> mem (pt_id t) (pc_tasks c) = false) ->
  (existsb (fun c => (pc_id c =? pt_change t)%N) (r_changes (prune_with p order s)) = true \/ prune_limit p <= pt_spawn t) ->
  In t (r_tasks (prune_with p order s)).
Proof. exact status_untouched. Qed.
Print Assumptions C09_status_untouched.

(* exactly the unexpired warnings and notices remain *)
Theorem C09_expired_gone : forall p order s x,
  (In x (r_warnings (prune_with p order s)) <-> In x (ps_warnings s) /\ x_last x + x_expire x >= p_now p) /\
  (In x (r_notices (prune_with p order s)) <-> In x (ps_notices s) /\ x_last x + x_expire x >= p_now p).
Proof. exact expired_gone. Qed.
Print Assumptions C09_expired_gone.

(* Prune completes: every change of the visiting order is visited exactly once, every change whose visit decided a
   removal is gone at the end, and the abort has run exactly on the changes whose visit decided it, in visiting order.
   (Before the repair d3068df of /repo this was false: the abort of an old unready change with tasks Do, Done, Done
   panicked in the middle of Prune; that history is kept as regression case 0 of the driver and as C09_abort_regression.) *)
Theorem C09_prune_completes : forall p order s,
  map fst (vs_of p order) = order /\
  (forall c d, In (c, d) (vs_of p order) -> removes d = true -> ~ has_id (r_changes (prune_with p order s)) (pc_id c)) /\
  r_aborted (prune_with p order s) =
    map (fun cd => pc_id (fst cd)) (filter (fun cd => match snd cd with AbortIt => true | _ => false end) (vs_of p order)).
Proof. exact prune_completes. Qed.
Print Assumptions C09_prune_completes.

Theorem C09_abort_regression :
  let r := prune abort_params abort_witness in
  map (fun t => (pt_id t, pt_status t)) (r_tasks r) = [(1, 1); (2, 6); (3, 6)]%N /\ map pc_ready (r_changes r) = [None] /\ r_aborted r = [1%N].
Proof. exact abort_witness_result. Qed.
Print Assumptions C09_abort_regression.

(* ---- the converse directions: what Prune must do *)
(* a finished change that became ready before the prune limit is removed, whatever the ready count *)
Theorem C09_old_ready_removed : forall p order s c r, In c order -> pc_ready c = Some r -> r < prune_limit p ->
  ~ has_id (r_changes (prune_with p order s)) (pc_id c).
Proof. exact old_ready_removed. Qed.
Print Assumptions C09_old_ready_removed.

(* an unready change without tasks, spawned (from the start of operation at the earliest) before the prune limit, is removed *)
Theorem C09_old_empty_removed : forall p order s c, In c order -> pc_ready c = None -> pc_tasks c = [] ->
  clamped_spawn p c < prune_limit p -> ~ has_id (r_changes (prune_with p order s)) (pc_id c).
Proof. exact old_empty_removed. Qed.
Print Assumptions C09_old_empty_removed.

(* an unready change that has existed for the abort period, is not pending, and is not the empty prunable case IS aborted *)
Theorem C09_old_unready_aborted : forall p order s c, In c order -> pc_ready c = None ->
  (pc_tasks c <> [] \/ prune_limit p <= clamped_spawn p c) -> clamped_spawn p c < abort_limit p -> is_pending p c = false ->
  In (pc_id c) (r_aborted (prune_with p order s)).
Proof. exact old_unready_aborted. Qed.
Print Assumptions C09_old_unready_aborted.

(* never more than maxReadyChanges finished changes are kept (for every visiting order, sorted or not) *)
Theorem C09_count_bound : forall p order, 0 <= p_max_ready p ->
  Z.of_nat (length (filter kept_ready (vs_of p order))) <= p_max_ready p.
Proof. exact count_bound. Qed.
Print Assumptions C09_count_bound.

(* a change that stays keeps every task it lists - no dangling task reference after Prune - provided the listing is what
   AddTask establishes (listed tasks exist and are linked back; no task listed by two changes) *)
Theorem C09_kept_change_keeps_tasks : forall p order s c' id, listing_ok order s ->
  In c' (r_changes (prune_with p order s)) -> In id (pc_tasks c') -> In id (map pt_id (r_tasks (prune_with p order s))).
Proof. exact kept_change_keeps_tasks. Qed.
Print Assumptions C09_kept_change_keeps_tasks.

(* ---- Prune as a step of a history: ONE invariant theorem, no hypothesis about the state.
   Histories ([hop], models/Prune.v) interleave NewChange, NewTask (+ AddTask when the change exists), status writes, ready-time
   writes, AddWarning, AddNotice and Prune with any clock and parameters, in any order and number, from the empty state. *)
(* every reachable state satisfies the invariant (distinct change ids; listed tasks exist and are linked back; no task listed
   by two changes), and Prune preserves it *)
Theorem C09_reachable_wf : forall ops, wf (hrun ops).
Proof. exact reachable_wf. Qed.
Print Assumptions C09_reachable_wf.

Theorem C09_prune_preserves_wf : forall p s, wf s -> wf (result_state (prune p s)).
Proof. exact prune_preserves_wf. Qed.
Print Assumptions C09_prune_preserves_wf.

(* after ANY history, for ANY clock and parameters, Prune (1) leaves a state that again satisfies the invariant; (2) removes a
   change only if it was finished and old / over the limit, or empty, unready and old; (3) removes every task of a removed
   finished change and (4) no task listed by a change that stays (no dangling task reference); (5) aborts only unready changes
   past the abort period that are not pending; (6) keeps at most maxReadyChanges finished changes; (7) keeps exactly the
   unexpired warnings and notices (kept iff last + expire >= now) *)
Theorem C09_invariant : forall ops p,
  let s := hrun ops in let order := sort_changes (ps_changes s) in let r := prune p s in
  wf (result_state r) /\
  (forall id, has_id (ps_changes s) id -> ~ has_id (r_changes r) id ->
     exists c count, In c order /\ pc_id c = id /\
       ((exists rd, pc_ready c = Some rd /\ (rd < prune_limit p \/ p_max_ready p < count)) \/
        (pc_ready c = None /\ pc_tasks c = [] /\ clamped_spawn p c < prune_limit p))) /\
  (forall c id, In c order -> pc_ready c <> None -> ~ has_id (r_changes r) (pc_id c) -> mem id (pc_tasks c) = true ->
     ~ In id (map pt_id (r_tasks r))) /\
  (forall c' id, In c' (r_changes r) -> In id (pc_tasks c') -> In id (map pt_id (r_tasks r))) /\
  (forall id, In id (r_aborted r) ->
     exists c, In c order /\ pc_id c = id /\ pc_ready c = None /\ clamped_spawn p c < abort_limit p /\ is_pending p c = false) /\
  (0 <= p_max_ready p -> Z.of_nat (length (filter kept_ready (vs_of p order))) <= p_max_ready p) /\
  (forall x, (In x (r_warnings r) <-> In x (ps_warnings s) /\ x_last x + x_expire x >= p_now p) /\
             (In x (r_notices r) <-> In x (ps_notices s) /\ x_last x + x_expire x >= p_now p)).
Proof. exact prune_invariant. Qed.
Print Assumptions C09_invariant.

(* non-vacuity: a state in which one old finished change goes, with its task; a young one stays; an old unready one is aborted *)
Example C09_example :
  let s := mkPS [mkPC 1 (-1000) (Some (-900)) [1%N] []; mkPC 2 (-50) (Some (-40)) [2%N] []; mkPC 3 (-1000) None [3%N] []]
                [mkPT 1 4 (-1000) 1; mkPT 2 4 (-50) 2; mkPT 3 3 (-1000) 3] [mkExp 1 (-500) 100] [mkExp 1 (-50) 100] in
  let r := prune (mkParams 0 0 None 100 200 5 []) s in
  map pc_id (r_changes r) = [2; 3]%N /\ map (fun t => (pt_id t, pt_status t)) (r_tasks r) = [(2, 4); (3, 5)]%N /\
  r_aborted r = [3%N] /\ r_warnings r = [] /\ length (r_notices r) = 1%nat.
Proof. vm_compute. repeat split; reflexivity. Qed.

(* non-vacuity of the converse theorems and of the count bound: three finished changes, limit 1: the two oldest go although
   none is older than the prune limit; the hypotheses of listing_ok hold of this state *)
Example C09_count_example :
  let s := mkPS [mkPC 1 (-90) (Some (-30)) [1%N] []; mkPC 2 (-90) (Some (-20)) [2%N] []; mkPC 3 (-90) (Some (-10)) [] []]
                [mkPT 1 4 (-90) 1; mkPT 2 4 (-90) 2] [] [] in
  let p := mkParams 0 0 None 100 200 1 [] in
  map pc_id (r_changes (prune p s)) = [3%N] /\ r_tasks (prune p s) = [] /\
  length (filter kept_ready (vs_of p (sort_changes (ps_changes s)))) = 1%nat.
Proof. vm_compute. repeat split; reflexivity. Qed.

(* non-vacuity of the histories: two changes with tasks, one finished long ago; a Prune in the middle removes it with its
   task; the history goes on and a second Prune finds the invariant intact *)
Example C09_history_example :
  let ops := [HNewChange (-1000) []; HNewTask 1 (-1000) 4; HSetReady 1 (Some (-900)); HNewChange (-50) []; HNewTask 2 (-50) 2;
              HPrune (mkParams 0 0 None 100 200 5 []); HNewTask 2 (-10) 2; HNewChange (-5) []; HPrune (mkParams 0 0 None 100 200 5 [])] in
  map pc_id (ps_changes (hrun ops)) = [2; 3]%N /\ map pc_tasks (ps_changes (hrun ops)) = [[2; 3]; []]%N /\
  map pt_id (ps_tasks (hrun ops)) = [2; 3]%N.
Proof. vm_compute. repeat split; reflexivity. Qed.
