(* C02 — tasks never start before the tasks they wait for have finished.
   This file holds the property theorems only: statement, `exact <lemma>`, Print Assumptions.
   Model: models/TaskEngine.v (overlord/state taskrunner.go / task.go / change.go function by function).
   An execution is an arbitrary list of events  Ensure order | Finish t outcome | UAbort | Tick d | Resolve t
   applied to the initial state of an arbitrary task graph g (no well-formedness assumption is needed below).
   The engine state carries the log of handler starts; every entry records the statuses of the prerequisites
   (wait tasks for a do handler, halt tasks for an undo handler) at the instant of the start. *)
From Coq Require Import List NArith ZArith Bool.
Import ListNotations.
Require Import V.models.TaskEngine V.proofs.TaskEngineProofs V.proofs.TaskEngineReady V.proofs.TaskEngineDoing V.proofs.TaskEngineFuel V.proofs.TaskEngineLive.

(* Every handler start in every execution: the schedule gate was open (not before Task.atTime), and when the start
   is a fresh one (the Do->Doing or Undo->Undoing write) a do handler saw all its wait tasks Done and an undo handler
   saw all its halt tasks ready. *)
Theorem C02_fresh_start_requires_prereqs : forall (g : list tdesc) (es : list event),
  Forall (fun r : start_rec =>
            sr_gate r = true /\
            (sr_fresh r = true ->
             if sr_undo r then forallb ready (sr_pre r) = true
             else forallb (fun x => seqb x Done) (sr_pre r) = true))
         (slog (run_events (init_state g) es)).
Proof. exact start_log_ok. Qed.
Print Assumptions C02_fresh_start_requires_prereqs.

(* Do side, EVERY start (fresh or re-run). A task left in Doing by Retry is started again without a status write and
   without consulting mustWait; it still sees all its wait tasks Done, because in every reachable state a task in
   Doing has all wait tasks Done: an abort that moves a wait task Done->Undo also moves every task waiting on it
   Doing->Abort (worklist closure of abortTasks under halt edges). Over every non-empty graph and every event list in
   which user aborts are issued on unready changes only (guarded: the REST API's rule, the property's quantifier).
   No fuel hypothesis any more: the model's fuel bounds are never hit (C01_abort_fuel / TaskEngineFuel.oof_never). *)
Theorem C02_rerun_do_sees_prereqs_done : forall (g : list tdesc) (es : list event),
  g <> [] -> guarded (init_state g) es ->
  let s := run_events (init_state g) es in
  (forall t w, st s t = Doing -> In w (t_waits (get s t)) -> st s w = Done) /\
  Forall (fun r : start_rec => sr_undo r = false -> forallb (fun x => seqb x Done) (sr_pre r) = true) (slog s).
Proof. exact doing_prereqs_done_total. Qed.
Print Assumptions C02_rerun_do_sees_prereqs_done.

(* Undo side, re-runs: KNOWN FINDING undo-rerun-sees-handlerless-dependent-in-undo. The literal statement `every
   start of an undo handler, fresh or not, saw all halt tasks ready` is FALSE of the faithful model when a halt task
   has no undo handler (for fresh starts it is proved above): *)
Theorem C02_undo_rerun_refuted : exists (g : list tdesc) (es : list event),
  oof (run_events (init_state g) es) = false /\ panicked (run_events (init_state g) es) = false /\
  exists r, In r (slog (run_events (init_state g) es)) /\ sr_undo r = true /\ forallb ready (sr_pre r) = false.
Proof. exact undo_rerun_witness. Qed.
Print Assumptions C02_undo_rerun_refuted.

(* Ensure never starts a task whose scheduled time lies in the future ... *)
Theorem C02_at_time_gate : forall (s : state) (t : nat),
  gate_open s t = false -> running (ensure_one s t) = running s.
Proof. exact ensure_one_gate. Qed.
Print Assumptions C02_at_time_gate.

(* ... and Retry{After: d} from a handler whose task was not aborted schedules the task at now + d *)
Theorem C02_retry_schedules : forall (s : state) (t : nat) (d : Z),
  panicked s = false -> memn t (running s) = true -> t < length (tasks s) -> st s t <> Abort -> d <> 0%Z ->
  t_at (get (finish s t (ORetry d)) t) = (now s + d)%Z.
Proof. exact retry_sets_at. Qed.
Print Assumptions C02_retry_schedules.

(* a task in Do with a prerequisite that is not Done - in particular one in Wait (reboot pending) - is not touched by
   Ensure; it can only start after Resolve has given the prerequisite its waited status Done *)
Theorem C02_wait_blocks : forall (s : state) (t w : nat),
  st s t = Do -> In w (t_waits (get s t)) -> st s w <> Done -> ensure_one s t = s.
Proof. exact ensure_one_blocked. Qed.
Print Assumptions C02_wait_blocks.

(* a task in Undo with a halt task that is still pending or running is not touched by Ensure *)
Theorem C02_undo_blocks : forall (s : state) (t h : nat),
  st s t = Undo -> In h (t_halts (get s t)) -> ready (st s h) = false -> ensure_one s t = s.
Proof. exact ensure_one_undo_blocked. Qed.
Print Assumptions C02_undo_blocks.

(* non-vacuity: a chain 0 <- 1 <- 2 in which task 2 fails; the log has five entries, three do starts and two undo
   starts with non-empty prerequisite snapshots *)
Example C02_nonvacuous :
  let g := [([], [], true); ([], [0], true); ([], [1], true)] in
  let es := [Ensure [0;1;2]; Finish 0 OOk; Ensure [2;1;0]; Finish 1 OOk; Ensure [0;1;2]; Finish 2 OErr;
             Ensure [0;1;2]; Finish 1 OOk; Ensure [0;1;2]] in
  map (fun r => (sr_t r, sr_undo r, sr_pre r)) (slog (run_events (init_state g) es))
  = [(0, true, [Undone]); (1, true, [Error]); (2, false, [Done]); (1, false, [Done]); (0, false, [])].
Proof. vm_compute. reflexivity. Qed.
