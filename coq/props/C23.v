(* placeholder while the driver is being built *)
Require Import V.models.SyncDir.
Theorem C23_placeholder : True. Proof. exact I. Qed.
Print Assumptions C23_placeholder.
