(* C23 — security profile files are synchronised exactly and fail closed.
   Property theorems only: statement, `exact <lemma>`, Print Assumptions. Model: models/SyncDir.v
   (osutil/syncdir.go EnsureDirStateGlobs / EnsureDirState / EnsureFileState, function by function).
   Every theorem is for EVERY glob predicate mt, umask um, outside table out, directory d (unique names), desired
   content (unique names, = a Go map), in EVERY visiting order (content is a list) and with EVERY failure point
   (each entry carries which of its State() calls fails; directories in the way are part of d). *)
From Coq Require Import List NArith Bool Permutation Sorted String.
Import ListNotations.
Require Import V.lib.Bytes V.models.SyncDir V.proofs.SyncDirProofs V.models.SyncTree V.proofs.SyncTreeProofs.
Open Scope N_scope.

(* success: (1) names not matching the globs are untouched; (2) a matching name exists afterwards iff it is desired,
   and it then is either the entry that was already in the desired state or the freshly written one;
   (3) `changed` is exactly the desired names that were not in the desired state; (4) `removed` is exactly the
   matching, not desired names that existed; (5) both lists sorted and duplicate free *)
Theorem C23_success_exact : forall mt um out d content, NoDup (names d) -> NoDup (names content) ->
  let r := ensure_dir_state mt um out d content in
  r_err r = false ->
  (forall n, mt n = false -> lookup (r_dir r) n = lookup d n)
  /\ (forall n, mt n = true ->
        match lookup content n with
        | None => lookup (r_dir r) n = None
        | Some ds => exists v, lookup (r_dir r) n = Some v /\
                     ((lookup d n = Some v /\ in_state out (Some v) ds = true) \/
                      (v = written um ds /\ in_state out (lookup d n) ds = false))
        end)
  /\ (forall n, In n (r_changed r) <-> exists ds, lookup content n = Some ds /\ in_state out (lookup d n) ds = false)
  /\ (forall n, In n (r_removed r) <-> mt n = true /\ lookup content n = None /\ lookup d n <> None)
  /\ StronglySorted le (r_changed r) /\ NoDup (r_changed r)
  /\ StronglySorted le (r_removed r) /\ NoDup (r_removed r).
Proof. exact success_exact. Qed.
Print Assumptions C23_success_exact.

(* ... so, when the umask clears no desired permission bit, every desired name reads as the desired content and
   permission bits (regular file, opened the way the code opens it) or is the desired symlink *)
Theorem C23_success_desired_state : forall mt um out d content, NoDup (names d) -> NoDup (names content) ->
  umask_ok um content = true -> r_err (ensure_dir_state mt um out d content) = false ->
  forall n ds, lookup content n = Some ds ->
  exists v, lookup (r_dir (ensure_dir_state mt um out d content)) n = Some v /\ reads_as out v ds = true.
Proof. exact success_desired_state. Qed.
Print Assumptions C23_success_desired_state.

(* fail closed: if the change phase fails, an error is returned, nothing is reported changed, and afterwards every
   matching name is gone except non-empty directories that were already there (os.Remove cannot remove them);
   non-matching names are untouched; `removed` only lists names that are gone and lists every initially present one *)
Theorem C23_fail_closed : forall mt um out d content, NoDup (names d) -> NoDup (names content) ->
  let r := ensure_dir_state mt um out d content in
  r_wfail r = true ->
  r_err r = true /\ r_changed r = []
  /\ (forall n, lookup (r_dir r) n = if mt n then stuck (lookup d n) else lookup d n)
  /\ (forall n, In n (r_removed r) -> mt n = true /\ lookup (r_dir r) n = None)
  /\ (forall n, mt n = true -> lookup d n <> None -> lookup (r_dir r) n = None -> In n (r_removed r))
  /\ StronglySorted le (r_removed r) /\ NoDup (r_removed r).
Proof. exact fail_closed. Qed.
Print Assumptions C23_fail_closed.

(* the change phase fails exactly when SOME desired entry cannot be ensured against the initial directory, whichever
   position it has in the visiting order ... *)
Theorem C23_failure_points : forall mt um out d content, NoDup (names d) -> NoDup (names content) -> valid_input mt content = true ->
  (r_wfail (ensure_dir_state mt um out d content) = true <->
   exists n ds, In (n, ds) content /\ efs um out (lookup d n) ds = FErr).
Proof. exact failure_points. Qed.
Print Assumptions C23_failure_points.

(* ... and an entry cannot be ensured when its first or second State() call fails, its type is unsupported, a directory
   is in the way, or the third State() call fails while the name is not already in the desired state *)
Theorem C23_entry_failures : forall um out cur ds,
  (failat ds = 1 \/ failat ds = 2 \/ (exists f, ds = DBad f) \/ (exists e, cur = Some (Dir e))
   \/ (failat ds = 3 /\ in_state out cur ds = false)) -> efs um out cur ds = FErr.
Proof. exact efs_fails. Qed.
Print Assumptions C23_entry_failures.

(* invalid input (path component in a name, name matching no glob) is rejected before anything is touched *)
Theorem C23_bad_input_no_effect : forall mt um out d content, valid_input mt content = false ->
  ensure_dir_state mt um out d content = mkResult d [] [] true false.
Proof. exact bad_input_no_effect. Qed.
Print Assumptions C23_bad_input_no_effect.

(* the order in which the content map is visited does not matter: same final directory, same changed list, same
   error verdict; same removed list unless the change phase failed (then files written before the failure are listed) *)
Theorem C23_order_independent : forall mt um out d content content', NoDup (names d) -> NoDup (names content) ->
  Permutation content content' ->
  let r := ensure_dir_state mt um out d content in let r' := ensure_dir_state mt um out d content' in
  (forall n, lookup (r_dir r) n = lookup (r_dir r') n)
  /\ r_changed r = r_changed r' /\ r_err r = r_err r' /\ r_wfail r = r_wfail r'
  /\ (r_wfail r = false -> r_removed r = r_removed r').
Proof. exact order_independent. Qed.
Print Assumptions C23_order_independent.

(* ================================================================== tree variant: osutil.EnsureTreeState (synctree.go)
   Model: models/SyncTree.v. `foe t q` = the files of directory q of tree t (none if q does not exist), `R ... t q` = the
   per-directory call EnsureDirStateGlobs(q, globs, content[q]) on q's initial files, ord1 / ord2 = the orders in which the
   two `range subdirs` loops visit the directories. For EVERY tree with unique names per directory, content, glob
   predicate, orders and failure point. *)

(* success: the tree call IS the per-directory call on every visited directory (so C23_success_exact,
   C23_success_desired_state apply to each `R t q`), directories not visited keep their files, and changed / removed are
   the sorted unions of the per-directory lists joined with the directory path *)
Theorem C23_tree_success_exact : forall mt um out content t ord1 ord2, NoDup ord1 -> WfC content -> (forall q, NoDup (names (foe t q))) ->
  t_err (ensure_tree_state mt um out content t ord1 ord2) = false ->
  (forall q, In q ord1 -> foe (t_tree (ensure_tree_state mt um out content t ord1 ord2)) q = r_dir (R mt um out content t q)
                          /\ r_err (R mt um out content t q) = false)
  /\ (forall q, ~ In q ord1 -> foe (t_tree (ensure_tree_state mt um out content t ord1 ord2)) q = foe t q)
  /\ t_changed (ensure_tree_state mt um out content t ord1 ord2) = sort (flat_map (fun q => map (join q) (r_changed (R mt um out content t q))) ord1)
  /\ t_removed (ensure_tree_state mt um out content t ord1 ord2) = sort (flat_map (fun q => map (join q) (r_removed (R mt um out content t q))) ord1).
Proof. exact tree_success. Qed.
Print Assumptions C23_tree_success_exact.

(* the tree call fails exactly when the per-directory call of SOME visited directory fails, wherever it is in the order *)
Theorem C23_tree_failure_points : forall mt um out content t ord1 ord2, NoDup ord1 -> WfC content -> (forall q, NoDup (names (foe t q))) ->
  valid_tree_input mt content = true ->
  (t_err (ensure_tree_state mt um out content t ord1 ord2) = true <-> exists q, In q ord1 /\ r_err (R mt um out content t q) = true).
Proof. exact tree_failure_points. Qed.
Print Assumptions C23_tree_failure_points.

(* fail closed ACROSS directories: when any directory fails, nothing is reported changed; in every directory the erase
   pass visits (ord2: all sub-directories, also those synchronised successfully before the failure and those not reached)
   no entry matching the globs is left unless os.Remove cannot remove it; non-matching files are untouched everywhere;
   directories visited by neither loop keep their files *)
Theorem C23_tree_fail_closed : forall mt um out content t ord1 ord2, NoDup ord1 -> WfC content -> (forall q, NoDup (names (foe t q))) ->
  valid_tree_input mt content = true -> t_err (ensure_tree_state mt um out content t ord1 ord2) = true ->
  t_changed (ensure_tree_state mt um out content t ord1 ord2) = []
  /\ (forall q n, mt n = false -> file_at (t_tree (ensure_tree_state mt um out content t ord1 ord2)) q n = file_at t q n)
  /\ (forall q n v, In q ord2 -> mt n = true -> file_at (t_tree (ensure_tree_state mt um out content t ord1 ord2)) q n = Some v -> removable v = false)
  /\ (forall q, ~ In q ord1 -> ~ In q ord2 -> foe (t_tree (ensure_tree_state mt um out content t ord1 ord2)) q = foe t q).
Proof. exact tree_fail_closed. Qed.
Print Assumptions C23_tree_fail_closed.

(* a directory path with a component matching the globs, or a bad file name, is rejected before anything is touched *)
Theorem C23_tree_bad_input_no_effect : forall mt um out content t ord1 ord2, valid_tree_input mt content = false ->
  ensure_tree_state mt um out content t ord1 ord2 = mkT t [] [] true.
Proof. exact tree_bad_input_no_effect. Qed.
Print Assumptions C23_tree_bad_input_no_effect.

(* ================================================================== the property's wording, as corollaries *)

(* "If any write fails, none of the snap's managed files remain (provided removal itself succeeds)": when nothing in the
   directory is a non-empty directory, a failed change phase - whichever entry and whichever of its State() calls it is,
   see C23_failure_points - leaves NO entry under the managed names *)
Theorem C23_fail_closed_all_gone : forall mt um out d content, NoDup (names d) -> NoDup (names content) ->
  (forall n v, lookup d n = Some v -> removable v = true) ->
  r_wfail (ensure_dir_state mt um out d content) = true ->
  forall n, mt n = true -> lookup (r_dir (ensure_dir_state mt um out d content)) n = None.
Proof. exact fail_closed_all_gone. Qed.
Print Assumptions C23_fail_closed_all_gone.

(* permissions: a file that differs from the desired one ONLY in its permission bits is rewritten with the desired bits
   (minus the umask) and reported changed; with equal bits and content it is left alone and not reported *)
Theorem C23_mode_only_difference : forall mt um out d content n c m m' f, NoDup (names d) -> NoDup (names content) ->
  r_err (ensure_dir_state mt um out d content) = false ->
  lookup content n = Some (DReg c m f) -> lookup d n = Some (Reg c m') ->
  (perm m <> perm m' ->
     In n (r_changed (ensure_dir_state mt um out d content))
     /\ lookup (r_dir (ensure_dir_state mt um out d content)) n = Some (Reg c (N.ldiff (perm m) um)))
  /\ (perm m = perm m' ->
     ~ In n (r_changed (ensure_dir_state mt um out d content))
     /\ lookup (r_dir (ensure_dir_state mt um out d content)) n = Some (Reg c m')).
Proof. exact mode_only_difference. Qed.
Print Assumptions C23_mode_only_difference.

(* tree, file by file: on success the files matching the globs in every visited directory are exactly the desired ones, every
   other file of the tree is untouched *)
Theorem C23_tree_success_files : forall mt um out content t ord1 ord2, NoDup ord1 -> WfC content -> (forall q, NoDup (names (foe t q))) ->
  t_err (ensure_tree_state mt um out content t ord1 ord2) = false ->
  forall q n,
  (mt n = false -> file_at (t_tree (ensure_tree_state mt um out content t ord1 ord2)) q n = file_at t q n)
  /\ (In q ord1 -> mt n = true ->
      match lookup (content_of content q) n with
      | None => file_at (t_tree (ensure_tree_state mt um out content t ord1 ord2)) q n = None
      | Some ds => exists v, file_at (t_tree (ensure_tree_state mt um out content t ord1 ord2)) q n = Some v /\
                   ((file_at t q n = Some v /\ in_state out (Some v) ds = true) \/
                    (v = written um ds /\ in_state out (file_at t q n) ds = false))
      end).
Proof. exact tree_success_files. Qed.
Print Assumptions C23_tree_success_files.

(* tree: the reported lists are exact (paths = directory joined with the file name) and sorted *)
Theorem C23_tree_lists_exact : forall mt um out content t ord1 ord2, NoDup ord1 -> WfC content -> (forall q, NoDup (names (foe t q))) ->
  t_err (ensure_tree_state mt um out content t ord1 ord2) = false ->
  (forall x, In x (t_changed (ensure_tree_state mt um out content t ord1 ord2)) <->
     exists q n ds, In q ord1 /\ x = join q n /\ lookup (content_of content q) n = Some ds /\ in_state out (file_at t q n) ds = false)
  /\ (forall x, In x (t_removed (ensure_tree_state mt um out content t ord1 ord2)) <->
     exists q n, In q ord1 /\ x = join q n /\ mt n = true /\ lookup (content_of content q) n = None /\ file_at t q n <> None)
  /\ StronglySorted le (t_changed (ensure_tree_state mt um out content t ord1 ord2))
  /\ StronglySorted le (t_removed (ensure_tree_state mt um out content t ord1 ord2)).
Proof. exact tree_lists_exact. Qed.
Print Assumptions C23_tree_lists_exact.

(* tree, every failure index: with only removable entries in the tree, the call fails (and then is fail closed,
   C23_tree_fail_closed) exactly when SOME desired entry of SOME visited directory cannot be ensured *)
Theorem C23_tree_failure_index : forall mt um out content t ord1 ord2, NoDup ord1 -> WfC content -> (forall q, NoDup (names (foe t q))) ->
  (forall q n v, file_at t q n = Some v -> removable v = true) ->
  valid_tree_input mt content = true ->
  (t_err (ensure_tree_state mt um out content t ord1 ord2) = true <->
   exists q n ds, In q ord1 /\ In (n, ds) (content_of content q) /\ efs um out (file_at t q n) ds = FErr).
Proof. exact tree_failure_index. Qed.
Print Assumptions C23_tree_failure_index.

(* ------------------------------------------------------------------ non-vacuity: the hypotheses are met by concrete runs *)
Local Open Scope string_scope.
Definition ex_mt := match_any [bs "snap.foo.*"].
Definition ex_dir := [(bs "snap.foo.a", Reg (bs "old") 420); (bs "snap.foo.gone", Reg (bs "x") 420);
                      (bs "snap.bar.a", Reg (bs "other") 420); (bs "snap.foo.d", Dir true)].
Example C23_ex_success :
  let r := ensure_dir_state ex_mt 18 [] (firstn 3 ex_dir) [(bs "snap.foo.a", DReg (bs "new") 420 0); (bs "snap.foo.b", DSym (bs "t") 0)] in
  r_err r = false /\ r_changed r = [bs "snap.foo.a"; bs "snap.foo.b"] /\ r_removed r = [bs "snap.foo.gone"]
  /\ lookup (r_dir r) (bs "snap.foo.a") = Some (Reg (bs "new") 420) /\ lookup (r_dir r) (bs "snap.bar.a") = Some (Reg (bs "other") 420).
Proof. vm_compute. repeat split. Qed.
Example C23_ex_fail_closed :
  let r := ensure_dir_state ex_mt 18 [] ex_dir [(bs "snap.foo.b", DReg (bs "new") 420 0); (bs "snap.foo.a", DReg (bs "new") 420 3)] in
  r_wfail r = true /\ r_changed r = [] /\ r_removed r = [bs "snap.foo.a"; bs "snap.foo.b"; bs "snap.foo.gone"]
  /\ names (r_dir r) = [bs "snap.bar.a"; bs "snap.foo.d"].
Proof. vm_compute. repeat split. Qed.
Example C23_ex_nodup : NoDup (names ex_dir) /\ umask_ok 18 [(bs "snap.foo.a", DReg (bs "new") 420 0)] = true.
Proof. split; [|reflexivity]. repeat constructor; cbn; intuition discriminate. Qed.

(* tree: a failure in directory b erases what was written in a, the stale file in a/x, and the emptied directories *)
Definition ex_tree : tree := [([], []); ([bs "a"], []); ([bs "a"; bs "x"], [(bs "snap.foo.old", Reg (bs "o") 420)]); ([bs "b"], [(bs "keep", Reg (bs "k") 420)])].
Definition ex_tcontent := [([bs "a"], [(bs "snap.foo.a", DReg (bs "new") 420 0)]); ([bs "b"], [(bs "snap.foo.b", DReg (bs "new") 420 3)])].
Definition ex_ord := [[bs "a"]; [bs "b"]; []; [bs "a"; bs "x"]].
Example C23_ex_tree_fail_closed :
  let r := ensure_tree_state ex_mt 18 [] ex_tcontent ex_tree ex_ord ex_ord in
  t_err r = true /\ t_changed r = [] /\ t_removed r = [bs "a/snap.foo.a"; bs "a/x/snap.foo.old"]
  /\ t_tree r = [([], []); ([bs "b"], [(bs "keep", Reg (bs "k") 420)])].
Proof. vm_compute. repeat split. Qed.
Example C23_ex_tree_success :
  let r := ensure_tree_state ex_mt 18 [] [([bs "a"], [(bs "snap.foo.a", DReg (bs "new") 420 0)])] ex_tree ex_ord ex_ord in
  t_err r = false /\ t_changed r = [bs "a/snap.foo.a"] /\ t_removed r = [bs "a/x/snap.foo.old"]
  /\ file_at (t_tree r) [bs "a"] (bs "snap.foo.a") = Some (Reg (bs "new") 420) /\ tlookup (t_tree r) [bs "a"; bs "x"] = None.
Proof. vm_compute. repeat split. Qed.

(* mode-only difference: same content, 0600 instead of 0644: rewritten and reported; an identical file is not *)
Example C23_ex_mode_only :
  let d := [(bs "snap.foo.a", Reg (bs "same") 384); (bs "snap.foo.b", Reg (bs "same") 420)] in
  let r := ensure_dir_state ex_mt 18 [] d [(bs "snap.foo.a", DReg (bs "same") 420 0); (bs "snap.foo.b", DReg (bs "same") 420 0)] in
  r_err r = false /\ r_changed r = [bs "snap.foo.a"] /\ r_removed r = []
  /\ lookup (r_dir r) (bs "snap.foo.a") = Some (Reg (bs "same") 420).
Proof. vm_compute. repeat split. Qed.
(* every failing write index of a three-entry content: nothing managed is left, the unrelated file stays *)
Example C23_ex_every_failure_index :
  let d := [(bs "snap.foo.a", Reg (bs "o") 420); (bs "snap.bar.a", Reg (bs "u") 420)] in
  let c k := [(bs "snap.foo.a", DReg (bs "n") 420 (if N.eqb k 0 then 3 else 0)); (bs "snap.foo.b", DReg (bs "n") 420 (if N.eqb k 1 then 3 else 0));
              (bs "snap.foo.c", DSym (bs "t") (if N.eqb k 2 then 3 else 0))] in
  forallb (fun k => let r := ensure_dir_state ex_mt 18 [] d (c k) in
                    r_wfail r && is_nil_b (r_changed r) && names_eqb (names (r_dir r)) [bs "snap.bar.a"]) [0; 1; 2] = true.
Proof. vm_compute. reflexivity. Qed.
