(* C05 — persisted state reloads to the same state; identifiers are never reused.
   This file holds the property theorems only: statement, `exact <lemma>`, Print Assumptions.
   Model: models/StatePersist.v (overlord/state state.go, task.go, change.go, notices.go, warning.go). *)
From Coq Require Import String List NArith ZArith Bool.
Import ListNotations.
Require Import V.lib.Bytes V.models.StatePersist V.gen.PersistFields V.proofs.StatePersistProofs.
Open Scope N_scope.

(* Over EVERY operation sequence (new change/task/lane, edges, data, status changes with any engine side effects,
   notices, warnings, prunes removing anything, save/load at any wall-clock readings, in any order and number) started
   from ANY state: per kind (change, task, lane, notice) the identifiers handed out are strictly increasing, every one
   of them is strictly greater than the counter of the start state and at most the counter of the final state. *)
Theorem C05_ids_never_reused : forall (ops : list op) (k : kind) (s s' : state) (iss : issued) (befores : list state),
  run s ops = (s', iss, befores) ->
  strictly_increasing_from (ctr k s) (ids_of_kind (kn k) iss) = true /\
  Forall (fun i => ctr k s < i /\ i <= ctr k s') (ids_of_kind (kn k) iss).
Proof. exact ids_never_reused. Qed.
Print Assumptions C05_ids_never_reused.

(* ... hence an identifier handed out after any point of a history — in particular after a reload — is greater than
   (so never equal to) every identifier of the same kind handed out before that point *)
Theorem C05_ids_after_reload_are_new : forall ops1 ops2 k s s1 i1 b1 s2 i2 b2 n1 n2,
  run s ops1 = (s1, i1, b1) -> run (reload n2 (persist n1 s1)) ops2 = (s2, i2, b2) ->
  forall x y, In x (ids_of_kind (kn k) i1) -> In y (ids_of_kind (kn k) i2) -> x < y.
Proof. exact ids_after_reload_are_new. Qed.
Print Assumptions C05_ids_after_reload_are_new.

(* no object of the state ever carries an identifier above its counter (so a fresh identifier is not the identifier of
   any change, task or notice still present — also after prunes and reloads) *)
Theorem C05_objects_below_counters : forall ops s s' iss befores, run s ops = (s', iss, befores) -> wf s -> wf s'.
Proof. exact wf_run. Qed.
Print Assumptions C05_objects_below_counters.

(* a save at wall clock n1 followed by a load at n2 >= n1 gives back the state, except that (documented in the code)
   a task's waited status Default becomes Done, warnings/notices that have expired at n2 are dropped, and (not
   documented: see C05_roundtrip_null_refuted) data entries whose JSON value is null are dropped *)
Theorem C05_reload_is_normalize : forall (n1 n2 : Z) (s : state), (n1 <= n2)%Z -> reload n2 (persist n1 s) = normalize n2 s.
Proof. exact reload_persist. Qed.
Print Assumptions C05_reload_is_normalize.

Theorem C05_second_reload_changes_nothing : forall now s, normalize now (normalize now s) = normalize now s.
Proof. exact normalize_idempotent. Qed.
Print Assumptions C05_second_reload_changes_nothing.

(* nothing lost, nothing duplicated: same changes and tasks in the same order, same statuses, edges, lanes, counters *)
Theorem C05_no_loss_no_dup : forall n1 n2 s, (n1 <= n2)%Z ->
  let s' := reload n2 (persist n1 s) in
  map c_id (s_changes s') = map c_id (s_changes s) /\ map c_tasks (s_changes s') = map c_tasks (s_changes s) /\
  map t_id (s_tasks s') = map t_id (s_tasks s) /\ map t_status (s_tasks s') = map t_status (s_tasks s) /\
  map t_waits (s_tasks s') = map t_waits (s_tasks s) /\ map t_halts (s_tasks s') = map t_halts (s_tasks s) /\
  map t_lanes (s_tasks s') = map t_lanes (s_tasks s) /\ map t_change (s_tasks s') = map t_change (s_tasks s) /\
  s_last_change s' = s_last_change s /\ s_last_task s' = s_last_task s /\ s_last_lane s' = s_last_lane s /\
  s_last_notice s' = s_last_notice s /\ s_lnts s' = s_lnts s.
Proof. exact reload_no_loss_no_dup. Qed.
Print Assumptions C05_no_loss_no_dup.

(* the round trip as ONE equation over the whole state: load (save s) = s - every persisted field of every change, task
   (status, waited status, clean, progress, data, wait/halt edges, lanes, log, change link, spawn/ready/doing/undoing/at times),
   warning and notice, the state data and the four counters and the last-notice time stamp - for every state that is canonical
   for the load clock: no data value that is the JSON literal null (the recorded finding, carved out exactly by this
   hypothesis), no task whose waited status is still Default (the documented default-to-Done on load), no expired warning or
   notice (dropped by design). The runtime-only fields are not part of [state] (C05_codec_fields_complete accounts for them). *)
Theorem C05_roundtrip_exact : forall n1 n2 s, (n1 <= n2)%Z -> canonical n2 s -> reload n2 (persist n1 s) = s.
Proof. exact roundtrip_exact. Qed.
Print Assumptions C05_roundtrip_exact.

(* every state that comes out of a load is canonical, whatever was saved ... *)
Theorem C05_reload_canonical : forall n1 n2 s, (n1 <= n2)%Z -> canonical n2 (reload n2 (persist n1 s)).
Proof. exact reload_canonical. Qed.
Print Assumptions C05_reload_canonical.

(* ... so from the first reload on save/load is the identity (as long as nothing expires in between) *)
Theorem C05_reload_fixed_point : forall n1 n2 n3 n4 s, (n1 <= n2)%Z -> (n2 <= n3)%Z -> (n3 <= n4)%Z ->
  Forall (fun w => warning_expired n4 w = false) (s_warnings (reload n2 (persist n1 s))) ->
  Forall (fun n => notice_expired n4 n = false) (s_notices (reload n2 (persist n1 s))) ->
  reload n4 (persist n3 (reload n2 (persist n1 s))) = reload n2 (persist n1 s).
Proof. exact reload_fixed_point. Qed.
Print Assumptions C05_reload_fixed_point.

(* the notices are a map keyed by (user id present and value, type, key) - noticeKey in Go. A reload preserves the MAP KEYS:
   the reloaded notices carry exactly the keys of the unexpired saved ones, pairwise distinct if they were; and over every op
   sequence with reloads and prunes anywhere no two notices of the state ever share a key - so an occurrence of
   (user, type, key) after a reload bumps the existing notice instead of creating a second one, and a public notice and a
   notice of user 0 with the same type and key stay two notices *)
Theorem C05_roundtrip_notice_keys : forall n1 n2 s, (n1 <= n2)%Z ->
  map nkey (s_notices (reload n2 (persist n1 s))) = map nkey (filter (fun n => negb (notice_expired n2 n)) (s_notices s)) /\
  (keys_unique s -> keys_unique (reload n2 (persist n1 s))).
Proof. exact roundtrip_notice_keys. Qed.
Print Assumptions C05_roundtrip_notice_keys.

Theorem C05_notice_keys_unique : forall ops s s' iss befores, run s ops = (s', iss, befores) -> keys_unique s -> keys_unique s'.
Proof. exact keys_unique_run. Qed.
Print Assumptions C05_notice_keys_unique.

(* the statement the driver monitors on the implementation (every persisted field equal, waited status up to
   Default = Done, unexpired notices and warnings) holds of the model for every state without null data values *)
Theorem C05_roundtrip_observable : forall s, state_no_null s -> reload_ok (s, reload 0 (persist 0 s)) = true.
Proof. exact reload_ok_model. Qed.
Print Assumptions C05_roundtrip_observable.

(* ... and without that hypothesis the full statement is false of the faithful model (KNOWN_FINDINGS key data-json-null;
   replayed on the implementation on every run): a value set to a typed nil pointer is visible through Has/Get before the
   save and gone after the load *)
Theorem C05_roundtrip_null_refuted : exists s, reload_ok (s, reload 0 (persist 0 s)) = false.
Proof. exists null_witness. exact null_data_not_roundtrip. Qed.
Print Assumptions C05_roundtrip_null_refuted.

(* the model's histories satisfy the monitored identifier condition *)
Theorem C05_ids_monitor_holds : forall ops s' iss befores, run empty_state ops = (s', iss, befores) -> ids_ok iss = true.
Proof. exact ids_ok_model. Qed.
Print Assumptions C05_ids_monitor_holds.

(* tie to the source text, re-checked on every run against the regenerated gen/PersistFields.v: for State, Task,
   Change, Notice and Warning every field of the Go struct is either in the model's record or on the runtime-only
   list; there is one marshalled field per persisted field; MarshalJSON writes every marshalled field and reads every
   persisted one; UnmarshalJSON reads every marshalled field and assigns every persisted one *)
Theorem C05_codec_fields_complete :
  codec_complete State_struct_fields State_m_fields State_marshal_written State_marshal_reads State_unmarshal_reads
    State_unmarshal_assigns state_persisted state_runtime state_sources state_dests = true /\
  codec_complete Task_struct_fields Task_m_fields Task_marshal_written Task_marshal_reads Task_unmarshal_reads
    Task_unmarshal_assigns task_persisted task_runtime task_persisted task_persisted = true /\
  codec_complete Change_struct_fields Change_m_fields Change_marshal_written Change_marshal_reads Change_unmarshal_reads
    Change_unmarshal_assigns change_persisted change_runtime change_persisted change_persisted = true /\
  codec_complete Notice_struct_fields Notice_m_fields Notice_marshal_written Notice_marshal_reads Notice_unmarshal_reads
    Notice_unmarshal_assigns notice_persisted [] notice_persisted notice_persisted = true /\
  codec_complete Warning_struct_fields Warning_m_fields Warning_marshal_written Warning_marshal_reads
    Warning_unmarshal_reads Warning_unmarshal_assigns warning_persisted [] warning_persisted warning_persisted = true.
Proof. exact codec_fields_complete. Qed.
Print Assumptions C05_codec_fields_complete.

(* non-vacuity: a concrete history with a prune and a reload in the middle; identifiers 1,2 then 3 for changes *)
Example C05_example_history :
  let ops := [ONewChange (bs "install") (bs "s") 5%Z; ONewTask (bs "t") (bs "s") 5%Z; OAddTask 1 1;
              OSetStatus 1 4 6%Z (mkEff true 1 4); ONewChange (bs "x") (bs "y") 7%Z; OPrune [1] [1] [] [];
              OReload 0 0; ONewChange (bs "z") (bs "w") 8%Z; ONewTask (bs "t") (bs "s") 9%Z] in
  let '(s', iss, befores) := run empty_state ops in
  ids_of_kind 0 iss = [1; 2; 3] /\ ids_of_kind 1 iss = [1; 2] /\ ids_of_kind 3 iss = [1; 2; 3] /\
  map c_id (s_changes s') = [2; 3] /\ length befores = 1%nat.
Proof. vm_compute. repeat split; reflexivity. Qed.

Example C05_wf_satisfiable : wf empty_state.
Proof. exact wf_empty. Qed.

Example C05_no_null_satisfiable : state_no_null (mkState [(bs "k", bs "1")] [] [] [] [] 0 0 0 0 None).
Proof.
  repeat split; try constructor. intros e [E|[]]. subst e. reflexivity.
Qed.

(* non-vacuity: the same notice of user 1000 before and after a reload is one notice with two occurrences; the public notice
   and the notice of user 0 with the same type and key are two *)
Example C05_notice_keys_example :
  let ops := [OAddNotice (Some 1000) (nt 1) (bs "1") [] 0%Z None 5%Z; OAddNotice None (nt 1) (bs "1") [] 0%Z None 6%Z;
              OAddNotice (Some 0) (nt 1) (bs "1") [] 0%Z None 7%Z; OReload 0 0; OAddNotice (Some 1000) (nt 1) (bs "1") [] 0%Z None 8%Z] in
  let '(s', iss, _) := run empty_state ops in
  map n_id (s_notices s') = [1; 2; 3] /\ map n_occ (s_notices s') = [2; 1; 1] /\ ids_of_kind 3 iss = [1; 2; 3].
Proof. vm_compute. repeat split; reflexivity. Qed.

(* non-vacuity of [canonical]: a state with a change, a task in Wait with waited status Done, data, a warning and a notice *)
Example C05_canonical_satisfiable :
  let s := mkState [(bs "k", bs "1")]
             [mkChange 1 (bs "c") (bs "s") 0 false [(bs "a", bs "true")] [1] (Some 5%Z) None 2]
             [mkTask 1 (bs "t") (bs "s") 10 4 false None [] [] [] [3%Z] [bs "INFO x"] 1 (Some 5%Z) None 0%Z 0%Z (Some 9%Z)]
             [mkWarning (bs "w") 1%Z 2%Z None default_warning_expire 0%Z]
             [mkNotice 1 (Some 0) (nt 1) (bs "1") 1%Z 2%Z 2%Z 1 [] 0%Z default_notice_expire] 1 1 3 1 (Some 2%Z) in
  reload 10 (persist 10 s) = s.
Proof. vm_compute. reflexivity. Qed.
