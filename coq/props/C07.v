(* C07 — serialized task kinds never run concurrently.
   This file holds the property theorems only: statement, `exact <lemma>`, Print Assumptions.
   Model: models/Blocked.v — the four predicates registered with TaskRunner.AddBlocked (hookstate, snapstate,
   ifacestate, devicestate) with their task kinds taken from gen/BlockedKinds.v (regenerated from the sources on every
   run), and TaskRunner.Ensure's accumulation of `running` / the tomb map.

   Full statement: at no time do two hooks of the same snap run at once, two interface-manipulating tasks run at once,
   two prerequisite-installing tasks run at once, or a gadget-asset update run alongside any other task, whatever mix
   of changes is in flight.
   Proved below for every sequence of Ensure passes (each over an arbitrary list of candidate tasks in an arbitrary
   iteration order, arbitrary kinds and hook snaps) and goroutine completions in any order, for the set of tasks whose
   do/undo handler goroutine exists (r.tombs minus cleanups).
   PARTIAL w.r.t. the Go runtime: that r.tombs is exactly the set of executing handlers relies on the runner's
   locking (Ensure holds r.mu and the state lock for the whole pass; a finishing goroutine deletes its tomb under both);
   this is modelled by the atomic events EEnsure / EDone, not verified. Cleanup handlers (TaskRunner.clean) are not
   subject to the predicates: the gadget-alone clause is refuted for them (C07_gadget_alone_refuted_by_cleanup, known
   finding) and proved in guarded form. *)
From Coq Require Import List NArith Bool Sorting.Permutation.
Import ListNotations.
Require Import V.lib.Bytes V.models.Blocked V.proofs.BlockedProofs.
Open Scope N_scope.

(* the four registered predicates together are exactly the conflict relation: a candidate is blocked iff it conflicts
   with some running task *)
Theorem C07_blocked_is_conflict : forall (t : task) (running : list task),
  blocked t running = existsb (conflict t) running.
Proof. exact blocked_is_conflict. Qed.
Print Assumptions C07_blocked_is_conflict.

(* main invariant: after any sequence of Ensure passes and completions no two executing handlers conflict *)
Theorem C07_excl_invariant : forall evs : list event, excl (handlers (run evs)) = true.
Proof. exact excl_invariant. Qed.
Print Assumptions C07_excl_invariant.

(* `running` has to be the whole tomb set: a pass that hides some executing task from the predicates (e.g. one whose
   status became Abort while its handler is still executing) starts a conflicting task next to it *)
Theorem C07_status_filtered_running_refuted :
  exists (tb : tombs) (vis : task -> bool) (cs : list cand),
    excl (handlers tb) = true /\
    excl (handlers (ensure_loop tb (List.filter vis (map fst tb)) cs)) = false.
Proof. exact status_filtered_running_refuted. Qed.
Print Assumptions C07_status_filtered_running_refuted.

(* the same for the property's own notion of the serialized kinds (spec_conflict names the kinds literally): the kinds
   extracted from the code cover them. gen_covers_spec is evaluated on the regenerated gen/BlockedKinds.v on every run,
   so dropping a kind from ifacestate's taskKinds (or renaming a literal in a predicate) breaks this theorem *)
Theorem C07_spec_excl_invariant : forall evs : list event, spec_excl (handlers (run evs)) = true.
Proof. exact (spec_excl_invariant (eq_refl : gen_covers_spec = true)). Qed.
Print Assumptions C07_spec_excl_invariant.

(* ... spelled out *)
Theorem C07_no_two_hooks_same_snap : forall evs a b s,
  In a (handlers (run evs)) -> In b (handlers (run evs)) -> a <> b ->
  is_hook a = true -> is_hook b = true -> t_hook_snap a = Some s -> t_hook_snap b = Some s -> False.
Proof. exact no_two_hooks_same_snap. Qed.
Print Assumptions C07_no_two_hooks_same_snap.

Theorem C07_no_two_iface : forall evs a b,
  In a (handlers (run evs)) -> In b (handlers (run evs)) -> a <> b ->
  is_iface a = true -> is_iface b = true -> False.
Proof. exact no_two_iface. Qed.
Print Assumptions C07_no_two_iface.

Theorem C07_no_two_prereq : forall evs a b,
  In a (handlers (run evs)) -> In b (handlers (run evs)) -> a <> b ->
  is_prereq a = true -> is_prereq b = true -> False.
Proof. exact no_two_prereq. Qed.
Print Assumptions C07_no_two_prereq.

(* ---- gadget-asset update. Histories (`list event`) are arbitrary sequences of Ensure passes (any candidates, any
   order), goroutine completions in any order, aborts (statuses change, tombs stay until the goroutine returns) and snapd
   restarts (new runner, no goroutines).
   Full statement over handlers: while update-gadget-assets executes, no other do/undo handler of any task executes ... *)
Theorem C07_gadget_exclusive : forall evs a,
  In a (handlers (run evs)) -> is_gadget a = true -> handlers (run evs) = [a].
Proof. exact gadget_alone. Qed.
Print Assumptions C07_gadget_exclusive.

(* ... no pass that begins with any goroutine at all (handler or cleanup) starts it ... *)
Theorem C07_gadget_never_starts_next_to_running : forall tb cs t,
  is_gadget t = true -> In (t, false) (ensure_pass tb cs) -> ~ In (t, false) tb -> tb = [].
Proof. exact gadget_never_starts_next_to_running. Qed.
Print Assumptions C07_gadget_never_starts_next_to_running.

(* ... and no pass starts another handler while it has its goroutine, from any tomb set whatever *)
Theorem C07_nothing_starts_next_to_gadget : forall tb cs a x,
  In (a, false) tb -> is_gadget a = true -> In (x, false) (ensure_pass tb cs) -> In (x, false) tb.
Proof. exact nothing_starts_next_to_gadget. Qed.
Print Assumptions C07_nothing_starts_next_to_gadget.

(* the exact carve-out of the known finding cleanup-starts-next-to-gadget-update: whatever has a goroutine next to an
   executing update-gadget-assets handler is a cleanup goroutine (TaskRunner.clean) ... *)
Theorem C07_gadget_coexists_only_with_cleanups : forall evs a x,
  In (a, false) (run evs) -> is_gadget a = true -> In x (run evs) -> x = (a, false) \/ snd x = true.
Proof. exact gadget_coexists_only_with_cleanups. Qed.
Print Assumptions C07_gadget_coexists_only_with_cleanups.

(* ... it is literally alone in every history in which no cleanup goroutine is started (no ready change has an
   uncleaned task of a kind with a cleanup handler: copy-snap-data, prepare-remodeling, set-model,
   create-recovery-system, finalize-recovery-system) ... *)
Theorem C07_gadget_alone : forall evs a,
  no_clean evs = true -> In (a, false) (run evs) -> is_gadget a = true -> run evs = [(a, false)].
Proof. exact gadget_alone_guarded. Qed.
Print Assumptions C07_gadget_alone.

(* ... and it is never STARTED while anything has a tomb, a cleanup from an earlier pass included *)
Theorem C07_gadget_waits_for_running : forall t running,
  is_gadget t = true -> running <> [] -> blocked t running = true.
Proof. exact gadget_waits_for_running. Qed.
Print Assumptions C07_gadget_waits_for_running.

(* the unguarded statement refuted: TaskRunner.clean neither consults the blocked predicates nor adds the task to
   `running`, so a cleanup goroutine can be started in the same pass as update-gadget-assets, or in a later pass while it
   executes. Both witnesses are replayed on the real TaskRunner on every run (driver `cleanup`, KNOWN_FINDINGS key
   cleanup-starts-next-to-gadget-update). *)
Theorem C07_gadget_alone_refuted_by_cleanup :
  (exists evs a, In (a, false) (run evs) /\ is_gadget a = true /\ run evs <> [(a, false)]) /\
  run cleanup_witness_same_pass = [(mkT 1 (kd 14) None, true); (mkT 2 (kd 2) None, false)] /\
  run cleanup_witness_later_pass = [(mkT 2 (kd 2) None, false); (mkT 1 (kd 14) None, true)].
Proof. exact gadget_alone_refuted_by_cleanup. Qed.
Print Assumptions C07_gadget_alone_refuted_by_cleanup.

(* ---- predicate composition (TaskRunner.AddBlocked / SetBlocked / the loop over r.blocked in Ensure) *)

(* `blocked` is the disjunction of the registered predicates asked in registration order ... *)
Theorem C07_blocked_registered : forall t running, blocked t running = blocked_by registered t running.
Proof. exact blocked_registered. Qed.
Print Assumptions C07_blocked_registered.

(* ... the order in which the managers call AddBlocked is irrelevant: in every order the runner implements `conflict` ... *)
Theorem C07_blocked_any_registration_order : forall ps t running,
  Permutation registered ps -> blocked_by ps t running = existsb (conflict t) running.
Proof. exact blocked_any_registration_order. Qed.
Print Assumptions C07_blocked_any_registration_order.

(* ... and a further AddBlocked can only block more *)
Theorem C07_add_blocked_monotone : forall ps p t running,
  blocked_by ps t running = true -> blocked_by (add_blocked ps p) t running = true.
Proof. exact add_blocked_monotone. Qed.
Print Assumptions C07_add_blocked_monotone.

(* SetBlocked replaces the whole list: only the new predicate is asked afterwards (production code never calls it) *)
Theorem C07_set_blocked_only : forall p t running, blocked_by (set_blocked p) t running = p t running.
Proof. exact set_blocked_only. Qed.
Print Assumptions C07_set_blocked_only.

(* a snapd restart (fresh TaskRunner) leaves no goroutine after any history; C07_excl_invariant covers what follows *)
Theorem C07_restart_no_goroutines : forall evs, run (evs ++ [ERestart]) = [].
Proof. exact restart_no_goroutines. Qed.
Print Assumptions C07_restart_no_goroutines.

(* r.someBlocked: a candidate that reached the blocked check and has no goroutine after the pass was blocked, and the
   flag is then set, so that the next finishing goroutine schedules another Ensure (no blocked task is forgotten) *)
Theorem C07_some_blocked_complete : forall t cs tb,
  In (CRun t) cs -> has_tomb (t_id t) (ensure_pass tb cs) = false -> some_blocked tb cs = true.
Proof. exact some_blocked_complete. Qed.
Print Assumptions C07_some_blocked_complete.

(* ---- non-vacuity *)
Example C07_abort_restart_example :
  (* hook of snap-a executing; its change aborted; the second hook of snap-a stays blocked until the first returns;
     after a restart nothing has a goroutine and a hook of snap-a can start again *)
  let h1 := mkT 1 (kd 0) (Some (sn 0)) in let h2 := mkT 2 (kd 0) (Some (sn 0)) in
  map (fun x => t_id (fst x)) (run [EEnsure [CRun h1]; EAbort [1]; EEnsure [CRun h2]]) = [1] /\
  map (fun x => t_id (fst x)) (run [EEnsure [CRun h1]; EAbort [1]; EEnsure [CRun h2]; EDone 1; EEnsure [CRun h2]]) = [2] /\
  map (fun x => t_id (fst x)) (run [EEnsure [CRun h1]; ERestart; EEnsure [CRun h2; CRun h1]]) = [2] /\
  some_blocked [(h1, false)] [CRun h2] = true /\ some_blocked [] [CRun h2] = false.
Proof. vm_compute. auto. Qed.
Example C07_gadget_start_example :
  let g := mkT 8 (kd 2) None in let c := mkT 1 (kd 14) None in
  ensure_pass [] [CRun g] = [(g, false)] /\ ensure_pass [(c, true)] [CRun g] = [(c, true)] /\
  ensure_pass [(g, false)] [CRun (mkT 3 (kd 8) None); CClean c] = [(g, false); (c, true)].
Proof. vm_compute. auto. Qed.
Example C07_registration_order_example :
  let t := mkT 2 (kd 4) None in let r := [mkT 1 (kd 3) None] in
  blocked_by [gadget_blocked; iface_blocked; prereq_blocked; hook_blocked] t r = true /\ blocked t r = true /\
  blocked_by [hook_blocked; prereq_blocked; gadget_blocked] t r = false.
Proof. vm_compute. auto. Qed.
Example C07_run_example :
  map (fun x => t_id (fst x))
      (run [EEnsure [CRun (mkT 1 (kd 0) (Some (sn 0))); CRun (mkT 2 (kd 0) (Some (sn 0))); CRun (mkT 3 (kd 0) (Some (sn 1)));
                     CRun (mkT 4 (kd 3) None); CRun (mkT 5 (kd 4) None); CRun (mkT 6 (kd 1) None); CRun (mkT 7 (kd 1) None);
                     CRun (mkT 8 (kd 2) None); CRun (mkT 9 (kd 7) None)];
            EDone 1; EEnsure [CRun (mkT 2 (kd 0) (Some (sn 0))); CRun (mkT 5 (kd 4) None)]])
  = [3; 4; 6; 9; 2].
Proof. vm_compute. reflexivity. Qed.
Example C07_gadget_example :
  map (fun x => t_id (fst x)) (run [EEnsure [CRun (mkT 8 (kd 2) None); CRun (mkT 1 (kd 8) None)]]) = [8].
Proof. vm_compute. reflexivity. Qed.
Example C07_kinds_example :
  is_iface (mkT 1 (kd 3) None) = true /\ is_iface (mkT 1 (kd 7) None) = false /\ is_hook (mkT 1 (kd 0) None) = true /\
  is_prereq (mkT 1 (kd 1) None) = true /\ is_gadget (mkT 1 (kd 2) None) = true.
Proof. vm_compute. auto. Qed.
