(* C06 — the state file on disk is always a complete old or new checkpoint.
   Property theorems only (statement, `exact <lemma>`, Print Assumptions).
   Model: models/AtomicWrite.v — a file-system model with crash semantics (ASSUMED persistence rules, see the head of
   that file: this is what makes the claim partial) and osutil/io.go's helpers as operation lists whose order comes
   from gen/CommitOrder.v, regenerated from the Go source on every run. *)
From Coq Require Import List NArith Bool.
Import ListNotations.
Require Import V.lib.Bytes V.gen.CommitOrder V.models.AtomicWrite V.proofs.AtomicWriteProofs.
Open Scope N_scope.

(* Atomicity, for EVERY trace of file-system operations and EVERY crash point and crash scenario: if the trace respects
   the discipline `safe_from` (the target name is only ever the destination of renames; every inode renamed onto it has
   been fsynced after its last write; an inode the target may show is never written again), then after a crash at any
   point the target shows its complete old content (or absence) or the complete content of a file that was renamed
   onto it so far. `keep` says which unsynced directory updates reached the disk, `cut` how many unsynced bytes of
   each inode did. *)
Theorem C06_shape_safe : forall (t : name) (s0 : st) (old : option bytes) (tr : list op),
  init_ok t s0 old -> safe_from t s0 tr = true ->
  forall p q, tr = p ++ q ->
  forall (keep : list bool) (cut : ino -> nat), In (crash_read (run s0 p) keep cut t) (old :: versions t s0 p).
Proof. exact shape_safe. Qed.
Print Assumptions C06_shape_safe.

(* Durability: once the target's directory has been fsynced after the last rename onto the target, every crash
   scenario shows exactly the content that rename published. *)
Theorem C06_success_is_durable : forall (t : name) (s0 : st) (old : option bytes) (p q : list op) (a : name) (i : ino),
  init_ok t s0 old ->
  safe_from t s0 (p ++ Rename a t :: q) = true ->
  dlookup (vdir (run s0 p)) a = Some i ->
  existsb (is_rename_onto t) q = false ->
  existsb (is_fsyncdir (fst t)) q = true ->
  forall keep cut, crash_read (run s0 (p ++ Rename a t :: q)) keep cut t = vread (run s0 p) i.
Proof. exact success_is_durable. Qed.
Print Assumptions C06_success_is_durable.

(* The call order the source has NOW (gen/CommitOrder.v: write_calls and commit_calls), with snapdUnsafeIO false, for
   any data chunks, any chown / mtime request, any temp name other than the target, any initial state with the target
   absent or durable: the operations of AtomicWriteChown (= AtomicWriteFile = AtomicWrite = what the overlord state
   backend's Checkpoint calls) respect the discipline; at every crash point the target holds the complete old or the
   complete new content; and once the call has returned, the new content in every crash scenario. *)
Theorem C06_commit_has_safe_shape : forall (t tmp : name) (s0 : st) (old : option bytes) (chunks : list bytes) (ch mt : bool),
  init_ok t s0 old -> name_eqb tmp t = false ->
  let tr := write_ops (mkCfg false ch mt) (next s0) tmp t chunks in
  safe_from t s0 tr = true /\
  versions t s0 tr = [Some (concat chunks)] /\
  (forall p q, tr = p ++ q -> forall keep cut, In (crash_read (run s0 p) keep cut t) [old; Some (concat chunks)]) /\
  (forall keep cut, crash_read (run s0 tr) keep cut t = Some (concat chunks)).
Proof. exact atomic_write_safe. Qed.
Print Assumptions C06_commit_has_safe_shape.

(* AtomicFile.Commit alone, whatever was written to the temp file before *)
Theorem C06_commit_any_content : forall (t tmp : name) (s : st) (i : ino) (nd : inode) (ch mt : bool),
  name_eqb tmp t = false -> dlookup (vdir s) tmp = Some i -> ilookup (inodes s) i = Some nd ->
  let tr := commit_ops (mkCfg false ch mt) i tmp t in
  safe_from t s tr = true /\
  versions t s tr = [Some (synced nd ++ unsynced nd)] /\
  exists p, tr = p ++ [Rename tmp t; FsyncDir (fst t)] /\ dlookup (vdir (run s p)) tmp = Some i /\
            vread (run s p) i = Some (synced nd ++ unsynced nd).
Proof. exact commit_safe_shape. Qed.
Print Assumptions C06_commit_any_content.

(* Every error exit of commit, in the order the source has now: every call of commit may fail (k = number of active
   calls that succeed before one fails; a failed call has no effect, commit returns, the caller's Cancel removes the temp
   file unless the rename already happened). Whichever call fails, the discipline is respected, and nothing is
   published unless the rename itself succeeded — e.g. when the directory cannot be opened for the later dir-sync, the
   temp file is never renamed over the target. *)
Theorem C06_commit_error_exits : forall (t tmp : name) (s : st) (i : ino) (nd : inode) (ch mt : bool) (k : nat),
  name_eqb tmp t = false -> dlookup (vdir s) tmp = Some i -> ilookup (inodes s) i = Some nd ->
  let tr := commit_ops_f (mkCfg false ch mt) i tmp t k in
  safe_from t s tr = true /\
  (versions t s tr = [] \/ versions t s tr = [Some (synced nd ++ unsynced nd)]) /\
  (existsb (is_rename_onto t) tr = false -> versions t s tr = []).
Proof. exact commit_error_exits. Qed.
Print Assumptions C06_commit_error_exits.

(* AtomicWriteChown with a failure oracle on commit: at every crash point the target holds the complete old or the
   complete new content; if the rename was not reached, the target is untouched in every crash outcome. *)
Theorem C06_write_error_exits : forall (t tmp : name) (s0 : st) (old : option bytes) (chunks : list bytes) (ch mt : bool) (k : nat),
  init_ok t s0 old -> name_eqb tmp t = false ->
  let tr := write_ops_f (mkCfg false ch mt) (next s0) tmp t chunks k in
  safe_from t s0 tr = true /\
  (forall p q, tr = p ++ q -> forall keep cut, In (crash_read (run s0 p) keep cut t) [old; Some (concat chunks)]) /\
  (existsb (is_rename_onto t) tr = false ->
   forall p q, tr = p ++ q -> forall keep cut, crash_read (run s0 p) keep cut t = old).
Proof. exact atomic_write_error_exits. Qed.
Print Assumptions C06_write_error_exits.

(* AtomicRename in the generated order: rename of a synced file onto the target, then the fsync of its directory *)
Theorem C06_rename_has_safe_shape : forall (t a : name) (s : st) (i : ino),
  name_eqb a t = false -> dlookup (vdir s) a = Some i -> clean s i = true ->
  let tr := rename_ops (mkCfg false false false) a t in
  safe_from t s tr = true /\
  exists q, tr = Rename a t :: q /\ existsb (is_fsyncdir (fst t)) q = true /\ existsb (is_rename_onto t) q = false.
Proof. exact atomic_rename_safe. Qed.
Print Assumptions C06_rename_has_safe_shape.

(* The fsync matters: the same generated order with snapdUnsafeIO = true (possible only in a test binary) has a crash
   point and scenario in which the target holds a torn file (`n` out of `new!`, neither `old` nor `new!`). *)
Theorem C06_no_fsync_refuted : exists p q keep cut,
  write_ops (mkCfg true false false) (next ex_s0) ex_tmp ex_t ex_chunks = p ++ q /\
  crash_read (run ex_s0 p) keep cut ex_t = Some [110].
Proof. exact no_fsync_torn. Qed.
Print Assumptions C06_no_fsync_refuted.

(* The monitor's exhaustive enumeration of crash outcomes on an observed trace covers every crash scenario of the
   theorems above: when `crash_ok` evaluates to true, every (keep, cut) reads one of the allowed contents. *)
Theorem C06_monitor_enumeration_complete : forall (s : st) (t : name) (allowed : list (option bytes)),
  crash_ok s t allowed = true -> forall keep cut, In (crash_read s keep cut t) allowed.
Proof. exact crash_ok_sound. Qed.
Print Assumptions C06_monitor_enumeration_complete.

(* What the translator found in the source on this run: overlordStateBackend.Checkpoint is a single
   osutil.AtomicWriteFile(osb.path, data, 0600, 0); AtomicWriteFile/AtomicWrite are AtomicWriteChown; Commit is commit;
   the temp name is target + "." + 12 random characters + "~" opened O_CREATE|O_EXCL (so it differs from the target);
   snapdUnsafeIO is `IsTestBinary() && ...` and assigned nowhere else in io.go. (The statement is a conjunction of
   generated booleans: its content is that the translator, which exits non-zero otherwise, produced them.) *)
Theorem C06_source_shape :
  checkpoint_is_atomic_write_file = true /\ write_file_is_write_chown = true /\ commit_is_commit = true /\
  tmp_is_target_plus_suffix_excl = true /\ unsafe_io_needs_test_binary = true.
Proof. exact source_shape_facts. Qed.
Print Assumptions C06_source_shape.

(* non-vacuity: a concrete initial state satisfying init_ok, and the generated order on it *)
Example C06_init_ok_example : init_ok ex_t ex_s0 (Some [111; 108; 100]).
Proof. exact ex_init_ok. Qed.
Example C06_generated_order_example :
  write_ops (mkCfg false false false) 1 ex_tmp ex_t ex_chunks =
  [Creat ex_tmp; Write 1 [110; 101]; Write 1 [119; 33]; Fsync 1; Meta; Rename ex_tmp ex_t; FsyncDir 0].
Proof. vm_compute. reflexivity. Qed.
(* the directory cannot be opened (COpenDir fails, k = 0 without chown): create, write, clean up; no rename *)
Example C06_open_dir_fails_example :
  write_ops_f (mkCfg false false false) 1 ex_tmp ex_t ex_chunks 0 =
  [Creat ex_tmp; Write 1 [110; 101]; Write 1 [119; 33]; Unlink ex_tmp; Meta].
Proof. vm_compute. reflexivity. Qed.
