(* C36 - accepted quota groups always fit inside their parents.
   This file holds the property theorems only: statement, `exact <lemma>`, Print Assumptions.
   Model: models/Quota.v (snap/quota/quota.go and resources.go function by function). `run ncpu [] qs` is the forest of
   groups after the history qs of NewGroup / NewSubGroup / UpdateQuotaLimits requests, refused requests leaving it as it was.
   All theorems quantify over EVERY history (no bound on length, depth or values; values are unbounded integers).

   FULL STATEMENT (kept visible): after every history, for every group with a memory, thread or CPU limit the sum over its
   sub-groups of max(sub-group limit, sub-group reservation) is within the limit, every group's cpu set lies within the
   nearest ancestor's, and a refused request changes nothing.
   PROVED: memory and threads (C36_fit_invariant_mem_threads_partial, C36_every_group_fits_mem_threads), nesting of cpu sets
   (C36_cpuset_nesting), refusal (C36_refused_unchanged).
   REFUTED on the faithful model and on the real code: the CPU part (C36_cpu_fit_refuted, C36_cpu_fit_numcpu_cap_refuted;
   KNOWN_FINDINGS keys cpuset-change-over-count0-group and cpu-percentage-only-sized-beyond-numcpu; a third defect,
   cpu-check-stops-at-cpuset-only-ancestor, was repaired in /repo commit 731c638 and is now a regression case).
   GUARDED CPU theorem (C36_cpu_fit_no_percentage_only_partial): the CPU fit holds after every history without
   percentage-only (count 0) cpu quotas. NOT PROVED: the CPU fit for histories with percentage-only quotas under a guard
   that only forbids changes of their effective cpu set; there the fit is monitored on the implementation's observed
   trees in every run (Quota.inv_cpu), which is testing, not proof. *)
From Coq Require Import List ZArith NArith Bool.
Import ListNotations.
Require Import V.models.Quota V.proofs.QuotaProofs.
Open Scope Z_scope.

(* after every history of requests, every tree of the forest fits for memory and for threads *)
Theorem C36_fit_invariant_mem_threads_partial : forall (ncpu : Z) (qs : list req),
  inv_mem (run ncpu [] qs) = true /\ inv_thr (run ncpu [] qs) = true.
Proof. exact fit_invariant_mem_threads. Qed.
Print Assumptions C36_fit_invariant_mem_threads_partial.

(* the same, group by group: any group x anywhere in the forest that has a memory (thread) limit holds the combined
   reservations of its sub-groups, resv being the sum over the sub-groups of max(limit, reservation) *)
Theorem C36_every_group_fits_mem_threads : forall (ncpu : Z) (qs : list req) (root x : group),
  In root (run ncpu [] qs) -> in_tree x root ->
  (l_mem (lim x) <> 0 -> resv l_mem x <= l_mem (lim x)) /\
  (l_thr (lim x) <> 0 -> resv l_thr x <= l_thr (lim x)).
Proof. exact every_group_fits_mem_threads. Qed.
Print Assumptions C36_every_group_fits_mem_threads.

Theorem C36_reservation_is_sum_of_max : forall (f : limits -> Z) i l ss,
  resv f (G i l ss) = fold_right (fun c acc => Z.max (f (lim c)) (resv f c) + acc) 0 ss.
Proof. exact resv_is_sum. Qed.
Print Assumptions C36_reservation_is_sum_of_max.

(* after every history, every group's own cpu set lies within the cpu set of the nearest ancestor that has one *)
Theorem C36_cpuset_nesting : forall (ncpu : Z) (qs : list req), inv_set (run ncpu [] qs) = true.
Proof. exact cpuset_nesting_invariant. Qed.
Print Assumptions C36_cpuset_nesting.

(* a refused request leaves the groups unchanged: the rest of the history runs from the same forest *)
Theorem C36_refused_unchanged : forall (ncpu : Z) (st : forest) (q : req) (qs : list req),
  step ncpu st q = None -> run ncpu st (q :: qs) = run ncpu st qs.
Proof. exact refused_unchanged. Qed.
Print Assumptions C36_refused_unchanged.

(* the CPU part of the property is false. Witness 1 (finding 3): parent 2x100% with cpu set {0,1}, child 50% (count 0, so
   its reservation is percentage x size of the inherited set); enlarging the parent's cpu set to {0..7} is accepted and
   the child's reservation becomes 400 > 200 *)
Theorem C36_cpu_fit_refuted : exists (ncpu : Z) (qs : list req),
  all_accepted ncpu qs = true /\ inv_cpu ncpu (run ncpu [] qs) = false.
Proof. exact cpu_fit_refuted. Qed.
Print Assumptions C36_cpu_fit_refuted.

(* Witness 3: no effective cpu set changes, yet the fit breaks. Group 12x100% over a 12-entry cpu set on an 8-cpu machine
   with sub-groups 4x100, 4x100, 2x100 (1000); UpdateQuotaLimits(cpu 0x100%, same set) is sized as 12x100 = 1200 by the
   validator and accepted, but GetLocalCPUQuota caps the count at NumCPU: the group now reserves 800 < 1000 *)
Theorem C36_cpu_fit_numcpu_cap_refuted : exists (ncpu : Z) (qs : list req),
  all_accepted ncpu qs = true /\ inv_cpu ncpu (run ncpu [] qs) = false.
Proof. exact cpu_fit_numcpu_cap_refuted. Qed.
Print Assumptions C36_cpu_fit_numcpu_cap_refuted.

(* the former witness 2 (root 2x25%, child with only a cpu set {0,2,4,5}, grandchild 4x100%) is refused since the repair of
   validateCPUResourceFit in /repo commit 731c638, and the fit holds after that history *)
Example C36_ex_set_only_ancestor_now_refused :
  step 8 (run 8 [] (firstn 2 cpu_witness_2)) (RSub [0%nat; 0%nat] 3 (mkRes None (Some (4, 100)) None None)) = None /\
  inv_cpu 8 (run 8 [] cpu_witness_2) = true.
Proof. exact set_only_ancestor_now_refused. Qed.

(* GUARDED CPU theorem - PARTIAL. The guard is stronger than `no accepted request changes the effective cpu set of a
   percentage-only group`: it excludes percentage-only quotas altogether. For every history in which every requested cpu
   quota has a count >= 1 and a percentage >= 1 (cpu sets, memory and threads arbitrary), the cpu fit holds after the
   history: every group with a cpu quota holds the combined effective reservations of its sub-groups. Together with the
   two refutations this says: all cpu-fit defects of the (repaired) code need a percentage-only quota.
   Missing for the weaker guard: see notes/C36.md (C36_cpu_fit_numcpu_cap_refuted shows that guard alone is not enough). *)
Theorem C36_cpu_fit_no_percentage_only_partial : forall (ncpu : Z) (qs : list req),
  Forall (fun q => match r_cpu (req_res q) with Some (c, p) => 0 < c /\ 0 < p | None => True end) qs ->
  inv_cpu ncpu (run ncpu [] qs) = true.
Proof. exact cpu_fit_without_percentage_only. Qed.
Print Assumptions C36_cpu_fit_no_percentage_only_partial.

(* non-vacuity: histories with accepted nested creations and updates exist, requests are refused for lack of room, and
   the invariant is not trivially true of arbitrary forests *)
Definition mib (n : Z) : Z := n * 1024 * 1024.
Definition ex_hist : list req :=
  [ RNew 1 (mkRes (Some (mib 4)) None None None);
    RSub [0%nat] 2 (mkRes None None None (Some 8));
    RSub [0%nat; 0%nat] 3 (mkRes (Some (mib 2)) None None None);
    RSub [0%nat; 0%nat] 4 (mkRes (Some (mib 2)) None None None);
    RSub [0%nat] 5 (mkRes (Some (mib 1)) None None None);                 (* refused: 2+2+1 > 4 *)
    RUpd [0%nat; 0%nat; 1%nat] (mkRes (Some (mib 3)) None None None);     (* refused *)
    RUpd [0%nat] (mkRes (Some (mib 5)) None None None);                   (* accepted *)
    RUpd [0%nat; 0%nat; 1%nat] (mkRes (Some (mib 3)) None None None) ].   (* now accepted *)
Example C36_ex_run : run 4 [] ex_hist =
  [G 1 (mkLim (mib 5) 0 0 0 []) [G 2 (mkLim 0 8 0 0 []) [G 3 (mkLim (mib 2) 0 0 0 []) []; G 4 (mkLim (mib 3) 0 0 0 []) []]]].
Proof. vm_compute. reflexivity. Qed.
Example C36_ex_refused : step 4 (run 4 [] (firstn 4 ex_hist)) (RSub [0%nat] 5 (mkRes (Some (mib 1)) None None None)) = None.
Proof. vm_compute. reflexivity. Qed.
Example C36_ex_not_trivial : inv_mem [G 1 (mkLim (mib 1) 0 0 0 []) [G 2 (mkLim (mib 2) 0 0 0 []) []]] = false.
Proof. vm_compute. reflexivity. Qed.

(* the guard of C36_cpu_fit_no_percentage_only_partial is satisfiable by a history with nested cpu quotas, cpu sets and a
   refusal for lack of cpu room *)
Definition ex_cpu_hist : list req :=
  [ RNew 1 (mkRes None (Some (2, 100)) (Some [0; 1]) None);
    RSub [0%nat] 2 (mkRes (Some (mib 1)) None None None);
    RSub [0%nat; 0%nat] 3 (mkRes None (Some (1, 50)) None None);
    RSub [0%nat; 0%nat] 4 (mkRes None (Some (1, 100)) (Some [1]) None);
    RSub [0%nat] 5 (mkRes None (Some (1, 100)) None None);               (* refused: 50 + 100 + 100 > 200 *)
    RUpd [0%nat; 0%nat; 0%nat] (mkRes None (Some (2, 50)) None None) ].  (* accepted: 100 + 100 = 200 *)
Example C36_ex_cpu_guard : Forall (fun q => match r_cpu (req_res q) with Some (c, p) => 0 < c /\ 0 < p | None => True end) ex_cpu_hist.
Proof. repeat constructor. Qed.
Example C36_ex_cpu_run : run 8 [] ex_cpu_hist =
  [G 1 (mkLim 0 0 2 100 [0; 1]) [G 2 (mkLim (mib 1) 0 0 0 []) [G 3 (mkLim 0 0 2 50 []) []; G 4 (mkLim 0 0 1 100 [1]) []]]].
Proof. vm_compute. reflexivity. Qed.
Example C36_ex_cpu_refused : step 8 (run 8 [] (firstn 4 ex_cpu_hist)) (RSub [0%nat] 5 (mkRes None (Some (1, 100)) None None)) = None.
Proof. vm_compute. reflexivity. Qed.
