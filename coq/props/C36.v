(* C36 - accepted quota groups always fit inside their parents. *)
From Coq Require Import List ZArith NArith Bool.
Import ListNotations.
Require Import V.models.Quota V.proofs.QuotaProofs.
Open Scope Z_scope.

Theorem C36_refused_unchanged : forall ncpu st q, step ncpu st q = None -> run ncpu st [q] = st.
Proof. exact step_refused_unchanged. Qed.
Print Assumptions C36_refused_unchanged.
