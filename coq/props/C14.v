(* C14 — no two in-progress changes ever operate on the same snap.
   This file holds the property theorems only: statement, `exact <lemma>`, Print Assumptions.
   Model: models/Conflict.v (overlord/snapstate/conflict.go function by function); kinds: gen/ConflictKinds.v (the case
   literals and clause shapes of checkChangeConflictExclusiveKinds and isIrrelevantChange, regenerated on every run).
   A history is any list of Request / Progress operations from the empty state. `counts c`: the change is in progress
   and its kind is not exempt (pre-download, become-operational). `req_wf`: the tasks of a request only affect snaps
   that the request had checked. *)
From Coq Require Import List NArith Bool String.
Import ListNotations.
Require Import V.lib.Bytes V.gen.ConflictKinds V.models.Conflict V.proofs.ConflictProofs.
Open Scope list_scope.
Open Scope N_scope.

(* the kinds named by the property are the ones in the code *)
Theorem C14_kinds :
  irrelevant_kinds = [bs "pre-download"; bs "become-operational"] /\
  excl_always = [bs "transition-ubuntu-core"; bs "transition-to-snapd-snap"] /\
  excl_ignorable = [bs "remodel"; bs "create-recovery-system"; bs "remove-recovery-system"] /\
  excl_downgrade = [bs "revert-snap"; bs "refresh-snap"].
Proof. exact (conj exempt_kinds exclusive_kinds). Qed.
Print Assumptions C14_kinds.

(* over every history: any two in-progress, non-exempt changes having a task that affects the same snap are the same
   change (and change ids are unique) *)
Theorem C14_one_change_per_snap : forall ops : list op, forallb req_wf ops = true ->
  let st := run [] ops in
  forall c1 c2 x, In c1 st -> In c2 st -> counts c1 = true -> counts c2 = true ->
    touches c1 [x] = true -> touches c2 [x] = true -> c_id c1 = c_id c2.
Proof. exact one_change_per_snap. Qed.
Print Assumptions C14_one_change_per_snap.

Theorem C14_change_ids_unique : forall ops : list op, forallb req_wf ops = true -> NoDup (map c_id (run [] ops)).
Proof. exact change_ids_unique. Qed.
Print Assumptions C14_change_ids_unique.

(* requesting an operation on a snap that another unfinished, non-exempt change is operating on is rejected ... *)
Theorem C14_busy_snap_rejected : forall (st : state) (c : change) (x : N) kind dg re ignore same snaps tasks,
  In c st -> counts c = true -> is_ignored c ignore = false -> touches c [x] = true -> In x snaps ->
  rejected st (Request kind dg re ignore same snaps tasks) = true.
Proof. exact busy_snap_rejected. Qed.
Print Assumptions C14_busy_snap_rejected.

(* ... and a rejected request creates nothing *)
Theorem C14_rejected_creates_nothing : forall (st : state) (o : op), rejected st o = true -> step st o = st.
Proof. exact rejected_creates_nothing. Qed.
Print Assumptions C14_rejected_creates_nothing.

(* while an exclusive change (remodel, core transitions, recovery-system creation/removal, snapd downgrade) is in
   progress no other change can be started; the only exemption is a request coming from that very change, and not
   even that for the two core transitions *)
Theorem C14_exclusive_blocks_everything : forall (st : state) (c : change) kind dg re ignore same snaps tasks,
  In c st -> c_ready c = false -> is_exclusive c = true ->
  (is_ignored c ignore = false \/ kind_in (c_kind c) excl_always = true) ->
  rejected st (Request kind dg re ignore same snaps tasks) = true.
Proof. exact exclusive_blocks_everything. Qed.
Print Assumptions C14_exclusive_blocks_everything.

(* vice versa: a request that must run exclusively (remodel, recovery-system creation/removal, snapd downgrade) is
   rejected while ANY other change is in progress. The proof uses nondowngrade_blocks_new_exclusive = true, which the
   translator reads off the refresh-snap / revert-snap clause on every run. *)
Theorem C14_new_exclusive_refused : forall (st : state) (c : change) kind dg ignore same snaps tasks,
  In c st -> c_ready c = false -> is_ignored c ignore = false ->
  rejected st (Request kind dg true ignore same snaps tasks) = true.
Proof. exact new_exclusive_refused. Qed.
Print Assumptions C14_new_exclusive_refused.

(* regression witness of the repaired defect (fixed: line in KNOWN_FINDINGS, /repo commit ed8df80): with an ordinary
   refresh-snap change in progress a remodel request on another snap used to be accepted; a request that need not run
   exclusively still is *)
Example C14_remodel_during_refresh_rejected :
  rejected refresh_in_progress (Request (bs "remodel") false true None true [2] [mkTask [2] false]) = true /\
  rejected refresh_in_progress (Request (bs "remodel") false false None true [2] [mkTask [2] false]) = false.
Proof. exact remodel_during_refresh_rejected. Qed.

(* the conflict matrix as an equivalence. First the two tables of in-progress changes that stop a request whatever
   snaps it names (new_excl = false: every request; new_excl = true: a request that must itself run exclusively) ... *)
Theorem C14_exclusive_table : forall (new_excl : bool) (ignore : option N) (c : change),
  excl_hit new_excl ignore c =
  negb (c_ready c) &&
  (kind_in (c_kind c) excl_always
   || (kind_in (c_kind c) excl_ignorable && negb (is_ignored c ignore))
   || (kind_in (c_kind c) excl_downgrade && negb (is_ignored c ignore) && (c_dg c || new_excl))
   || (negb (kind_in (c_kind c) excl_always) && negb (kind_in (c_kind c) excl_ignorable)
       && negb (kind_in (c_kind c) excl_downgrade) && new_excl)).
Proof. exact excl_hit_table. Qed.
Print Assumptions C14_exclusive_table.

(* ... then: for every state and every request, the request is refused IF AND ONLY IF an exclusive change is in
   progress, or an in-progress non-exempt change other than the requesting one has a task affecting one of the snaps
   the request names, or the snap record is stale, or the request must run exclusively and some other change is in
   progress. (After a refusal the state is unchanged: C14_rejected_creates_nothing.) *)
Theorem C14_refused_iff : forall (st : state) kind dg re ignore same snaps tasks,
  rejected st (Request kind dg re ignore same snaps tasks) = true <->
  (exists c, In c st /\ excl_hit false ignore c = true) \/
  (exists c x, In c st /\ relevant ignore c = true /\ In x snaps /\ touches c [x] = true) \/
  same = false \/
  (re = true /\ exists c, In c st /\ excl_hit true ignore c = true).
Proof. exact rejected_iff. Qed.
Print Assumptions C14_refused_iff.

Theorem C14_accepted_creates : forall (st : state) kind dg re same snaps tasks,
  rejected st (Request kind dg re None same snaps tasks) = false ->
  step st (Request kind dg re None same snaps tasks) = st ++ [mkChange (next_id st) kind dg tasks].
Proof. exact accepted_creates. Qed.
Print Assumptions C14_accepted_creates.

Example C14_matrix_example :
  rejected matrix_state (Request (bs "remove-snap") false false None true [1; 2] [mkTask [1] false]) = true /\
  rejected matrix_state (Request (bs "remove-snap") false false None true [2] [mkTask [2] false]) = false /\
  rejected matrix_state (Request (bs "remodel") false true None true [2] [mkTask [2] false]) = true /\
  rejected (step matrix_state (Progress 1 0 true)) (Request (bs "remove-snap") false false None true [1] [mkTask [1] false]) = false.
Proof. exact matrix_example. Qed.

(* an operation whose snap record changed while the request was being prepared is rejected *)
Theorem C14_stale_snapstate_rejected : forall (st : state) kind dg re ignore snaps tasks,
  rejected st (Request kind dg re ignore false snaps tasks) = true.
Proof. exact stale_rejected. Qed.
Print Assumptions C14_stale_snapstate_rejected.

(* non-vacuity: a history with a rejected request, two accepted ones, a finished change and a request accepted after it *)
Example C14_history_example : forallb req_wf demo_ops = true /\ map c_id (run [] demo_ops) = [1; 2; 3] /\
  map counts (run [] demo_ops) = [false; true; true].
Proof. exact demo. Qed.
