(* C33 — version comparison is a consistent Debian-style ordering.
   This file holds the property theorems only: statement, `exact <lemma>`, Print Assumptions.
   Model: models/Version.v (strutil/version.go function by function; chOrder regenerated into gen/ChOrder.v). *)
From Coq Require Import List NArith ZArith Bool String.
Open Scope string_scope.
Require Import V.lib.Bytes V.models.Version V.proofs.VersionProofs V.proofs.VersionOrder V.proofs.VersionDpkg.

(* versions with an epoch ("<digits>:" prefix) are rejected, and nothing else is *)
Theorem C33_epoch_rejected : forall a b : bytes,
  version_compare a b = Invalid <-> (match_epoch a = true \/ match_epoch b = true).
Proof. intros a b; split; [apply invalid_only_epoch | apply epoch_rejected]. Qed.
Print Assumptions C33_epoch_rejected.

(* the comparison is total: the model's fuel (the loop bound of compareSubversion) is never exhausted,
   so every theorem below speaks about a real result *)
Theorem C33_total : forall a b : bytes, version_compare a b <> OutOfFuel.
Proof. exact version_compare_total. Qed.
Print Assumptions C33_total.

(* reflexive: every version without an epoch compares equal to itself *)
Theorem C33_reflexive : forall a : bytes, match_epoch a = false -> version_compare a a = Res 0%Z.
Proof. exact version_compare_refl. Qed.
Print Assumptions C33_reflexive.

(* swapping the operands flips the sign, for all byte strings *)
Theorem C33_sign_flip : forall (a b : bytes) (r : Z),
  version_compare a b = Res r -> version_compare b a = Res (- r)%Z.
Proof. exact version_compare_flip. Qed.
Print Assumptions C33_sign_flip.

(* antisymmetric: a <= b and b <= a only when they compare equal (both ways) *)
Theorem C33_antisymmetric : forall (a b : bytes) (x y : Z),
  version_compare a b = Res x -> version_compare b a = Res y -> (x <= 0)%Z -> (y <= 0)%Z -> x = 0%Z /\ y = 0%Z.
Proof. exact version_compare_antisym. Qed.
Print Assumptions C33_antisymmetric.

(* results are exactly -1, 0 or +1 *)
Theorem C33_result_range : forall (a b : bytes) (r : Z), version_compare a b = Res r -> (r = -1 \/ r = 0 \/ r = 1)%Z.
Proof. exact version_compare_tri. Qed.
Print Assumptions C33_result_range.

(* transitive, for ALL byte strings without NUL (0 < byte < 256; NUL is the padding byte of cmpString): if a <= b and
   b <= c then a <= c, strictly when either step is strict; and symmetrically for >=. `st x y z` is exactly that
   statement about the three results (proofs/VersionOrder.v). No bound on the lengths: the proof is by induction over the
   loop of compareSubversion, using the regenerated chOrder table only through three facts checked on all 256 bytes. *)
Theorem C33_transitive : forall (a b c : bytes) (x y : Z),
  ok a = true -> ok b = true -> ok c = true ->
  version_compare a b = Res x -> version_compare b c = Res y ->
  exists z, version_compare a c = Res z /\
    ((x <= 0 -> y <= 0 -> z <= 0 /\ (x < 0 \/ y < 0 -> z < 0)) /\
     (x >= 0 -> y >= 0 -> z >= 0 /\ (x > 0 \/ y > 0 -> z > 0)))%Z.
Proof. exact version_compare_trans. Qed.
Print Assumptions C33_transitive.

(* versions that compare equal are interchangeable: they compare alike against every third version *)
Theorem C33_equal_is_congruence : forall (a b c : bytes) (y : Z),
  ok a = true -> ok b = true -> ok c = true ->
  version_compare a b = Res 0%Z -> version_compare b c = Res y -> version_compare a c = Res y.
Proof. exact version_eq_congruence. Qed.
Print Assumptions C33_equal_is_congruence.

(* non-vacuity: a strict chain 1.0~rc1 < 1.0 < 1.0-1 meets the hypotheses *)
Example C33_transitive_nonvacuous :
  ok (bs "1.0~rc1") = true /\ ok (bs "1.0") = true /\ ok (bs "1.0-1") = true /\
  version_compare (bs "1.0~rc1") (bs "1.0") = Res (-1)%Z /\ version_compare (bs "1.0") (bs "1.0-1") = Res (-1)%Z.
Proof. vm_compute. repeat split; reflexivity. Qed.

(* the same statement checked by computation on a complete finite domain that also contains NUL-free short strings
   (kept as a regression check of the model against the table: it re-runs whenever gen/ChOrder.v changes) *)
Theorem C33_transitive_small_domain : forall a b c : bytes,
  In a small_domain -> In b small_domain -> In c small_domain -> trans_ok a b c = true.
Proof. exact transitive_small_domain. Qed.
Print Assumptions C33_transitive_small_domain.

(* agreement with Debian ordering — FULL, unbounded. For ALL byte strings a b made of real non-NUL bytes (`ok`: 0 < byte < 256)
   that are structurally valid Debian versions (`debian_wf`: no NUL, no epoch, non-empty upstream part, non-empty revision
   after a hyphen), version_compare returns exactly what dpkg_compare returns, where dpkg_compare is the independent model of
   dpkg's verrevcmp (first the upstream parts, then the revisions; a missing revision is "0" for snapd and "" for dpkg).
   No bound on the lengths: proofs/VersionDpkg.v is a simulation between the fragment loop of compareSubversion and the
   character loop of verrevcmp; the regenerated chOrder table enters through one fact checked on all 256 x 256 pairs of symbols
   (the two orders sort every pair the same way, except digit against end-of-string). `ok` is needed beyond debian_wf only to
   say that list elements are bytes (< 256); it implies the no-NUL part of debian_wf (VersionDpkg.ok_no_nul). *)
Theorem C33_matches_debian : forall a b : bytes,
  ok a = true -> ok b = true -> debian_wf a = true -> debian_wf b = true ->
  exists r, version_compare a b = Res r /\ dpkg_compare a b = Some r.
Proof. exact version_compare_matches_dpkg. Qed.
Print Assumptions C33_matches_debian.

(* the same in the boolean form evaluated by the monitor and by the finite-domain check below *)
Theorem C33_matches_debian_bool : forall a b : bytes, ok a = true -> ok b = true -> debian_ok a b = true.
Proof. exact debian_ok_all. Qed.
Print Assumptions C33_matches_debian_bool.

(* the level below: compareSubversion has the sign of verrevcmp on any two NUL-free byte strings, provided the first position
   is not (empty, starts with a digit) — there snapd pads with a byte that sorts before digits while dpkg reads a missing
   number as 0. debian_wf (non-empty parts) excludes exactly that. *)
Theorem C33_subversion_matches_verrevcmp : forall va vb : bytes, ok va = true -> ok vb = true -> first_ok va vb = true ->
  exists d, compare_subversion va vb = Some (sgn d) /\ dpkg_verrevcmp (sub_fuel va vb) va vb = Some d.
Proof. exact subversion_matches_dpkg. Qed.
Print Assumptions C33_subversion_matches_verrevcmp.

(* non-vacuity: real versions meet the hypotheses, with and without a revision *)
Example C33_matches_debian_nonvacuous :
  ok (bs "1.0~rc1-2") = true /\ ok (bs "1.0-0ubuntu1") = true /\ ok (bs "1.0") = true /\
  debian_wf (bs "1.0~rc1-2") = true /\ debian_wf (bs "1.0-0ubuntu1") = true /\ debian_wf (bs "1.0") = true /\
  version_compare (bs "1.0~rc1-2") (bs "1.0-0ubuntu1") = Res (-1)%Z /\ version_compare (bs "1.0") (bs "1.0-0ubuntu1") = Res (-1)%Z.
Proof. vm_compute. repeat split; reflexivity. Qed.

(* the non-emptiness hypothesis is needed: against the empty string (not a Debian version) "0" is greater for snapd, equal for dpkg *)
Example C33_matches_debian_needs_nonempty :
  version_compare (bs "0") nil = Res 1%Z /\ dpkg_compare (bs "0") nil = Some 0%Z.
Proof. vm_compute. split; reflexivity. Qed.

(* the finite-domain check that preceded the unbounded proof, kept as a regression check of the models against the table
   (all strings of length <= 3 over the bytes `0 a . ~ -`; it re-runs whenever gen/ChOrder.v changes) *)
Theorem C33_matches_debian_small_domain : forall a b : bytes,
  In a debian_domain -> In b debian_domain -> debian_ok a b = true.
Proof. exact debian_small_domain. Qed.
Print Assumptions C33_matches_debian_small_domain.
