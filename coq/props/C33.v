(* C33 — version comparison is a consistent Debian-style ordering.
   This file holds the property theorems only: statement, `exact <lemma>`, Print Assumptions. *)
From Coq Require Import List NArith ZArith Bool.
Require Import V.lib.Bytes V.models.Version V.proofs.VersionProofs.

(* versions with an epoch ("<digits>:" prefix) are rejected, and nothing else is *)
Theorem C33_epoch_rejected : forall a b : bytes,
  version_compare a b = Invalid <-> (match_epoch a = true \/ match_epoch b = true).
Proof. intros a b; split; [apply invalid_only_epoch | apply epoch_rejected]. Qed.
Print Assumptions C33_epoch_rejected.
