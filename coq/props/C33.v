(* C33 — version comparison is a consistent Debian-style ordering.
   This file holds the property theorems only: statement, `exact <lemma>`, Print Assumptions.
   Model: models/Version.v (strutil/version.go function by function; chOrder regenerated into gen/ChOrder.v). *)
From Coq Require Import List NArith ZArith Bool.
Require Import V.lib.Bytes V.models.Version V.proofs.VersionProofs.

(* versions with an epoch ("<digits>:" prefix) are rejected, and nothing else is *)
Theorem C33_epoch_rejected : forall a b : bytes,
  version_compare a b = Invalid <-> (match_epoch a = true \/ match_epoch b = true).
Proof. intros a b; split; [apply invalid_only_epoch | apply epoch_rejected]. Qed.
Print Assumptions C33_epoch_rejected.

(* the comparison is total: the model's fuel (the loop bound of compareSubversion) is never exhausted,
   so every theorem below speaks about a real result *)
Theorem C33_total : forall a b : bytes, version_compare a b <> OutOfFuel.
Proof. exact version_compare_total. Qed.
Print Assumptions C33_total.

(* reflexive: every version without an epoch compares equal to itself *)
Theorem C33_reflexive : forall a : bytes, match_epoch a = false -> version_compare a a = Res 0%Z.
Proof. exact version_compare_refl. Qed.
Print Assumptions C33_reflexive.

(* swapping the operands flips the sign, for all byte strings *)
Theorem C33_sign_flip : forall (a b : bytes) (r : Z),
  version_compare a b = Res r -> version_compare b a = Res (- r)%Z.
Proof. exact version_compare_flip. Qed.
Print Assumptions C33_sign_flip.

(* antisymmetric: a <= b and b <= a only when they compare equal (both ways) *)
Theorem C33_antisymmetric : forall (a b : bytes) (x y : Z),
  version_compare a b = Res x -> version_compare b a = Res y -> (x <= 0)%Z -> (y <= 0)%Z -> x = 0%Z /\ y = 0%Z.
Proof. exact version_compare_antisym. Qed.
Print Assumptions C33_antisymmetric.

(* results are exactly -1, 0 or +1 *)
Theorem C33_result_range : forall (a b : bytes) (r : Z), version_compare a b = Res r -> (r = -1 \/ r = 0 \/ r = 1)%Z.
Proof. exact version_compare_tri. Qed.
Print Assumptions C33_result_range.

(* transitive — PARTIAL. The full statement is
     forall a b c, le a b -> le b c -> le a c   (and strictly when either step is strict), le x y := version_compare x y = Res r, r <= 0,
   for all byte strings without NUL. What is proved here is that statement on the complete finite domain of all strings of
   length <= 2 over the bytes `0 a . ~ -` (by computation in the kernel's VM, lifted with forallb_forall); beyond that
   domain transitivity is only monitored on the implementation's observed results (driver `triples`). Missing: the
   order-embedding of fragments into token keys that would give the unbounded statement. *)
Theorem C33_transitive_partial : forall a b c : bytes,
  In a small_domain -> In b small_domain -> In c small_domain -> trans_ok a b c = true.
Proof. exact transitive_small_domain. Qed.
Print Assumptions C33_transitive_partial.

(* agreement with Debian ordering — PARTIAL. Full statement: for all structurally valid versions a b (debian_wf: no NUL, no
   epoch, non-empty upstream part, non-empty revision after a hyphen), version_compare a b = Res (dpkg_compare a b), where
   dpkg_compare is the independent model of dpkg's verrevcmp. Proved here on the complete finite domain of all strings of
   length <= 3 over the bytes `0 a . ~ -`; beyond it the monitor compares the implementation with the reference model on every
   generated pair and with /usr/bin/dpkg on a sample. Missing: the simulation between the fragment loop and verrevcmp. *)
Theorem C33_matches_debian_partial : forall a b : bytes,
  In a debian_domain -> In b debian_domain -> debian_ok a b = true.
Proof. exact debian_small_domain. Qed.
Print Assumptions C33_matches_debian_partial.
