(* C13 — revert switches to a kept revision in place and blocks the reverted-from ones.
   Theorems only. Model: models/SnapSeq.v (Revert/RevertToRevision preconditions, doInstall's task list with Flags.Revert,
   doUnlinkCurrentSnap, doLinkSnap's revert branch, SnapState.Block), tied to /repo by the differential run of
   harness/overlay/overlord/snapstate/zz_verif_c10_test.go; monitor SnapSeq.monitor13_fail on the observed behaviour.
   Not modelled: data directories (the `no copy` part is the absence of copy-snap-data in the task list, and the driver
   counts the backend's copy-data calls on the real code). *)
From Coq Require Import List NArith ZArith Bool.
Import ListNotations.
Require Import V.models.SnapSeq V.proofs.SnapSeqProofs V.proofs.SnapSeqProofs2.
Open Scope N_scope.

(* a completed revert: the kept revisions and their order are unchanged, the target is current, active and linked,
   the mounted revisions are unchanged, and the change has no copy-snap-data, mount-snap or discard-snap task *)
Theorem C13_revert_in_place : forall (o : op) (s : st) (retain : Z) (inuse : N -> bool),
  wf s -> okind o = ORevert -> accepts o s = true ->
  let r := run_change o 0 (tasks_for o s retain inuse) s in
  seq r = seq s /\ cur r = orev o /\ active r = true /\ link r = orev o /\ mounted r = mounted s /\
  forallb (fun t => negb (kind_eqb (fst t) KCopyData || kind_eqb (fst t) KMount || kind_eqb (fst t) KDiscard))
          (tasks_for o s retain inuse) = true.
Proof. exact revert_in_place. Qed.
Print Assumptions C13_revert_in_place.

(* RevertToRevision is accepted exactly when the revision is kept, is not the current one and the snap is active;
   a refused operation changes nothing *)
Theorem C13_preconditions : forall (o : op) (s : st) (k : nat) (retain : Z) (inuse : N -> bool),
  okind o = ORevert -> odefault o = false ->
  (accepts o s = true <-> (In (orev o) (seq s) /\ orev o <> cur s /\ active s = true)) /\
  (accepts o s = false -> step o k retain inuse s = s).
Proof. exact revert_preconditions. Qed.
Print Assumptions C13_preconditions.

(* Revert() without a revision goes to the revision just before the current one *)
Theorem C13_default_is_previous : forall (o : op) (s : st),
  okind o = ORevert -> odefault o = true -> accepts o s = true ->
  exists i, last_index (cur s) (seq s) = Some (S i) /\ nth_error (seq s) i = Some (orev o).
Proof. exact revert_default_target. Qed.
Print Assumptions C13_default_is_previous.

(* Block() after a completed revert: the revisions after the new current one, minus those marked not-blocked; the
   reverted-from revision is marked not-blocked exactly when the revert asked for it, otherwise its mark is dropped *)
Theorem C13_block_after_revert : forall (o : op) (s : st) (retain : Z) (inuse : N -> bool) (i : nat),
  wf s -> okind o = ORevert -> accepts o s = true -> last_index (orev o) (seq s) = Some i ->
  block (run_change o 0 (tasks_for o s retain inuse) s)
  = filter (fun r => negb (mem r (if onotblocked o then ins (cur s) (nb s) else rem (cur s) (nb s))))
           (skipn (S i) (seq s)).
Proof. exact revert_block. Qed.
Print Assumptions C13_block_after_revert.

(* non-vacuity: kept [1,2,3], current 3; revert to 1 not blocking 3: Block() = [2] *)
Example C13_example :
  let s := mkSt [1;2;3] 3 true 1 false false false false false 0 3 0 [] 5 [] [1;2;3] 3 in
  let o := mk_revert 1 true 9 in
  accepts o s = true /\ seq (run_change o 0 (tasks_for o s 3 no_inuse) s) = [1;2;3] /\
  block (run_change o 0 (tasks_for o s 3 no_inuse) s) = [2].
Proof. vm_compute. repeat split; reflexivity. Qed.
