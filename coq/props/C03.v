(* C03 — every change settles and its reported status is consistent and monotone.
   This file holds the property theorems only: statement, `exact <lemma>`, Print Assumptions.
   Model: models/TaskEngine.v. change_status mirrors Change.Status (statusOrder, isChangeWaiting with its memo);
   the field cready is the closed `ready` channel of the change (markReady closes it and sets the ready time in the
   same call); panicked records the panic `change ... unexpectedly became unready` of detectChangeReady.

   FULL STATEMENT (for reference): with handlers that eventually return, every change reaches Done / Error / Undone /
   Hold; its status is the documented aggregate of the task statuses; once reported ready it is never reported in
   progress again; Err names every failed task.
   PROVED BELOW: the aggregate is ready exactly when every task is ready; it equals the independently written aggregate,
   Wait branch included (C03_status_is_documented_aggregate); the ready flag is never reset, over every event list; over every history in
   which user aborts are issued on unready changes only (the property's quantifier): the engine never panics, the
   ready flag equals `every task is ready`, only unready tasks have a running handler, a user abort of an unready
   change never panics and never flags the change ready while a task is unready, and a ready change is final.
   These are theorems about the code AFTER commit d3068df (finding 11 repaired: Abort / AbortLanes /
   AbortUnreadyLanes evaluate readiness once, after all statuses have been rewritten); before it the abort
   theorems were false (witness [C:Do; A:Done; B:Done], kept below as a regression example).
   Also proved: Error is final and a failed task is named by Err whenever the change reports Error (names only).
   NOT PROVED (monitored on every observed history instead, see notes/C03.md): settling (liveness; the progress step is
   C01_no_deadlock_pass); agreement of isChangeWaiting with the memo-free statement when tasks are in Wait; the
   messages of Err (task logs are not modelled). *)
From Coq Require Import List NArith ZArith Bool.
Import ListNotations.
Require Import V.models.TaskEngine V.proofs.TaskEngineProofs V.proofs.TaskEngineStatus V.proofs.TaskEngineReady
               V.proofs.TaskEngineDoing V.proofs.TaskEngineFuel V.proofs.TaskEngineLive V.proofs.TaskEngineErr V.proofs.TaskEngineWait.

(* Change.Status of a change with tasks is a ready status (Done, Undone, Hold, Error) iff every task is ready *)
Theorem C03_status_ready_iff_all_tasks_ready : forall l : list task,
  l <> [] -> ready (change_status l) = forallb (fun tk => ready (t_st tk)) l.
Proof. exact change_status_ready. Qed.
Print Assumptions C03_status_ready_iff_all_tasks_ready.

(* The aggregate equals the independently written statement agg_spec - Wait branch included: Wait iff some task is in
   Wait and every Do/Undo task is transitively blocked on Wait tasks (along wait edges for Do, halt edges for Undo;
   memo-free, no early exits), otherwise the first status of  Abort Undoing Undo Doing Do Wait Error Undone Done Hold
   that some task has; no tasks: Hold.
   General form: any task list whose wait/halt lists are those of g, with wait edges and halt edges acyclic (rank
   functions rk, rk2) and no Do task waiting for an Undo task / no Undo task waited for by a Do task. The memoised,
   early-exit isTaskWaiting then only ever stores the value of the memo-free statement, and its cycle guard (the
   `computing` mark) never fires. *)
Theorem C03_status_is_documented_aggregate_general :
  forall (g : list tdesc) (l : list task) (rk rk2 : nat -> nat),
  length l = length g ->
  (forall t, t_waits (nth t l dummy) = waits_g g t) -> (forall t, t_halts (nth t l dummy) = halts_of g t) ->
  (forall t w, In w (waits_g g t) -> rk w < rk t) -> (forall t h, In h (halts_of g t) -> rk2 h < rk2 t) ->
  (forall t d, stl l t = Do -> In d (waits_g g t) -> stl l d <> Undo) ->
  (forall t d, stl l t = Undo -> In d (halts_of g t) -> stl l d <> Do) ->
  change_status l = agg_spec g (map t_st l).
Proof. exact change_status_is_aggregate. Qed.
Print Assumptions C03_status_is_documented_aggregate_general.

(* ... and all these hypotheses hold in every state reached by a tame history (user aborts on unready changes only; a
   do handler that answers Wait waits to become Done) on a non-empty closed graph with acyclic wait edges: *)
Theorem C03_status_is_documented_aggregate : forall (g : list tdesc) (rk : nat -> nat) (es : list event),
  g <> [] -> closed g -> (forall t w, In w (waits_g g t) -> rk w < rk t) ->
  tame (init_state g) es ->
  let s := run_events (init_state g) es in
  change_status (tasks s) = agg_spec g (map t_st (tasks s)).
Proof. exact status_is_aggregate_reachable. Qed.
Print Assumptions C03_status_is_documented_aggregate.

(* without tasks in Wait no hypothesis on the graph or the state is needed *)
Theorem C03_status_priority_aggregate_no_wait : forall (g : list tdesc) (l : list task),
  has_status l Wait = false -> change_status l = agg_spec g (map t_st l).
Proof. exact change_status_is_priority_aggregate. Qed.
Print Assumptions C03_status_priority_aggregate_no_wait.

(* over every event list from every state: once the change has been marked ready (channel closed, ready time set) it
   is never unmarked *)
Theorem C03_ready_flag_never_reset : forall (es : list event) (s : state),
  cready s = true -> cready (run_events s es) = true.
Proof. exact cready_run_events. Qed.
Print Assumptions C03_ready_flag_never_reset.

(* Consistency of the ready flag. Over every non-empty graph and every event list in which user aborts are issued on
   changes not reported ready (Ensure in any order, handler completions with any outcome incl. errors and the lane
   aborts they trigger, ticks, wait resolutions, Change.Abort): no panic, the change is flagged ready exactly when
   every task is ready, and every task with a running handler is unready. *)
Theorem C03_ready_consistent : forall (g : list tdesc) (es : list event),
  g <> [] -> guarded (init_state g) es ->
  let s := run_events (init_state g) es in
  panicked s = false /\ cready s = all_ready (tasks s) /\ (forall t, In t (running s) -> ready (st s t) = false).
Proof. exact ready_consistent. Qed.
Print Assumptions C03_ready_consistent.

(* Finding 11 repaired (replaces the former C03_abort_transient_ready_refuted): at any point of any such history a
   user abort of an unready change does not panic, and afterwards the change is flagged ready exactly when every task
   is ready - it is never marked ready while a task is unready. *)
Theorem C03_abort_unready_never_panics : forall (g : list tdesc) (es : list event),
  g <> [] -> guarded (init_state g) es ->
  let s := run_events (init_state g) es in
  cready s = false ->
  panicked (step s UAbort) = false /\ cready (step s UAbort) = all_ready (tasks (step s UAbort)).
Proof. exact abort_unready_safe. Qed.
Print Assumptions C03_abort_unready_never_panics.

(* Ready once: after a change has been reported ready, any further events (user aborts being refused on ready
   changes) leave it ready: flag set, every task ready, Change.Status a ready status, no panic. *)
Theorem C03_ready_once : forall (g : list tdesc) (es es' : list event),
  g <> [] -> guarded (init_state g) es ->
  let s := run_events (init_state g) es in
  guarded s es' -> cready s = true ->
  let s' := run_events s es' in
  cready s' = true /\ all_ready (tasks s') = true /\ ready (change_status (tasks s')) = true /\ panicked s' = false.
Proof. exact ready_is_final. Qed.
Print Assumptions C03_ready_once.

(* Error is final: in every state satisfying the invariant of C03_ready_consistent no event rewrites a task in Error *)
Theorem C03_error_is_final : forall (s : state) (e : event) (u : nat),
  inv s -> st s u = Error -> st (step s e) u = Error.
Proof. exact error_final_step. Qed.
Print Assumptions C03_error_is_final.

(* Err clause, PARTIAL (names, not messages): in every history with user aborts on unready changes only, a task whose
   handler returned an error is in Error at every later point of the history, and whenever the change then reports
   Error, Change.Err names it. That the line carries the error the task FAILED with (its last ERROR log line, not an
   earlier one it logged itself) is outside the model - task logs are not modelled - and is checked by the driver's
   per-task comparison of Err() on every observed history. *)
Theorem C03_err_names_failed_tasks_partial : forall (g : list tdesc) (es1 es2 : list event) (t : nat),
  g <> [] -> guarded (init_state g) (es1 ++ Finish t OErr :: es2) ->
  In t (running (run_events (init_state g) es1)) ->
  let s := run_events (init_state g) (es1 ++ Finish t OErr :: es2) in
  st s t = Error /\ (change_status (tasks s) = Error -> In t (err_tasks (tasks s))).
Proof. exact failed_task_stays_named. Qed.
Print Assumptions C03_err_names_failed_tasks_partial.

(* regression example, the former witness of finding 11: tasks [C waits A,B] after A and B completed, statuses
   [Do; Done; Done], change unready: Change.Abort now gives [Hold; Undo; Undo], no panic, change still unready
   (before d3068df: panic, change marked ready, [Hold; Undo; Done]) *)
Theorem C03_abort_on_former_witness :
  let s := run_events (init_state f11_graph) f11_prefix in
  map t_st (tasks s) = [Do; Done; Done] /\ cready s = false /\ panicked s = false /\
  panicked (step s UAbort) = false /\ cready (step s UAbort) = false /\
  map t_st (tasks (step s UAbort)) = [Hold; Undo; Undo].
Proof. exact f11_witness. Qed.
Print Assumptions C03_abort_on_former_witness.

(* the guard is necessary: aborting a READY change whose task is Done panics (the internal check kept by the repair),
   so the hypothesis `aborts are issued on unready changes only` is not vacuous *)
Theorem C03_abort_ready_refuted : exists (g : list tdesc) (es : list event),
  let s := run_events (init_state g) es in
  cready s = true /\ panicked s = false /\ panicked (step s UAbort) = true.
Proof. exists [([], [], true)], [Ensure [0]; Finish 0 OOk]. exact abort_ready_witness. Qed.
Print Assumptions C03_abort_ready_refuted.

(* non-vacuity of `guarded`: a history with a user abort of an unready change *)
Example C03_guarded_nonvacuous : guarded (init_state f11_graph) (f11_prefix ++ [UAbort; Ensure [0; 1; 2]]).
Proof. vm_compute. repeat split; intros; try reflexivity; try discriminate. Qed.
