(* C03 — every change settles and its reported status is consistent and monotone.
   This file holds the property theorems only: statement, `exact <lemma>`, Print Assumptions.
   Model: models/TaskEngine.v. change_status mirrors Change.Status (statusOrder, isChangeWaiting with its memo);
   the field cready is the closed `ready` channel of the change (markReady closes it and sets the ready time in the
   same call); panicked records the panic `change ... unexpectedly became unready` of detectChangeReady.

   FULL STATEMENT (for reference): with handlers that eventually return, every change reaches Done / Error / Undone /
   Hold; its status is the documented aggregate of the task statuses; once reported ready it is never reported in
   progress again; Err names every failed task.
   PROVED BELOW: the aggregate is ready exactly when every task is ready; it equals the independently written aggregate,
   Wait branch included (C03_status_is_documented_aggregate); the ready flag is never reset, over every event list; over every history in
   which user aborts are issued on unready changes only (the property's quantifier): the engine never panics, the
   ready flag equals `every task is ready`, only unready tasks have a running handler, a user abort of an unready
   change never panics and never flags the change ready while a task is unready, and a ready change is final.
   These are theorems about the code AFTER commit d3068df (finding 11 repaired: Abort / AbortLanes /
   AbortUnreadyLanes evaluate readiness once, after all statuses have been rewritten); before it the abort
   theorems were false (witness [C:Do; A:Done; B:Done], kept below as a regression example).
   Also proved: Error is final; a task is in Error iff its handler failed; Err names exactly the failed tasks whenever
   the change reports Error; the status table of a settled change and `settled: Error iff some handler failed`.
   Also proved: C03_settles (liveness, bounded rounds).
   NOT PROVED (monitored on every observed history instead, see notes/C03.md): agreement of isChangeWaiting with the memo-free statement when tasks are in Wait; the
   messages of Err (task logs are not modelled). *)
From Coq Require Import List NArith ZArith Bool.
Import ListNotations.
Require Import V.models.TaskEngine V.proofs.TaskEngineProofs V.proofs.TaskEngineStatus V.proofs.TaskEngineReady
               V.proofs.TaskEngineDoing V.proofs.TaskEngineFuel V.proofs.TaskEngineLive V.proofs.TaskEngineErr V.proofs.TaskEngineWait V.proofs.TaskEngineSettled
               V.proofs.TaskEnginePass V.proofs.TaskEngineSettle.

(* Change.Status of a change with tasks is a ready status (Done, Undone, Hold, Error) iff every task is ready *)
Theorem C03_status_ready_iff_all_tasks_ready : forall l : list task,
  l <> [] -> ready (change_status l) = forallb (fun tk => ready (t_st tk)) l.
Proof. exact change_status_ready. Qed.
Print Assumptions C03_status_ready_iff_all_tasks_ready.

(* The aggregate equals the independently written statement agg_spec - Wait branch included: Wait iff some task is in
   Wait and every Do/Undo task is transitively blocked on Wait tasks (along wait edges for Do, halt edges for Undo;
   memo-free, no early exits), otherwise the first status of  Abort Undoing Undo Doing Do Wait Error Undone Done Hold
   that some task has; no tasks: Hold.
   General form: any task list whose wait/halt lists are those of g, with wait edges and halt edges acyclic (rank
   functions rk, rk2) and no Do task waiting for an Undo task / no Undo task waited for by a Do task. The memoised,
   early-exit isTaskWaiting then only ever stores the value of the memo-free statement, and its cycle guard (the
   `computing` mark) never fires. *)
Theorem C03_status_is_documented_aggregate_general :
  forall (g : list tdesc) (l : list task) (rk rk2 : nat -> nat),
  length l = length g ->
  (forall t, t_waits (nth t l dummy) = waits_g g t) -> (forall t, t_halts (nth t l dummy) = halts_of g t) ->
  (forall t w, In w (waits_g g t) -> rk w < rk t) -> (forall t h, In h (halts_of g t) -> rk2 h < rk2 t) ->
  (forall t d, stl l t = Do -> In d (waits_g g t) -> stl l d <> Undo) ->
  (forall t d, stl l t = Undo -> In d (halts_of g t) -> stl l d <> Do) ->
  change_status l = agg_spec g (map t_st l).
Proof. exact change_status_is_aggregate. Qed.
Print Assumptions C03_status_is_documented_aggregate_general.

(* ... and all these hypotheses hold in every state reached by a tame history (user aborts on unready changes only; a
   do handler that answers Wait waits to become Done) on a non-empty closed graph with acyclic wait edges: *)
Theorem C03_status_is_documented_aggregate : forall (g : list tdesc) (rk : nat -> nat) (es : list event),
  g <> [] -> closed g -> (forall t w, In w (waits_g g t) -> rk w < rk t) ->
  tame (init_state g) es ->
  let s := run_events (init_state g) es in
  change_status (tasks s) = agg_spec g (map t_st (tasks s)).
Proof. exact status_is_aggregate_reachable. Qed.
Print Assumptions C03_status_is_documented_aggregate.

(* without tasks in Wait no hypothesis on the graph or the state is needed *)
Theorem C03_status_priority_aggregate_no_wait : forall (g : list tdesc) (l : list task),
  has_status l Wait = false -> change_status l = agg_spec g (map t_st l).
Proof. exact change_status_is_priority_aggregate. Qed.
Print Assumptions C03_status_priority_aggregate_no_wait.

(* over every event list from every state: once the change has been marked ready (channel closed, ready time set) it
   is never unmarked *)
Theorem C03_ready_flag_never_reset : forall (es : list event) (s : state),
  cready s = true -> cready (run_events s es) = true.
Proof. exact cready_run_events. Qed.
Print Assumptions C03_ready_flag_never_reset.

(* Consistency of the ready flag. Over every non-empty graph and every event list in which user aborts are issued on
   changes not reported ready (Ensure in any order, handler completions with any outcome incl. errors and the lane
   aborts they trigger, ticks, wait resolutions, Change.Abort): no panic, the change is flagged ready exactly when
   every task is ready, and every task with a running handler is unready. *)
Theorem C03_ready_consistent : forall (g : list tdesc) (es : list event),
  g <> [] -> guarded (init_state g) es ->
  let s := run_events (init_state g) es in
  panicked s = false /\ cready s = all_ready (tasks s) /\ (forall t, In t (running s) -> ready (st s t) = false).
Proof. exact ready_consistent. Qed.
Print Assumptions C03_ready_consistent.

(* Finding 11 repaired (replaces the former C03_abort_transient_ready_refuted): at any point of any such history a
   user abort of an unready change does not panic, and afterwards the change is flagged ready exactly when every task
   is ready - it is never marked ready while a task is unready. *)
Theorem C03_abort_unready_never_panics : forall (g : list tdesc) (es : list event),
  g <> [] -> guarded (init_state g) es ->
  let s := run_events (init_state g) es in
  cready s = false ->
  panicked (step s UAbort) = false /\ cready (step s UAbort) = all_ready (tasks (step s UAbort)).
Proof. exact abort_unready_safe. Qed.
Print Assumptions C03_abort_unready_never_panics.

(* Ready once: after a change has been reported ready, any further events (user aborts being refused on ready
   changes) leave it ready: flag set, every task ready, Change.Status a ready status, no panic. *)
Theorem C03_ready_once : forall (g : list tdesc) (es es' : list event),
  g <> [] -> guarded (init_state g) es ->
  let s := run_events (init_state g) es in
  guarded s es' -> cready s = true ->
  let s' := run_events s es' in
  cready s' = true /\ all_ready (tasks s') = true /\ ready (change_status (tasks s')) = true /\ panicked s' = false.
Proof. exact ready_is_final. Qed.
Print Assumptions C03_ready_once.

(* Error is final: in every state satisfying the invariant of C03_ready_consistent no event rewrites a task in Error *)
Theorem C03_error_is_final : forall (s : state) (e : event) (u : nat),
  inv s -> st s u = Error -> st (step s e) u = Error.
Proof. exact error_final_step. Qed.
Print Assumptions C03_error_is_final.

(* Err clause, names in full. failed_of s0 es lists the tasks whose handler returned an error in the history es (the
   completion events `Finish t OErr` that were enabled). Over every tame history on a non-empty closed graph:
   a task is in Error iff its handler returned an error ... *)
Theorem C03_error_iff_handler_failed : forall (g : list tdesc) (es : list event) (u : nat),
  g <> [] -> closed g -> tame (init_state g) es ->
  (st (run_events (init_state g) es) u = Error <-> In u (failed_of (init_state g) es)).
Proof. exact error_iff_failed. Qed.
Print Assumptions C03_error_iff_handler_failed.

(* ... and Change.Err names EXACTLY those tasks whenever the change reports Error (and nothing otherwise). This
   replaces C03_err_names_failed_tasks_partial. What the model cannot say is the TEXT of each line (that it is the
   error the task failed with, i.e. its last ERROR log line, printed verbatim): task logs and formatting are not
   modelled; that part stays tied by the driver's per-task comparison of Err() on every observed history. *)
Theorem C03_err_names_exactly_failed_tasks : forall (g : list tdesc) (es : list event) (u : nat),
  g <> [] -> closed g -> tame (init_state g) es ->
  let s := run_events (init_state g) es in
  (In u (err_tasks (tasks s)) <-> change_status (tasks s) = Error /\ In u (failed_of (init_state g) es)).
Proof. exact err_names_exactly_failed. Qed.
Print Assumptions C03_err_names_exactly_failed_tasks.

(* the status of a settled change, completely: Error if some task is in Error, else Undone, else Done, else Hold *)
Theorem C03_settled_status_table : forall l : list task,
  all_ready l = true ->
  change_status l =
  if has_status l Error then Error else if has_status l Undone then Undone else if has_status l Done then Done else Hold.
Proof. exact settled_status_table. Qed.
Print Assumptions C03_settled_status_table.

(* a settled state of a tame history: no tomb, flagged ready, reports Error iff some handler returned an error, and Err
   names exactly the failed tasks *)
Theorem C03_settled_error_iff_handler_failed : forall (g : list tdesc) (es : list event),
  g <> [] -> closed g -> tame (init_state g) es ->
  let s := run_events (init_state g) es in
  all_ready (tasks s) = true ->
  running s = [] /\ cready s = true /\
  (change_status (tasks s) = Error <-> failed_of (init_state g) es <> []) /\
  (forall u, In u (err_tasks (tasks s)) <-> In u (failed_of (init_state g) es)).
Proof. exact settled_error_iff_failed. Qed.
Print Assumptions C03_settled_error_iff_handler_failed.

(* non-vacuity: chain 0 <- 1, task 1 fails, task 0 is undone; closed graph, tame history, settled, Err names [1] *)
Example C03_settled_nonvacuous :
  let g := [([], [], true); ([], [0], true)] in
  let es := [Ensure [0;1]; Finish 0 OOk; Ensure [0;1]; Finish 1 OErr; Ensure [0;1]; Finish 0 OOk; Ensure [0;1]] in
  let s := run_events (init_state g) es in
  closed g /\ tame (init_state g) es /\ all_ready (tasks s) = true /\
  failed_of (init_state g) es = [1] /\ err_tasks (tasks s) = [1] /\
  map t_st (tasks s) = [Undone; Error] /\ change_status (tasks s) = Error.
Proof. exact settled_example. Qed.

(* C03_settles (liveness). Every tame history on a non-empty closed graph with acyclic wait edges (rank function rk)
   that leaves no task in Wait (no reboot pending) and no task scheduled for later (no delayed retry outstanding) can be
   continued to a settled state by handlers that return: first every running handler finishes (nil or an error, as
   the oracle oc0 says), then rounds  Ensure (ANY order that visits every task) ; every running handler finishes
   (oracle of the round).  After  settle_bound n = n(5n+1)+5n+1  rounds, n the number of tasks - whatever the orders
   and the oracles - every task is ready, no handler runs, the change is flagged ready and it reports Error iff some
   task is in Error. Handlers answering Retry or Wait forever are excluded by the form of the rounds (they are what the
   property's `handlers that eventually return / finitely many Retry` excludes); the potential is
   (number of tasks in Error, sum of the positions of the task statuses along Do<Doing<Abort<Undo<Undoing<ready). *)
Theorem C03_settles : forall (g : list tdesc) (rk : nat -> nat) (es : list event),
  g <> [] -> closed g -> (forall t w, In w (waits_g g t) -> rk w < rk t) ->
  tame (init_state g) es ->
  let s0 := run_events (init_state g) es in
  (forall t, st s0 t <> Wait) -> (forall t, t_at (get s0 t) = 0%Z) ->
  forall (oc0 : nat -> bool) (rl : list (list nat * (nat -> bool))),
  settle_bound (length g) <= length rl ->
  (forall r, In r rl -> forall t, t < length g -> In t (fst r)) ->
  let sF := iter_rounds rl (finish_all s0 oc0) in
  all_ready (tasks sF) = true /\ running sF = [] /\ cready sF = true /\
  (change_status (tasks sF) = Error <-> has_status (tasks sF) Error = true).
Proof. exact settles. Qed.
Print Assumptions C03_settles.

(* non-vacuity: chain 0 <- 1 <- 2 from the start, task 1 fails: after the bound (64 rounds for 3 tasks) the statuses
   are Undone, Error, Hold *)
Example C03_settles_nonvacuous :
  let g := [([], [], true); ([], [0], true); ([], [1], true)] in
  let rl := repeat ([0; 1; 2], fun t => Nat.eqb t 1) (settle_bound 3) in
  map t_st (tasks (iter_rounds rl (finish_all (init_state g) (fun _ => false)))) = [Undone; Error; Hold].
Proof. exact settles_example. Qed.

(* regression example, the former witness of finding 11: tasks [C waits A,B] after A and B completed, statuses
   [Do; Done; Done], change unready: Change.Abort now gives [Hold; Undo; Undo], no panic, change still unready
   (before d3068df: panic, change marked ready, [Hold; Undo; Done]) *)
Theorem C03_abort_on_former_witness :
  let s := run_events (init_state f11_graph) f11_prefix in
  map t_st (tasks s) = [Do; Done; Done] /\ cready s = false /\ panicked s = false /\
  panicked (step s UAbort) = false /\ cready (step s UAbort) = false /\
  map t_st (tasks (step s UAbort)) = [Hold; Undo; Undo].
Proof. exact f11_witness. Qed.
Print Assumptions C03_abort_on_former_witness.

(* the guard is necessary: aborting a READY change whose task is Done panics (the internal check kept by the repair),
   so the hypothesis `aborts are issued on unready changes only` is not vacuous *)
Theorem C03_abort_ready_refuted : exists (g : list tdesc) (es : list event),
  let s := run_events (init_state g) es in
  cready s = true /\ panicked s = false /\ panicked (step s UAbort) = true.
Proof. exists [([], [], true)], [Ensure [0]; Finish 0 OOk]. exact abort_ready_witness. Qed.
Print Assumptions C03_abort_ready_refuted.

(* non-vacuity of `guarded`: a history with a user abort of an unready change *)
Example C03_guarded_nonvacuous : guarded (init_state f11_graph) (f11_prefix ++ [UAbort; Ensure [0; 1; 2]]).
Proof. vm_compute. repeat split; intros; try reflexivity; try discriminate. Qed.
