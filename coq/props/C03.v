(* C03 — every change settles and its reported status is consistent and monotone.
   This file holds the property theorems only: statement, `exact <lemma>`, Print Assumptions.
   Model: models/TaskEngine.v. change_status mirrors Change.Status (statusOrder, isChangeWaiting with its memo);
   the field cready is the closed `ready` channel of the change (markReady closes it and sets the ready time in the
   same call); panicked records the panic `change ... unexpectedly became unready` of detectChangeReady.

   FULL STATEMENT (for reference): with handlers that eventually return, every change reaches Done / Error / Undone /
   Hold; its status is the documented aggregate of the task statuses; once reported ready it is never reported in
   progress again; Err names every failed task.
   PROVED BELOW: the aggregate is ready exactly when every task is ready; it equals the independent priority
   statement when no task is in Wait; the ready flag is never reset, over every event list; over every history
   without user aborts the engine never panics, the ready flag equals `every task is ready`, only unready tasks have
   a running handler, and a ready change is final; finding 11 (a user abort of an UNREADY change panics and marks
   the change ready) with its witness, and the behaviour of the proposed repair on that witness.
   NOT PROVED (monitored on every observed history instead, see notes/C03.md): settling (liveness); agreement of
   isChangeWaiting with the memo-free statement when tasks are in Wait; the ready-once invariant for histories WITH
   user aborts of unready changes under the repaired abort (abort_change_fixed); Err. *)
From Coq Require Import List NArith ZArith Bool.
Import ListNotations.
Require Import V.models.TaskEngine V.proofs.TaskEngineProofs V.proofs.TaskEngineStatus V.proofs.TaskEngineReady.

(* Change.Status of a change with tasks is a ready status (Done, Undone, Hold, Error) iff every task is ready *)
Theorem C03_status_ready_iff_all_tasks_ready : forall l : list task,
  l <> [] -> ready (change_status l) = forallb (fun tk => ready (t_st tk)) l.
Proof. exact change_status_ready. Qed.
Print Assumptions C03_status_ready_iff_all_tasks_ready.

(* PARTIAL (no task in Wait): the aggregate equals the independently written priority statement agg_spec: the first
   status of  Abort Undoing Undo Doing Do Wait Error Undone Done Hold  that some task has; no tasks: Hold *)
Theorem C03_status_is_documented_aggregate_partial : forall (g : list tdesc) (l : list task),
  has_status l Wait = false -> change_status l = agg_spec g (map t_st l).
Proof. exact change_status_is_priority_aggregate. Qed.
Print Assumptions C03_status_is_documented_aggregate_partial.

(* over every event list from every state: once the change has been marked ready (channel closed, ready time set) it
   is never unmarked *)
Theorem C03_ready_flag_never_reset : forall (es : list event) (s : state),
  cready s = true -> cready (run_events s es) = true.
Proof. exact cready_run_events. Qed.
Print Assumptions C03_ready_flag_never_reset.

(* Ready-once, runner part. Over every non-empty graph and every event list without user aborts (Ensure in any order,
   handler completions with any outcome incl. errors and the lane aborts they trigger, ticks, wait resolutions):
   detectChangeReady never panics, the change is flagged ready exactly when every task is ready, and every task with
   a running handler is unready. *)
Theorem C03_runner_ready_consistent : forall (g : list tdesc) (es : list event),
  g <> [] -> Forall no_uabort es ->
  let s := run_events (init_state g) es in
  panicked s = false /\ cready s = all_ready (tasks s) /\ (forall t, In t (running s) -> ready (st s t) = false).
Proof. exact runner_ready_consistent. Qed.
Print Assumptions C03_runner_ready_consistent.

(* ... hence once a change has been reported ready it stays ready: after any further runner events the flag is set,
   every task is ready, Change.Status is a ready status and nothing panicked. PARTIAL with respect to the property's
   quantifier: histories containing user aborts of unready changes are excluded (finding 11 below shows the statement
   is false for them on the current code). *)
Theorem C03_ready_once_partial : forall (g : list tdesc) (es es' : list event),
  g <> [] -> Forall no_uabort es -> Forall no_uabort es' ->
  let s := run_events (init_state g) es in
  cready s = true ->
  let s' := run_events s es' in
  cready s' = true /\ all_ready (tasks s') = true /\ ready (change_status (tasks s')) = true /\ panicked s' = false.
Proof. exact ready_is_final. Qed.
Print Assumptions C03_ready_once_partial.

(* FINDING 11 (KNOWN_FINDINGS key abort-unready-transient-ready): the statement `a user abort issued on an unready
   change never makes detectChangeReady panic` is false of the faithful model; witness: tasks [C waits A,B] after A
   and B completed, i.e. statuses [Do; Done; Done]. C: Do->Hold makes every task ready for an instant, the change
   is marked ready, then A: Done->Undo trips the panic. Reproduced on the real code by the driver on every run. *)
Theorem C03_abort_transient_ready_refuted : exists (g : list tdesc) (es : list event),
  let s := run_events (init_state g) es in
  cready s = false /\ panicked s = false /\
  panicked (step s UAbort) = true /\ cready (step s UAbort) = true /\
  map t_st (tasks (step s UAbort)) = [Hold; Undo; Done].
Proof. exists f11_graph, f11_prefix. pose proof f11_witness as H. cbv zeta in *. tauto. Qed.
Print Assumptions C03_abort_transient_ready_refuted.

(* the proposed repair (notes/C03-fix.diff: readiness is evaluated once, after the abort has rewritten all statuses)
   on the same state: no panic, every task aborted, the change stays unready *)
Theorem C03_fixed_abort_on_witness :
  let s := run_events (init_state f11_graph) f11_prefix in
  panicked (abort_change_fixed s) = false /\ cready (abort_change_fixed s) = false /\
  map t_st (tasks (abort_change_fixed s)) = [Hold; Undo; Undo].
Proof. exact f11_fixed_witness. Qed.
Print Assumptions C03_fixed_abort_on_witness.

(* the guard of the REST API (abort only unready changes) is necessary: aborting a ready change whose task is Done
   panics too, so the hypothesis `aborts are issued on unready changes only` of the property is not vacuous *)
Theorem C03_abort_ready_refuted : exists (g : list tdesc) (es : list event),
  let s := run_events (init_state g) es in
  cready s = true /\ panicked s = false /\ panicked (step s UAbort) = true.
Proof. exists [([], [], true)], [Ensure [0]; Finish 0 OOk]. exact abort_ready_witness. Qed.
Print Assumptions C03_abort_ready_refuted.
