(* C17 -- kernel and base updates can always fall back to the last known-good revision.
   Property theorems only: statement, `exact <lemma>`, Print Assumptions.
   Model: models/Boot.v (boot/bootstate16.go, bootstate20.go, bootstate20_bloader_kernel_state.go, boot.go,
   initramfs.go function by function; firmware step from gen/GrubKernelStatus.v = grub.cfg).

   Reading the statements. `run20 fx g (init20 k0 b0) evs` is the UC20/grub machine after an ARBITRARY event list evs
   (operation starts, single writes, resets = power loss / failed boot / reboot, firmware and initramfs steps), started
   from a fresh installation of kernel k0 and base b0. A reset is possible between any two writes.
   fx = false is the code as it is, fx = true the repair proposed in notes/C17-fix.diff; g = true means that no power
   loss falls into the window of the recorded finding (between the modeenv write and EnableKernel of a kernel-switching
   undo). Every theorem holds for (fx, g) = (false, true): the code as it is, outside that window, and for
   (true, false): the repaired code with a power loss anywhere. For (false, false) the dead end is reachable
   (C17_dead_end_refuted, confirmed on the real code by the driver on every run; KNOWN_FINDINGS key
   undo-kernel-switch-crash-after-modeenv).
   Ghost state: gk/gb = revisions that booted and that snapd then began to mark successful (initially k0 / b0);
   ak/ab = the revisions under trial: replaced (not extended) by each completed setNext -- emptied by a completed
   request for the current revision, a completed undo or a completed mark-successful; while the writes of a request
   are in flight (or were cut by a power loss) the old and the new candidate are both in the set. *)
From Coq Require Import List NArith Bool.
Import ListNotations.
Require Import V.models.Boot V.proofs.BootProofs.
Open Scope N_scope.

(* UC20 (cf = Grub: kernel.efi / try-kernel.efi links + grub.cfg; cf = EnvNS: snap_kernel / snap_try_kernel in the
   bootloader environment, firmware that cannot run scripts, status advanced by the initramfs -- piboot).
   Whatever kernel and base the initramfs mounts, at the moment it mounts them, is known-good or THE revision under
   trial; and the kernel snap it mounts is the image the firmware started. *)
Theorem C17_boots_good_or_try : forall cf fx g k0 b0 evs i k b, fx || g = true ->
  let m := run20 cf fx g (init20 k0 b0) evs in
  ph m = PhFw i -> ph (step20 cf fx g m EInitramfs) = PhRun k b ->
  k = i /\ (In k (gk m) \/ In k (ak m)) /\ (In b (gb m) \/ In b (ab m)).
Proof. intros * Hg m Hp Hs. eapply mounts_good_or_try; eauto. exists evs; reflexivity. Qed.
Print Assumptions C17_boots_good_or_try.

(* UC20: in every reachable state, also between two writes, kernel.efi and the modeenv base name known-good revisions *)
Theorem C17_fallback_known_good : forall cf fx g k0 b0 evs, fx || g = true ->
  let m := run20 cf fx g (init20 k0 b0) evs in In (kl (st m)) (gk m) /\ In (m_base (me (st m))) (gb m).
Proof. intros * Hg m. eapply fallback_known_good; eauto. exists evs; reflexivity. Qed.
Print Assumptions C17_fallback_known_good.

(* UC20: the good revision is never removed from the boot environment while it is the fall-back: the fall-back kernel
   is known-good AND still listed in current_kernels (so the initramfs accepts it), the fall-back base is known-good *)
Theorem C17_fallback_never_removed : forall cf fx g k0 b0 evs, fx || g = true ->
  let m := run20 cf fx g (init20 k0 b0) evs in
  g && in_window m = false ->
  In (kl (st m)) (gk m) /\ In (kl (st m)) (m_ck (me (st m))) /\ In (m_base (me (st m))) (gb m).
Proof. intros * Hg m. eapply fallback_never_removed; eauto. exists evs; reflexivity. Qed.
Print Assumptions C17_fallback_never_removed.

(* UC20: a revision becomes known-good only when snapd, running on it, starts MarkBootSuccessful *)
Theorem C17_good_only_after_mark : forall cf fx g m e,
  (gk (step20 cf fx g m e) = gk m /\ gb (step20 cf fx g m e) = gb m) \/
  (exists k b, ph m = PhRun k b /\ e = EOp Mark /\
               gk (step20 cf fx g m e) = k :: gk m /\ gb (step20 cf fx g m e) = b :: gb m).
Proof. exact known_good_only_by_mark. Qed.
Print Assumptions C17_good_only_after_mark.

(* UC20: the boot never stops (no untrusted kernel without fallback, grub never stuck on a missing try kernel) *)
Theorem C17_never_dead_end : forall cf fx g k0 b0 evs, fx || g = true ->
  ph (run20 cf fx g (init20 k0 b0) evs) <> PhDead.
Proof. intros * Hg. eapply never_dead; eauto. exists evs; reflexivity. Qed.
Print Assumptions C17_never_dead_end.

(* ... and without the guard the full statement is false of the code as it is (finding) *)
Theorem C17_dead_end_refuted : exists evs, ph (run20 Grub false false (init20 1 1) evs) = PhDead.
Proof. exists dead_end_witness. exact dead_end_reached. Qed.
Print Assumptions C17_dead_end_refuted.

(* UC20: a failed or interrupted kernel trial (kernel_status still trying at the reset) is followed by a boot of the
   fall-back kernel, and that kernel is known-good (whatever the tryboot flag) *)
Theorem C17_failed_kernel_trial_returns : forall cf fx g k0 b0 evs, fx || g = true ->
  let m := run20 cf fx g (init20 k0 b0) evs in
  g && in_window m = false -> ks (st m) = STrying ->
  forall tb, exists b, ph (run20 cf fx g m [EReset; EFirmware tb; EInitramfs]) = PhRun (kl (st m)) b /\ In (kl (st m)) (gk m).
Proof. intros * Hg m. eapply failed_kernel_trial_returns; eauto. exists evs; reflexivity. Qed.
Print Assumptions C17_failed_kernel_trial_returns.

(* UC20: bounded fallback -- from every reachable state, a reset is followed by a mount within two firmware rounds
   (a missing or untrusted try kernel costs one extra round; no try loop, no dead end). The tryboot flag is one-shot:
   only the first firmware run can have it. *)
Theorem C17_boot_terminates : forall cf fx g k0 b0 evs, fx || g = true ->
  let m := run20 cf fx g (init20 k0 b0) evs in
  g && in_window m = false ->
  forall tb, exists k b,
    ph (run20 cf fx g m [EReset; EFirmware tb; EInitramfs; EFirmware false; EInitramfs]) = PhRun k b.
Proof. intros * Hg m. eapply boot_terminates; eauto. exists evs; reflexivity. Qed.
Print Assumptions C17_boot_terminates.

(* UC20: a failed base trial (base_status still trying when the initramfs runs) mounts the modeenv base, which is
   known-good, and clears the status *)
Theorem C17_failed_base_trial_returns : forall cf fx g k0 b0 evs, fx || g = true ->
  let m := run20 cf fx g (init20 k0 b0) evs in
  m_bst (me (st m)) = STrying ->
  snd (initramfs_base (me (st m))) = m_base (me (st m)) /\ m_bst (fst (initramfs_base (me (st m)))) = SDef /\
  In (m_base (me (st m))) (gb m).
Proof. intros * Hg m. eapply failed_base_trial_returns; eauto. exists evs; reflexivity. Qed.
Print Assumptions C17_failed_base_trial_returns.

(* UC16/18, kernel AND core. The boot script lives in the gadget snap, outside this repository: it is a parameter fw,
   and the theorems hold for EVERY script that satisfies the contract fw16_ok (BootProofs.v) read off the protocol
   comment above boot.MarkBootSuccessful: it only rewrites snap_mode; try -> trying and boots snap_try_* where set;
   trying -> "" and boots snap_*; otherwise boots snap_*. firmware16 (used for the correspondence) satisfies it.
   Every operation is one SetBootVars call, so a power loss falls before or after it (E16Reset at any point). *)
Theorem C17_uc16_boots_good_or_try : forall fw k0 c0 evs k c, fw16_ok fw ->
  let m := run16 fw (init16 k0 c0) evs in
  ph16 m = P16Off -> ph16 (step16 fw m E16Firmware) = P16Run k c ->
  (In k (gk16 m) \/ In k (ak16 m)) /\ (In c (gc16 m) \/ In c (ac16 m)).
Proof. exact boots16_good_or_try. Qed.
Print Assumptions C17_uc16_boots_good_or_try.

(* UC16/18: snap_kernel / snap_core (the fall-back; never empty) always name known-good revisions: the good one is
   never removed from the boot environment while it is the fall-back *)
Theorem C17_uc16_fallback_known_good : forall fw k0 c0 evs, fw16_ok fw ->
  let m := run16 fw (init16 k0 c0) evs in In (sk (s16 m)) (gk16 m) /\ In (sc (s16 m)) (gc16 m).
Proof. exact fallback16_known_good. Qed.
Print Assumptions C17_uc16_fallback_known_good.

Theorem C17_uc16_failed_trial_returns : forall fw k0 c0 evs, fw16_ok fw ->
  let m := run16 fw (init16 k0 c0) evs in mode (s16 m) = STrying ->
  ph16 (run16 fw m [E16Reset; E16Firmware]) = P16Run (sk (s16 m)) (sc (s16 m)) /\
  In (sk (s16 m)) (gk16 m) /\ In (sc (s16 m)) (gc16 m).
Proof. exact failed_trial16_returns. Qed.
Print Assumptions C17_uc16_failed_trial_returns.

Theorem C17_uc16_good_only_after_mark : forall fw m e,
  (gk16 (step16 fw m e) = gk16 m /\ gc16 (step16 fw m e) = gc16 m) \/
  (exists k c, ph16 m = P16Run k c /\ e = E16Op Mark16 /\
               gk16 (step16 fw m e) = k :: gk16 m /\ gc16 (step16 fw m e) = c :: gc16 m).
Proof. exact known_good16_only_by_mark. Qed.
Print Assumptions C17_uc16_good_only_after_mark.

(* the contract is satisfiable: the script used for the correspondence meets it *)
Theorem C17_uc16_script_contract_met : fw16_ok firmware16.
Proof. exact firmware16_ok. Qed.
Print Assumptions C17_uc16_script_contract_met.

(* not scriptable bootloaders: boot/initramfs.go updateNotScriptableBootloaderStatus on its complete domain. The status
   advances try -> trying only when the firmware really used the try configuration (kernel_status=trying on the command
   line); anything else ends the trial. The whole configuration (cf = EnvNS) is covered by the UC20 theorems above; the
   Raspberry Pi firmware itself is not in the repository and is modelled (firmware_ns in models/Boot.v). *)
Theorem C17_not_scriptable_status : forall conf cl,
  not_scriptable_update conf cl =
    match conf with
    | SDef => None
    | STry => Some (match cl with STrying => STrying | _ => SDef end)
    | _ => Some SDef
    end.
Proof. exact not_scriptable_spec. Qed.
Print Assumptions C17_not_scriptable_status.

(* non-vacuity: both guard instances exist; trial boots are reachable in every configuration; a failed trial state
   is reachable; the repaired code survives the window; cancelled trials leave the set under trial *)
Example guard_code_as_is : false || true = true. Proof. reflexivity. Qed.
Example guard_repaired : true || false = true. Proof. reflexivity. Qed.
Definition try_kernel_2 : list ev20 :=
  [EFirmware false; EInitramfs; EOp (SetK 2 false); EWrite; EWrite; EWrite; EReset; EFirmware true; EInitramfs].
Example trial_boot_reachable_grub : ph (run20 Grub false true (init20 1 1) try_kernel_2) = PhRun 2 1.
Proof. vm_compute. reflexivity. Qed.
Example trial_boot_reachable_ns : ph (run20 EnvNS false true (init20 1 1) try_kernel_2) = PhRun 2 1.
Proof. vm_compute. reflexivity. Qed.
Example failed_trial_state_reachable_grub : ks (st (run20 Grub false true (init20 1 1) try_kernel_2)) = STrying.
Proof. vm_compute. reflexivity. Qed.
Example failed_trial_state_reachable_ns : ks (st (run20 EnvNS false true (init20 1 1) try_kernel_2)) = STrying.
Proof. vm_compute. reflexivity. Qed.
Example ns_power_loss_instead_of_tryboot_ends_the_trial :   (* no tryboot flag: the try kernel is not started *)
  let m := run20 EnvNS false true (init20 1 1)
             [EFirmware false; EInitramfs; EOp (SetK 2 false); EWrite; EWrite; EReset; EFirmware false; EInitramfs] in
  ph m = PhRun 1 1 /\ ks (st m) = SDef.
Proof. vm_compute. auto. Qed.
Example base_trial_reachable :
  ph (run20 Grub false true (init20 1 1)
        [EFirmware false; EInitramfs; EOp (SetB 2 false); EWrite; EReset; EFirmware false; EInitramfs]) = PhRun 1 2.
Proof. vm_compute. reflexivity. Qed.
Example ns_dead_end_also_reachable_without_guard : ph (run20 EnvNS false false (init20 1 1) dead_end_witness) = PhDead.
Proof. vm_compute. reflexivity. Qed.
Example repaired_undo_survives_the_window_grub : ph (run20 Grub true false (init20 1 1) dead_end_witness) = PhRun 2 1.
Proof. vm_compute. reflexivity. Qed.
Example repaired_undo_survives_the_window_ns : ph (run20 EnvNS true false (init20 1 1) dead_end_witness) = PhRun 2 1.
Proof. vm_compute. reflexivity. Qed.
Example cancelled_trial_is_not_under_trial :
  let m := run20 Grub false true (init20 1 1)
             [EFirmware false; EInitramfs; EOp (SetB 2 false); EWrite; EOp (SetB 1 false); EWrite] in
  ab m = [] /\ m_bst (me (st m)) = SDef.
Proof. vm_compute. auto. Qed.
Example single_revision_under_trial :
  ak (run20 Grub false true (init20 1 1)
        [EFirmware false; EInitramfs; EOp (SetK 2 false); EWrite; EWrite; EWrite; EOp (SetK 3 false); EWrite; EWrite; EWrite]) = [3].
Proof. vm_compute. reflexivity. Qed.
(* UC16: a trial boot and a failed trial are reachable with the correspondence script *)
Example uc16_trial_boot :
  ph16 (run16 firmware16 (init16 1 1) [E16Firmware; E16Op (Set16 true 2 false); E16Reset; E16Firmware]) = P16Run 2 1.
Proof. vm_compute. reflexivity. Qed.
Example uc16_failed_trial_state :
  mode (s16 (run16 firmware16 (init16 1 1) [E16Firmware; E16Op (Set16 false 2 false); E16Reset; E16Firmware])) = STrying.
Proof. vm_compute. reflexivity. Qed.
(* snapd restarted WITHOUT reboot between two writes (event ERestart: the rest of the write list is dropped, the
   operations are re-entered on the partial state): every theorem above quantifies over ALL event lists, so it covers
   histories containing ERestart. Excluded sub-class (the event is then ignored, see Boot.restart_ok): a restart inside
   a kernel setNext that was itself started while kernel_status was still trying, which snapd's ordering
   (MarkBootSuccessful first after every start) rules out; and, for the code as it is, a restart in the finding window. *)
Example restart_then_rerun_completes :
  let m := run20 Grub false true (init20 1 1)
             [EFirmware false; EInitramfs; EOp (SetK 2 false); EWrite; EWrite; ERestart;
              EOp Mark; EWrite; EWrite; EOp (SetK 2 false); EWrite; EWrite; EWrite; EReset; EFirmware true; EInitramfs] in
  ph m = PhRun 2 1.
Proof. vm_compute. reflexivity. Qed.
Example restart_drops_the_pending_writes :
  let m := run20 EnvNS false true (init20 1 1) [EFirmware false; EInitramfs; EOp (SetK 2 false); EWrite; ERestart] in
  pend m = [] /\ ph m = PhRun 1 1 /\ m_ck (me (st m)) = [1; 2] /\ tkl (st m) = None.
Proof. vm_compute. auto. Qed.
