(* C17 -- kernel and base updates can always fall back to the last known-good revision.
   Property theorems only: statement, `exact <lemma>`, Print Assumptions.
   Model: models/Boot.v (boot/bootstate16.go, bootstate20.go, bootstate20_bloader_kernel_state.go, boot.go,
   initramfs.go function by function; firmware step from gen/GrubKernelStatus.v = grub.cfg).

   Reading the statements. `run20 fx g (init20 k0 b0) evs` is the UC20/grub machine after an ARBITRARY event list evs
   (operation starts, single writes, resets = power loss / failed boot / reboot, firmware and initramfs steps), started
   from a fresh installation of kernel k0 and base b0. A reset is possible between any two writes.
   fx = false is the code as it is, fx = true the repair proposed in notes/C17-fix.diff; g = true means that no power
   loss falls into the window of the recorded finding (between the modeenv write and EnableKernel of a kernel-switching
   undo). Every theorem holds for (fx, g) = (false, true): the code as it is, outside that window, and for
   (true, false): the repaired code with a power loss anywhere. For (false, false) the dead end is reachable
   (C17_dead_end_refuted, confirmed on the real code by the driver on every run; KNOWN_FINDINGS key
   undo-kernel-switch-crash-after-modeenv).
   Ghost state: gk/gb = revisions that booted and that snapd then began to mark successful (initially k0 / b0);
   ak/ab = the revisions under trial: replaced (not extended) by each completed setNext -- emptied by a completed
   request for the current revision, a completed undo or a completed mark-successful; while the writes of a request
   are in flight (or were cut by a power loss) the old and the new candidate are both in the set. *)
From Coq Require Import List NArith Bool.
Import ListNotations.
Require Import V.models.Boot V.proofs.BootProofs.
Open Scope N_scope.

(* UC20: whatever kernel and base the initramfs mounts, at the moment it mounts them, is known-good or THE revision
   under trial; and the kernel snap it mounts is the image grub chainloaded (kernel.efi / try-kernel.efi agree with the
   initramfs' choice). The set under trial is replaced by every completed request: see fin_ak in models/Boot.v. *)
Theorem C17_boots_good_or_try : forall fx g k0 b0 evs i k b, fx || g = true ->
  let m := run20 fx g (init20 k0 b0) evs in
  ph m = PhFw i -> ph (step20 fx g m EInitramfs) = PhRun k b ->
  k = i /\ (In k (gk m) \/ In k (ak m)) /\ (In b (gb m) \/ In b (ab m)).
Proof. intros * Hg m Hp Hs. eapply mounts_good_or_try; eauto. exists evs; reflexivity. Qed.
Print Assumptions C17_boots_good_or_try.

(* UC20: in every reachable state, also between two writes, kernel.efi and the modeenv base name known-good revisions *)
Theorem C17_fallback_known_good : forall fx g k0 b0 evs, fx || g = true ->
  let m := run20 fx g (init20 k0 b0) evs in In (kl (st m)) (gk m) /\ In (m_base (me (st m))) (gb m).
Proof. intros * Hg m. eapply fallback_known_good; eauto. exists evs; reflexivity. Qed.
Print Assumptions C17_fallback_known_good.

(* UC20: a revision becomes known-good only when snapd, running on it, starts MarkBootSuccessful *)
Theorem C17_good_only_after_mark : forall fx g m e,
  (gk (step20 fx g m e) = gk m /\ gb (step20 fx g m e) = gb m) \/
  (exists k b, ph m = PhRun k b /\ e = EOp Mark /\
               gk (step20 fx g m e) = k :: gk m /\ gb (step20 fx g m e) = b :: gb m).
Proof. exact known_good_only_by_mark. Qed.
Print Assumptions C17_good_only_after_mark.

(* UC20: the boot never stops (no untrusted kernel.efi without fallback, grub never stuck on a missing try kernel) *)
Theorem C17_never_dead_end : forall fx g k0 b0 evs, fx || g = true ->
  ph (run20 fx g (init20 k0 b0) evs) <> PhDead.
Proof. intros * Hg. eapply never_dead; eauto. exists evs; reflexivity. Qed.
Print Assumptions C17_never_dead_end.

(* ... and without the guard the full statement is false of the code as it is (finding) *)
Theorem C17_dead_end_refuted : exists evs, ph (run20 false false (init20 1 1) evs) = PhDead.
Proof. exists dead_end_witness. exact dead_end_reached. Qed.
Print Assumptions C17_dead_end_refuted.

(* UC20: a failed or interrupted kernel trial (kernel_status still trying at the reset) is followed by a boot of the
   kernel kernel.efi points to, and that kernel is known-good *)
Theorem C17_failed_kernel_trial_returns : forall fx g k0 b0 evs, fx || g = true ->
  let m := run20 fx g (init20 k0 b0) evs in
  g && in_window m = false -> ks (st m) = STrying ->
  exists b, ph (run20 fx g m [EReset; EFirmware; EInitramfs]) = PhRun (kl (st m)) b /\ In (kl (st m)) (gk m).
Proof. intros * Hg m. eapply failed_kernel_trial_returns; eauto. exists evs; reflexivity. Qed.
Print Assumptions C17_failed_kernel_trial_returns.

(* UC20: bounded fallback -- from every reachable state, a reset is followed by a mount within two firmware rounds
   (a missing or untrusted try kernel costs one extra round; no try loop, no dead end) *)
Theorem C17_boot_terminates : forall fx g k0 b0 evs, fx || g = true ->
  let m := run20 fx g (init20 k0 b0) evs in
  g && in_window m = false ->
  exists k b, ph (run20 fx g m [EReset; EFirmware; EInitramfs; EFirmware; EInitramfs]) = PhRun k b.
Proof. intros * Hg m. eapply boot_terminates; eauto. exists evs; reflexivity. Qed.
Print Assumptions C17_boot_terminates.

(* UC20: a failed base trial (base_status still trying when the initramfs runs) mounts the modeenv base, which is
   known-good, and clears the status *)
Theorem C17_failed_base_trial_returns : forall fx g k0 b0 evs, fx || g = true ->
  let m := run20 fx g (init20 k0 b0) evs in
  m_bst (me (st m)) = STrying ->
  snd (initramfs_base (me (st m))) = m_base (me (st m)) /\ m_bst (fst (initramfs_base (me (st m)))) = SDef /\
  In (m_base (me (st m))) (gb m).
Proof. intros * Hg m. eapply failed_base_trial_returns; eauto. exists evs; reflexivity. Qed.
Print Assumptions C17_failed_base_trial_returns.

(* UC16/18 -- PARTIAL: the gadget's boot script is not in the repository; the firmware step is modelled from the
   protocol comment above boot.MarkBootSuccessful. Full statement otherwise: every booted kernel/core is known-good or
   requested for trial, snap_kernel/snap_core (never empty) always name known-good revisions. Every operation is one
   SetBootVars call, so a power loss falls before or after it. *)
Theorem C17_uc16_boots_good_or_try_partial : forall k0 c0 evs k c,
  let m := run16 (init16 k0 c0) evs in
  ph16 m = P16Off -> ph16 (step16 m E16Firmware) = P16Run k c ->
  (In k (gk16 m) \/ In k (ak16 m)) /\ (In c (gc16 m) \/ In c (ac16 m)) /\
  In (sk (s16 m)) (gk16 m) /\ In (sc (s16 m)) (gc16 m).
Proof. exact boots16_good_or_try. Qed.
Print Assumptions C17_uc16_boots_good_or_try_partial.

Theorem C17_uc16_failed_trial_returns_partial : forall k0 c0 evs,
  let m := run16 (init16 k0 c0) evs in mode (s16 m) = STrying ->
  ph16 (run16 m [E16Reset; E16Firmware]) = P16Run (sk (s16 m)) (sc (s16 m)) /\
  In (sk (s16 m)) (gk16 m) /\ In (sc (s16 m)) (gc16 m).
Proof. exact failed_trial16_returns. Qed.
Print Assumptions C17_uc16_failed_trial_returns_partial.

(* not scriptable bootloaders (piboot) -- PARTIAL: only the initramfs status update is covered (complete domain); the
   firmware's tryboot behaviour is not modelled. The status advances try -> trying only when the firmware really used
   the try configuration (kernel_status=trying on the command line); anything else ends the trial. *)
Theorem C17_not_scriptable_status_partial : forall conf cl,
  not_scriptable_update conf cl =
    match conf with
    | SDef => None
    | STry => Some (match cl with STrying => STrying | _ => SDef end)
    | _ => Some SDef
    end.
Proof. exact not_scriptable_spec. Qed.
Print Assumptions C17_not_scriptable_status_partial.

(* non-vacuity: both guard instances exist; a trial boot is reachable; a failed trial comes back *)
Example guard_code_as_is : false || true = true. Proof. reflexivity. Qed.
Example guard_repaired : true || false = true. Proof. reflexivity. Qed.
Example trial_boot_reachable :
  ph (run20 false true (init20 1 1)
        [EFirmware; EInitramfs; EOp (SetK 2 false); EWrite; EWrite; EWrite; EReset; EFirmware; EInitramfs]) = PhRun 2 1.
Proof. vm_compute. reflexivity. Qed.
Example failed_trial_state_reachable :
  ks (st (run20 false true (init20 1 1)
        [EFirmware; EInitramfs; EOp (SetK 2 false); EWrite; EWrite; EWrite; EReset; EFirmware; EInitramfs])) = STrying.
Proof. vm_compute. reflexivity. Qed.
Example repaired_undo_survives_the_window :
  ph (run20 true false (init20 1 1) dead_end_witness) = PhRun 2 1.
Proof. vm_compute. reflexivity. Qed.
Example cancelled_trial_is_not_under_trial :
  let m := run20 false true (init20 1 1)
             [EFirmware; EInitramfs; EOp (SetB 2 false); EWrite; EOp (SetB 1 false); EWrite] in
  ab m = [] /\ m_bst (me (st m)) = SDef.
Proof. vm_compute. auto. Qed.
Example single_revision_under_trial :
  ak (run20 false true (init20 1 1)
        [EFirmware; EInitramfs; EOp (SetK 2 false); EWrite; EWrite; EWrite; EOp (SetK 3 false); EWrite; EWrite; EWrite]) = [3].
Proof. vm_compute. reflexivity. Qed.
