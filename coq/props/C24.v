(* C24 — all components agree on which snap, instance, component and tag names are valid.
   This file holds the property theorems only. Models: models/Naming.v (Go validators of snap/naming, C scanners of
   cmd/libsnap-confine-private/snap.c and cmd/snap-update-ns/bootstrap.c, written function by function); every regular
   expression and length limit comes from gen/NamingRegexes.v, regenerated from the sources on every run. Each validator
   is proved equal, on ALL byte strings, to one reference recogniser (valid_snap_name, valid_key, valid_instance_name,
   valid_component), hence they agree with each other. *)
From Coq Require Import List NArith Bool String.
Import ListNotations.
Require Import V.lib.Bytes V.lib.Regex V.gen.NamingRegexes V.models.Naming V.proofs.NamingProofs.
Open Scope string_scope. Open Scope N_scope.

(* the daemon (ValidateSnap), snap-confine (sc_snap_name_validate) and snap-update-ns (validate_snap_name) accept
   exactly the same snap names *)
Theorem C24_snap_name_agree : forall s : bytes,
  go_validate_snap s = valid_snap_name s /\ sc_snap_name_validate s = valid_snap_name s /\
  sun_validate_snap_name s = valid_snap_name s.
Proof. exact snap_name_agree. Qed.
Print Assumptions C24_snap_name_agree.

(* instance keys: the daemon's validInstanceKey expression, sc_instance_key_validate, snap-update-ns' instance_key_validate *)
Theorem C24_instance_key_agree : forall k : bytes,
  rmatch NamingRegexes.valid_instance_key k = valid_key k /\ sc_instance_key_validate k = valid_key k /\
  sun_instance_key_validate k = valid_key k.
Proof. exact instance_key_agree. Qed.
Print Assumptions C24_instance_key_agree.

(* instance names: ValidateInstance, sc_instance_name_validate (strlen test + strsep), validate_instance_name (silent
   truncation to 52 bytes + strsep) accept exactly the same strings *)
Theorem C24_instance_name_agree : forall s : bytes,
  go_validate_instance s = valid_instance_name s /\ sc_instance_name_validate s = valid_instance_name s /\
  sun_validate_instance_name s = valid_instance_name s.
Proof. exact instance_name_agree. Qed.
Print Assumptions C24_instance_name_agree.

(* component names snap+component: SplitFullComponentName + ComponentRef.Validate and sc_snap_component_validate *)
Theorem C24_component_agree : forall s : bytes,
  go_validate_component s = valid_component s /\ sc_snap_component_validate s = valid_component s.
Proof. exact component_agree. Qed.
Print Assumptions C24_component_agree.

(* every app tag, hook tag and component hook tag the daemon generates (AppInfo.SecurityTag / HookInfo.SecurityTag) from
   names it accepts is accepted by snap-confine for that instance and component — when the tag is at most 256 bytes.
   The length guard is needed, see the next theorem. *)
Theorem C24_generated_tags_accepted : forall (inst : bytes) (comp : option bytes) (is_hook : bool) (name : bytes),
  go_validate_instance inst = true ->
  comp_ok go_validate_snap comp = true ->
  (if is_hook then go_validate_hook name else go_validate_app name) = true ->
  (is_hook = false -> comp = None) ->
  (List.length (model_tag inst comp is_hook name) <= 256)%nat ->
  sc_security_tag_validate (model_tag inst comp is_hook name) inst comp = true.
Proof. exact generated_tags_accepted. Qed.
Print Assumptions C24_generated_tags_accepted.

(* the unguarded statement is false: the daemon puts no bound on the length of app (and hook) names, snap-confine
   refuses any tag above SNAP_SECURITY_TAG_MAX_LEN = 256 bytes. Witness: snap ab, app aaa...a (250 bytes). *)
Theorem C24_generated_tags_overlong_refuted :
  exists inst app : bytes,
    go_validate_instance inst = true /\ go_validate_app app = true /\
    sc_security_tag_validate (model_tag inst None false app) inst None = false.
Proof. exact generated_tags_overlong_refuted. Qed.
Print Assumptions C24_generated_tags_overlong_refuted.

(* tag agreement, full for tags within snap-confine's length limit: for every tag of at most 256 bytes, every instance
   name the daemon accepts and every component that is absent or a name the daemon accepts, snap-confine accepts the tag
   for (instance, component) exactly when ParseSecurityTag parses it as a tag of that instance and component.
   (Left to right: inversion of snap-confine's expression — extracted from snap.c — against strings.SplitN/Cut; right to
   left: ParseSecurityTag's result rebuilt by the daemon's own generator, then C24_generated_tags_accepted.) *)
Theorem C24_tag_iff : forall (tag inst : bytes) (comp : option bytes),
  (List.length tag <= 256)%nat ->
  go_validate_instance inst = true -> comp_ok go_validate_snap comp = true ->
  (sc_security_tag_validate tag inst comp = true <->
   exists h name, go_parse_security_tag tag = Some (inst, comp, h, name)).
Proof. exact tag_iff. Qed.
Print Assumptions C24_tag_iff.

(* without any hypothesis on the names: snap-confine accepts a tag only for the instance and component literally written
   in it (submatches 1 and 7 of its expression) *)
Theorem C24_tag_names_instance : forall (tag inst : bytes) (comp : option bytes),
  sc_security_tag_validate tag inst comp = true ->
  tag_group1 tag = inst /\ match comp with Some cn => tag_group7 tag = Some cn | None => tag_group7 tag = None end.
Proof. exact tag_names_instance. Qed.
Print Assumptions C24_tag_names_instance.

(* the daemon's other name validators, each equal on ALL byte strings to an explicit recogniser: app and provenance names
   (dashed shape over [a-zA-Z0-9]); hook, plug, slot and interface names (one rule: lower-case letter first, dashed shape
   over [a-z0-9]); aliases; snap-ids (exactly 32 alphanumerics); socket names and interface tags (the snap-name shape
   without the length window); quota group names (exactly the snap names) *)
Theorem C24_other_validators : forall s : bytes,
  go_validate_app s = valid_app_name s /\ go_validate_provenance s = valid_app_name s /\
  go_validate_hook s = valid_hook_name s /\ go_validate_plug s = valid_hook_name s /\
  go_validate_slot s = valid_hook_name s /\ go_validate_interface s = valid_hook_name s /\
  go_validate_alias s = valid_alias_name s /\ go_validate_snap_id s = valid_snap_id_name s /\
  go_validate_socket s = valid_dashed_name s /\ go_validate_iface_tag s = valid_dashed_name s /\
  go_validate_quota_group s = valid_snap_name s.
Proof. exact other_validators_ref. Qed.
Print Assumptions C24_other_validators.

(* Go accepts iff C accepts, stated directly, for all byte strings *)
Theorem C24_go_iff_c : forall s : bytes,
  go_validate_snap s = sc_snap_name_validate s /\ go_validate_snap s = sun_validate_snap_name s /\
  go_validate_instance s = sc_instance_name_validate s /\ go_validate_instance s = sun_validate_instance_name s /\
  go_validate_component s = sc_snap_component_validate s.
Proof. exact go_iff_c_names. Qed.
Print Assumptions C24_go_iff_c.

(* the recorded finding (generated-tag-longer-than-256) carved out exactly: a tag generated from names the daemon accepts
   is accepted by snap-confine if and only if it is at most 256 bytes long *)
Theorem C24_generated_tags_accepted_iff : forall (inst : bytes) (comp : option bytes) (is_hook : bool) (name : bytes),
  go_validate_instance inst = true ->
  comp_ok go_validate_snap comp = true ->
  (if is_hook then go_validate_hook name else go_validate_app name) = true ->
  (is_hook = false -> comp = None) ->
  (sc_security_tag_validate (model_tag inst comp is_hook name) inst comp = true <->
   (List.length (model_tag inst comp is_hook name) <= 256)%nat).
Proof. exact generated_tags_accepted_iff. Qed.
Print Assumptions C24_generated_tags_accepted_iff.

(* which tags snap-confine's sc_is_hook_security_tag (it decides whether SNAP_COOKIE is overwritten) calls hook tags:
   a non-component hook tag of an instance whose name starts with a lower-case letter is recognised ... *)
Theorem C24_is_hook_tag_recognised : forall inst hook : bytes,
  go_validate_instance inst = true -> go_validate_hook hook = true ->
  match inst with c :: _ => c_lower c = true | [] => False end ->
  sc_is_hook_security_tag (go_hook_tag inst None hook) = true.
Proof. exact is_hook_tag_recognised. Qed.
Print Assumptions C24_is_hook_tag_recognised.

(* ... but not every hook tag is (CANDIDATE FINDING, not monitored — see notes/C24.md): snap.0ad.hook.x is a hook tag for
   the daemon and is accepted by sc_security_tag_validate, yet sc_is_hook_security_tag rejects it (its expression wants a
   letter first and knows no +component); the same holds for every component hook tag (NamingProofs.is_hook_component_example) *)
Theorem C24_is_hook_tag_refuted :
  exists tag inst comp hook,
    go_parse_security_tag tag = Some (inst, comp, true, hook) /\ sc_security_tag_validate tag inst comp = true /\
    sc_is_hook_security_tag tag = false.
Proof. exact is_hook_tag_refuted. Qed.
Print Assumptions C24_is_hook_tag_refuted.

(* non-vacuity *)
Example C24_names_nonvacuous :
  valid_snap_name (bs "hello-world") = true /\ valid_snap_name (bs "hello-") = false /\
  valid_instance_name (bs "hello-world_prod1") = true /\ valid_component (bs "hello+extras") = true.
Proof. vm_compute. repeat split; reflexivity. Qed.

Example C24_tags_nonvacuous :
  go_validate_instance (bs "foo_bar") = true /\ comp_ok go_validate_snap (Some (bs "comp")) = true /\
  go_validate_hook (bs "install") = true /\
  model_tag (bs "foo_bar") (Some (bs "comp")) true (bs "install") = bs "snap.foo_bar+comp.hook.install" /\
  go_parse_security_tag (bs "snap.foo_bar+comp.hook.install") = Some (bs "foo_bar", Some (bs "comp"), true, bs "install").
Proof. vm_compute. repeat split; reflexivity. Qed.

Example C24_other_nonvacuous :
  valid_app_name (bs "Foo-1") = true /\ valid_hook_name (bs "pre-refresh") = true /\ valid_hook_name (bs "0h") = false /\
  valid_alias_name (bs "a.b_c-d") = true /\ valid_alias_name (bs ".a") = false /\
  valid_snap_id_name (bs "abcdefghijklmnopqrstuvwxyz012345") = true /\ valid_dashed_name (bs "x") = true /\ valid_snap_name (bs "x") = false.
Proof. vm_compute. repeat split; reflexivity. Qed.
