(* C22 — interface connections are transactional and persisted state matches memory.
   Property theorems only. Model: models/Conns.v (overlord/ifacestate handlers.go doConnect / undoConnect /
   doDisconnect / undoDisconnect, ifacestate.go connect / Disconnect / Forget, helpers.go reloadConnections,
   interfaces/repo.go Connect / Disconnect), one plug snap and one slot snap, any number of connection ids.
   Agree s: persisted active connections = repository = what both snaps' profiles were last generated for.
   Equiv a b: same persisted entry for every id (all flags, attributes kept or dropped), same repository, same profile sets.

   FULL statement of the property (kept visible): for EVERY agreeing state, operation and failure point, a change that
   fails leaves the state Equiv to the one before, and every settled change ends in an agreeing state.
   It is FALSE of the faithful model and of the real code in four classes (KNOWN_FINDINGS, each reproduced through the
   driver on every run); `excluded s o f` is exactly those classes and guards the theorems:
     - a connect OR disconnect task failing in its SECOND security setup call: repository and conns are rolled back, but
       the profile of the snap whose setup already ran is not regenerated (connect: slot snap's profile has a connection
       that does not exist; disconnect: plug snap's profile lacks a connection that exists)
     - auto-connect (setup-profiles + auto-connect of the plug snap) from a state WITHOUT any active connection whose new
       connections are undone because a later task fails: undoSetupProfiles regenerates the plug snap and the snaps
       that have connections at that moment (none), so the slot snap keeps rules for the undone connections
     - undo of a connect that overwrote a hotplug-gone entry
     - undo of forgetting an inactive connection
   A fourth class (finding 8: a disconnect task failing in a security setup after repo.Disconnect left the repository
   without the connection) was repaired in /repo by commit 63d7dd9; it is no longer excluded, see
   C22_disconnect_setup_failure_restores and C22_disconnect_first_setup_failure_restores. *)
From Coq Require Import List NArith Bool.
Import ListNotations.
Require Import V.models.Conns V.proofs.ConnsProofs.
Open Scope N_scope.

(* a change that is refused, or fails at ANY task boundary (before, inside, after its main task), restores persisted
   conns (including remembered undesired entries), the repository and the profile sets — outside the recorded classes *)
Theorem C22_failed_change_restores : forall s o f, Agree s -> excluded s o f = false ->
  (snd (run_change s o f) = true \/ snd (fst (run_change s o f)) = false) -> Equiv (fst (fst (run_change s o f))) s.
Proof. exact failed_change_restores. Qed.
Print Assumptions C22_failed_change_restores.

(* after ANY history of connect / disconnect / forget / auto-disconnect / hotplug-disconnect changes, each with any
   failure point, none of them in a recorded class, persisted conns, repository and profiles agree *)
Theorem C22_settled_agree : forall h s, Agree s -> safe_history s h -> Agree (run_history s h).
Proof. exact settled_agree. Qed.
Print Assumptions C22_settled_agree.

(* a restart (reloadConnections into an empty repository) reproduces exactly the active persisted connections *)
Theorem C22_reload_agree : forall c, NoDup (map fst c) -> Agree (mkSt c (reload c) (reload c) (reload c)).
Proof. exact reload_agree. Qed.
Print Assumptions C22_reload_agree.

(* former finding 8, repaired by /repo commit 63d7dd9: a disconnect / forget task failing in ANY of its security setup calls
   fails the change, leaves persisted conns untouched and the repository exactly as it was *)
Theorem C22_disconnect_setup_failure_restores : forall s id forget ad bh k c, (k = 1 \/ k = 2) ->
  mem id (s_repo s) = true -> lookup (s_conns s) id = Some c ->
  let r := run_change s (ODisconnect id forget ad bh) (FailMain k) in
  snd r = true /\ s_conns (fst (fst r)) = s_conns s /\ forall x, mem x (s_repo (fst (fst r))) = mem x (s_repo s).
Proof. exact disconnect_setup_failure_restores. Qed.
Print Assumptions C22_disconnect_setup_failure_restores.

(* ... and when the FIRST setup call fails, profiles included (instance of C22_failed_change_restores: not excluded any more) *)
Theorem C22_disconnect_first_setup_failure_restores : forall s id forget ad bh, Agree s ->
  snd (run_change s (ODisconnect id forget ad bh) (FailMain 1)) = true ->
  Equiv (fst (fst (run_change s (ODisconnect id forget ad bh) (FailMain 1)))) s.
Proof. exact disconnect_first_setup_failure_restores. Qed.
Print Assumptions C22_disconnect_first_setup_failure_restores.

(* the unguarded statement is still false when the SECOND setup call of a disconnect task fails: the plug snap's profile was
   regenerated without the connection that the rollback puts back *)
Theorem C22_disconnect_second_setup_failure_refuted :
  exists s o f, Agree s /\ snd (run_change s o f) = true /\ ~ Equiv (fst (fst (run_change s o f))) s.
Proof. exact disconnect_second_setup_failure_refuted. Qed.
Print Assumptions C22_disconnect_second_setup_failure_refuted.

Theorem C22_connect_setup_failure_refuted :
  exists s o f, Agree s /\ snd (run_change s o f) = true /\ ~ Equiv (fst (fst (run_change s o f))) s.
Proof. exact connect_setup_failure_refuted. Qed.
Print Assumptions C22_connect_setup_failure_refuted.

Theorem C22_connect_undo_hotplug_gone_refuted :
  exists s o f, Agree s /\ snd (run_change s o f) = true /\ ~ Equiv (fst (fst (run_change s o f))) s.
Proof. exact connect_undo_hotplug_gone_refuted. Qed.
Print Assumptions C22_connect_undo_hotplug_gone_refuted.

Theorem C22_forget_undo_refuted :
  exists s o f, Agree s /\ snd (run_change s o f) = true /\ ~ Equiv (fst (fst (run_change s o f))) s.
Proof. exact forget_undo_refuted. Qed.
Print Assumptions C22_forget_undo_refuted.

(* auto-connect (the change [setup-profiles; auto-connect -> connect tasks with delayed-setup-profiles; setup-profiles]) is an
   operation of run_change: C22_failed_change_restores and C22_settled_agree above cover it at every failure point (before,
   any security setup call of either setup-profiles task, after), outside the class below. When it succeeds, every pair
   without an entry gets an active auto connection and every existing entry - also undesired / hotplug-gone - is kept *)
Theorem C22_autoconnect_success : forall s x, Agree s -> snd (run_change s OAutoConnect NoFail) = false /\
  lookup (s_conns (fst (fst (run_change s OAutoConnect NoFail)))) x =
    (if mem x univ then match lookup (s_conns s) x with Some c => Some c | None => Some auto_c end else lookup (s_conns s) x).
Proof. exact autoconnect_success. Qed.
Print Assumptions C22_autoconnect_success.

Theorem C22_autoconnect_undo_refuted :
  exists s o f, Agree s /\ snd (run_change s o f) = true /\ ~ Equiv (fst (fst (run_change s o f))) s.
Proof. exact autoconnect_undo_refuted. Qed.
Print Assumptions C22_autoconnect_undo_refuted.

(* removal of the plug snap (auto-disconnect -> the injected disconnect tasks, the snap leaves snapstate, remove-profiles,
   discard-conns; failure before / after, the undo including undoDiscardConns, doSetupProfiles as the undo of remove-profiles
   and undoDisconnect) is an operation of run_change too: C22_failed_change_restores and C22_settled_agree cover it
   (a successful removal ends a safe history; a security setup failing inside an injected disconnect task is excluded: not
   modelled). After a successful removal no conns entry and no repository connection is left - in this world every
   connection names the removed snap - and no profile mentions a connection *)
Theorem C22_remove_success : forall s, Agree s ->
  let r := run_change s ORemove NoFail in
  snd r = false /\ s_conns (fst (fst r)) = [] /\ s_repo (fst (fst r)) = [] /\ s_profc (fst (fst r)) = []
  /\ forall x, mem x (s_profp (fst (fst r))) = false.
Proof. exact remove_success. Qed.
Print Assumptions C22_remove_success.

(* ------------------------------------------------------------------ non-vacuity *)
Definition ex_s := mkSt [(0, mkC true false false false true); (1, mkC true false true false false)] [0] [0] [0].
Example C22_ex_agree : Agree ex_s.
Proof. split; [|split]; cbn; try reflexivity. intro id. destruct id as [|[p|p|]]; reflexivity. Qed.
(* a manual disconnect of an auto connection that fails after its main task: undone, entry 0 is back, entry 1 still remembered *)
Example C22_ex_failed : excluded ex_s (ODisconnect 0 false false false) FailAfter = false
  /\ snd (run_change ex_s (ODisconnect 0 false false false) FailAfter) = true
  /\ st_eqb (fst (fst (run_change ex_s (ODisconnect 0 false false false) FailAfter))) ex_s = true.
Proof. vm_compute. repeat split. Qed.
(* a history: disconnect 0 (becomes undesired), reconnect over the undesired entry with a failure afterwards, connect 1 *)
Example C22_ex_history :
  let h := [(ODisconnect 0 false false false, NoFail); (OConnect 0 false false, FailAfter); (OConnect 1 false false, NoFail)] in
  safe_history ex_s h /\ lookup (s_conns (run_history ex_s h)) 0 = Some (mkC true false true false false)
  /\ s_repo (run_history ex_s h) = [1].
Proof. vm_compute. repeat split; intros; try discriminate; reflexivity. Qed.
(* a history with auto-connect: 0 is active, 1 remembered undesired; auto-connect adds 2 and 3 only; a second auto-connect that
   fails after its main work changes nothing *)
Example C22_ex_autoconnect :
  let h := [(OAutoConnect, NoFail); (ODisconnect 2 false false false, NoFail); (OAutoConnect, FailAfter)] in
  safe_history ex_s h /\ s_repo (run_history ex_s h) = [0; 3]
  /\ lookup (s_conns (run_history ex_s h)) 2 = Some (mkC true false true false false)
  /\ lookup (s_conns (run_history ex_s h)) 1 = Some (mkC true false true false false).
Proof. vm_compute. repeat split; intros; try discriminate; reflexivity. Qed.
(* a history ending with the removal of the plug snap, preceded by a removal attempt that failed at its very end *)
Example C22_ex_remove :
  let h := [(OAutoConnect, NoFail); (ORemove, FailAfter); (ORemove, NoFail)] in
  safe_history ex_s h /\ st_eqb (run_history ex_s [(OAutoConnect, NoFail); (ORemove, FailAfter)]) (run_history ex_s [(OAutoConnect, NoFail)]) = true
  /\ s_conns (run_history ex_s h) = [] /\ s_repo (run_history ex_s h) = [].
Proof. vm_compute. repeat split; intros; try discriminate; reflexivity. Qed.
