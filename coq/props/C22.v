(* C22 — interface connections are transactional and persisted state matches memory.
   Property theorems only. Model: models/Conns.v (overlord/ifacestate handlers.go doConnect / undoConnect /
   doDisconnect / undoDisconnect, ifacestate.go connect / Disconnect / Forget, helpers.go reloadConnections,
   interfaces/repo.go Connect / Disconnect), one plug snap and one slot snap, any number of connection ids.
   Agree s: persisted active connections = repository = what both snaps' profiles were last generated for.
   Equiv a b: same persisted entry for every id (all flags, attributes kept or dropped), same repository, same profile sets.

   FULL statement of the property (kept visible): for EVERY agreeing state, operation and failure point, a change that
   fails leaves the state Equiv to the one before, and every settled change ends in an agreeing state.
   It is FALSE of the faithful model and of the real code in four classes (KNOWN_FINDINGS, each reproduced through the
   driver on every run); `excluded s o f` is exactly those classes and guards the theorems:
     - disconnect/forget task failing in a security setup call after repo.Disconnect        (finding 8)
     - connect task failing in its SECOND security setup call (slot snap's profile is stale)
     - undo of a connect that overwrote a hotplug-gone entry
     - undo of forgetting an inactive connection *)
From Coq Require Import List NArith Bool.
Import ListNotations.
Require Import V.models.Conns V.proofs.ConnsProofs.
Open Scope N_scope.

(* a change that is refused, or fails at ANY task boundary (before, inside, after its main task), restores persisted
   conns (including remembered undesired entries), the repository and the profile sets — outside the recorded classes *)
Theorem C22_failed_change_restores : forall s o f, Agree s -> excluded s o f = false ->
  (snd (run_change s o f) = true \/ snd (fst (run_change s o f)) = false) -> Equiv (fst (fst (run_change s o f))) s.
Proof. exact failed_change_restores. Qed.
Print Assumptions C22_failed_change_restores.

(* after ANY history of connect / disconnect / forget / auto-disconnect / hotplug-disconnect changes, each with any
   failure point, none of them in a recorded class, persisted conns, repository and profiles agree *)
Theorem C22_settled_agree : forall h s, Agree s -> safe_history s h -> Agree (run_history s h).
Proof. exact settled_agree. Qed.
Print Assumptions C22_settled_agree.

(* a restart (reloadConnections into an empty repository) reproduces exactly the active persisted connections *)
Theorem C22_reload_agree : forall c, NoDup (map fst c) -> Agree (mkSt c (reload c) (reload c) (reload c)).
Proof. exact reload_agree. Qed.
Print Assumptions C22_reload_agree.

(* the unguarded statement is false: finding 8 (active connection, the disconnect task's first setup call fails) *)
Theorem C22_disconnect_setup_failure_refuted :
  exists s o f, Agree s /\ snd (run_change s o f) = true /\ ~ Equiv (fst (fst (run_change s o f))) s.
Proof. exact disconnect_setup_failure_refuted. Qed.
Print Assumptions C22_disconnect_setup_failure_refuted.

(* ... what IS kept in that class: the persisted conns are untouched; the repository lost exactly that connection *)
Theorem C22_disconnect_setup_failure_partial : forall s id forget ad bh k c, (k = 1 \/ k = 2) ->
  mem id (s_repo s) = true -> lookup (s_conns s) id = Some c ->
  let s' := fst (fst (run_change s (ODisconnect id forget ad bh) (FailMain k))) in
  s_conns s' = s_conns s /\ forall x, mem x (s_repo s') = negb (id =? x) && mem x (s_repo s).
Proof. exact disconnect_setup_failure_keeps_conns. Qed.
Print Assumptions C22_disconnect_setup_failure_partial.

Theorem C22_connect_setup_failure_refuted :
  exists s o f, Agree s /\ snd (run_change s o f) = true /\ ~ Equiv (fst (fst (run_change s o f))) s.
Proof. exact connect_setup_failure_refuted. Qed.
Print Assumptions C22_connect_setup_failure_refuted.

Theorem C22_connect_undo_hotplug_gone_refuted :
  exists s o f, Agree s /\ snd (run_change s o f) = true /\ ~ Equiv (fst (fst (run_change s o f))) s.
Proof. exact connect_undo_hotplug_gone_refuted. Qed.
Print Assumptions C22_connect_undo_hotplug_gone_refuted.

Theorem C22_forget_undo_refuted :
  exists s o f, Agree s /\ snd (run_change s o f) = true /\ ~ Equiv (fst (fst (run_change s o f))) s.
Proof. exact forget_undo_refuted. Qed.
Print Assumptions C22_forget_undo_refuted.

(* ------------------------------------------------------------------ non-vacuity *)
Definition ex_s := mkSt [(0, mkC true false false false true); (1, mkC true false true false false)] [0] [0] [0].
Example C22_ex_agree : Agree ex_s.
Proof. split; [|split]; cbn; try reflexivity. intro id. destruct id as [|[p|p|]]; reflexivity. Qed.
(* a manual disconnect of an auto connection that fails after its main task: undone, entry 0 is back, entry 1 still remembered *)
Example C22_ex_failed : excluded ex_s (ODisconnect 0 false false false) FailAfter = false
  /\ snd (run_change ex_s (ODisconnect 0 false false false) FailAfter) = true
  /\ st_eqb (fst (fst (run_change ex_s (ODisconnect 0 false false false) FailAfter))) ex_s = true.
Proof. vm_compute. repeat split. Qed.
(* a history: disconnect 0 (becomes undesired), reconnect over the undesired entry with a failure afterwards, connect 1 *)
Example C22_ex_history :
  let h := [(ODisconnect 0 false false false, NoFail); (OConnect 0 false false, FailAfter); (OConnect 1 false false, NoFail)] in
  safe_history ex_s h /\ lookup (s_conns (run_history ex_s h)) 0 = Some (mkC true false true false false)
  /\ s_repo (run_history ex_s h) = [1].
Proof. vm_compute. repeat split. Qed.
