(* C29 — config transactions are isolated, read their own writes, never lose updates.
   Property theorems only: statement, `exact <lemma>`, Print Assumptions.
   Model: models/Config.v (overlord/configstate/config transaction.go + helpers.go, function by function) and, in
   the same file, the plain nested-map REFERENCE (a transaction = configuration at its start + log of successful
   writes; view = log replayed, nulls purged; commit = log replayed on the latest configuration).
   Notation: tx_ok t = t is related to some reference transaction (tx_rel); every transaction of every reachable
   state is (C29_reachable_ok). wf_tree = object keys unique (sorted association lists stand for Go maps). *)
From Coq Require Import List NArith ZArith Bool.
Import ListNotations.
Require Import V.lib.JsonTree V.proofs.JsonTreeProofs V.models.Config V.proofs.ConfigProofs.
Open Scope N_scope.

(* EVERY history (any number of live transactions, any interleaving of new/set/get/commit/save/restore/discard):
   what the transaction machinery (write cache of raw and map entries, PatchConfig, commitChange, purgeNulls) shows
   - every Get result, every Set verdict, the committed config after every other operation - is exactly what plain
   nested maps with per-transaction write logs show. *)
Theorem C29_refines_reference : forall (init : config) (ops : list op),
  wf_tree (Obj init) = true -> forallb wf_op ops = true ->
  run (mkState init [] []) ops = rrun (mkRstate init [] []) ops.
Proof. exact refines_reference. Qed.
Print Assumptions C29_refines_reference.

Theorem C29_reachable_ok : forall init ops i t, wf_tree (Obj init) = true -> forallb wf_op ops = true ->
  nth_error (st_txs (exec (mkState init [] []) ops)) i = Some t ->
  tx_ok t /\ wf_tree (Obj (st_cfg (exec (mkState init [] []) ops))) = true.
Proof. exact reachable_ok. Qed.
Print Assumptions C29_reachable_ok.

(* read-your-writes: after a successful Set of ks := v, (1) reading ks or anything below it gives v (nulls purged)
   or what lies below v; (2) every path that diverges from ks reads as before; (3) every proper prefix of ks reads
   as an object; (4) other snaps read as before. Together with (2) before any write: the committed value at
   transaction start (tx_view of a fresh transaction is the purged pristine configuration). *)
Theorem C29_read_your_writes : forall t s ks v t', tx_ok t -> wf_tree v = true -> tx_set t s ks v = Some t' ->
  (forall q, tx_get t' s (ks ++ q) = get_node q (purge v)) /\
  (forall q, diverge q ks = true -> tx_get t' s q = tx_get t s q) /\
  (forall q k2 q2, ks = q ++ k2 :: q2 -> q <> [] -> exists l, tx_get t' s q = GOk (Obj l)) /\
  (forall s' q, s' <> s -> tx_get t' s' q = tx_get t s' q).
Proof. exact read_your_writes. Qed.
Print Assumptions C29_read_your_writes.

(* a null write removes the option; its parent stays in place as an object (possibly empty) without that member *)
Theorem C29_null_removes : forall t s q k t', tx_ok t -> tx_set t s (q ++ [k]) Null = Some t' ->
  tx_get t' s (q ++ [k]) = GNoOption /\
  (q <> [] -> exists l, tx_get t' s q = GOk (Obj l) /\ lookup k l = None).
Proof. exact null_removes. Qed.
Print Assumptions C29_null_removes.

(* isolation: an operation changes no transaction other than the one it addresses, and the committed configuration
   changes only on Commit / RestoreRevisionConfig *)
Theorem C29_isolation : forall st o,
  (publishes o = false -> st_cfg (fst (step st o)) = st_cfg st) /\
  (forall j t, op_tx o <> Some j -> nth_error (st_txs st) j = Some t -> nth_error (st_txs (fst (step st o))) j = Some t).
Proof. exact isolation. Qed.
Print Assumptions C29_isolation.

(* commit merges only what was written. r_log rt is the list of the transaction's successful writes (tx_rel). L is
   the LATEST committed configuration, whatever other transactions committed since this one started. *)
Theorem C29_commit_keeps_unwritten : forall t rt L s q t0, tx_rel t rt -> wf_tree (Obj L) = true -> q <> [] ->
  (forall w, In w (r_log rt) -> fst (fst w) = s -> diverge q (snd (fst w)) = true) ->
  get_node q (lookup s L) = GOk t0 -> purge t0 = Some t0 ->
  get_node q (lookup s (fst (tx_commit t L))) = GOk t0.
Proof. exact commit_keeps_unwritten. Qed.
Print Assumptions C29_commit_keeps_unwritten.

Theorem C29_commit_writes_win : forall t rt L lg1 lg2 s ks v, tx_rel t rt -> wf_tree (Obj L) = true ->
  r_log rt = lg1 ++ (s, ks, v) :: lg2 ->
  (forall w, In w lg2 -> fst (fst w) = s -> diverge ks (snd (fst w)) = true) ->
  forall q, get_node (ks ++ q) (lookup s (fst (tx_commit t L))) = get_node q (purge v).
Proof. exact commit_writes_win. Qed.
Print Assumptions C29_commit_writes_win.

(* no lost update: t1 commits onto B, then t2 onto the result (t2 never saw t1's writes). An option written by t1 on
   a path diverging from everything t2 wrote is still there; what t2 wrote reads as written (C29_commit_writes_win
   with L := fst (tx_commit t1 B)), i.e. for options written by both the later commit wins. Swap the roles for the
   other commit order. *)
Theorem C29_no_lost_update : forall t1 rt1 t2 rt2 B lg1 lg1' s ks v,
  tx_rel t1 rt1 -> tx_rel t2 rt2 -> wf_tree (Obj B) = true ->
  r_log rt1 = lg1 ++ (s, ks, v) :: lg1' ->
  (forall w, In w lg1' -> fst (fst w) = s -> diverge ks (snd (fst w)) = true) ->
  (forall w, In w (r_log rt2) -> fst (fst w) = s -> diverge ks (snd (fst w)) = true) ->
  purge v = Some v ->
  get_node ks (lookup s (fst (tx_commit t2 (fst (tx_commit t1 B))))) = GOk v.
Proof. exact no_lost_update. Qed.
Print Assumptions C29_no_lost_update.

(* the first clause of the property over a WHOLE transaction (any number of writes; tx_rel t rt holds for every transaction
   of every reachable state under arbitrary interleavings - C29_reachable_ok - and r_log rt is the list of its successful
   writes since its start / last commit):
   - the value LAST written: if the last write covering an option was ks := v (no later write of the transaction is on a
     path comparable with ks) the option, and everything below it, reads as v - with v = null the option is gone;
   - otherwise the COMMITTED value: an option of the configuration the transaction started from, on a path diverging from
     every write of the transaction, reads as committed (nulls purged); a transaction that wrote nothing reads exactly the
     committed configuration. *)
Theorem C29_reads_last_written : forall t rt lg1 lg2 s ks v, tx_rel t rt ->
  r_log rt = lg1 ++ (s, ks, v) :: lg2 ->
  (forall w, In w lg2 -> fst (fst w) = s -> diverge ks (snd (fst w)) = true) ->
  forall q, tx_get t s (ks ++ q) = get_node q (purge v).
Proof. exact view_last_written. Qed.
Print Assumptions C29_reads_last_written.

Theorem C29_reads_committed_if_unwritten :
  (forall t rt s q t0, tx_rel t rt -> q <> [] ->
     (forall w, In w (r_log rt) -> fst (fst w) = s -> diverge q (snd (fst w)) = true) ->
     get_node q (lookup s (tx_pristine t)) = GOk t0 -> tx_get t s q = pg (GOk t0)) /\
  (forall c s q, tx_get (new_tx c) s q = get_from q (purge_list (snap_map c s))).
Proof. exact (conj view_unwritten_is_committed fresh_reads_committed). Qed.
Print Assumptions C29_reads_committed_if_unwritten.

(* traversal through a scalar is rejected - the scalar may sit in the configuration as of transaction start (even if
   the transaction has since replaced it) or in the transaction's own view - nothing else is, and a rejected Set
   changes nothing *)
Theorem C29_non_map_traversal_rejected : forall t s ks v, tx_ok t -> ks <> [] ->
  (tx_set t s ks v = None <->
   blocked ks (Some (Obj (snap_map (tx_pristine t) s))) = true \/ blocked ks (Some (Obj (raw_view t s))) = true).
Proof. exact set_fails_iff. Qed.
Print Assumptions C29_non_map_traversal_rejected.

Theorem C29_rejected_changes_nothing : forall st i s ks v t, nth_error (st_txs st) i = Some t ->
  tx_set t s ks v = None -> step st (OSet i s ks v) = (st, BSet false).
Proof. exact rejected_changes_nothing. Qed.
Print Assumptions C29_rejected_changes_nothing.

(* revision snapshots, as functions (snap, revision) -> saved tree: save records the current snap config (nothing if
   the snap has none), restore installs the snapshot if there is one (otherwise leaves the configuration as it is),
   discard removes exactly that snapshot *)
Theorem C29_revision_snapshots :
  (forall c rc s r s' r', snap_at (save_rev c rc s r) s' r' =
     match lookup s c with
     | Some sc => if (s' =? s) && (r' =? r) then Some sc else snap_at rc s' r'
     | None => snap_at rc s' r'
     end) /\
  (forall c rc s r s', lookup s' (restore_rev c rc s r) =
     match snap_at rc s r with
     | Some sc => if s' =? s then Some sc else lookup s' c
     | None => lookup s' c
     end) /\
  (forall rc s r s' r', snap_at (discard_rev rc s r) s' r' = if (s' =? s) && (r' =? r) then None else snap_at rc s' r') /\
  (forall c c' rc s r sc, lookup s c = Some sc -> lookup s (restore_rev c' (save_rev c rc s r) s r) = Some sc).
Proof. exact (conj save_spec (conj restore_spec (conj discard_spec save_then_restore))). Qed.
Print Assumptions C29_revision_snapshots.

(* ---- non-vacuity: the hypotheses are satisfiable and the interesting branches are taken *)
Definition ex_cfg : config := [(115, Obj [(97, Atom 1%Z); (98, Obj [(99, Atom 2%Z)])])].   (* s: {a:1, b:{c:2}} *)

(* a successful nested write, a rejected one (through the scalar a), the LP 1920773 re-creation after a null *)
Example ex_set_ok : exists t', tx_set (new_tx ex_cfg) 115 [98; 100] (Atom 3%Z) = Some t' /\
  tx_get t' 115 [98] = GOk (Obj [(99, Atom 2%Z); (100, Atom 3%Z)]).
Proof. eexists. split; reflexivity. Qed.
Example ex_set_rejected : tx_set (new_tx ex_cfg) 115 [97; 98] (Atom 3%Z) = None.
Proof. reflexivity. Qed.
Example ex_scalar_replaced_still_rejected :
  match tx_set (new_tx ex_cfg) 115 [97] (Obj []) with Some t' => tx_set t' 115 [97; 98] (Atom 3%Z) | None => None end = None.
Proof. reflexivity. Qed.
Example ex_null_leaves_empty_object :
  match tx_set (new_tx ex_cfg) 115 [98; 99] Null with Some t' => tx_get t' 115 [98] | None => GOther end = GOk (Obj []).
Proof. reflexivity. Qed.
(* two transactions from the same base, both commit: nothing is lost *)
Example ex_two_commits :
  run (mkState ex_cfg [] []) [ONew; ONew; OSet 0 115 [98; 100] (Atom 3%Z); OSet 1 115 [98; 97] (Atom 4%Z); OCommit 0; OCommit 1] =
  [BCfg ex_cfg []; BCfg ex_cfg []; BSet true; BSet true;
   BCfg [(115, Obj [(97, Atom 1%Z); (98, Obj [(99, Atom 2%Z); (100, Atom 3%Z)])])] [];
   BCfg [(115, Obj [(97, Atom 1%Z); (98, Obj [(97, Atom 4%Z); (99, Atom 2%Z); (100, Atom 3%Z)])])] []].
Proof. vm_compute. reflexivity. Qed.
Example ex_tx_ok : tx_ok (new_tx ex_cfg).
Proof. exists (mkRtx ex_cfg []). now apply rel_empty. Qed.

(* nested dotted paths, two transactions from the same base: transaction 0 writes b.d, transaction 1 writes b.a; each
   sees only its own write until commit; transaction 1 commits FIRST, then 0 - the other order of ex_two_commits - and
   the committed b holds both (same final configuration in either order) *)
Example ex_two_commits_other_order :
  run (mkState ex_cfg [] []) [ONew; ONew; OSet 0 115 [98; 100] (Atom 3%Z); OSet 1 115 [98; 97] (Atom 4%Z);
                              OGet 0 115 [98]; OGet 1 115 [98]; OCommit 1; OGet 0 115 [98]; OCommit 0; ONew; OGet 2 115 [98]] =
  [BCfg ex_cfg []; BCfg ex_cfg []; BSet true; BSet true;
   BGet (GOk (Obj [(99, Atom 2%Z); (100, Atom 3%Z)])); BGet (GOk (Obj [(97, Atom 4%Z); (99, Atom 2%Z)]));
   BCfg [(115, Obj [(97, Atom 1%Z); (98, Obj [(97, Atom 4%Z); (99, Atom 2%Z)])])] [];
   BGet (GOk (Obj [(99, Atom 2%Z); (100, Atom 3%Z)]));
   BCfg [(115, Obj [(97, Atom 1%Z); (98, Obj [(97, Atom 4%Z); (99, Atom 2%Z); (100, Atom 3%Z)])])] [];
   BCfg [(115, Obj [(97, Atom 1%Z); (98, Obj [(97, Atom 4%Z); (99, Atom 2%Z); (100, Atom 3%Z)])])] [];
   BGet (GOk (Obj [(97, Atom 4%Z); (99, Atom 2%Z); (100, Atom 3%Z)]))].
Proof. vm_compute. reflexivity. Qed.
(* null at an inner node against a concurrent write below it: transaction 0 unsets b, transaction 1 writes b.d.
   0 then 1: b is removed, then re-created holding only d (the later commit wins, the old member c is gone);
   1 then 0: b gets d, then the whole of b is removed. The paths are comparable, so the later commit decides. *)
Example ex_inner_null_then_write :
  run (mkState ex_cfg [] []) [ONew; ONew; OSet 0 115 [98] Null; OSet 1 115 [98; 100] (Atom 4%Z); OGet 0 115 [98]; OGet 1 115 [98];
                              OCommit 0; OCommit 1; ONew; OGet 2 115 [98]] =
  [BCfg ex_cfg []; BCfg ex_cfg []; BSet true; BSet true; BGet GNoOption; BGet (GOk (Obj [(99, Atom 2%Z); (100, Atom 4%Z)]));
   BCfg [(115, Obj [(97, Atom 1%Z)])] []; BCfg [(115, Obj [(97, Atom 1%Z); (98, Obj [(100, Atom 4%Z)])])] [];
   BCfg [(115, Obj [(97, Atom 1%Z); (98, Obj [(100, Atom 4%Z)])])] []; BGet (GOk (Obj [(100, Atom 4%Z)]))].
Proof. vm_compute. reflexivity. Qed.
Example ex_write_then_inner_null :
  run (mkState ex_cfg [] []) [ONew; ONew; OSet 0 115 [98] Null; OSet 1 115 [98; 100] (Atom 4%Z); OCommit 1; OCommit 0; ONew;
                              OGet 2 115 [98]; OGet 2 115 [97]] =
  [BCfg ex_cfg []; BCfg ex_cfg []; BSet true; BSet true;
   BCfg [(115, Obj [(97, Atom 1%Z); (98, Obj [(99, Atom 2%Z); (100, Atom 4%Z)])])] [];
   BCfg [(115, Obj [(97, Atom 1%Z)])] []; BCfg [(115, Obj [(97, Atom 1%Z)])] []; BGet GNoOption; BGet (GOk (Atom 1%Z))].
Proof. vm_compute. reflexivity. Qed.
