(* C16 — auto-refresh runs inside timer windows and is never postponed past the limit.
   Property theorems only. Model: models/Timer.v (timeutil/schedule.go function by function, UTC; time zones and DST
   are not modelled), lib/Civil.v (calendar).
   String level: models/TimerText.v (ParseSchedule and Schedule.String over byte lists).
   Manager level: models/AutoRefresh.v (the planning logic of autoRefresh.Ensure; constants from gen/RefreshConsts.v).
   The day search of Schedule.Next is proved to terminate within next_fuel last now days (proofs/TimerFuelProofs.v; the
   calendar facts it rests on are computed over one 400-year cycle in proofs/TimerCalendarFacts.v). *)
From Coq Require Import List ZArith Bool String.
Import ListNotations.
Require Import V.lib.Bytes V.lib.Civil V.models.Timer V.proofs.TimerProofs V.models.TimerText V.proofs.TimerTextProofs.
Require Import V.gen.RefreshConsts V.models.AutoRefresh V.proofs.AutoRefreshProofs V.proofs.TimerFuelProofs V.proofs.TimerChainProofs.
Open Scope Z_scope.

(* The refresh limit, for ANY schedule functions: whatever windows the schedules' Next return, timeutil.Next's chosen
   window starts no later than last + maxd and no later than any offered window, is one of them or the fallback at
   last + maxd; the (non-random part of the) delay is >= 0, is 0 when overdue, and now + delay never lies after
   max(now, last + maxd). With maxd = 95 days this is "never postponed past the limit". *)
Theorem C16_limit : forall (nexts : list window) (last maxd now : Z),
  let w := choose nexts last maxd in
  w_start w <= last + maxd /\
  (forall n, In n nexts -> w_start w <= w_start n) /\
  (w = mkWin (last + maxd) (last + maxd + 3600) false \/ In w nexts) /\
  0 <= delay_base w now /\
  (w_start w < now -> delay_base w now = 0) /\
  now + delay_base w now <= Z.max now (last + maxd) /\
  (now <= w_start w -> now + delay_base w now = w_start w).
Proof. exact limit_any_schedule. Qed.
Print Assumptions C16_limit.

(* The day search of Schedule.Next terminates: for every schedule with well-formed week spans and clock spans (what
   ParseSchedule accepts, C16_parse_accepts_only_wf) and every last and now, sched_next with
   fuel = next_fuel last now = (days from last to now, if positive) + 64 never returns the out-of-fuel value.
   (A plain weekday recurs within 7 days; a numbered week span (mon1 .. fri5, ranges anchored at either end) is matched
   on its anchor day, which recurs within 61 days of any day. General proof; the calendar facts it uses — day of month
   within 1..31, first-of-month arithmetic, month lengths 28..31, monthNext on the last seven days of a month — are
   established by a sweep over the 146097 days of one 400-year cycle and lifted by periodicity.) *)
Theorem C16_next_fuel : forall (s : schedule) (last now : Z),
  sched_wf s = true -> exists w, sched_next (next_fuel last now) s last now = Some w.
Proof. exact next_fuel_suffices. Qed.
Print Assumptions C16_next_fuel.

(* What Schedule.Next returns is a window of the schedule (unconditional): the window of one of its flattened clock spans
   on a day, not before the day of `last`, that the week spans accept; it does not end before now, does not contain
   last, and is the earliest such window of that day. *)
Theorem C16_in_window : forall (s : schedule) (last now : Z), sched_wf s = true ->
  exists w k cs, sched_next (next_fuel last now) s last now = Some w /\
    0 <= k < Z.of_nat (next_fuel last now) /\ In cs (flattened s) /\
    let D := last / 86400 + k in
    w = window_of cs D /\ week_ok s D = true /\ now <= w_end w /\ (last < w_start w \/ w_end w < last) /\
    (forall cs', In cs' (flattened s) -> now <= w_end (window_of cs' D) ->
                 (last < w_start (window_of cs' D) \/ w_end (window_of cs' D) < last) ->
                 w_start w <= w_start (window_of cs' D)).
Proof. exact next_in_window_total. Qed.
Print Assumptions C16_in_window.

(* the same for any fuel with which the search succeeds (the differential run uses 400 days) *)
Theorem C16_in_window_any_fuel : forall (fuel : nat) (s : schedule) (last now : Z) (w : window),
  sched_next fuel s last now = Some w ->
  exists k cs, 0 <= k < Z.of_nat fuel /\ In cs (flattened s) /\
    let D := last / 86400 + k in
    w = window_of cs D /\ week_ok s D = true /\ now <= w_end w /\ (last < w_start w \/ w_end w < last) /\
    (forall cs', In cs' (flattened s) -> now <= w_end (window_of cs' D) ->
                 (last < w_start (window_of cs' D) \/ w_end (window_of cs' D) < last) ->
                 w_start w <= w_start (window_of cs' D)).
Proof. exact next_in_window. Qed.
Print Assumptions C16_in_window_any_fuel.

(* Every instant of such a window that lies on the window's own calendar day is accepted by Includes — under the guard
   that the span's start clock is within the day (not 24:00). *)
Theorem C16_window_included : forall (s : schedule) (cs : clockspan) (D t : Z),
  In cs (flattened s) -> week_ok s D = true -> clock_in_day (cs_start cs) ->
  let w := window_of cs D in
  w_start w <= t -> (t < w_end w \/ (w_end w = w_start w /\ t < w_start w + 60)) -> t / 86400 = D ->
  sched_includes s t = true.
Proof. exact window_included. Qed.
Print Assumptions C16_window_included.

(* in particular the instant the refresh is scheduled for (the window's start) *)
Theorem C16_window_start_included : forall (s : schedule) (cs : clockspan) (D : Z),
  In cs (flattened s) -> week_ok s D = true -> clock_in_day (cs_start cs) -> clock_nonneg (cs_end cs) ->
  sched_includes s (w_start (window_of cs D)) = true.
Proof. exact window_start_included. Qed.
Print Assumptions C16_window_start_included.

(* Full statement 1 (no guard on the start clock) is FALSE of the faithful model: `mon,24:00`, last = Monday
   2024-08-05 12:00 UTC: Next returns the window Tuesday 00:00-00:00, which Includes rejects (Tuesday is not Monday).
   KNOWN_FINDINGS key start-clock-24:00; reproduced on the Go code on every run. *)
Theorem C16_start_2400_refuted : exists w,
  sched_next 400 ex_mon_2400 ex_last (ex_last + 60) = Some w /\ sched_includes ex_mon_2400 (w_start w) = false.
Proof. exact start_2400_counterexample. Qed.
Print Assumptions C16_start_2400_refuted.

(* The defect behind it, stated exactly: a clock span whose start is 24:00 never contributes to Includes (the window
   Includes builds for it starts at the midnight AFTER the instant), although Next returns its windows. So an instant
   of such a window is accepted only if another span of the schedule covers it: with `0:00,24:00-7:30` the start of the
   returned window (00:00, covered by the span `0:00`) is accepted and its last minute 07:29 is rejected. *)
Theorem C16_span_2400_never_includes : forall (cs : clockspan) (D t : Z),
  hour (cs_start cs) = 24 -> 0 <= minute (cs_start cs) -> t / 86400 = D -> span_includes t D cs = false.
Proof. exact span_2400_never_includes. Qed.
Print Assumptions C16_span_2400_never_includes.

Theorem C16_start_2400_tail_refuted : exists w,
  sched_next 400 ex_2400_tail ex_last (ex_last + 60) = Some w /\
  sched_includes ex_2400_tail (w_start w) = true /\ sched_includes ex_2400_tail (w_end w - 60) = false.
Proof. exact start_2400_tail_counterexample. Qed.
Print Assumptions C16_start_2400_tail_refuted.

(* Full statement 2 (every instant of the returned window, also past midnight) is FALSE of the faithful model:
   `23:00-01:00`: Next returns Monday 23:00 - Tuesday 01:00, but Includes rejects Tuesday 00:59 (it only looks at the
   window that starts on the instant's own day). KNOWN_FINDINGS key window-crossing-midnight-tail. *)
Theorem C16_midnight_tail_refuted : exists w t,
  sched_next 400 ex_night ex_last (ex_last + 60) = Some w /\ w_start w <= t < w_end w /\ sched_includes ex_night t = false.
Proof. exact midnight_tail_counterexample. Qed.
Print Assumptions C16_midnight_tail_refuted.

(* Invalid timers are rejected: whatever ParseSchedule accepts (any byte string) is a non-empty list of schedules, each
   non-empty and well formed: weekdays 0..6; week positions 0..5 and at most one numbered end unless the span is a
   single day; clocks within 00:00..23:59 or exactly 24:00; 0 <= split < 2^32 (0 = no `/N`; `/0` is rejected). *)
Theorem C16_parse_accepts_only_wf : forall (s : bytes) (l : list schedule),
  parse_schedule s = Some l -> l <> [] /\ Forall (fun sc => sched_ok sc = true) l.
Proof. exact parse_accepts_only_wf. Qed.
Print Assumptions C16_parse_accepts_only_wf.

(* Formatting and parsing again yields the same schedule: for EVERY well-formed non-empty schedule s,
   ParseSchedule (String s) = [s] up to norm_sched, which only resets Spread and Split of clock spans whose end equals
   their start (String prints those as the bare time; the two fields have no effect on such a span). *)
Theorem C16_format_parse_roundtrip : forall s : schedule, sched_ok s = true ->
  parse_schedule (fmt_sched s) = Some [norm_sched s].
Proof. exact format_parse_roundtrip. Qed.
Print Assumptions C16_format_parse_roundtrip.

(* ... in particular for every schedule the parser itself produced, from any accepted text *)
Theorem C16_parsed_roundtrip : forall (text : bytes) (l : list schedule),
  parse_schedule text = Some l -> Forall (fun s => parse_schedule (fmt_sched s) = Some [norm_sched s]) l.
Proof. exact parsed_roundtrip. Qed.
Print Assumptions C16_parsed_roundtrip.

(* The round trip with equivalence: for EVERY well-formed non-empty schedule s, ParseSchedule (String s) = [s'] where s' denotes
   the same schedule: Includes agrees at every instant, and Next (any fuel, last, now) returns windows with the same start
   and end (owin_rel: the spread flag may differ only on an empty window, whose random spread is 0). *)
Theorem C16_roundtrip_equivalent : forall s : schedule, sched_ok s = true ->
  exists s', parse_schedule (fmt_sched s) = Some [s'] /\
    (forall t, sched_includes s' t = sched_includes s t) /\
    (forall fuel last now, owin_rel (sched_next fuel s' last now) (sched_next fuel s last now)).
Proof. exact roundtrip_equivalent. Qed.
Print Assumptions C16_roundtrip_equivalent.

(* The chain from the user's string to the window guarantee: every timer text ParseSchedule accepts yields schedules that
   are well formed and for which, for every last and now, the day search terminates within next_fuel last now days and
   returns a window of the schedule (not ending before now, not containing last, earliest of its day) that Includes
   accepts on its own day unless its span starts at 24:00 (window_guarantee). *)
Theorem C16_string_to_window : forall (text : bytes) (l : list schedule),
  parse_schedule text = Some l ->
  l <> [] /\ Forall (fun s => sched_wf s = true /\ forall last now, window_guarantee s last now) l.
Proof. exact string_to_window. Qed.
Print Assumptions C16_string_to_window.

(* the recorded findings, starting from the timer string *)
Theorem C16_string_start_2400_refuted :
  parse_schedule (bs "mon,24:00") = Some [ex_mon_2400] /\
  exists w, sched_next (next_fuel ex_last (ex_last + 60)) ex_mon_2400 ex_last (ex_last + 60) = Some w /\
            sched_includes ex_mon_2400 (w_start w) = false.
Proof. exact string_start_2400. Qed.
Print Assumptions C16_string_start_2400_refuted.

Theorem C16_string_start_2400_tail_refuted :
  parse_schedule (bs "0:00,24:00-7:30") = Some [ex_2400_tail] /\
  exists w, sched_next (next_fuel ex_last (ex_last + 60)) ex_2400_tail ex_last (ex_last + 60) = Some w /\
            sched_includes ex_2400_tail (w_start w) = true /\ sched_includes ex_2400_tail (w_end w - 60) = false.
Proof. exact string_start_2400_tail. Qed.
Print Assumptions C16_string_start_2400_tail_refuted.

Theorem C16_string_midnight_tail_refuted :
  parse_schedule (bs "23:00-01:00") = Some [ex_night] /\
  exists w t, sched_next (next_fuel ex_last (ex_last + 60)) ex_night ex_last (ex_last + 60) = Some w /\
              w_start w <= t < w_end w /\ sched_includes ex_night t = false.
Proof. exact string_midnight_tail. Qed.
Print Assumptions C16_string_midnight_tail_refuted.

(* what the parser accepts / rejects that one might not expect (all also sent to the real parser by the text driver) *)
Theorem C16_parser_observations :
  parse_schedule (bs "-") = None /\ parse_schedule (bs "~") = None /\ parse_schedule (bs "mon,-") = None /\
  parse_schedule (bs "~/2") = None /\
  option_map (map fmt_sched) (parse_schedule (bs "mon1-tue2")) = Some [bs "mon1-tue"] /\
  option_map (map fmt_sched) (parse_schedule (bs "9:00~9:00/3")) = Some [bs "09:00"] /\
  (exists l, parse_schedule (bs "0:00-24:00/4294967295") = Some l) /\ parse_schedule (bs "0:00-24:00/4294967296") = None /\
  option_map (map fmt_sched) (parse_schedule (bs "9:00-10:00/007")) = Some [bs "09:00-10:00/7"].
Proof. exact parser_observations. Qed.
Print Assumptions C16_parser_observations.

(* Manager level. For EVERY history of refresh.timer changes, last-refresh changes and Ensure calls, at every Ensure:
   a refresh time that remains planned (nextRefresh) was computed by timeutil.Next under the timer configured NOW —
   a plan made under an earlier timer does not survive a timer change — and an attempt is launched only when such a
   time, planned under the current timer, is due. (refresh.hold, metered connections, the legacy option and store
   failures are not modelled.) *)
Theorem C16_attempt_in_current_timer_window :
  forall (conf0 : bytes) (evs : list ev) (st : mstate) (conf : bytes) (now r : Z) (st' : mstate) (att : bool),
  hrun (init_m, conf0) evs = Some (st, conf) ->
  ensure conf now r st = Some (st', att) ->
  (forall P, m_next st' = Some P ->
     exists sch str pl, effective conf = Some (sch, str) /\ m_plan st' = Some pl /\ p_str pl = str /\
                        plan_time sch (p_last pl) (p_now pl) (p_rand pl) = Some P) /\
  (att = true ->
     exists sch str l0 now0 r0 P, effective conf = Some (sch, str) /\
                                  plan_time sch l0 now0 r0 = Some P /\ P <= now /\ m_next st' = None /\ m_last st' = Some now).
Proof. exact attempt_in_current_timer_window. Qed.
Print Assumptions C16_attempt_in_current_timer_window.

(* ... where a planned time is: now if there was no previous refresh; otherwise, for the window w that timeutil.Next
   chooses (C16_limit) among the windows offered by the schedules' Next (C16_in_window) and the fallback at
   last + maxPostponement: now if w has started, else w's start plus the random spread of a `~` window. *)
Theorem C16_planned_time_spec : forall (sch : list schedule) (l now r P : Z),
  plan_time sch (Some l) now r = Some P ->
  exists w, top_window sch l now max_postponement_s = Some w /\
    w_start w <= l + max_postponement_s /\
    (w = mkWin (l + max_postponement_s) (l + max_postponement_s + 3600) false \/
     exists s, In s sch /\ sched_next fuel_days s l now = Some w) /\
    (w_start w < now -> P = now) /\
    (now <= w_start w -> P = w_start w + (if w_spread w then r else 0)).
Proof. exact planned_time_spec. Qed.
Print Assumptions C16_planned_time_spec.

(* generated from overlord/snapstate/autorefresh.go on this run: maxPostponement is 95 days and is the limit passed
   at both timeutil.Next call sites; Ensure resets nextRefresh when the timer string differs from the remembered one
   and the remembered string is assigned nowhere else; the default timer parses *)
Theorem C16_refresh_consts :
  max_postponement_s = 95 * 86400 /\ next_calls_pass_max_postponement = true /\
  ensure_resets_on_timer_change = true /\ last_schedule_assigned_only_there = true /\
  parse_schedule default_str = Some default_sched /\ default_sched <> [].
Proof. exact refresh_consts_facts. Qed.
Print Assumptions C16_refresh_consts.

(* non-vacuity: the default refresh timer 00:00~24:00/4 *)
Example C16_default_timer_example : exists w,
  sched_next 400 (mkSched [] [mkCS (mkClock 0 0) (mkClock 24 0) 4 true]) ex_last (ex_last + 60) = Some w /\
  sched_includes (mkSched [] [mkCS (mkClock 0 0) (mkClock 24 0) 4 true]) (w_start w) = true.
Proof. exact ex_default_timer. Qed.
Example C16_parse_example : exists l, parse_schedule (bs "mon-wed,fri,9:00-11:00/2,,mon1,24:00~0:00") = Some l /\
  map fmt_sched l = [bs "mon-wed,fri,09:00-11:00/2"; bs "mon1,24:00~00:00"].
Proof. eexists. split; vm_compute; reflexivity. Qed.
