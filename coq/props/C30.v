(* C30 — registry views enforce access and rejected writes change nothing.
   Property theorems only. Model: models/Registry.v (registry/registry.go + registry/transaction.go); the schema is an
   arbitrary predicate `valid`.
   The model as FUNCTIONS (tied to the real code step by step): View.Set incl. {placeholders} left in the unmatched
   suffix (filled from the keys of the value), View.Get incl. placeholders, View.Unset incl. unfilled placeholders
   (match-all sub-keys of JSONDataBag.Unset), JSONDataBag, Transaction (New / Set / Unset / Get / Commit), bare-databag Set.
   The model as a RELATION (rstep / rsteps / via_view; what the theorems about whole histories quantify over): the same,
   plus every outcome of the Sets whose outcome the real code leaves to Go map iteration order:
   (i) order-dependent suffixes (two non-empty unmatched suffixes, one a prefix of the other up to placeholders):
       BadRequest recording nothing, or ROk recording exactly the model's writes;
   (ii) the class the model does not determine (`determined` is false): a suffix placeholder that is already filled in
       the storage path (same placeholder name twice in one request pattern, so that all candidates go to one storage
       path) or a storage placeholder the request pattern never binds (registry.New rejects those views): any answer and
       any recorded writes, except that a rejected Set records nothing.
   `allowed_g acc rules req p`: p is an instance of the filled storage path of a rule of the view that matches the request
   req and grants access acc. Values are JSON trees of objects and opaque scalars: ARRAYS ARE NOT MODELLED (theorems and
   tie are about maps only). *)
From Coq Require Import List NArith ZArith Bool.
Import ListNotations.
Require Import V.lib.JsonTree V.models.Registry V.proofs.RegistryProofs.
Open Scope N_scope.

(* every databag path a view writes is (an instance of) the filled storage path of a matching WRITEABLE rule - read-only
   rules are never written. Sets: every outcome of every Set the model determines (classes (i) included; class (ii) is
   exactly what `determined` excludes). Unsets: all of them; an Unset path is the rendered storage path itself, an
   unfilled placeholder staying in it as a match-all sub-key. *)
Theorem C30_write_paths_allowed : forall rules req,
  (forall v ws p x, set_outcome rules req v (ROk, ws) -> determined rules req v -> In (p, x) ws ->
                    allowed_g writeable rules req p) /\
  (forall ps p, unset_paths_g rules req = (ROk, ps) -> In p ps ->
                exists r sp sf, In r rules /\ writeable r = true /\ match_rule req r = Some (sp, sf) /\ p = parts_key sp).
Proof. intros rules req. split; [exact (outcome_paths_allowed rules req)|exact (unset_paths_allowed_g rules req)]. Qed.
Print Assumptions C30_write_paths_allowed.

(* View.Get depends on the databag only through storage paths of matching READABLE rules (non-interference form:
   two databags that agree on those paths give the same answer) - write-only data never leaks. Both forms of View.Get
   (literal storage paths; storage paths with unfilled placeholders) are covered, i.e. every Get *)
Theorem C30_read_paths_allowed : forall rules req,
  (forall g1 g2 : path -> bres,
     (forall p, allowed readable rules req p -> g1 p = g2 p) -> view_get rules g1 req = view_get rules g2 req) /\
  (forall g1 g2 : list part -> bres,
     (forall sp, allowed_parts rules req sp -> g1 sp = g2 sp) -> view_get_ph rules g1 req = view_get_ph rules g2 req).
Proof. intros rules req. split; [exact (read_paths_allowed rules req)|exact (read_paths_allowed_ph rules req)]. Qed.
Print Assumptions C30_read_paths_allowed.

(* rejected writes change nothing - over the whole transaction model (relation):
   (1) the entry point (new transaction, Set or Unset through the view, commit only on success), with EVERY outcome the
       Set may have: rejected (no matching rule, bad value, unused branch, order-dependent rejection, failing delta,
       schema violation at commit) => the committed databag is unchanged; accepted => the new databag is valid;
   (2) every history (any sequence of New / Set / Unset / Get / Commit on any number of transactions, every outcome of
       the Sets): if no Commit reported success the committed databag is what it was, and a successful Commit publishes
       a valid databag;
   (3) the functions used for the tie are instances of the relation whenever the Set is not order-dependent.
   The one place where a rejected View.Set DOES leave data behind - a bare databag, no transaction - is
   C30_bare_bag_partial_refuted below; the relation has no such step because registry.Transaction only records deltas. *)
Theorem C30_rejected_leaves_committed_unchanged : forall valid rules,
  (forall committed req v b ok, via_view valid rules committed req v (b, ok) ->
     (ok = false -> b = committed) /\ (ok = true -> valid (Obj b) = true)) /\
  (forall st steps st', rsteps valid rules st steps st' ->
     (forall o b0, In (o, BBag true b0) steps -> forall i, o <> OCommit i) -> st_bag st' = st_bag st) /\
  (forall st o st' b, rstep valid rules st o st' b ->
     st_bag st' = st_bag st \/
     exists i t b0, o = OCommit i /\ nth_error (st_txs st) i = Some t /\ tx_commit valid t (st_bag st) = Some b0 /\
                    st_bag st' = b0 /\ valid (Obj b0) = true /\ b = BBag true b0) /\
  (forall st o, (forall i req v, o = OSet i req v -> is_either rules req v = None) ->
     rstep valid rules st o (fst (step valid rules st o)) (snd (step valid rules st o))) /\
  (forall committed req v, is_either rules req v = None ->
     via_view valid rules committed req v (set_via_view valid rules committed req v)).
Proof.
  intros valid rules. split; [exact (via_view_rejected valid rules)|].
  split; [exact (rejected_history_unchanged valid rules)|]. split; [exact (rstep_publishes valid rules)|].
  split; [exact (step_is_rstep valid rules)|exact (set_via_view_in_relation valid rules)].
Qed.
Print Assumptions C30_rejected_leaves_committed_unchanged.

(* two transactions with any mix of Set and Unset deltas (Unset paths may carry match-all sub-keys): after both committed
   (either order: swap the names) every value written by a Set whose path diverges (pdiverge: differs at a position where
   both keys are literal; = diverge on literal paths, pdiverge_lit) from all later deltas of its own transaction and (for
   the first one) from all deltas of the second reads back as written *)
Theorem C30_commit_order_no_lost_update : forall valid t1 t2 b b1 b2,
  Forall has_path (tx_deltas t1) -> Forall has_path (tx_deltas t2) ->
  tx_commit valid t1 b = Some b1 -> tx_commit valid t2 b1 = Some b2 ->
  (forall ds1 d ds2, tx_deltas t1 = ds1 ++ d :: ds2 -> snd d <> Null ->
     (forall d', In d' ds2 -> pdiverge (fst d) (fst d') = true) ->
     (forall d', In d' (tx_deltas t2) -> pdiverge (fst d) (fst d') = true) ->
     bag_get (fst d) b2 = BOk (strip (snd d))) /\
  (forall ds1 d ds2, tx_deltas t2 = ds1 ++ d :: ds2 -> snd d <> Null ->
     (forall d', In d' ds2 -> pdiverge (fst d) (fst d') = true) ->
     bag_get (fst d) b2 = BOk (strip (snd d))).
Proof. exact commit_order_no_lost_update_g. Qed.
Print Assumptions C30_commit_order_no_lost_update.

(* the sort-order lemma: the writes of one accepted Set are performed in storage-path order, so a write never comes
   after a write to a path strictly below it (outer path first) *)
Theorem C30_outer_written_before_inner : forall rules req v ws ws1 d ws2 d',
  set_writes rules req v = (ROk, ws) -> ws = ws1 ++ d :: ws2 -> In d' ws2 ->
  is_prefix (fst d') (fst d) = true -> fst d' = fst d.
Proof. exact outer_written_before_inner. Qed.
Print Assumptions C30_outer_written_before_inner.

(* read-after-write at the storage level, nested storage paths included: once the writes of an accepted Set (all
   non-null) are applied in order to ANY databag, every written storage path that no later write of the same Set
   touches (equal or below) holds exactly the value written to it, nulls stripped. With rules a.b -> p.q and
   a.c -> p this says p.q still holds the b-value after p was written. *)
Theorem C30_read_after_write_storage : forall rules req v ws b,
  set_writes rules req v = (ROk, ws) -> Forall is_set ws ->
  exists b', apply_deltas b ws = Some b' /\
    forall ws1 d ws2, ws = ws1 ++ d :: ws2 ->
      (forall d', In d' ws2 -> is_prefix (fst d) (fst d') = false) ->
      bag_get (fst d) b' = BOk (strip (snd d)).
Proof. exact storage_read_after_write. Qed.
Print Assumptions C30_read_after_write_storage.

(* read-after-write through the view - PARTIAL. Full statement (DESIGN.md): after a successful set of v through
   read-write rules, get of the same request returns v. Proved: for a request matched in full by exactly one literal
   read-write rule (no other rule matches it, not even as a prefix), inside a transaction whose pending deltas apply
   cleanly. Missing: several matching rules (needs: merging the namespaced values of all matches rebuilds v, which
   does not even hold for nested storage paths, where the outer rule also returns the inner rule's data). *)
Theorem C30_read_after_write_same_request_partial : forall rules req v sp p t b,
  matches writeable rules req = [(sp, [])] -> matches readable rules req = [(sp, [])] ->
  lits sp = Some p -> p <> [] -> v <> Null ->
  apply_deltas (tx_pristine t) (tx_deltas t) = Some b ->
  set_writes rules req v = (ROk, [(p, v)]) /\
  view_get rules (tx_get (add_deltas t [(p, v)])) req = VOk (strip v).
Proof. exact view_read_after_write. Qed.
Print Assumptions C30_read_after_write_same_request_partial.

(* read-after-write through the view, rule by rule - PARTIAL w.r.t. the DESIGN statement. Proved: after an accepted Set
   of v at req (any number of matched rules, nested storage paths included), the request g of any one written rule -
   g matched by exactly that readable rule, in full, its storage path p not touched by a later write of the same Set -
   reads back the part of v written through that rule. Together with C30_outer_returns_inner (what the OUTER rule of a
   nested pair returns: its own value with the inner rule's value set inside) this says precisely what is read back.
   Missing: Get of the prefix request req itself when several rules match it (the merge of the namespaced values). *)
Theorem C30_read_after_write_partial : forall rules req v ws ws1 p x ws2 g sp t b,
  set_writes rules req v = (ROk, ws) -> Forall is_set ws -> ws = ws1 ++ (p, x) :: ws2 ->
  (forall d', In d' ws2 -> is_prefix p (fst d') = false) ->
  matches readable rules g = [(sp, [])] -> lits sp = Some p ->
  apply_deltas (tx_pristine t) (tx_deltas t) = Some b ->
  view_get rules (tx_get (add_deltas t ws)) g = VOk (strip x).
Proof. exact view_read_after_write_rule. Qed.
Print Assumptions C30_read_after_write_partial.

(* Get of the SAME request after a Set through several rules - PARTIAL. Proved: for any number of literal rules matched by
   req, the same rules being readable and writeable for req, and no written storage path touched by a later write of the
   same Set (so: no nested and no duplicate storage paths - for nested ones see C30_outer_returns_inner), Get of req inside
   the transaction returns exactly merge_all of the written parts, each put back under its unmatched suffix, in namespace
   order. Missing for "returns v": the purely tree-level fact that merging the parts of v along suffixes that cover v
   (the unused-branch check) rebuilds v; rules with unfilled placeholders in the suffix; values with nulls or arrays. *)
Theorem C30_read_after_write_same_request_merge_partial : forall rules req v ws lms t b,
  set_writes rules req v = (ROk, ws) -> Forall is_set ws ->
  matches readable rules req = matches writeable rules req ->
  literal_matches (matches writeable rules req) = Some lms ->
  (forall ws1 d ws2, ws = ws1 ++ d :: ws2 -> forall d', In d' ws2 -> is_prefix (fst d) (fst d') = false) ->
  apply_deltas (tx_pristine t) (tx_deltas t) = Some b ->
  view_get rules (tx_get (add_deltas t ws)) req =
  match merge_all (map (fun m => nest (snd m) (strip (xval v m))) (sort_by snd lms)) with
  | None => VErr RError
  | Some None => VErr RNotFound
  | Some (Some r) => VOk r
  end.
Proof. exact view_read_after_write_merge. Qed.
Print Assumptions C30_read_after_write_same_request_merge_partial.

(* Get of the SAME request returns v: after an accepted Set of v at req through any number of literal rules - the same
   rules readable and writeable for req, no written storage path touched by a later write of the Set, the unmatched
   suffixes pairwise different and none a prefix of another, v well-formed (unique keys) and the written parts free of
   nulls - Get of req inside the transaction returns v itself. The tree-level core is prune_all_merge: if pruning pairwise
   diverging suffixes one after the other uses the value up (the unused-branch check), merging their parts, last pruned
   first, gives the value back (prune_merge: pruning a suffix and merging its part back are inverse).
   Excluded shapes, and why: a rule matched in full together with rules below it (suffix [] is a prefix of every suffix;
   the parts overlap) and nested/duplicate storage paths (the outer rule also returns the inner data:
   C30_outer_returns_inner); suffixes with unfilled placeholders; nulls inside v (Get returns v with nulls stripped, the
   null members having become Unsets - not proved); arrays. The model prunes in reverse namespace order; the Go code in
   map order - for these suffix sets the tie shows no difference, order-independence itself is not proved. *)
Theorem C30_read_after_write_same_request : forall rules req v ws lms t b,
  set_writes rules req v = (ROk, ws) -> Forall is_set ws ->
  matches readable rules req = matches writeable rules req ->
  literal_matches (matches writeable rules req) = Some lms ->
  (forall ws1 d ws2, ws = ws1 ++ d :: ws2 -> forall d', In d' ws2 -> is_prefix (fst d) (fst d') = false) ->
  apply_deltas (tx_pristine t) (tx_deltas t) = Some b ->
  wf_tree v = true ->
  NoDup (map snd (sort_by snd lms)) ->
  (forall s s', In s (map snd lms) -> In s' (map snd lms) -> s = s' \/ diverge s s' = true) ->
  (forall m, In m lms -> strip (xval v m) = xval v m) ->
  view_get rules (tx_get (add_deltas t ws)) req = VOk v.
Proof. exact view_read_after_write_same_request. Qed.
Print Assumptions C30_read_after_write_same_request.

(* ... with nulls INSIDE v - PARTIAL. Full statement: Get returns v with the null members stripped (they became Unsets or
   were removed by JSONDataBag.Set). Proved, with no extra hypothesis: when no written part is itself null (Forall is_set
   ws: the nulls lie strictly inside the parts, where JSONDataBag.Set strips them), Get of req returns strip v = v with all
   nulls purged. Core: prune_merge_strip / C30_merge_rebuilds_stripped_value - pruning commutes with stripping, so the
   unused-branch check on v suffices. The hypothesis `Forall is_set ws` cannot be dropped: with a part that is itself null
   the statement is false (C30_read_after_write_null_part_refuted), so this theorem is the full result for its shape and
   keeps `_partial` only w.r.t. the DESIGN wording. *)
Theorem C30_read_after_write_same_request_nulls_partial : forall rules req v ws lms t b,
  set_writes rules req v = (ROk, ws) -> Forall is_set ws ->
  matches readable rules req = matches writeable rules req ->
  literal_matches (matches writeable rules req) = Some lms ->
  (forall ws1 d ws2, ws = ws1 ++ d :: ws2 -> forall d', In d' ws2 -> is_prefix (fst d) (fst d') = false) ->
  apply_deltas (tx_pristine t) (tx_deltas t) = Some b ->
  wf_tree v = true ->
  NoDup (map snd (sort_by snd lms)) ->
  (forall s s', In s (map snd lms) -> In s' (map snd lms) -> s = s' \/ diverge s s' = true) ->
  view_get rules (tx_get (add_deltas t ws)) req = VOk (strip v).
Proof. exact view_read_after_write_same_request_strip. Qed.
Print Assumptions C30_read_after_write_same_request_nulls_partial.

(* storage-level read-after-write for Unset deltas (what a null part of a Set, or a View.Unset, becomes): an Unset of a
   literal path, followed by any Sets and Unsets on paths diverging from it, leaves the path reading as missing *)
Theorem C30_unset_stays_missing : forall ds1 d ds2 b b', Forall has_path (ds1 ++ d :: ds2) -> snd d = Null ->
  lit_path (fst d) = true -> apply_deltas b (ds1 ++ d :: ds2) = Some b' ->
  (forall d', In d' ds2 -> pdiverge (fst d) (fst d') = true) ->
  bag_get (fst d) b' = BPathErr.
Proof. exact unset_stays_missing. Qed.
Print Assumptions C30_unset_stays_missing.

(* the null-PART case: the statement "Get of the same request returns v with the nulls stripped" is FALSE when a written
   part is itself null. Rules a.b.x -> p, a.c -> q, Set a = {b:{x:null}, c:2}: the part under b.x is null and becomes an
   Unset of p; Get a returns {c:2}, whereas v with the nulls stripped is {b:{}, c:2} - the emptied parent of a null part
   is not materialised (and with ALL parts null Get answers NotFound). Replayed on the real code (./check --replay of this
   history): Get a = {"c":2}. Judged against the property text this is not a defect: a null inside a Set value is the
   documented way to unset, and what IS read back is exactly what was stored (C30_unset_stays_missing,
   C30_read_after_write_storage); only the shape of the emptied ancestors differs from `strip`. *)
Theorem C30_read_after_write_null_part_refuted : exists rules req v ws,
  set_writes rules req v = (ROk, ws) /\ matches readable rules req = matches writeable rules req /\
  view_get rules (tx_get (add_deltas (mkTx [] []) ws)) req = VOk (Obj [(99, Atom 2%Z)]) /\
  strip v = Obj [(98, Obj []); (99, Atom 2%Z)].
Proof.
  exists [mkRule [Lit 97; Lit 98; Lit 120] [Lit 112] RW; mkRule [Lit 97; Lit 99] [Lit 113] RW], [97],
         (Obj [(98, Obj [(120, Null)]); (99, Atom 2%Z)]), [([112], Null); ([113], Atom 2%Z)].
  repeat split; reflexivity.
Qed.
Print Assumptions C30_read_after_write_null_part_refuted.

Theorem C30_merge_rebuilds_stripped_value : forall L cur, wf_tree cur = true -> pw_div L ->
  (forall s, In s L -> exists x, value_at s cur = Some x /\ x <> Null) ->
  fold_left prune_step L (Some (Some cur)) = Some None ->
  merge_all (map (fun s => nest s (strip (xv cur s))) (rev L)) = Some (Some (strip cur)).
Proof. exact prune_all_merge_strip. Qed.
Print Assumptions C30_merge_rebuilds_stripped_value.

Theorem C30_merge_rebuilds_value : forall L cur, wf_tree cur = true -> pw_div L ->
  (forall s, In s L -> value_at s cur <> None) ->
  fold_left prune_step L (Some (Some cur)) = Some None ->
  merge_all (map (fun s => nest s (xv cur s)) (rev L)) = Some (Some cur).
Proof. exact prune_all_merge. Qed.
Print Assumptions C30_merge_rebuilds_value.

Theorem C30_outer_returns_inner : forall b p q x1 x2, p <> [] -> q <> [] -> x1 <> Null -> x2 <> Null ->
  exists b', apply_deltas b [(p, x1); (p ++ q, x2)] = Some b' /\
             bag_get p b' = BOk (tset q (strip x2) (Some (strip x1))) /\
             bag_get (p ++ q) b' = BOk (strip x2).
Proof. exact outer_returns_inner. Qed.
Print Assumptions C30_outer_returns_inner.

(* the full statement "a rejected View.Set leaves the databag unchanged" is FALSE on a bare databag (no transaction):
   rules a.b -> p, a.c -> q, schema rejecting 99, Set a = {b:1, c:99}: the write of p passes, the write of q fails the
   schema, the request is rejected and both writes stay behind; at the transactional entry point the same request
   changes nothing. Confirmed on the real code by the driver (fixed history 5, OBare). *)
Theorem C30_bare_bag_partial_refuted : exists valid rules b req v b',
  bare_set valid rules b req v = (RError, b') /\ b' <> b /\ set_via_view valid rules b req v = (b, false).
Proof.
  exists drv_valid, bb_rules, [], [97], bb_value, [(112, Atom 1%Z); (113, Atom 99%Z)].
  split; [exact bare_bag_partial|]. split; [discriminate|exact bare_bag_vs_tx].
Qed.
Print Assumptions C30_bare_bag_partial_refuted.

(* ---- non-vacuity *)
(* a {placeholder} left in the unmatched suffix is filled from the keys of the value *)
Example ex_placeholder_suffix :
  set_writes_g [mkRule [Lit 97; Ph 120; Lit 98] [Lit 112; Ph 120] RW] [97]
               (Obj [(99, Obj [(98, Atom 1%Z)]); (100, Obj [(98, Atom 2%Z)])]) =
  (ROk, [([112; 99], Atom 1%Z); ([112; 100], Atom 2%Z)]).
Proof. reflexivity. Qed.
(* order-dependent suffixes b and b.c: either the writes or BadRequest *)
Example ex_order_dependent :
  set_class [mkRule [Lit 97; Lit 98] [Lit 112] RW; mkRule [Lit 97; Lit 98; Lit 99] [Lit 113] RW; mkRule [Lit 97; Lit 100] [Lit 114] RW]
            [97] (Obj [(98, Obj [(99, Atom 1%Z)]); (100, Atom 2%Z)]) =
  SEither false [([112], Obj [(99, Atom 1%Z)]); ([113], Atom 1%Z); ([114], Atom 2%Z)].
Proof. reflexivity. Qed.
Definition ex_nested : list rule := [mkRule [Lit 97; Lit 98] [Lit 112; Lit 113] RW; mkRule [Lit 97; Lit 99] [Lit 112] RW].
(* a.b -> p.q (smaller request, inner path), a.c -> p: the outer path p is written first *)
Example ex_nested_order :
  set_writes ex_nested [97] (Obj [(98, Atom 1%Z); (99, Obj [(100, Atom 2%Z)])]) =
  (ROk, [([112], Obj [(100, Atom 2%Z)]); ([112; 113], Atom 1%Z)]).
Proof. reflexivity. Qed.
Example ex_nested_readback :
  view_get ex_nested (tx_get (mkTx [] [([112], Obj [(100, Atom 2%Z)]); ([112; 113], Atom 1%Z)])) [97; 98] = VOk (Atom 1%Z).
Proof. reflexivity. Qed.
Definition ex_rules : list rule :=
  [mkRule [Lit 97] [Lit 112] WO; mkRule [Lit 98] [Lit 112] RO; mkRule [Lit 99; Ph 120] [Lit 113; Ph 120] RW].
Example ex_write_only_not_readable : view_get ex_rules (fun _ => BOk (Atom 1%Z)) [97] = VErr RNotFound.
Proof. reflexivity. Qed.
Example ex_read_only_not_writeable : set_writes ex_rules [98] (Atom 1%Z) = (RNotFound, []).
Proof. reflexivity. Qed.
Example ex_placeholder_write : set_writes ex_rules [99; 100] (Atom 5%Z) = (ROk, [([113; 100], Atom 5%Z)]).
Proof. reflexivity. Qed.
Example ex_schema_reject : set_via_view drv_valid ex_rules [] [97] (Atom 99%Z) = ([], false).
Proof. reflexivity. Qed.
Example ex_accept : set_via_view drv_valid ex_rules [] [97] (Atom 1%Z) = ([(112, Atom 1%Z)], true).
Proof. reflexivity. Qed.

(* Unset through unfilled placeholders: match-all in the middle (emptied objects stay), at the end (the whole level goes),
   and the decoding error when a scalar is met on the way *)
Example ex_unset_match_all_middle :
  bag_unset [112; 1120; 113] [(112, Obj [(99, Obj [(113, Atom 1%Z)]); (100, Obj [(113, Atom 2%Z); (114, Atom 3%Z)])])] =
  Some [(112, Obj [(99, Obj []); (100, Obj [(114, Atom 3%Z)])])].
Proof. reflexivity. Qed.
Example ex_unset_match_all_last :
  bag_unset [114; 1121] [(112, Atom 0%Z); (114, Obj [(97, Atom 3%Z); (98, Atom 4%Z)])] = Some [(112, Atom 0%Z)].
Proof. reflexivity. Qed.
Example ex_unset_scalar_error : bag_unset [112; 1120; 113] [(112, Obj [(100, Atom 5%Z)])] = None.
Proof. reflexivity. Qed.
Example ex_unset_paths_placeholder :
  unset_paths_g [mkRule [Lit 97; Ph 120; Lit 98] [Lit 112; Ph 120; Lit 113] RW] [97] = (ROk, [[112; 1120; 113]]).
Proof. reflexivity. Qed.

(* the relation: an order-dependent Set has both outcomes; the functional model is an instance elsewhere *)
Definition ex_od_rules : list rule :=
  [mkRule [Lit 97; Lit 98] [Lit 112] RW; mkRule [Lit 97; Lit 98; Lit 99] [Lit 113] RW; mkRule [Lit 97; Lit 100] [Lit 114] RW].
Definition ex_od_value : tree := Obj [(98, Obj [(99, Atom 1%Z)]); (100, Atom 2%Z)].
Example ex_outcome_rejected : set_outcome ex_od_rules [97] ex_od_value (RBadRequest, []).
Proof. left. reflexivity. Qed.
Example ex_outcome_accepted :
  set_outcome ex_od_rules [97] ex_od_value (ROk, [([112], Obj [(99, Atom 1%Z)]); ([113], Atom 1%Z); ([114], Atom 2%Z)]).
Proof. right. split; reflexivity. Qed.
Example ex_od_determined : determined ex_od_rules [97] ex_od_value.
Proof. left. discriminate. Qed.
Example ex_rstep_either : forall valid,
  rstep valid ex_od_rules (mkState [] [mkTx [] []]) (OSet 0 [97] ex_od_value) (mkState [] [mkTx [] []]) (BRes RBadRequest).
Proof. intros valid. eapply rs_set_rejected; [reflexivity|exact ex_outcome_rejected|discriminate]. Qed.
(* class (ii) is not empty: the same placeholder name twice in one request pattern *)
Example ex_undetermined :
  ~ determined [mkRule [Ph 120; Lit 97; Ph 120] [Ph 120; Lit 114; Ph 120] RW] [100; 97]
               (Obj [(98, Atom 1%Z); (99, Atom 2%Z)]).
Proof. intros [H|H]; vm_compute in H; congruence. Qed.
(* entry point: a rejected and an accepted request *)
Example ex_via_view_rejected : via_view drv_valid ex_rules [] [97] (Atom 99%Z) ([], false).
Proof. exists ROk, [([112], Atom 99%Z)]. split; reflexivity. Qed.
Example ex_via_view_accepted : via_view drv_valid ex_rules [] [97] (Atom 1%Z) ([(112, Atom 1%Z)], true).
Proof. exists ROk, [([112], Atom 1%Z)]. split; reflexivity. Qed.

(* Get of the same request through two rules: the merge of the written parts is the value itself *)
Definition ex_two : list rule := [mkRule [Lit 97; Lit 98] [Lit 112] RW; mkRule [Lit 97; Lit 99] [Lit 113] RW].
Definition ex_two_v : tree := Obj [(98, Atom 1%Z); (99, Obj [(100, Atom 2%Z)])].
Example ex_two_merge :
  merge_all (map (fun m => nest (snd m) (strip (xval ex_two_v m))) (sort_by snd [([112], [98]); ([113], [99])])) = Some (Some ex_two_v).
Proof. reflexivity. Qed.
Example ex_two_get :
  view_get ex_two (tx_get (add_deltas (mkTx [] []) (snd (set_writes ex_two [97] ex_two_v)))) [97] = VOk ex_two_v.
Proof. reflexivity. Qed.

(* the hypotheses of C30_read_after_write_same_request are satisfiable: the two-rule view above, three-level value *)
Definition ex_three : list rule :=
  [mkRule [Lit 97; Lit 98; Lit 99] [Lit 112] RW; mkRule [Lit 97; Lit 98; Lit 100] [Lit 113] RW; mkRule [Lit 97; Lit 101] [Lit 114] RW].
Definition ex_three_v : tree := Obj [(98, Obj [(99, Atom 1%Z); (100, Obj [])]); (101, Atom 3%Z)].
Example ex_three_unused_check :
  fold_left prune_step (rev [[98; 99]; [98; 100]; [101]]) (Some (Some ex_three_v)) = Some None.
Proof. reflexivity. Qed.
Example ex_three_get :
  view_get ex_three (tx_get (add_deltas (mkTx [] []) (snd (set_writes ex_three [97] ex_three_v)))) [97] = VOk ex_three_v.
Proof. reflexivity. Qed.

(* nulls inside a part: stripped by the write, Get returns the stripped value; the extra hypothesis holds *)
Definition ex_nulls_v : tree := Obj [(98, Obj [(100, Null); (101, Atom 1%Z)]); (99, Atom 2%Z)].
Example ex_nulls_inside :
  view_get ex_two (tx_get (add_deltas (mkTx [] []) (snd (set_writes ex_two [97] ex_nulls_v)))) [97] =
  VOk (Obj [(98, Obj [(101, Atom 1%Z)]); (99, Atom 2%Z)]).
Proof. reflexivity. Qed.
Example ex_nulls_inside_check :
  fold_left prune_step (rev [[98]; [99]]) (Some (Some (Obj [(98, Obj [(101, Atom 1%Z)]); (99, Atom 2%Z)]))) = Some None.
Proof. reflexivity. Qed.
(* a part that is itself null becomes an Unset delta: the member is gone from what Get returns (= v stripped) *)
Example ex_null_part :
  set_writes ex_two [97] (Obj [(98, Null); (99, Atom 2%Z)]) = (ROk, [([112], Null); ([113], Atom 2%Z)]) /\
  view_get ex_two (tx_get (add_deltas (mkTx [(112, Atom 7%Z)] []) [([112], Null); ([113], Atom 2%Z)])) [97] =
  VOk (Obj [(99, Atom 2%Z)]).
Proof. split; reflexivity. Qed.
