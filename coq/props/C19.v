(* C19 - stored assertions only move forward in revision.

   Full statement: for every assertion identity, the assertion the database returns is always the highest revision
   that was successfully added; adding an equal or lower revision is refused and changes nothing; assertions clashing
   with built-in trusted or predefined ones cannot be added; the in-memory and on-disk stores agree on every result,
   including lookups of sequence-forming assertions by sequence number.

   Proved on the store model (one model for both backstores; their agreement with it, and hence with each other, is
   the differential run): the theorems below, over every history of adds. *)
From Coq Require Import List NArith ZArith Bool.
Import ListNotations.
Require Import V.lib.Bytes V.models.AssertStore V.proofs.AssertStoreProofs.
Open Scope N_scope.

(* after ANY history of adds (formats supported, as Database.Add guarantees), a lookup at the supported format returns
   an accepted add of that key whose revision is >= that of every accepted add of the key; nothing if none was accepted *)
Theorem C19_highest_added : forall l, supported l ->
  forall t k,
    match get (fst (adds_run l)) t k (max_supp t) with
    | Some c => In c (snd (adds_run l)) /\ same_key t k c = true /\
                forall a, In a (snd (adds_run l)) -> same_key t k a = true -> a_rev a <= a_rev c
    | None => forall a, In a (snd (adds_run l)) -> same_key t k a = false
    end.
Proof. exact highest_added. Qed.
Print Assumptions C19_highest_added.

Theorem C19_accepted_from_history : forall l a, In a (snd (adds_run l)) -> In a l.
Proof. exact accepted_from_history. Qed.
Print Assumptions C19_accepted_from_history.

(* a refused add changes nothing, and it is refused only against a current revision that is at least as high *)
Theorem C19_refused_changes_nothing : forall s a s',
  put s a = (s', RevErr) ->
  s' = s /\ exists c, cur s (a_typ a) (a_key a) (max_supp (a_typ a)) = Some c /\ a_rev a <= a_rev c.
Proof. exact put_refused. Qed.
Print Assumptions C19_refused_changes_nothing.

(* an accepted add is strictly newer than what was current and becomes current *)
Theorem C19_accepted_moves_forward : forall s a s',
  put s a = (s', Accepted) -> a_fmt a <= max_supp (a_typ a) ->
  s' = insert a s /\ cur s' (a_typ a) (a_key a) (max_supp (a_typ a)) = Some a /\
  (forall c, cur s (a_typ a) (a_key a) (max_supp (a_typ a)) = Some c -> a_rev c < a_rev a).
Proof. exact put_accepted. Qed.
Print Assumptions C19_accepted_moves_forward.

Theorem C19_clash_refused : forall d a,
  a_fmt a <= max_supp (a_typ a) ->
  in_keys (a_typ a) (a_key a) (d_trusted d) || in_keys (a_typ a) (a_key a) (d_predefined d) = true ->
  db_add d a = (d, Clash).
Proof. exact db_clash_refused. Qed.
Print Assumptions C19_clash_refused.

Theorem C19_db_refused_changes_nothing : forall d a d' r, db_add d a = (d', r) -> r <> Accepted -> d' = d.
Proof. exact db_refused_changes_nothing. Qed.
Print Assumptions C19_db_refused_changes_nothing.

Theorem C19_sequence_lookup : forall s t prefix after maxf r,
  seq_after s t prefix after maxf = Some r ->
  In r (members s t prefix maxf) /\
  if (after =? -1)%Z then forall x, In x (members s t prefix maxf) -> a_seq x <= a_seq r
  else (after < Z.of_N (a_seq r))%Z /\
       forall x, In x (members s t prefix maxf) -> (after < Z.of_N (a_seq x))%Z -> a_seq r <= a_seq x.
Proof. exact sequence_lookup. Qed.
Print Assumptions C19_sequence_lookup.

(* Search (FindMany): sound and complete with respect to the stored keys and the given headers *)
Theorem C19_search_sound : forall s t hint m tg, In tg (search s t hint m) ->
  exists c, a_tag c = tg /\ In c s /\ a_typ c = t /\ hint_match hint (a_key c) = true /\ cur s t (a_key c) m = Some c.
Proof. exact search_sound. Qed.
Print Assumptions C19_search_sound.

Theorem C19_search_complete : forall s t hint m x c,
  In x s -> a_typ x = t -> hint_match hint (a_key x) = true -> cur s t (a_key x) m = Some c ->
  In (a_tag c) (search s t hint m).
Proof. exact search_complete. Qed.
Print Assumptions C19_search_complete.

(* Search o Put: an accepted assertion is found, alone, by a search giving all its primary-key headers *)
Theorem C19_search_after_put : forall s a s',
  put s a = (s', Accepted) -> a_fmt a <= max_supp (a_typ a) ->
  forallb (fun c => negb (is_nil_b c)) (a_key a) = true ->
  search s' (a_typ a) (a_key a) (max_supp (a_typ a)) = [a_tag a].
Proof. exact search_after_put. Qed.
Print Assumptions C19_search_after_put.

(* the filesystem store searches by escaped file names; for EVERY injective escape function that is the same search
   (the same function must be used to write and to search: the escape is a parameter of the whole store) *)
Theorem C19_search_any_injective_escape : forall esc : bytes -> bytes, (forall a b, esc a = esc b -> a = b) ->
  forall s t hint m, search_esc esc s t hint m = search s t hint m.
Proof. exact search_esc_injective. Qed.
Print Assumptions C19_search_any_injective_escape.

(* the escape of the filesystem backstore (escapeComp: url.QueryEscape, then "." and ".." get their dots escaped; repaired
   in /repo commit 2f752eb, see KNOWN_FINDINGS `fixed:`), for ALL byte strings: it can be undone, hence is injective; its
   result is never "." or "..", contains no path separator, and is empty only for the empty value *)
Theorem C19_escape_injective : forall a b, escape_comp a = escape_comp b -> a = b.
Proof. exact escape_comp_injective. Qed.
Print Assumptions C19_escape_injective.

Theorem C19_escape_safe : forall s,
  is_dot (escape_comp s) = false /\ existsb (fun c => c =? 47) (escape_comp s) = false /\ (escape_comp s = [] -> s = []).
Proof. exact escape_comp_safe. Qed.
Print Assumptions C19_escape_safe.

(* so filepath.Join's cleaning leaves every escaped key path alone, and distinct primary keys use distinct files *)
Theorem C19_distinct_keys_distinct_files : forall k1 k2,
  clean_path (map escape_comp k1) = clean_path (map escape_comp k2) -> k1 = k2.
Proof. exact distinct_keys_distinct_files. Qed.
Print Assumptions C19_distinct_keys_distinct_files.

(* and searching by the escaped file names is the model search (instance of C19_search_any_injective_escape) *)
Theorem C19_search_repaired_escape : forall s t hint m, search_esc escape_comp s t hint m = search s t hint m.
Proof. exact search_repaired_escape. Qed.
Print Assumptions C19_search_repaired_escape.

(* non-vacuity *)
Definition ex_k : list bytes := [[97]].
Definition ex_hist : list asn :=
  [mkA 0 ex_k 0 2 0 1; mkA 0 ex_k 1 1 0 2; mkA 0 ex_k 1 5 0 3; mkA 0 ex_k 0 5 0 4; mkA 0 ex_k 0 3 0 5].
Example C19_ex_supported : forallb (fun a => a_fmt a <=? max_supp (a_typ a)) ex_hist = true.
Proof. vm_compute. reflexivity. Qed.
Example C19_ex_accepted : map a_tag (snd (adds_run ex_hist)) = [1; 3].
Proof. vm_compute. reflexivity. Qed.
Example C19_ex_get : option_map a_tag (get (fst (adds_run ex_hist)) 0 ex_k 1) = Some 3.
Proof. vm_compute. reflexivity. Qed.
Example C19_ex_get_fmt0 : option_map a_tag (get (fst (adds_run ex_hist)) 0 ex_k 0) = Some 1.
Proof. vm_compute. reflexivity. Qed.
Example C19_ex_seq :
  let s := fst (adds_run [mkA 2 [[115]; [50]] 0 0 2 1; mkA 2 [[115]; [53]] 2 0 5 2; mkA 2 [[115]; [52]] 0 0 4 3]) in
  (option_map a_tag (seq_after s 2 [[115]] 2 2), option_map a_tag (seq_after s 2 [[115]] (-1) 2),
   option_map a_tag (seq_after s 2 [[115]] (-1) 1), option_map a_tag (seq_after s 2 [[115]] 5 2))
  = (Some 3, Some 2, Some 3, None).
Proof. vm_compute. reflexivity. Qed.
Example C19_ex_escape : map escape_comp [[46]; [46; 46]; [46; 46; 46]; [97; 32; 43; 47; 233]]
  = [[37; 50; 69]; [37; 50; 69; 37; 50; 69]; [46; 46; 46]; [97; 43; 37; 50; 66; 37; 50; 70; 37; 69; 57]].
Proof. vm_compute. reflexivity. Qed.
Example C19_ex_unrepaired_collides :   (* what the repair removed: QueryEscape alone lets two keys share a path *)
  clean_path (map query_escape [[46]; [120]]) = clean_path (map query_escape [[120]; [46]]).
Proof. vm_compute. reflexivity. Qed.
Example C19_ex_clash : snd (db_add (mkDb [(3, [[99]])] [] []) (mkA 3 [[99]] 0 9 0 1)) = Clash.
Proof. vm_compute. reflexivity. Qed.
