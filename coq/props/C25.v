(* C25 -- non-root callers can only run snapctl's read-only commands.
   This file holds the property theorems only: statement, `exact <lemma>`, Print Assumptions.
   Model: models/SnapCtl.v (isAllowedToRun exactly; go-flags abstracted: the command that may execute is the first
   token if it is a registered name, a help token before any -- means nothing executes; the abstraction is tied to the
   real go-flags and the real command structs by the driver). Tables: gen/NonRootAllowed.v (nonRootAllowed and the
   addCommand names, regenerated on every run). spec_allowed is the list of the statement, written by hand. *)
From Coq Require Import List NArith ZArith Bool String.
Import ListNotations.
Require Import V.lib.Bytes V.gen.NonRootAllowed V.models.SnapCtl V.proofs.SnapCtlProofs.
Open Scope N_scope.

(* for EVERY argument vector (any byte strings) and every uid other than 0: if some command's Execute may run, it is
   get, services, set-health, is-connected, system-mode or model *)
Theorem C25_gate : forall (args : list bytes) (uid : N) (n : bytes),
  uid <> 0 -> run args uid = MayExec n -> In n spec_allowed.
Proof. exact gate. Qed.
Print Assumptions C25_gate.

(* -h / --help anywhere before a -- never executes a command, whoever asks ... *)
Theorem C25_help_never_executes : forall (args : list bytes) (uid : N),
  help_before_dd args = true -> forall n, run args uid <> MayExec n.
Proof. exact help_never_executes. Qed.
Print Assumptions C25_help_never_executes.

(* ... and is let through the gate for everybody: the outcome is help or a parse error *)
Theorem C25_help_is_never_forbidden : forall (args : list bytes) (uid : N),
  help_before_dd args = true -> run args uid = NoExec.
Proof. exact help_is_never_forbidden. Qed.
Print Assumptions C25_help_is_never_forbidden.

(* other invocations by a non-root caller fail at the gate: first token not one of the six, no help token *)
Theorem C25_nonroot_other_forbidden : forall (a : bytes) (rest : list bytes) (uid : N),
  uid <> 0 -> ~ In a spec_allowed -> help_before_dd (a :: rest) = false -> run (a :: rest) uid = Forbidden.
Proof. exact nonroot_other_forbidden. Qed.
Print Assumptions C25_nonroot_other_forbidden.

(* the six commands are reachable for any uid *)
Theorem C25_nonroot_allowed_reach : forall (n : bytes) (rest : list bytes) (uid : N),
  In n spec_allowed -> help_before_dd (n :: rest) = false -> run (n :: rest) uid = MayExec n.
Proof. exact nonroot_allowed_reach. Qed.
Print Assumptions C25_nonroot_allowed_reach.

(* root may run every registered command and is never refused *)
Theorem C25_root_all : forall (n : bytes) (rest : list bytes),
  In n registered_commands -> help_before_dd (n :: rest) = false -> run (n :: rest) 0 = MayExec n.
Proof. exact root_all. Qed.
Print Assumptions C25_root_all.

Theorem C25_root_never_forbidden : forall args : list bytes, run args 0 <> Forbidden.
Proof. exact root_never_forbidden. Qed.
Print Assumptions C25_root_never_forbidden.

(* the gate's loop is exactly `a help token before any --` *)
Theorem C25_gate_scan_is_help_before_dd : forall args : list bytes, scan_help args = help_before_dd args.
Proof. exact scan_help_spec. Qed.
Print Assumptions C25_gate_scan_is_help_before_dd.

(* ---- non-vacuity ---- *)
Example ex_nonroot_get : run [bs "get"; bs "foo"] 1000 = MayExec (bs "get").
Proof. vm_compute. reflexivity. Qed.
Example ex_nonroot_set : run [bs "set"; bs "foo=bar"] 1000 = Forbidden.
Proof. vm_compute. reflexivity. Qed.
Example ex_nonroot_set_help : run [bs "set"; bs "foo=bar"; bs "-h"] 1000 = NoExec.
Proof. vm_compute. reflexivity. Qed.
Example ex_nonroot_set_help_after_dd : run [bs "set"; bs "--"; bs "-h"] 1000 = Forbidden.
Proof. vm_compute. reflexivity. Qed.
Example ex_nonroot_second_token : run [bs "set"; bs "get"] 1000 = Forbidden.
Proof. vm_compute. reflexivity. Qed.
Example ex_root_set : run [bs "set"; bs "foo=bar"] 0 = MayExec (bs "set").
Proof. vm_compute. reflexivity. Qed.
