(* C01 — a failed change undoes exactly the work it had done, in reverse order.
   This file holds the property theorems only: statement, `exact <lemma>`, Print Assumptions.
   Model: models/TaskEngine.v (abort_lanes / abort_loop mirror Change.abortLanes / abortTasks, finish mirrors the
   goroutine tail of TaskRunner.run, ensure_pass mirrors TaskRunner.Ensure with Go's map order as an argument).

   FULL STATEMENT (for reference): when a task fails, every task in its lanes and every task transitively waiting on
   it that had completed and can be undone is undone, tasks that had not started are put on hold, tasks in
   independent healthy lanes are left to complete; undo of a task only starts after every task that waited on it has
   finished; the change settles in Error with no task pending.
   PROVED BELOW, over all graphs and all event lists: the undo-order half (fresh starts) and the status mapping of
   every abort (nothing is ever rewritten except Do->Hold, Doing->Abort, Done->Undo).
   Also proved: the model's fuel bounds are never hit (C01_abort_fuel), no task is stranded (C01_no_deadlock), the
   failing task ends in Error, a settled change with a failed task reports Error.
   Also proved: nothing outside the upper closure R is touched by an abort; only started work is undone; the settled
   state (no tomb, status Error iff a handler failed).
   Also proved: C01_settles_error (liveness, bounded rounds); the abort set exactly when abortLanes does not nest.
   NOT PROVED (monitored on every observed history instead, see notes/C01.md): the abort set between R' and R when
   abortLanes nests (order dependent; C01_sandwich_bounds_not_tight shows neither bound is tight). *)
From Coq Require Import List NArith ZArith Bool Lia.
Import ListNotations.
Require Import V.models.TaskEngine V.proofs.TaskEngineProofs V.proofs.TaskEngineStatus V.proofs.TaskEngineReady
               V.proofs.TaskEngineDoing V.proofs.TaskEngineFuel V.proofs.TaskEngineLive V.proofs.TaskEnginePass V.proofs.TaskEngineErr V.proofs.TaskEngineSettled
               V.proofs.TaskEngineStarted V.proofs.TaskEngineClosure V.proofs.TaskEngineLower V.proofs.TaskEngineExact
               V.proofs.TaskEngineSettle.

(* reverse-order undo: in every execution, whenever an undo handler is freshly started (Undo->Undoing), every task
   that waited on it had a ready status (Done/Undone/Hold/Error) at that instant, i.e. had finished or never ran *)
Theorem C01_undo_order : forall (g : list tdesc) (es : list event),
  Forall (fun r : start_rec => sr_undo r = true -> sr_fresh r = true -> forallb ready (sr_pre r) = true)
         (slog (run_events (init_state g) es)).
Proof.
  intros g es. eapply Forall_impl; [|apply start_log_ok].
  intros r [_ H] Hu Hf. specialize (H Hf). rewrite Hu in H. exact H.
Qed.
Print Assumptions C01_undo_order.

(* Ensure leaves a task in Undo alone as long as some task that waited on it is still pending or running *)
Theorem C01_undo_waits_for_dependents : forall (s : state) (t h : nat),
  st s t = Undo -> In h (t_halts (get s t)) -> ready (st s h) = false -> ensure_one s t = s.
Proof. exact ensure_one_undo_blocked. Qed.
Print Assumptions C01_undo_waits_for_dependents.

(* the abort mapping: whatever lanes are aborted, in whatever state and with whatever bookkeeping sets, every task
   either keeps its status or moves Do->Hold, Doing->Abort, Done->Undo (a task in Wait: by the status it waits for) *)
Theorem C01_abort_mapping : forall (d : nat) (kill al seen : list nat) (s : state) (u : nat),
  abort_map_ok (st s u) (st (abort_lanes d kill al seen s) u) = true.
Proof. exact abort_lanes_mapping. Qed.
Print Assumptions C01_abort_mapping.

(* the same for the error path of the task runner: when the handler of t returns an error, every OTHER task keeps its
   status or follows the mapping *)
Theorem C01_error_path_mapping : forall (s : state) (t u : nat),
  panicked s = false -> memn t (running s) = true -> u <> t ->
  abort_map_ok (st s u) (st (finish s t OErr) u) = true.
Proof. exact finish_err_mapping. Qed.
Print Assumptions C01_error_path_mapping.

(* and for Change.Abort *)
Theorem C01_user_abort_mapping : forall (s : state) (u : nat),
  abort_map_ok (st s u) (st (abort_change s) u) = true.
Proof. exact abort_change_mapping. Qed.
Print Assumptions C01_user_abort_mapping.

(* C01_abort_fuel: the abort recursion terminates within the model's fuel bounds - the worklist loop of abortTasks
   because every iteration drops a seen element or marks a new task seen, the abortLanes/abortTasks nesting because
   every nested abortLanes call kills a lane that was not killed before. Every graph, every event list. *)
Theorem C01_abort_fuel : forall (g : list tdesc) (es : list event), oof (run_events (init_state g) es) = false.
Proof. exact oof_never. Qed.
Print Assumptions C01_abort_fuel.

(* C01_no_deadlock: no task is stranded. For every non-empty closed graph whose wait edges are acyclic (rk is a
   topological rank: the generator draws the edges along a topological order), every history in which user aborts hit
   unready changes only and a do handler that answers Wait waits to become Done (tame): in the reached state, if no
   handler is running, no task sits in Wait and no task is scheduled for later, then either every task is ready or
   the body of the Ensure loop FIRES for some task t of the change: it writes t's status or starts t's handler.
   This is the statement for one iteration; C01_no_deadlock_pass below lifts it to a whole pass. *)
Theorem C01_no_deadlock : forall (g : list tdesc) (rk : nat -> nat) (es : list event),
  g <> [] -> closed g -> (forall t w, In w (waits_g g t) -> rk w < rk t) ->
  tame (init_state g) es ->
  let s := run_events (init_state g) es in
  running s = [] -> (forall t, st s t <> Wait) -> (forall t, gate_open s t = true) ->
  all_ready (tasks s) = true \/
  exists t, t < length (tasks s) /\ (st (ensure_one s t) t <> st s t \/ In t (running (ensure_one s t))).
Proof. exact no_deadlock_total. Qed.
Print Assumptions C01_no_deadlock.

(* C01_no_deadlock for a WHOLE Ensure pass. pm is the progress measure  sum over the tasks of the position of their
   status along  Do < Doing < Abort < Undo < Undoing < {Done, Hold, Undone, Error, Wait}  plus the number of tombs.
   Every iteration of the Ensure loop, in every state, leaves pm unchanged only if it leaves the state unchanged, and
   otherwise raises it (later iterations cannot undo the status write or the handler start of an earlier one). Hence,
   in the situation of C01_no_deadlock, a pass over ANY order that visits every task of the change strictly raises pm
   - in particular it changes the state - unless every task is ready. *)
Theorem C01_no_deadlock_pass : forall (g : list tdesc) (rk : nat -> nat) (es : list event) (order : list nat),
  g <> [] -> closed g -> (forall t w, In w (waits_g g t) -> rk w < rk t) ->
  tame (init_state g) es ->
  let s := run_events (init_state g) es in
  running s = [] -> (forall t, st s t <> Wait) -> (forall t, gate_open s t = true) ->
  (forall t, t < length (tasks s) -> In t order) ->
  all_ready (tasks s) = true \/ (pm s < pm (ensure_pass s order) /\ ensure_pass s order <> s).
Proof. exact no_deadlock_pass. Qed.
Print Assumptions C01_no_deadlock_pass.

(* monotonicity of the Ensure loop body, for every state and every task *)
Theorem C01_ensure_monotone : forall (s : state) (t : nat),
  pm s <= pm (ensure_one s t) /\ (ensure_one s t = s \/ pm s < pm (ensure_one s t)).
Proof. exact pm_ensure_one. Qed.
Print Assumptions C01_ensure_monotone.

(* the error path: when the handler of a running task returns an error, that task ends in Error (and nothing panics) *)
Theorem C01_failed_task_ends_in_error : forall (s : state) (t : nat),
  inv s -> In t (running s) -> st (finish s t OErr) t = Error /\ panicked (finish s t OErr) = false.
Proof. exact finish_err_sets_error. Qed.
Print Assumptions C01_failed_task_ends_in_error.

(* C01_settles_error, safety half IN FULL (replaces C01_settled_status_error_partial): whenever every task is ready
   the change reports Error iff some task is in Error ... *)
Theorem C01_settled_status_error : forall l : list task,
  all_ready l = true -> (change_status l = Error <-> has_status l Error = true).
Proof. exact settled_error_iff. Qed.
Print Assumptions C01_settled_status_error.

(* ... and, over every tame history on a non-empty closed graph, a settled state has no tomb, is flagged ready, and
   reports Error iff some handler returned an error (failed_of lists those tasks); Err names exactly them. Still NOT
   proved: the liveness half (that finitely many Ensure/Finish events reach a settled state). *)
Theorem C01_settled_error_iff_handler_failed : forall (g : list tdesc) (es : list event),
  g <> [] -> closed g -> tame (init_state g) es ->
  let s := run_events (init_state g) es in
  all_ready (tasks s) = true ->
  running s = [] /\ cready s = true /\
  (change_status (tasks s) = Error <-> failed_of (init_state g) es <> []) /\
  (forall u, In u (err_tasks (tasks s)) <-> In u (failed_of (init_state g) es)).
Proof. exact settled_error_iff_failed. Qed.
Print Assumptions C01_settled_error_iff_handler_failed.

(* a settled state (every task ready) of the invariant has no tomb and every task is Done, Undone, Hold or Error:
   no task is left in Do / Doing / Abort / Undo / Undoing / Wait *)
Theorem C01_settled_nothing_pending : forall s : state,
  inv s -> all_ready (tasks s) = true ->
  running s = [] /\ forall u, st s u = Done \/ st s u = Undone \/ st s u = Hold \/ st s u = Error.
Proof. exact settled_nothing_pending. Qed.
Print Assumptions C01_settled_nothing_pending.

(* only started work is undone: in every history with user aborts on unready changes only, a task whose status is
   neither Do nor Hold has had its do handler started, and every start of an undo handler is preceded in the start log
   (most recent first) by a start of the do handler of the same task *)
Theorem C01_undo_only_of_started_tasks : forall (g : list tdesc) (es : list event),
  g <> [] -> guarded (init_state g) es ->
  let s := run_events (init_state g) es in
  (forall t, st s t <> Do -> st s t <> Hold -> started_in (slog s) t) /\ undo_after_do (slog s).
Proof. exact undo_only_of_started. Qed.
Print Assumptions C01_undo_only_of_started_tasks.

(* upper half of the closure sandwich, for EVERY state and every lane list: Change.AbortLanes changes no task outside
   R, the least set containing the tasks with a lane in the aborted-lane set, closed under halt edges, the aborted-lane
   set growing by all lanes of members (inR / laneR). Tasks of independent lanes that do not wait, even transitively,
   on anything aborted keep their statuses. *)
Theorem C01_abort_untouched_outside_closure : forall (s : state) (L0 : list nat) (u : nat),
  ~ inR s L0 u -> st (abort_lanes_top s L0) u = st s u.
Proof. exact abort_lanes_top_outside. Qed.
Print Assumptions C01_abort_untouched_outside_closure.

(* the same on the error path of the task runner *)
Theorem C01_error_path_untouched_outside_closure : forall (s : state) (t u : nat),
  panicked s = false -> memn t (running s) = true -> u <> t ->
  ~ inR (remove_running s t) (lanes_of (get s t)) u -> st (finish s t OErr) u = st s u.
Proof. exact finish_err_outside. Qed.
Print Assumptions C01_error_path_untouched_outside_closure.

(* lower half of the closure sandwich, for EVERY state (whose fuel flag is clear, as in every execution by
   C01_abort_fuel) and every lane list: after Change.AbortLanes every task of R' - the tasks all of whose lanes are
   aborted, closed under halt edges (lowR) - is no longer live: what had completed is in Undo, what was running in
   Abort, what had not started on Hold (lv = the task's effective status is Do / Doing / Done). With
   C01_abort_untouched_outside_closure this is the sandwich  R' <= aborted <= R;  for graphs in which every task has
   one lane the two closures coincide on the tasks of the aborted lanes. What is NOT proved is the exact behaviour
   between R' and R (the healthy-lane exemption for multi-lane tasks), which the monitor's spared_spec pins. *)
Theorem C01_abort_lower_closure_dead : forall (s : state) (L0 : list nat) (u : nat),
  oof s = false -> lowR s L0 u -> lv (abort_lanes_top s L0) u = false.
Proof. exact abort_lanes_top_lower. Qed.
Print Assumptions C01_abort_lower_closure_dead.

(* the same on the error path: everything in the lower closure of the failed task's lanes is put on hold / aborted /
   set to undo (the failed task itself goes to Error) *)
Theorem C01_error_path_lower_closure_dead : forall (s : state) (t u : nat),
  panicked s = false -> oof s = false -> memn t (running s) = true -> u <> t ->
  lowR (remove_running s t) (lanes_of (get s t)) u -> lv (finish s t OErr) u = false.
Proof. exact finish_err_lower. Qed.
Print Assumptions C01_error_path_lower_closure_dead.

(* non-vacuity: chain 0 <- 1 in the default lane: both tasks are in the lower closure of lane 0 *)
Example C01_lower_closure_nonvacuous :
  let s := init_state [([], [], true); ([], [0], true)] in lowR s [0] 0 /\ lowR s [0] 1.
Proof. exact lower_example. Qed.

(* The abort set EXACTLY, when no nested abortLanes call happens. A1 (inA1) is the set of lane tasks that abortLanes
   selects - the tasks with a lane in the kill list that the healthy-lane exemption does not spare (select_abort: a
   lane task is spared iff one of its lanes outside the kill list has been given at least one opinion and only live
   ones, an opinion coming from every task that lists that lane before any killed lane) - closed under halt edges.
   If every task of A1 has all its lanes in the kill list (then abortTasks finds no new lane and makes no nested call),
   exactly A1 is aborted: nothing outside A1 changes ... *)
Theorem C01_abort_exact_outside : forall (s : state) (L0 : list nat),
  (forall t, inA1 s L0 t -> forall x, In x (lanes_of (get s t)) -> In x L0) ->
  forall u, ~ inA1 s L0 u -> st (abort_lanes_top s L0) u = st s u.
Proof. exact abort_exact_outside. Qed.
Print Assumptions C01_abort_exact_outside.

(* ... and every task of A1 is no longer live afterwards (this half holds with nesting too) *)
Theorem C01_abort_exact_inside : forall (s : state) (L0 : list nat) (u : nat),
  oof s = false -> inA1 s L0 u -> lv (abort_lanes_top s L0) u = false.
Proof. exact abort_exact_inside. Qed.
Print Assumptions C01_abort_exact_inside.

(* With nesting (a task reached through a halt edge brings in a lane that was not killed) the nested abortLanes call
   judges lane health on statuses the outer call has already rewritten, so the abort set depends on the order of the
   rewriting and is not the fixpoint of a monotone operator; the sandwich R' <= aborted <= R is then the strongest
   order-independent statement, and NEITHER bound is tight - `refuted`-style witness: S in lanes 1 and 2, F in lane 1,
   K in lane 2. S is in R but not in R' for the kill list [1]. With K live S is spared (upper bound not tight); with
   K dead (Hold) S is aborted, Do -> Hold (lower bound not tight). *)
Theorem C01_sandwich_bounds_not_tight :
  (inR sw_live [1] 0 /\ ~ lowR sw_live [1] 0 /\ st (abort_lanes_top sw_live [1]) 0 = st sw_live 0) /\
  (inR sw_dead [1] 0 /\ ~ lowR sw_dead [1] 0 /\ st sw_dead 0 = Do /\ st (abort_lanes_top sw_dead [1]) 0 = Hold).
Proof. exact sandwich_not_tight. Qed.
Print Assumptions C01_sandwich_bounds_not_tight.

(* C01_settles_error (liveness + status): see C03_settles for the wording. After settle_bound n rounds every task is
   ready, nothing is pending, the change is flagged ready and reports Error iff some task is in Error. *)
Theorem C01_settles_error : forall (g : list tdesc) (rk : nat -> nat) (es : list event),
  g <> [] -> closed g -> (forall t w, In w (waits_g g t) -> rk w < rk t) ->
  tame (init_state g) es ->
  let s0 := run_events (init_state g) es in
  (forall t, st s0 t <> Wait) -> (forall t, t_at (get s0 t) = 0%Z) ->
  forall (oc0 : nat -> bool) (rl : list (list nat * (nat -> bool))),
  settle_bound (length g) <= length rl ->
  (forall r, In r rl -> forall t, t < length g -> In t (fst r)) ->
  let sF := iter_rounds rl (finish_all s0 oc0) in
  all_ready (tasks sF) = true /\ running sF = [] /\ cready sF = true /\
  (change_status (tasks sF) = Error <-> has_status (tasks sF) Error = true).
Proof. exact settles. Qed.
Print Assumptions C01_settles_error.

(* non-vacuity: two tasks in lanes 1 and 2: aborting lane 1, task 1 is outside R and task 0 inside *)
Example C01_closure_nonvacuous :
  let s := init_state [([1], [], true); ([2], [], true)] in ~ inR s [1] 1 /\ inR s [1] 0.
Proof. exact outside_example. Qed.

(* non-vacuity: the start log of a history with a failure: undo 0 after do 1 after do 0 *)
Example C01_started_nonvacuous :
  let g := [([], [], true); ([], [0], true)] in
  let es := [Ensure [0;1]; Finish 0 OOk; Ensure [0;1]; Finish 1 OErr; Ensure [0;1]] in
  guarded (init_state g) es /\
  map (fun r => (sr_t r, sr_undo r)) (slog (run_events (init_state g) es)) = [(0, true); (1, false); (0, false)].
Proof. exact started_example. Qed.

(* non-vacuity of the hypotheses of C01_no_deadlock: a tame history on an acyclic closed graph that reaches a state
   with no tomb in which a task waits in Undo and the Ensure loop body fires for it *)
Example C01_no_deadlock_nonvacuous :
  let g := [([], [], true); ([], [0], true)] in
  let es := [Ensure [0;1]; Finish 0 OOk; Ensure [0;1]; Finish 1 OErr] in
  closed g /\ (forall t w, In w (waits_g g t) -> (fun x => x) w < (fun x => x) t) /\ tame (init_state g) es /\
  running (run_events (init_state g) es) = [] /\ map t_st (tasks (run_events (init_state g) es)) = [Undo; Error].
Proof.
  split; [|split; [|split; [|split]]].
  - intros t w H. unfold waits_g in H. destruct t as [|[|t]]; simpl in H.
    + destruct H.
    + destruct H as [<-|[]]. simpl. lia.
    + destruct t; simpl in H; destruct H.
  - intros t w H. unfold waits_g in H. destruct t as [|[|t]]; simpl in H.
    + destruct H.
    + destruct H as [<-|[]]. lia.
    + destruct t; simpl in H; destruct H.
  - vm_compute. repeat split; intros; try discriminate.
  - vm_compute. reflexivity.
  - vm_compute. reflexivity.
Qed.

(* non-vacuity: lanes 1 and 2, chain 0 <- 1 in lane 1, task 2 alone in lane 2; task 1 fails: 0 is undone,
   1 is in Error, the healthy lane 2 completes, the change ends in Error *)
Example C01_nonvacuous :
  let g := [([1], [], true); ([1], [0], true); ([2], [], true)] in
  let es := [Ensure [0;1;2]; Finish 0 OOk; Ensure [0;1;2]; Finish 1 OErr; Ensure [0;1;2]; Finish 0 OOk;
             Finish 2 OOk; Ensure [0;1;2]] in
  let s := run_events (init_state g) es in
  map t_st (tasks s) = [Undone; Error; Done] /\ change_status (tasks s) = Error /\ cready s = true.
Proof. vm_compute. repeat split; reflexivity. Qed.
