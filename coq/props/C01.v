(* C01 — a failed change undoes exactly the work it had done, in reverse order.
   This file holds the property theorems only: statement, `exact <lemma>`, Print Assumptions.
   Model: models/TaskEngine.v (abort_lanes / abort_loop mirror Change.abortLanes / abortTasks, finish mirrors the
   goroutine tail of TaskRunner.run, ensure_pass mirrors TaskRunner.Ensure with Go's map order as an argument).

   FULL STATEMENT (for reference): when a task fails, every task in its lanes and every task transitively waiting on
   it that had completed and can be undone is undone, tasks that had not started are put on hold, tasks in
   independent healthy lanes are left to complete; undo of a task only starts after every task that waited on it has
   finished; the change settles in Error with no task pending.
   PROVED BELOW, over all graphs and all event lists: the undo-order half (fresh starts) and the status mapping of
   every abort (nothing is ever rewritten except Do->Hold, Doing->Abort, Done->Undo).
   Also proved: the model's fuel bounds are never hit (C01_abort_fuel), no task is stranded (C01_no_deadlock), the
   failing task ends in Error, a settled change with a failed task reports Error.
   NOT PROVED (monitored on every observed history instead, see notes/C01.md): the closure sandwich (which tasks are
   aborted: lower closure R' must be mapped, nothing outside the upper closure R is touched), settling (liveness: that
   finitely many Ensure/Finish events reach an all-ready state), and the outcome table of the settled state. *)
From Coq Require Import List NArith ZArith Bool Lia.
Import ListNotations.
Require Import V.models.TaskEngine V.proofs.TaskEngineProofs V.proofs.TaskEngineStatus V.proofs.TaskEngineReady
               V.proofs.TaskEngineDoing V.proofs.TaskEngineFuel V.proofs.TaskEngineLive V.proofs.TaskEnginePass.

(* reverse-order undo: in every execution, whenever an undo handler is freshly started (Undo->Undoing), every task
   that waited on it had a ready status (Done/Undone/Hold/Error) at that instant, i.e. had finished or never ran *)
Theorem C01_undo_order : forall (g : list tdesc) (es : list event),
  Forall (fun r : start_rec => sr_undo r = true -> sr_fresh r = true -> forallb ready (sr_pre r) = true)
         (slog (run_events (init_state g) es)).
Proof.
  intros g es. eapply Forall_impl; [|apply start_log_ok].
  intros r [_ H] Hu Hf. specialize (H Hf). rewrite Hu in H. exact H.
Qed.
Print Assumptions C01_undo_order.

(* Ensure leaves a task in Undo alone as long as some task that waited on it is still pending or running *)
Theorem C01_undo_waits_for_dependents : forall (s : state) (t h : nat),
  st s t = Undo -> In h (t_halts (get s t)) -> ready (st s h) = false -> ensure_one s t = s.
Proof. exact ensure_one_undo_blocked. Qed.
Print Assumptions C01_undo_waits_for_dependents.

(* the abort mapping: whatever lanes are aborted, in whatever state and with whatever bookkeeping sets, every task
   either keeps its status or moves Do->Hold, Doing->Abort, Done->Undo (a task in Wait: by the status it waits for) *)
Theorem C01_abort_mapping : forall (d : nat) (kill al seen : list nat) (s : state) (u : nat),
  abort_map_ok (st s u) (st (abort_lanes d kill al seen s) u) = true.
Proof. exact abort_lanes_mapping. Qed.
Print Assumptions C01_abort_mapping.

(* the same for the error path of the task runner: when the handler of t returns an error, every OTHER task keeps its
   status or follows the mapping *)
Theorem C01_error_path_mapping : forall (s : state) (t u : nat),
  panicked s = false -> memn t (running s) = true -> u <> t ->
  abort_map_ok (st s u) (st (finish s t OErr) u) = true.
Proof. exact finish_err_mapping. Qed.
Print Assumptions C01_error_path_mapping.

(* and for Change.Abort *)
Theorem C01_user_abort_mapping : forall (s : state) (u : nat),
  abort_map_ok (st s u) (st (abort_change s) u) = true.
Proof. exact abort_change_mapping. Qed.
Print Assumptions C01_user_abort_mapping.

(* C01_abort_fuel: the abort recursion terminates within the model's fuel bounds - the worklist loop of abortTasks
   because every iteration drops a seen element or marks a new task seen, the abortLanes/abortTasks nesting because
   every nested abortLanes call kills a lane that was not killed before. Every graph, every event list. *)
Theorem C01_abort_fuel : forall (g : list tdesc) (es : list event), oof (run_events (init_state g) es) = false.
Proof. exact oof_never. Qed.
Print Assumptions C01_abort_fuel.

(* C01_no_deadlock: no task is stranded. For every non-empty closed graph whose wait edges are acyclic (rk is a
   topological rank: the generator draws the edges along a topological order), every history in which user aborts hit
   unready changes only and a do handler that answers Wait waits to become Done (tame): in the reached state, if no
   handler is running, no task sits in Wait and no task is scheduled for later, then either every task is ready or
   the body of the Ensure loop FIRES for some task t of the change: it writes t's status or starts t's handler.
   This is the statement for one iteration; C01_no_deadlock_pass below lifts it to a whole pass. *)
Theorem C01_no_deadlock : forall (g : list tdesc) (rk : nat -> nat) (es : list event),
  g <> [] -> closed g -> (forall t w, In w (waits_g g t) -> rk w < rk t) ->
  tame (init_state g) es ->
  let s := run_events (init_state g) es in
  running s = [] -> (forall t, st s t <> Wait) -> (forall t, gate_open s t = true) ->
  all_ready (tasks s) = true \/
  exists t, t < length (tasks s) /\ (st (ensure_one s t) t <> st s t \/ In t (running (ensure_one s t))).
Proof. exact no_deadlock_total. Qed.
Print Assumptions C01_no_deadlock.

(* C01_no_deadlock for a WHOLE Ensure pass. pm is the progress measure  sum over the tasks of the position of their
   status along  Do < Doing < Abort < Undo < Undoing < {Done, Hold, Undone, Error, Wait}  plus the number of tombs.
   Every iteration of the Ensure loop, in every state, leaves pm unchanged only if it leaves the state unchanged, and
   otherwise raises it (later iterations cannot undo the status write or the handler start of an earlier one). Hence,
   in the situation of C01_no_deadlock, a pass over ANY order that visits every task of the change strictly raises pm
   - in particular it changes the state - unless every task is ready. *)
Theorem C01_no_deadlock_pass : forall (g : list tdesc) (rk : nat -> nat) (es : list event) (order : list nat),
  g <> [] -> closed g -> (forall t w, In w (waits_g g t) -> rk w < rk t) ->
  tame (init_state g) es ->
  let s := run_events (init_state g) es in
  running s = [] -> (forall t, st s t <> Wait) -> (forall t, gate_open s t = true) ->
  (forall t, t < length (tasks s) -> In t order) ->
  all_ready (tasks s) = true \/ (pm s < pm (ensure_pass s order) /\ ensure_pass s order <> s).
Proof. exact no_deadlock_pass. Qed.
Print Assumptions C01_no_deadlock_pass.

(* monotonicity of the Ensure loop body, for every state and every task *)
Theorem C01_ensure_monotone : forall (s : state) (t : nat),
  pm s <= pm (ensure_one s t) /\ (ensure_one s t = s \/ pm s < pm (ensure_one s t)).
Proof. exact pm_ensure_one. Qed.
Print Assumptions C01_ensure_monotone.

(* the error path: when the handler of a running task returns an error, that task ends in Error (and nothing panics) *)
Theorem C01_failed_task_ends_in_error : forall (s : state) (t : nat),
  inv s -> In t (running s) -> st (finish s t OErr) t = Error /\ panicked (finish s t OErr) = false.
Proof. exact finish_err_sets_error. Qed.
Print Assumptions C01_failed_task_ends_in_error.

(* C01_settles_error, PARTIAL: the safety half - whenever every task is ready and some task is in Error, the change
   reports Error. The liveness half (every history can be extended to such a state) is not proved; C01_no_deadlock
   is the progress step such a measure argument needs. *)
Theorem C01_settled_status_error_partial : forall l : list task,
  all_ready l = true -> has_status l Error = true -> change_status l = Error.
Proof. exact settled_error_status. Qed.
Print Assumptions C01_settled_status_error_partial.

(* non-vacuity of the hypotheses of C01_no_deadlock: a tame history on an acyclic closed graph that reaches a state
   with no tomb in which a task waits in Undo and the Ensure loop body fires for it *)
Example C01_no_deadlock_nonvacuous :
  let g := [([], [], true); ([], [0], true)] in
  let es := [Ensure [0;1]; Finish 0 OOk; Ensure [0;1]; Finish 1 OErr] in
  closed g /\ (forall t w, In w (waits_g g t) -> (fun x => x) w < (fun x => x) t) /\ tame (init_state g) es /\
  running (run_events (init_state g) es) = [] /\ map t_st (tasks (run_events (init_state g) es)) = [Undo; Error].
Proof.
  split; [|split; [|split; [|split]]].
  - intros t w H. unfold waits_g in H. destruct t as [|[|t]]; simpl in H.
    + destruct H.
    + destruct H as [<-|[]]. simpl. lia.
    + destruct t; simpl in H; destruct H.
  - intros t w H. unfold waits_g in H. destruct t as [|[|t]]; simpl in H.
    + destruct H.
    + destruct H as [<-|[]]. lia.
    + destruct t; simpl in H; destruct H.
  - vm_compute. repeat split; intros; try discriminate.
  - vm_compute. reflexivity.
  - vm_compute. reflexivity.
Qed.

(* non-vacuity: lanes 1 and 2, chain 0 <- 1 in lane 1, task 2 alone in lane 2; task 1 fails: 0 is undone,
   1 is in Error, the healthy lane 2 completes, the change ends in Error *)
Example C01_nonvacuous :
  let g := [([1], [], true); ([1], [0], true); ([2], [], true)] in
  let es := [Ensure [0;1;2]; Finish 0 OOk; Ensure [0;1;2]; Finish 1 OErr; Ensure [0;1;2]; Finish 0 OOk;
             Finish 2 OOk; Ensure [0;1;2]] in
  let s := run_events (init_state g) es in
  map t_st (tasks s) = [Undone; Error; Done] /\ change_status (tasks s) = Error /\ cready s = true.
Proof. vm_compute. repeat split; reflexivity. Qed.
