(* C01 — a failed change undoes exactly the work it had done, in reverse order.
   This file holds the property theorems only: statement, `exact <lemma>`, Print Assumptions.
   Model: models/TaskEngine.v (abort_lanes / abort_loop mirror Change.abortLanes / abortTasks, finish mirrors the
   goroutine tail of TaskRunner.run, ensure_pass mirrors TaskRunner.Ensure with Go's map order as an argument).

   FULL STATEMENT (for reference): when a task fails, every task in its lanes and every task transitively waiting on
   it that had completed and can be undone is undone, tasks that had not started are put on hold, tasks in
   independent healthy lanes are left to complete; undo of a task only starts after every task that waited on it has
   finished; the change settles in Error with no task pending.
   PROVED BELOW, over all graphs and all event lists: the undo-order half (fresh starts) and the status mapping of
   every abort (nothing is ever rewritten except Do->Hold, Doing->Abort, Done->Undo).
   NOT PROVED (monitored on every observed history instead, see notes/C01.md): the closure sandwich (which tasks are
   aborted: lower closure R' must be mapped, nothing outside the upper closure R is touched), settling in Error
   (liveness), and the outcome table of the settled state. *)
From Coq Require Import List NArith ZArith Bool.
Import ListNotations.
Require Import V.models.TaskEngine V.proofs.TaskEngineProofs V.proofs.TaskEngineStatus.

(* reverse-order undo: in every execution, whenever an undo handler is freshly started (Undo->Undoing), every task
   that waited on it had a ready status (Done/Undone/Hold/Error) at that instant, i.e. had finished or never ran *)
Theorem C01_undo_order : forall (g : list tdesc) (es : list event),
  Forall (fun r : start_rec => sr_undo r = true -> sr_fresh r = true -> forallb ready (sr_pre r) = true)
         (slog (run_events (init_state g) es)).
Proof.
  intros g es. eapply Forall_impl; [|apply start_log_ok].
  intros r [_ H] Hu Hf. specialize (H Hf). rewrite Hu in H. exact H.
Qed.
Print Assumptions C01_undo_order.

(* Ensure leaves a task in Undo alone as long as some task that waited on it is still pending or running *)
Theorem C01_undo_waits_for_dependents : forall (s : state) (t h : nat),
  st s t = Undo -> In h (t_halts (get s t)) -> ready (st s h) = false -> ensure_one s t = s.
Proof. exact ensure_one_undo_blocked. Qed.
Print Assumptions C01_undo_waits_for_dependents.

(* the abort mapping: whatever lanes are aborted, in whatever state and with whatever bookkeeping sets, every task
   either keeps its status or moves Do->Hold, Doing->Abort, Done->Undo (a task in Wait: by the status it waits for) *)
Theorem C01_abort_mapping : forall (d : nat) (kill al seen : list nat) (s : state) (u : nat),
  abort_map_ok (st s u) (st (abort_lanes d kill al seen s) u) = true.
Proof. exact abort_lanes_mapping. Qed.
Print Assumptions C01_abort_mapping.

(* the same for the error path of the task runner: when the handler of t returns an error, every OTHER task keeps its
   status or follows the mapping *)
Theorem C01_error_path_mapping : forall (s : state) (t u : nat),
  panicked s = false -> memn t (running s) = true -> u <> t ->
  abort_map_ok (st s u) (st (finish s t OErr) u) = true.
Proof. exact finish_err_mapping. Qed.
Print Assumptions C01_error_path_mapping.

(* and for Change.Abort *)
Theorem C01_user_abort_mapping : forall (s : state) (u : nat),
  abort_map_ok (st s u) (st (abort_change s) u) = true.
Proof. exact abort_change_mapping. Qed.
Print Assumptions C01_user_abort_mapping.

(* non-vacuity: lanes 1 and 2, chain 0 <- 1 in lane 1, task 2 alone in lane 2; task 1 fails: 0 is undone,
   1 is in Error, the healthy lane 2 completes, the change ends in Error *)
Example C01_nonvacuous :
  let g := [([1], [], true); ([1], [0], true); ([2], [], true)] in
  let es := [Ensure [0;1;2]; Finish 0 OOk; Ensure [0;1;2]; Finish 1 OErr; Ensure [0;1;2]; Finish 0 OOk;
             Finish 2 OOk; Ensure [0;1;2]] in
  let s := run_events (init_state g) es in
  map t_st (tasks s) = [Undone; Error; Done] /\ change_status (tasks s) = Error /\ cready s = true.
Proof. vm_compute. repeat split; reflexivity. Qed.
