(* C35 — revisions and epochs round-trip; epoch compatibility is set intersection.
   This file holds the property theorems only: statement, `exact <lemma>`, Print Assumptions.
   Model: models/RevEpoch.v (snap/revision.go and snap/epoch.go function by function). *)
From Coq Require Import List NArith ZArith Bool.
Import ListNotations.
Require Import V.lib.Bytes V.lib.Dec V.models.RevEpoch V.proofs.RevEpochProofs V.proofs.EpochJsonProofs.

(* every revision except the single integer -2^63 reads back unchanged from its string, JSON and YAML forms *)
Theorem C35_revision_roundtrip : forall n : Z, (min64 < n <= max64)%Z ->
  parse_revision (rev_string n) = Some n /\
  rev_unmarshal_json (rev_marshal_json n) = Some n /\
  rev_unmarshal_yaml (rev_string n) = Some n.
Proof. exact revision_roundtrip. Qed.
Print Assumptions C35_revision_roundtrip.

(* ... and for n = -2^63 the full statement is false of the faithful model: String gives x-9223372036854775808,
   which ParseRevision rejects (KNOWN_FINDINGS key rev-minint64; replayed on the implementation on every run) *)
Theorem C35_minint_refuted : exists n : Z, (min64 <= n <= max64)%Z /\ parse_revision (rev_string n) = None.
Proof. exists min64. split; [unfold min64, max64; split; discriminate | exact minint_not_roundtrip]. Qed.
Print Assumptions C35_minint_refuted.

(* invalid revision strings are rejected: whatever ParseRevision accepts is `unset`, or an optionally x-prefixed,
   optionally signed, non-empty run of decimal digits; the result is 0 exactly for `unset`, and never -2^63 *)
Theorem C35_revision_rejects : forall (s : bytes) (n : Z), parse_revision s = Some n ->
  rev_shape s = true /\ (n = 0%Z <-> s = unset_b) /\ (min64 < n <= max64)%Z.
Proof. exact parse_revision_accepts. Qed.
Print Assumptions C35_revision_rejects.

(* the YAML entry point accepts exactly what ParseRevision accepts *)
Theorem C35_yaml_is_parse : forall s : bytes, rev_unmarshal_yaml s = parse_revision s.
Proof. exact yaml_is_parse. Qed.
Print Assumptions C35_yaml_is_parse.

(* an epoch can read the data of another exactly when its read set meets the other's write set, empty meaning {0} *)
Theorem C35_can_read_iff : forall e o : epoch,
  can_read e o = true <-> exists x : N, In x (read_set e) /\ In x (write_set o).
Proof. exact can_read_iff. Qed.
Print Assumptions C35_can_read_iff.

(* every epoch Validate accepts can read its own data *)
Theorem C35_valid_reads_self : forall e : epoch, validate e = 0%N -> can_read e e = true.
Proof. exact valid_reads_self. Qed.
Print Assumptions C35_valid_reads_self.

(* what Validate accepts: the zero epoch, or two strictly increasing lists of at most 10 entries that intersect *)
Theorem C35_validate_spec : forall e : epoch, validate e = 0%N ->
  is_zero e = true \/
  ((length (lst (e_read e)) <= 10)%nat /\ (length (lst (e_write e)) <= 10)%nat /\
   is_increasing (lst (e_read e)) = true /\ is_increasing (lst (e_write e)) = true /\
   exists x, In x (lst (e_read e)) /\ In x (lst (e_write e))).
Proof. exact validate_ok_spec. Qed.
Print Assumptions C35_validate_spec.

(* epoch round-trip. Every valid epoch (entries < 2^32) reads back Equal
   (a) from its printed form String(): the short forms `0`, `N`, `N*` through Epoch.fromString ... *)
Theorem C35_epoch_short_roundtrip : forall e : epoch,
  validate e = 0%N -> wf32 e -> is_short (epoch_string e) = true ->
  exists e', from_string (epoch_string e) = Some e' /\ epoch_equal e e' = true.
Proof. exact epoch_short_roundtrip. Qed.
Print Assumptions C35_epoch_short_roundtrip.

(* ... and the structured form {"read":[...],"write":[...]} through the object reader + Epoch.fromStructured; *)
Theorem C35_epoch_structured_roundtrip : forall e : epoch,
  validate e = 0%N -> wf32 e -> is_short (epoch_string e) = false ->
  exists e', epoch_unmarshal_json (epoch_string e) = Some e' /\ epoch_equal e e' = true.
Proof. exact epoch_string_structured_roundtrip. Qed.
Print Assumptions C35_epoch_structured_roundtrip.

(* (b) from its MarshalJSON form (always structured, empty lists printed as [0]).
   PARTIAL only in this respect: encoding/json itself is not modelled; `epoch_unmarshal_json` reads exactly the byte
   language json.Marshal produces for these values (no white space, fixed key order). That Go's decoder agrees with it
   on those bytes is checked by the differential run on every generated epoch (mismatch compares the model's reading of
   the marshalled bytes with the implementation's parse-back); other JSON spellings of the same object are outside the model. *)
Theorem C35_epoch_marshal_roundtrip : forall e : epoch,
  validate e = 0%N -> wf32 e ->
  exists e', epoch_unmarshal_json (epoch_marshal_json e) = Some e' /\ epoch_equal e e' = true.
Proof. exact epoch_marshal_roundtrip. Qed.
Print Assumptions C35_epoch_marshal_roundtrip.

(* non-vacuity: {read:[1,2,5], write:[5]} is valid, prints in the structured form and reads back *)
Example C35_structured_example :
  let e := mkEpoch (Some [1; 2; 5]%N) (Some [5]%N) in
  validate e = 0%N /\ is_short (epoch_string e) = false /\
  epoch_unmarshal_json (epoch_string e) = Some e /\ epoch_unmarshal_json (epoch_marshal_json e) = Some e.
Proof. vm_compute. repeat split; reflexivity. Qed.

(* the monitor's independent statement of which epochs are valid (zero epoch, or no explicitly empty list, at most 10
   entries per list, strictly increasing, a common element) is exactly what the model of Validate accepts *)
Theorem C35_valid_spec_is_validate : forall e : epoch, valid_spec e = (validate e =? 0)%N.
Proof. exact valid_spec_is_validate. Qed.
Print Assumptions C35_valid_spec_is_validate.
