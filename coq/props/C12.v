(* C12 — refresh keeps at most refresh.retain revisions and never discards ones in use.
   Theorems only. Model: models/SnapSeq.v (refreshRetain, doInstall's garbage-collection loops as gc_revs, with the boot
   in-use answer as a function parameter); tied to /repo by the differential run of
   harness/overlay/overlord/snapstate/zz_verif_c10_test.go (the task chain of every refresh, i.e. exactly which revisions get
   clear-snap/discard-snap, is compared with the model's); monitor SnapSeq.monitor12_fail on the observed kept revisions.

   FULL STATEMENT: after any completed refresh |kept'| <= max(retain, |kept|); <= retain for a refresh to a not-yet-kept
   revision unless in-use revisions are kept; revisions after the current one are discarded; neither the new current
   revision nor a revision in use is discarded; retain in 2..20 also as legacy strings, changing between refreshes.
   PROVED (partial): retain resolution in full; for a refresh to a revision that is NOT kept yet, the exact set of
   garbage-collected revisions for every state, retain value and in-use answer (everything after current + the oldest
   index(current)+2-retain revisions that are not in use), hence never the target, never the current one (retain >= 2),
   never one in use.  MISSING in Coq (monitored on the implementation only): the same characterisation for a refresh to an
   already-kept revision (the loop that drops the target from the candidates), and the count of kept revisions after the
   whole change.  In the driver's runs no revision is in use for booting (app snap): the in-use branch is proved, not tied. *)
From Coq Require Import List NArith ZArith Bool.
Import ListNotations.
Require Import V.models.SnapSeq V.proofs.SnapSeqProofs V.proofs.SnapSeqProofs2.
Open Scope N_scope.

Theorem C12_retain_resolution : forall (r : rsetting) (on_classic : bool),
  retain_of r on_classic = match r with
                           | RUnset => if on_classic then 2%Z else 3%Z
                           | RNum n | RStr n => if (n =? 0)%Z then (if on_classic then 2%Z else 3%Z) else n
                           end.
Proof. exact retain_resolution. Qed.
Print Assumptions C12_retain_resolution.

Theorem C12_retain_accepted_values : forall (r : rsetting) (c : bool) (n : Z),
  (r = RNum n \/ r = RStr n) -> (2 <= n <= 20)%Z -> retain_of r c = n.
Proof. exact retain_in_range. Qed.
Print Assumptions C12_retain_accepted_values.

Theorem C12_gc_new_revision_partial : forall (s : st) (target : N) (retain : Z) (inuse : N -> bool) (ci : nat),
  ~ In target (seq s) -> last_index (cur s) (seq s) = Some ci ->
  gc_revs s target retain inuse
  = skipn (S ci) (seq s) ++ filter (fun r => negb (inuse r)) (firstn (Z.to_nat (Z.of_nat ci + 2 - retain)) (seq s)).
Proof. exact gc_new_revision. Qed.
Print Assumptions C12_gc_new_revision_partial.

Theorem C12_never_discards_target_or_current_partial : forall (s : st) (target : N) (retain : Z) (inuse : N -> bool) (ci : nat),
  NoDup (seq s) -> ~ In target (seq s) -> last_index (cur s) (seq s) = Some ci -> (2 <= retain)%Z ->
  ~ In target (gc_revs s target retain inuse) /\ ~ In (cur s) (gc_revs s target retain inuse).
Proof. exact gc_new_keeps_current. Qed.
Print Assumptions C12_never_discards_target_or_current_partial.

(* non-vacuity: kept [1,2,3,4], current 4, retain 3, revision 2 in use: a refresh to 5 discards revision 1 only *)
Example C12_example :
  let s := mkSt [1;2;3;4] 4 true 1 false false false false false 0 3 0 [] 0 [] [1;2;3;4] 4 in
  gc_revs s 5 3 (fun r => r =? 2) = [1] /\ gc_revs s 5 3 no_inuse = [1;2] /\ gc_revs s 5 2 no_inuse = [1;2;3].
Proof. vm_compute. repeat split; reflexivity. Qed.
