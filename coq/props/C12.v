(* C12 — refresh keeps at most refresh.retain revisions and never discards ones in use.
   Theorems only. Model: models/SnapSeq.v (refreshRetain, doInstall's garbage-collection loops as gc_revs, with the boot
   in-use answer as a function parameter); tied to /repo by the differential run of
   harness/overlay/overlord/snapstate/zz_verif_c10_test.go (the task chain of every refresh, i.e. exactly which revisions get
   clear-snap/discard-snap, is compared with the model's); monitor SnapSeq.monitor12_fail on the observed kept revisions.

   FULL STATEMENT: after any completed refresh |kept'| <= max(retain, |kept|); <= retain for a refresh to a not-yet-kept
   revision unless in-use revisions are kept; revisions after the current one are discarded; neither the new current
   revision nor a revision in use is discarded; retain in 2..20 also as legacy strings, changing between refreshes.
   PROVED: retain resolution; the exact set of garbage-collected revisions for every state, retain value and in-use answer,
   for a refresh to a not-yet-kept revision (C12_gc_new_revision) and to an already kept one, before or after the current
   revision (C12_gc_kept_before / C12_gc_kept_after: the loop that drops the target from the candidates); never the
   target, never the current revision (C12_never_discards_target_or_current), never one in use (they are filtered out of
   the candidates); everything kept after the current revision goes (C12_after_current_discarded); after the whole change
   a refresh to a kept revision keeps at most as many revisions as before and a refresh to a new revision at most retain,
   when none of the candidates is in use (C12_retain_bound).  The bound with in-use revisions among the candidates is not
   stated as a count (the characterisation says exactly which ones stay).  In the driver's runs no revision is in use
   for booting (app snap): the in-use branch is proved, not tied. *)
From Coq Require Import List NArith ZArith Bool.
Import ListNotations.
Require Import V.models.SnapSeq V.proofs.SnapSeqProofs V.proofs.SnapSeqProofs2 V.proofs.SnapSeqProofs3 V.proofs.SnapSeqProofs4
               V.proofs.SnapSeqProofs5 V.proofs.SnapSeqProofs6 V.proofs.SnapSeqProofs7.
Open Scope N_scope.

Theorem C12_retain_resolution : forall (r : rsetting) (on_classic : bool),
  retain_of r on_classic = match r with
                           | RUnset => if on_classic then 2%Z else 3%Z
                           | RNum n | RStr n => if (n =? 0)%Z then (if on_classic then 2%Z else 3%Z) else n
                           end.
Proof. exact retain_resolution. Qed.
Print Assumptions C12_retain_resolution.

Theorem C12_retain_accepted_values : forall (r : rsetting) (c : bool) (n : Z),
  (r = RNum n \/ r = RStr n) -> (2 <= n <= 20)%Z -> retain_of r c = n.
Proof. exact retain_in_range. Qed.
Print Assumptions C12_retain_accepted_values.

Theorem C12_gc_new_revision : forall (s : st) (target : N) (retain : Z) (inuse : N -> bool) (ci : nat),
  ~ In target (seq s) -> last_index (cur s) (seq s) = Some ci ->
  gc_revs s target retain inuse
  = skipn (S ci) (seq s) ++ filter (fun r => negb (inuse r)) (firstn (Z.to_nat (Z.of_nat ci + 2 - retain)) (seq s)).
Proof. exact gc_new_revision. Qed.
Print Assumptions C12_gc_new_revision.

(* refresh to a kept revision t that sits before the current one (index of current = ci): t leaves the candidates *)
Theorem C12_gc_kept_before : forall (s : st) (t : N) (retain : Z) (inuse : N -> bool) (a b : list N) (ci : nat),
  NoDup (seq s) -> seq s = a ++ t :: b -> last_index (cur s) (seq s) = Some ci -> (length a < ci)%nat ->
  gc_revs s t retain inuse
  = skipn (S ci) (seq s) ++ filter (fun r => negb (inuse r)) (firstn (Z.to_nat (Z.of_nat ci - retain)) (a ++ b)).
Proof. exact gc_kept_target_before. Qed.
Print Assumptions C12_gc_kept_before.

(* ... and to one of the revisions after the current one (left over from a revert) *)
Theorem C12_gc_kept_after : forall (s : st) (t : N) (retain : Z) (inuse : N -> bool) (a b : list N) (ci : nat),
  NoDup (seq s) -> seq s = a ++ t :: b -> last_index (cur s) (seq s) = Some ci -> (ci < length a)%nat ->
  gc_revs s t retain inuse
  = filter (fun r => negb (r =? t)) (skipn (S ci) (seq s))
    ++ filter (fun r => negb (inuse r)) (firstn (Z.to_nat (Z.of_nat ci - retain + 1)) (seq s)).
Proof. exact gc_kept_target_after. Qed.
Print Assumptions C12_gc_kept_after.

Theorem C12_never_discards_target_or_current : forall (s : st) (o : op) (retain : Z) (inuse : N -> bool),
  wf s -> okind o = ORefresh -> accepts o s = true -> (2 <= retain)%Z ->
  ~ In (orev o) (gc_revs s (orev o) retain inuse) /\ ~ In (cur s) (gc_revs s (orev o) retain inuse).
Proof. intros s o retain inuse W K A R. exact (proj2 (refresh_runs s o retain inuse W K A R)). Qed.
Print Assumptions C12_never_discards_target_or_current.

Theorem C12_after_current_discarded : forall (s : st) (t : N) (retain : Z) (inuse : N -> bool) (ci : nat) (x : N),
  NoDup (seq s) -> last_index (cur s) (seq s) = Some ci -> t <> cur s ->
  In x (skipn (S ci) (seq s)) -> x <> t -> In x (gc_revs s t retain inuse).
Proof. exact after_current_discarded. Qed.
Print Assumptions C12_after_current_discarded.

(* the garbage collection does not depend on where the snap file comes from (store download or local file: InstallPath,
   snap try): the discard-snap tasks of the change are the same for both sources, and for a refresh they are exactly
   gc_revs, which has no source input — in particular one slot is reserved for ANY target that is not kept yet *)
Theorem C12_gc_independent_of_source : forall (o : op) (s : st) (retain : Z) (inuse : N -> bool) (b : bool),
  filter is_discard (tasks_for (with_source b o) s retain inuse) = filter is_discard (tasks_for o s retain inuse).
Proof. exact gc_independent_of_source. Qed.
Print Assumptions C12_gc_independent_of_source.

Theorem C12_refresh_discards_are_gc : forall (o : op) (s : st) (retain : Z) (inuse : N -> bool),
  okind o = ORefresh -> installed s = true ->
  map snd (filter is_discard (tasks_for o s retain inuse)) = gc_revs s (orev o) retain inuse.
Proof. exact refresh_discards_are_gc. Qed.
Print Assumptions C12_refresh_discards_are_gc.

(* the kept revisions after a completed refresh are the linked sequence minus the garbage-collected ones; hence the count *)
Theorem C12_retain_bound : forall (s : st) (o : op) (retain : Z) (inuse : N -> bool),
  wf s -> okind o = ORefresh -> accepts o s = true -> (2 <= retain)%Z ->
  let r := run_change o 0 (tasks_for o s retain inuse) s in
  cur r = orev o /\ In (orev o) (seq r) /\
  (In (orev o) (seq s) -> (length (seq r) <= length (seq s))%nat) /\
  (forall ci, ~ In (orev o) (seq s) -> last_index (cur s) (seq s) = Some ci ->
     (forall x, In x (firstn (Z.to_nat (Z.of_nat ci + 2 - retain)) (seq s)) -> inuse x = false) ->
     (Z.of_nat (length (seq r)) <= retain)%Z).
Proof.
  intros s o retain inuse W K A R. cbv zeta.
  destruct (refresh_kept_after s o retain inuse W K A R) as (_ & C & I).
  refine (conj C (conj I (conj _ _))).
  - intros H. apply refresh_kept_bound; auto.
  - intros ci NI LI NU. eapply refresh_new_bound; eauto.
Qed.
Print Assumptions C12_retain_bound.

(* non-vacuity: kept [1,2,3,4], current 4, retain 3, revision 2 in use: a refresh to 5 discards revision 1 only *)
Example C12_example :
  let s := mkSt [1;2;3;4] 4 true 1 false false false false false 0 3 0 [] 0 [] [1;2;3;4] 4 in
  gc_revs s 5 3 (fun r => r =? 2) = [1] /\ gc_revs s 5 3 no_inuse = [1;2] /\ gc_revs s 5 2 no_inuse = [1;2;3].
Proof. vm_compute. repeat split; reflexivity. Qed.
