(* C10 — a failed install, refresh or revert leaves the snap exactly as it was.
   This file holds the property theorems only: statement, `exact <lemma>`, Print Assumptions.
   Model: models/SnapSeq.v (doLinkSnap/undoLinkSnap, do/undoUnlinkCurrentSnap, do/undoMountSnap, doDiscardSnap, doInstall's
   task list and garbage collection, snapstate.Set, config.Save/RestoreRevisionConfig), tied to /repo by the differential
   run of harness/overlay/overlord/snapstate/zz_verif_c10_test.go.

   FULL STATEMENT (properties.jsonl): for every history, every install / refresh (to a new or a kept revision) / revert
   and every task of the change as the failure point, the recorded state (installed?, current, ordered kept revisions,
   active, channel, confinement flags, validation flag, cohort, refresh times, Block(), configuration) and the world
   (linked revision, mounted revisions) afterwards equal what they were before.

   The full statement is FALSE of the faithful model and of the real code in two recorded classes (KNOWN_FINDINGS
   keys fail-after-discard, config-from-nothing; witnesses below, each replayed on the real code by the driver on every
   run).  What is proved is the statement guarded by exactly these classes:
     - the failure point comes before the first COMPLETED discard-snap of the change (garbage collection has no undo);
     - cfg_guard: the snap has some configuration, or nothing writes configuration during the change.
   A third class (finding 6, RevertStatus lost by an undone non-revert refresh onto a kept revision) was repaired in /repo
   by commit 5dcb85f; the model follows the repaired code, its guard is gone from the theorem, and the former witness is
   now the regression Example C10_revert_status_restored (the same history is swept by the driver on every run).
   `wf` is the invariant of settled states: props/C11.v proves that it holds of the empty state and is preserved by refused
   operations, completed install / revert / disable and the failed operations covered here (C11_consistent_invariant_partial);
   its preservation by completed refresh / remove / enable is monitored on the implementation, not proved.
   Aliases, services, security profiles and data directories are not modelled (tasks of other managers are opaque). *)
From Coq Require Import List NArith ZArith Bool.
Import ListNotations.
Require Import V.models.SnapSeq V.proofs.SnapSeqProofs V.proofs.SnapSeqProofs2 V.proofs.SnapSeqProofs3 V.proofs.SnapSeqProofs4
               V.proofs.SnapSeqProofs5 V.proofs.SnapSeqProofs11.
Open Scope N_scope.

(* run_change o (S j) ts s: the first j tasks of ts complete, the next one fails, the j tasks are undone in reverse.
   forget: all fields of the state and the world except the revision-config bookkeeping. *)
Theorem C10_failed_op_restores : forall (s : st) (o : op) (j : nat) (retain : Z) (inuse : N -> bool),
  wf s ->
  (okind o = OInstall \/ okind o = ORefresh \/ okind o = ORevert) ->
  accepts o s = true ->
  forallb (fun t => negb (is_discard t)) (firstn j (tasks_for o s retain inuse)) = true ->
  cfg_guard o s ->
  forget (run_change o (S j) (tasks_for o s retain inuse) s) = forget s.
Proof. exact failed_op_restores. Qed.
Print Assumptions C10_failed_op_restores.

(* what IS restored when discards already ran.  DESIGN's statement: for every refresh and every failure position,
   everything is restored except that the revisions whose discard-snap completed are gone, the order of the remaining ones
   preserved.  Proved for EVERY refresh (to a not-yet-kept or to an already kept revision — the latter is undoLinkSnap's
   countMissingRevs arithmetic with a non-zero count), every retain >= 2, any in-use answer, any failure position j (also
   after the last task): the result is the state before `minus` exactly the revisions of the discard-snap tasks among the
   first j tasks (their kept entries, mounts and RevertStatus marks go; current, active, channel, flags, times,
   configuration, link and the ORDER of the others are as before).  Install and revert changes have no discards.
   EXACTLY what the statement excludes (cfg_guard_at is refined to the failure position j), and why the label stays:
     (1) retain < 2 — outside the values configcore accepts (2..20);
     (2) the snap has NO configuration (cfg s = 0), the configure hook of the operation writes some (ohookcfg o <> 0) AND the
         hook is among the first j tasks, i.e. it COMPLETED before the failure: this is exactly the class `classify` keys as
         config-from-nothing (recorded finding 13, witness C10_config_refuted);
     (3) the snap has no configuration but a revision-config snapshot exists for its current revision.  Believed
         unreachable (every path that empties the configuration also discards the snapshots; monitor11 checks on the real
         code after every settled change that a removed snap leaves no snapshot), but the invariant `no configuration ->
         no snapshots` over histories is NOT proved: this hypothesis is the only reason for `_partial`.
   The other recorded finding, fail-after-discard, is not excluded: it IS the conclusion (D non-empty). *)
Theorem C10_failed_after_gc_partial : forall (s : st) (o : op) (j : nat) (retain : Z) (inuse : N -> bool),
  wf s -> okind o = ORefresh -> accepts o s = true -> (2 <= retain)%Z ->
  (cfg s <> 0 \/
   (rc_get (cur s) (revcfg s) = None /\
    (ohookcfg o = 0 \/
     forallb (fun t => negb (kind_eqb (fst t) KConfigure)) (firstn j (tasks_for o s retain inuse)) = true))) ->
  forget (run_change o (S j) (tasks_for o s retain inuse) s)
  = forget (minus (map snd (filter is_discard (firstn j (tasks_for o s retain inuse)))) s).
Proof. exact failed_after_gc_at. Qed.
Print Assumptions C10_failed_after_gc_partial.

(* the shape that exercises it: kept [1,2,3,4,5], current 5, retain lowered to 2, refresh to the kept revision 4 failing
   after the discards of 1 and 2: kept [3,4,5], the order of the survivors as before *)
Example C10_after_gc_kept_example :
  let s := mkSt [1;2;3;4;5] 5 true 1 false false false false false 0 5 0 [] 7 [] [1;2;3;4;5] 5 in
  let o := mk_refresh 4 0 9 in let ts := tasks_for o s 2 no_inuse in
  accepts o s = true /\ gc_revs s 4 2 no_inuse = [1; 2] /\
  seq (run_change o (S (length ts)) ts s) = [3; 4; 5] /\ cur (run_change o (S (length ts)) ts s) = 5.
Proof. vm_compute. repeat split; reflexivity. Qed.

(* finding 7 (key fail-after-discard): kept [1,2], retain 2, refresh to the new revision 3 failing after the
   discard-snap of revision 1 completed: the refresh is undone but kept = [2], mounted = [2] *)
Theorem C10_discard_refuted : exists (s : st) (o : op) (j : nat) (retain : Z),
  wf s /\ okind o = ORefresh /\ accepts o s = true /\ cfg_guard o s /\
  seq s = [1; 2] /\ seq (run_change o (S j) (tasks_for o s retain no_inuse) s) = [2].
Proof.
  exists s_two, (mk_refresh 3 0 9), 18%nat, 2%Z.
  destruct discard_not_undone as (A & _ & C & _).
  refine (conj wf_s_two (conj eq_refl (conj A (conj _ (conj eq_refl C))))).
  right; right; simpl; repeat split; auto; discriminate.
Qed.
Print Assumptions C10_discard_refuted.

(* finding 13 (key config-from-nothing): a snap with no configuration; the configure hook of a refresh writes some; the
   refresh fails after the hook and is undone: the configuration written by the failed change stays *)
Theorem C10_config_refuted : exists (s : st) (o : op) (retain : Z),
  let ts := tasks_for o s retain no_inuse in
  wf s /\ okind o = ORefresh /\ accepts o s = true /\
  forallb (fun t => negb (is_discard t)) ts = true /\
  cfg s = 0 /\ cfg (run_change o (S (length ts)) ts s) = 7.
Proof.
  exists s_two, (mk_refresh 3 7 9), 3%Z.
  destruct config_from_nothing as (A & B & C & D).
  exact (conj wf_s_two (conj eq_refl (conj A (conj B (conj C D))))).
Qed.
Print Assumptions C10_config_refuted.

(* non-vacuity: the hypotheses of C10_failed_op_restores are satisfiable, also past link-snap *)
Example C10_hypotheses_satisfiable :
  let o := mk_revert 2 true 9 in
  wf s_reverted /\ accepts o s_reverted = true /\ cfg_guard o s_reverted /\
  forallb (fun t => negb (is_discard t)) (firstn 13 (tasks_for o s_reverted 3 no_inuse)) = true /\
  length (tasks_for o s_reverted 3 no_inuse) = 13%nat.
Proof.
  refine (conj wf_s_reverted (conj eq_refl (conj _ (conj eq_refl eq_refl)))).
  left; discriminate.
Qed.

(* regression for finding 6 (repaired by /repo commit 5dcb85f): kept [1,2,3], current 1 after a not-blocking revert from 3
   (Block() = [2]); a refresh to the kept revision 3 that fails right after link-snap is undone with the RevertStatus
   entry of 3 back in place: Block() = [2] again.  (An instance of C10_failed_op_restores, which no longer needs a guard for it.) *)
Example C10_revert_status_restored :
  let o := mk_refresh 3 0 9 in let ts := tasks_for o s_reverted 3 no_inuse in
  accepts o s_reverted = true /\
  forallb (fun t => negb (is_discard t)) (firstn 9 ts) = true /\
  nb (run_change o 10 ts s_reverted) = [3] /\ block s_reverted = [2] /\ block (run_change o 10 ts s_reverted) = [2].
Proof. exact revert_status_restored. Qed.
