//go:build verif

// C31 driver: runs the real Store.Download (store/store_download.go) against an httptest server that follows a
// per-request script (dropped connections, honoured / ignored Range, short, long, corrupted bodies, 5xx, redirects),
// with every kind of pre-existing .partial file, and prints each run as a Coq term of type Download.case.
// In-package (package store) only to shorten the unexported downloadRetryStrategy; nothing else unexported is used.
package store

import (
	"context"
	"crypto"
	"fmt"
	"net"
	"net/http"
	"net/http/httptest"
	"os"
	"os/exec"
	"path/filepath"
	"strconv"
	"strings"
	"sync"
	"testing"
	"time"

	"gopkg.in/retry.v1"

	"github.com/snapcore/snapd/dirs"
	"github.com/snapcore/snapd/snap"
	"github.com/snapcore/snapd/zzverif/vh"
)

type c31Beh struct {
	Kind   string `json:"kind"`   // resp | drop | garbage | redirect
	Status int    `json:"status"` // resp: status sent unless a Range request is honoured (then 206)
	HR     bool   `json:"hr"`     // resp: honours a Range header (206 + body from the offset)
	Body   string `json:"body"`   // resp: the full body the server has
	Cut    string `json:"cut"`    // full | early | chunk
	N      int    `json:"n"`      // early/chunk: bytes of the payload delivered before the failure
}

type c31In struct {
	Size     int64    `json:"size"`
	Content  string   `json:"content"` // the content whose SHA3-384 is declared
	Partial  *string  `json:"partial"` // pre-existing .partial (nil: none)
	Leave    bool     `json:"leave"`
	Attempts int      `json:"attempts"` // retry.LimitCount
	Script   []c31Beh `json:"script"`
	// download cache scenario: cache on, and a second Download of the same DownloadInfo to another target path
	Second *c31Second `json:"second,omitempty"`
	Third  *c31Second `json:"third,omitempty"`
	// a file already at the first target path (only in the cache scenario; outside the property, model tie only)
	Pre *string `json:"pre,omitempty"`
	// delta scenario: DownloadInfo carries one delta, xdelta3 is a fake whose behaviour is chosen here
	Delta *c31Delta `json:"delta,omitempty"`
}

type c31Delta struct {
	FormatOK    bool   `json:"format_ok"`
	FromPresent bool   `json:"from_present"`
	Content     string `json:"content"` // the delta file whose digest is declared
	X           string `json:"x"`       // fail | write | none
	Out         string `json:"out"`     // write: what the fake xdelta3 puts into targetPath.partial
}

type c31Second struct {
	Pre     *string  `json:"pre,omitempty"` // a file already at this call's target path
	Partial *string  `json:"partial"`
	Leave   bool     `json:"leave"`
	Script  []c31Beh `json:"script"`
}

type c31Obs struct {
	Err      string  `json:"err"` // none | hash | other
	Target   *string `json:"target"`
	Partial  bool    `json:"partial"`
	Requests int     `json:"requests"`
	Second   *c31Obs `json:"second,omitempty"`
	Third    *c31Obs `json:"third,omitempty"`
}

func c31Serve(script []c31Beh, served *int) http.Handler {
	var mu sync.Mutex
	idx := 0
	return http.HandlerFunc(func(w http.ResponseWriter, r *http.Request) {
		mu.Lock()
		var b c31Beh
		if idx < len(script) {
			b = script[idx]
		} else {
			b = c31Beh{Kind: "drop"}
		}
		idx++
		*served = idx
		mu.Unlock()
		hj := w.(http.Hijacker)
		conn, buf, err := hj.Hijack()
		if err != nil {
			panic(err)
		}
		defer conn.Close()
		out := func(s string) { buf.WriteString(s) }
		switch b.Kind {
		case "drop":
			return
		case "garbage":
			out("BLAH BLAH\r\n\r\n")
		case "redirect":
			out(fmt.Sprintf("HTTP/1.1 302 Found\r\nLocation: /r%d\r\nContent-Length: 0\r\nConnection: close\r\n\r\n", idx))
		default:
			status, payload := b.Status, b.Body
			if rg := r.Header.Get("Range"); rg != "" && b.HR {
				off, err := strconv.Atoi(strings.TrimSuffix(strings.TrimPrefix(rg, "bytes="), "-"))
				if err != nil {
					panic("bad range " + rg)
				}
				status = 206
				if off > len(payload) {
					off = len(payload)
				}
				payload = payload[off:]
			}
			out(fmt.Sprintf("HTTP/1.1 %d X\r\nConnection: close\r\n", status))
			sent := payload
			if b.Cut != "full" && b.N < len(sent) {
				sent = sent[:b.N]
			}
			switch b.Cut {
			case "early":
				out(fmt.Sprintf("Content-Length: %d\r\n\r\n%s", len(sent)+7, sent))
			case "chunk":
				out("Transfer-Encoding: chunked\r\n\r\n")
				if len(sent) > 0 {
					out(fmt.Sprintf("%x\r\n%s\r\n", len(sent), sent))
				}
				out("ZZ\r\n")
			default:
				out(fmt.Sprintf("Content-Length: %d\r\n\r\n%s", len(sent), sent))
			}
		}
		buf.Flush()
		if tc, ok := conn.(*net.TCPConn); ok {
			tc.CloseWrite()
		}
	})
}

func c31Sha(s string) string {
	h := crypto.SHA3_384.New()
	h.Write([]byte(s))
	return fmt.Sprintf("%x", h.Sum(nil))
}

// one Download call against a fresh server playing script; returns the observation and the three Coq terms
func c31Call(sto *Store, dir, sub string, in c31In, pre, partial *string, leave bool, script []c31Beh) (c31Obs, string, string, string) {
	target := filepath.Join(dir, sub, "foo.snap")
	os.MkdirAll(filepath.Dir(target), 0755)
	if pre != nil {
		if err := os.WriteFile(target, []byte(*pre), 0600); err != nil {
			panic(err)
		}
	}
	if partial != nil {
		if err := os.WriteFile(target+".partial", []byte(*partial), 0600); err != nil {
			panic(err)
		}
	}
	served := 0
	srv := httptest.NewServer(c31Serve(script, &served))
	defer srv.Close()
	info := &snap.DownloadInfo{DownloadURL: srv.URL + "/dl", Size: in.Size, Sha3_384: c31Sha(in.Content)}
	if d := in.Delta; d != nil {
		format := "xdelta3"
		if !d.FormatOK {
			format = "bsdiff"
		}
		info.Deltas = []snap.DeltaInfo{{FromRevision: 1, ToRevision: 2, Format: format, DownloadURL: srv.URL + "/delta",
			Size: int64(len(d.Content)), Sha3_384: c31Sha(d.Content)}}
		if d.FromPresent {
			os.MkdirAll(dirs.SnapBlobDir, 0755)
			os.WriteFile(filepath.Join(dirs.SnapBlobDir, "foo_1.snap"), []byte("old revision"), 0600)
		}
		// the fake xdelta3: args are -d -s <from> <delta> <out>
		body := "exit 0\n"
		switch d.X {
		case "fail":
			body = "printf 'half' > \"$5\"\nexit 1\n"
		case "write":
			body = "printf '%s' '" + d.Out + "' > \"$5\"\nexit 0\n"
		}
		fake := filepath.Join(dir, "xdelta3.sh")
		if err := os.WriteFile(fake, []byte("#!/bin/sh\n"+body), 0755); err != nil {
			panic(err)
		}
		yes := true
		sto.shouldUseDeltas = &yes
		sto.xdelta3CmdFunc = func(args ...string) *exec.Cmd { return exec.Command(fake, args...) }
	}
	derr := sto.Download(context.Background(), "foo", target, info, nil, nil, &DownloadOptions{LeavePartialOnError: leave})
	obs := c31Obs{Err: "none"}
	cerr := "ENone"
	if derr != nil {
		if _, ok := derr.(HashError); ok {
			obs.Err, cerr = "hash", "EHash"
		} else {
			obs.Err, cerr = "other", "EOther"
		}
	}
	ctarget := "None"
	if data, err := os.ReadFile(target); err == nil {
		s := string(data)
		obs.Target = &s
		ctarget = "(Some " + vh.CoqBytes(s) + ")"
	}
	if _, err := os.Stat(target + ".partial"); err == nil {
		obs.Partial = true
	}
	obs.Requests = served
	return obs, cerr, ctarget, vh.CoqBool(obs.Partial)
}

func c31CoqScript(script []c31Beh) string {
	var items []string
	for _, b := range script {
		switch b.Kind {
		case "drop":
			items = append(items, "Drop")
		case "garbage":
			items = append(items, "Garbage")
		case "redirect":
			items = append(items, "Redirect")
		default:
			cut := "Full"
			if b.Cut == "early" {
				cut = "(EarlyClose " + vh.CoqNat(b.N) + ")"
			} else if b.Cut == "chunk" {
				cut = "(BadChunk " + vh.CoqNat(b.N) + ")"
			}
			items = append(items, fmt.Sprintf("Resp %s %s %s %s", vh.CoqN(uint64(b.Status)), vh.CoqBool(b.HR), vh.CoqBytes(b.Body), cut))
		}
	}
	return vh.CoqList(items)
}

func c31CoqOpt(p *string) string {
	if p == nil {
		return "None"
	}
	return "(Some " + vh.CoqBytes(*p) + ")"
}

func c31Exec(in c31In) vh.Out {
	dir, err := os.MkdirTemp(os.Getenv("VERIF_SCRATCH_DIR"), "c31-")
	if err != nil {
		panic(err)
	}
	defer os.RemoveAll(dir)

	old := downloadRetryStrategy
	downloadRetryStrategy = retry.LimitCount(in.Attempts, retry.Exponential{Initial: 50 * time.Microsecond, Factor: 1})
	defer func() { downloadRetryStrategy = old }()

	cfg := &Config{} // no download cache (CacheDownloads = 0), no device/auth context
	if in.Second != nil || in.Delta != nil {
		dirs.SetRootDir(dir) // the cache lives in dirs.SnapDownloadCacheDir, the base snap of a delta in dirs.SnapBlobDir
		defer dirs.SetRootDir("/")
	}
	if in.Second != nil {
		cfg.CacheDownloads = 3
	}
	sto := New(cfg, nil)
	obs, cerr, ctarget, cpartial := c31Call(sto, dir, "t", in, in.Pre, in.Partial, in.Leave, in.Script)
	served := obs.Requests

	pclass := "p-none"
	if in.Partial != nil {
		p := *in.Partial
		switch {
		case p == "":
			pclass = "p-empty"
		case p == in.Content:
			pclass = "p-complete"
		case len(p) > len(in.Content):
			pclass = "p-overlong"
		case strings.HasPrefix(in.Content, p):
			pclass = "p-correct-prefix"
		default:
			pclass = "p-wrong"
		}
	}
	tags := []string{"err-" + obs.Err, pclass, fmt.Sprintf("requests-%d", served)}
	var coq string
	switch {
	case in.Delta != nil:
		d := in.Delta
		x := "XNoOutput"
		switch d.X {
		case "fail":
			x = "XFail"
		case "write":
			x = "(XWrite " + vh.CoqBytes(d.Out) + ")"
		}
		coq = fmt.Sprintf("(Download.CaseDelta %s %s %s %s %s {| d_format_ok := %s; d_from_present := %s; d_content := %s; d_x := %s |} %s %s %s %s)",
			vh.CoqN(uint64(in.Size)), vh.CoqBytes(in.Content), c31CoqOpt(in.Partial), vh.CoqBool(in.Leave), vh.CoqNat(in.Attempts),
			vh.CoqBool(d.FormatOK), vh.CoqBool(d.FromPresent), vh.CoqBytes(d.Content), x, c31CoqScript(in.Script), cerr, ctarget, cpartial)
		tags = append(tags, "delta", "delta-x-"+d.X)
		if obs.Err == "none" && served <= 1 && d.X != "fail" {
			tags = append(tags, "delta-applied")
		}
	case in.Second == nil:
		coq = fmt.Sprintf("(Download.Case %s %s %s %s %s %s %s %s %s)", vh.CoqN(uint64(in.Size)), vh.CoqBytes(in.Content), c31CoqOpt(in.Partial),
			vh.CoqBool(in.Leave), vh.CoqNat(in.Attempts), c31CoqScript(in.Script), cerr, ctarget, cpartial)
	default:
		call := func(pre, partial *string, leave bool, script []c31Beh) string {
			return fmt.Sprintf("{| k_pre := %s; k_partial := %s; k_leave := %s; k_script := %s |}", c31CoqOpt(pre), c31CoqOpt(partial), vh.CoqBool(leave), c31CoqScript(script))
		}
		calls := []string{call(in.Pre, in.Partial, in.Leave, in.Script)}
		observed := []string{fmt.Sprintf("(%s, %s, %s)", cerr, ctarget, cpartial)}
		tags = append(tags, "cache-on")
		hit := obs.Err == "none"
		for i, sec := range []*c31Second{in.Second, in.Third} {
			if sec == nil {
				continue
			}
			o, ce, ct, cp := c31Call(sto, dir, fmt.Sprintf("t%d", i+2), in, sec.Pre, sec.Partial, sec.Leave, sec.Script)
			if i == 0 {
				obs.Second = &o
			} else {
				obs.Third = &o
			}
			calls = append(calls, call(sec.Pre, sec.Partial, sec.Leave, sec.Script))
			observed = append(observed, fmt.Sprintf("(%s, %s, %s)", ce, ct, cp))
			if hit && o.Requests == 0 && o.Err == "none" {
				tags = append(tags, "cache-hit")
			}
			if o.Err == "none" {
				hit = true
			}
			if sec.Pre != nil {
				tags = append(tags, "pre-existing-target")
			} else if o.Target != nil && *o.Target != in.Content {
				tags = append(tags, "TARGET-DIGEST-MISMATCH")
			}
		}
		coq = fmt.Sprintf("(Download.CaseSeq %s %s %s %s %s)", vh.CoqN(uint64(in.Size)), vh.CoqBytes(in.Content), vh.CoqNat(in.Attempts),
			vh.CoqList(calls), vh.CoqList(observed))
	}
	if in.Size == 0 {
		tags = append(tags, "size-unknown")
	} else if in.Size != int64(len(in.Content)) {
		tags = append(tags, "size-inconsistent")
	}
	if in.Pre == nil && obs.Target != nil && *obs.Target != in.Content {
		tags = append(tags, "TARGET-DIGEST-MISMATCH")
	}
	return vh.Out{Observed: obs, Coq: coq, NonTrivial: served >= 2 || (in.Partial != nil && *in.Partial != "" && served >= 1) || in.Second != nil || in.Delta != nil, Tags: tags}
}

const c31Alpha = "abc"

func c31Body(r *vh.Rand, content string) string {
	switch r.Intn(10) {
	case 0: // corrupted byte
		if len(content) > 0 {
			b := []byte(content)
			b[r.Intn(len(b))] = 'X'
			return string(b)
		}
	case 1: // truncated source
		return content[:r.Intn(len(content)+1)]
	case 2: // over-long source
		return content + r.Str(c31Alpha+"X", 1, 4)
	case 3:
		return r.Str(c31Alpha+"X", 0, 10)
	case 4: // only the tail (a server that applies the range but does not say so)
		return content[r.Intn(len(content)+1):]
	}
	return content
}

func c31Beh1(r *vh.Rand, content string) c31Beh {
	switch r.Intn(16) {
	case 0:
		return c31Beh{Kind: "drop"}
	case 1:
		return c31Beh{Kind: "garbage"}
	case 2:
		return c31Beh{Kind: "redirect"}
	case 3:
		return c31Beh{Kind: "resp", Status: []int{500, 503, 502}[r.Intn(3)], HR: r.Bool(), Body: "err", Cut: "full"}
	case 4:
		return c31Beh{Kind: "resp", Status: []int{404, 402, 403, 416, 401, 201}[r.Intn(6)], HR: r.Bool(), Body: "err", Cut: "full"}
	}
	b := c31Beh{Kind: "resp", Status: 200, HR: r.Chance(2, 3), Body: c31Body(r, content), Cut: "full"}
	if r.Chance(1, 12) {
		b.Status = 206 // says Partial Content whatever was asked
	}
	switch r.Intn(5) {
	case 0, 1:
		b.Cut, b.N = "early", r.Intn(len(b.Body)+2)
	case 2:
		if r.Chance(1, 3) {
			b.Cut, b.N = "chunk", r.Intn(len(b.Body)+2)
		}
	}
	return b
}

func c31Partial(r *vh.Rand, content string) *string {
	var p string
	switch r.Intn(8) {
	case 0:
		return nil
	case 1:
		p = ""
	case 2, 3:
		p = content[:r.Intn(len(content)+1)]
	case 4:
		p = content
	case 5:
		p = r.Str(c31Alpha+"X", 1, len(content)+1)
	case 6:
		p = content + r.Str(c31Alpha+"X", 1, 3)
	default:
		p = r.Str(c31Alpha+"X", len(content), len(content)+3)
	}
	return &p
}

func c31Gen(r *vh.Rand, tier string, n int) []c31In {
	if n == 0 {
		n = 600
	}
	var ins []c31In
	// fixed corner cases first (ids stable across seeds)
	sp := func(s string) *string { return &s }
	good := func(c string) c31Beh { return c31Beh{Kind: "resp", Status: 200, HR: true, Body: c, Cut: "full"} }
	norange := func(c string) c31Beh { return c31Beh{Kind: "resp", Status: 200, HR: false, Body: c, Cut: "full"} }
	early := func(c string, k int) c31Beh { return c31Beh{Kind: "resp", Status: 200, HR: true, Body: c, Cut: "early", N: k} }
	ins = append(ins,
		c31In{Size: 4, Content: "abcd", Attempts: 3, Script: []c31Beh{good("abcd")}},
		c31In{Size: 4, Content: "abcd", Partial: sp("ab"), Attempts: 3, Script: []c31Beh{good("abcd")}},
		c31In{Size: 4, Content: "abcd", Partial: sp("aX"), Attempts: 3, Script: []c31Beh{good("abcd"), good("abcd")}},
		c31In{Size: 4, Content: "abcd", Partial: sp("abcdXX"), Attempts: 3, Script: []c31Beh{good("abcd")}},
		c31In{Size: 4, Content: "abcd", Partial: sp("abcd"), Attempts: 3, Script: nil},
		c31In{Size: 4, Content: "abcd", Attempts: 3, Script: []c31Beh{early("abcd", 2), good("abcd")}},
		c31In{Size: 4, Content: "abcd", Attempts: 3, Script: []c31Beh{early("abcd", 2), norange("abcd")}},
		// over-long body, connection lost, then a server that ignores Range (position reset without truncation)
		c31In{Size: 4, Content: "abcd", Attempts: 3, Script: []c31Beh{early("XXXXXXXX", 8), norange("abcd")}},
		// undeclared size, over-long partial, server ignores Range
		c31In{Size: 0, Content: "abcd", Partial: sp("XXXXXXXX"), Attempts: 3, Script: []c31Beh{norange("abcd")}},
	)
	// bytes left by an over-long body, then an error reply (or several, or a redirect) to the Range retry, then the good body
	e5 := func(st int, body string) c31Beh { return c31Beh{Kind: "resp", Status: st, HR: false, Body: body, Cut: "full"} }
	ins = append(ins,
		c31In{Size: 4, Content: "abcd", Attempts: 4, Script: []c31Beh{early("XXXXXXXX", 8), e5(503, "err"), good("abcd")}},
		c31In{Size: 4, Content: "abcd", Attempts: 5, Script: []c31Beh{early("XXXXXXXX", 8), e5(500, ""), e5(502, "a long error page"), norange("abcd")}},
		c31In{Size: 4, Content: "abcd", Attempts: 4, Script: []c31Beh{early("abcdXX", 6), {Kind: "redirect"}, e5(503, "err"), good("abcd")}},
		c31In{Size: 0, Content: "abcd", Partial: sp("XXXXXXXX"), Attempts: 3, Script: []c31Beh{e5(503, "err"), good("abcd")}},
		c31In{Size: 4, Content: "abcd", Attempts: 4, Script: []c31Beh{early("XXXXXXXX", 8), e5(404, "err"), good("abcd")}},
	)
	// deltas: applied; wrong output then full download; xdelta3 fails over an existing partial; no output with a complete partial
	dsrv := func(c string) c31Beh { return c31Beh{Kind: "resp", Status: 200, HR: true, Body: c, Cut: "full"} }
	ins = append(ins,
		c31In{Size: 4, Content: "abcd", Attempts: 3, Script: []c31Beh{dsrv("dd")}, Delta: &c31Delta{FormatOK: true, FromPresent: true, Content: "dd", X: "write", Out: "abcd"}},
		c31In{Size: 4, Content: "abcd", Attempts: 3, Script: []c31Beh{dsrv("dd"), good("abcd")}, Delta: &c31Delta{FormatOK: true, FromPresent: true, Content: "dd", X: "write", Out: "abcX"}},
		c31In{Size: 4, Content: "abcd", Partial: sp("ab"), Attempts: 3, Script: []c31Beh{dsrv("dd"), good("abcd")}, Delta: &c31Delta{FormatOK: true, FromPresent: true, Content: "dd", X: "fail"}},
		c31In{Size: 4, Content: "abcd", Partial: sp("abcd"), Attempts: 3, Script: []c31Beh{dsrv("dd")}, Delta: &c31Delta{FormatOK: true, FromPresent: true, Content: "dd", X: "none"}},
		c31In{Size: 4, Content: "abcd", Partial: sp("ab"), Attempts: 3, Script: []c31Beh{dsrv("dX"), good("abcd")}, Delta: &c31Delta{FormatOK: true, FromPresent: true, Content: "dd", X: "write", Out: "abcd"}},
		c31In{Size: 4, Content: "abcd", Attempts: 3, Script: []c31Beh{good("abcd")}, Delta: &c31Delta{FormatOK: false, FromPresent: true, Content: "dd", X: "write", Out: "abcd"}},
		c31In{Size: 4, Content: "abcd", Attempts: 3, Script: []c31Beh{dsrv("dd"), good("abcd")}, Delta: &c31Delta{FormatOK: true, FromPresent: false, Content: "dd", X: "write", Out: "abcd"}},
		// cache entry + a file already at the second target path
		c31In{Size: 4, Content: "abcd", Attempts: 3, Script: []c31Beh{good("abcd")}, Second: &c31Second{Pre: sp("GARBAGE"), Script: []c31Beh{good("abcd")}}},
	)
	// download cache: success then cache hit (no request although the second script would fail); failure then normal download
	ins = append(ins,
		c31In{Size: 4, Content: "abcd", Attempts: 3, Script: []c31Beh{good("abcd")}, Second: &c31Second{Partial: sp("XX"), Script: []c31Beh{good("XXXX")}}},
		c31In{Size: 4, Content: "abcd", Attempts: 1, Script: []c31Beh{good("abcX")}, Second: &c31Second{Script: []c31Beh{early("abcd", 2), good("abcd")}}},
	)
	for i := 0; i < n; i++ {
		content := r.Str(c31Alpha, 1, 8)
		in := c31In{Size: int64(len(content)), Content: content, Leave: r.Chance(1, 3), Attempts: r.Range(1, 5)}
		switch r.Intn(20) {
		case 0:
			in.Size = 0
		case 1:
			in.Size = int64(r.Intn(len(content) + 3))
		}
		in.Partial = c31Partial(r, content)
		k := r.Intn(7)
		for j := 0; j < k; j++ {
			in.Script = append(in.Script, c31Beh1(r, content))
		}
		if r.Chance(1, 6) {
			// resume scenarios: a correct prefix on disk (left by an earlier call or by a lost connection in this one),
			// then a server that sends exactly the missing tail, with or without saying 206, or everything again
			cutAt := r.Intn(len(content) + 1)
			var pre []c31Beh
			if r.Bool() {
				in.Partial = sp(content[:cutAt])
			} else {
				in.Partial = nil
				pre = append(pre, c31Beh{Kind: "resp", Status: 200, HR: true, Body: content, Cut: "early", N: cutAt})
			}
			tail := c31Beh{Kind: "resp", Status: []int{200, 206, 200}[r.Intn(3)], HR: false, Body: content[cutAt:], Cut: "full"}
			if r.Chance(1, 3) {
				tail.Body = content
			}
			in.Script = append(append(pre, tail), in.Script...)
			if len(in.Script) > 7 {
				in.Script = in.Script[:7]
			}
		}
		if r.Chance(1, 5) {
			// a write that leaves bytes on disk (or an over-long partial file), then one or more error replies / redirects /
			// dropped connections answering the Range retry, then a good body: every reply in between may reset the position
			content := in.Content
			var sc []c31Beh
			junk := content + r.Str(c31Alpha+"X", 1, 4)
			if r.Bool() {
				junk = r.Str("X", len(content)+1, len(content)+4)
			}
			switch r.Intn(3) {
			case 0:
				in.Partial = sp(junk)
				if in.Size != 0 && r.Bool() {
					in.Partial = sp(junk[:r.Intn(len(content))]) // shorter than the declared size: the Range path is taken
				}
			case 1:
				in.Partial = nil
				sc = append(sc, c31Beh{Kind: "resp", Status: 200, HR: true, Body: junk, Cut: "early", N: r.Range(1, len(junk))})
			default:
				in.Partial = sp(content[:r.Intn(len(content)+1)])
				sc = append(sc, c31Beh{Kind: "resp", Status: 206, HR: false, Body: junk, Cut: "early", N: r.Range(1, len(junk))})
			}
			for k := r.Range(1, 3); k > 0; k-- {
				switch r.Intn(6) {
				case 0:
					sc = append(sc, c31Beh{Kind: "redirect"})
				case 1:
					sc = append(sc, c31Beh{Kind: "drop"})
				case 2:
					sc = append(sc, c31Beh{Kind: "resp", Status: []int{404, 403, 416}[r.Intn(3)], HR: r.Bool(), Body: "error page", Cut: "full"})
				default:
					sc = append(sc, c31Beh{Kind: "resp", Status: []int{500, 502, 503}[r.Intn(3)], HR: r.Bool(), Body: r.Pick([]string{"", "err", "a long error page body"}), Cut: "full"})
				}
			}
			sc = append(sc, c31Beh{Kind: "resp", Status: 200, HR: r.Bool(), Body: content, Cut: "full"})
			if r.Chance(1, 3) {
				sc = append(sc, c31Beh{Kind: "resp", Status: 200, HR: r.Bool(), Body: content, Cut: "full"})
			}
			in.Script = sc
			in.Attempts = r.Range(len(sc)-1, len(sc)+1)
			if in.Attempts < 1 {
				in.Attempts = 1
			}
		}
		if r.Chance(1, 7) {
			sec := &c31Second{Partial: c31Partial(r, content), Leave: r.Bool()}
			k2 := r.Intn(4)
			for j := 0; j < k2; j++ {
				sec.Script = append(sec.Script, c31Beh1(r, content))
			}
			in.Second = sec
			if r.Chance(1, 3) {
				in.Third = &c31Second{Partial: c31Partial(r, content), Leave: r.Bool(), Script: []c31Beh{c31Beh1(r, content), good(content)}}
			}
			if r.Chance(1, 4) { // a file already at a target path (cache hit keeps it: EEXIST)
				g := r.Pick([]string{"GARBAGE", content, ""})
				switch r.Intn(3) {
				case 0:
					in.Pre = &g
				case 1:
					sec.Pre = &g
				default:
					if in.Third != nil {
						in.Third.Pre = &g
					} else {
						sec.Pre = &g
					}
				}
			}
		} else if r.Chance(1, 6) {
			d := &c31Delta{FormatOK: r.Chance(9, 10), FromPresent: r.Chance(9, 10), Content: r.Str("dD", 1, 4), X: r.Pick([]string{"fail", "write", "write", "write", "none"})}
			d.Out = c31Body(r, content)
			if r.Bool() {
				d.Out = content
			}
			// the delta is served first (mostly correctly), the rest of the script serves the full download
			pre := []c31Beh{{Kind: "resp", Status: 200, HR: true, Body: d.Content, Cut: "full"}}
			switch r.Intn(6) {
			case 0:
				pre = []c31Beh{{Kind: "resp", Status: 200, HR: true, Body: d.Content + "x", Cut: "full"}}
			case 1:
				pre = []c31Beh{{Kind: "resp", Status: 200, HR: true, Body: d.Content, Cut: "early", N: 1}, {Kind: "resp", Status: 200, HR: r.Bool(), Body: d.Content, Cut: "full"}}
			case 2:
				pre = []c31Beh{c31Beh1(r, d.Content)}
			}
			in.Script = append(pre, in.Script...)
			in.Delta = d
		}
		ins = append(ins, in)
	}
	return ins
}

func TestVerifC31Download(t *testing.T) {
	os.Setenv("SNAPD_USE_DELTAS_EXPERIMENTAL", "0")
	vh.Run(c31Gen, c31Exec)
}
