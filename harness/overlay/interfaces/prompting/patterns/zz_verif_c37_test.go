//go:build verif

// Driver for C37 (in-package: it reads the render tree, the components of a variant and the submatches of its regex).
// Prints the observed behaviour of ParsePathPattern / NumVariants / RenderAllVariants / PathPatternMatches /
// PatternVariant.Compare / HighestPrecedencePattern as Coq terms of type V.models.Patterns.case.
package patterns

import (
	"bytes"
	"encoding/json"
	"strings"
	"testing"

	"github.com/snapcore/snapd/zzverif/vh"
)

type c37In struct {
	Kind     string   `json:"kind"` // pat | prec
	Pattern  string   `json:"pattern,omitempty"`
	Paths    []string `json:"paths,omitempty"`
	Variants []string `json:"variants,omitempty"` // prec: brace-free patterns
	Path     string   `json:"path,omitempty"`
}

func c37Comps(cs []component) string {
	items := make([]string, len(cs))
	for i, c := range cs {
		items[i] = "(" + vh.CoqN(uint64(c.compType)) + ", " + vh.CoqBytes(c.compText) + ")"
	}
	return vh.CoqList(items)
}

// the raw expansions, produced by the package's own Render / NextVariant (the loop of renderAllVariants without the
// call of parsePatternVariant)
func c37Raw(n renderNode, limit int) []string {
	var buf bytes.Buffer
	var out []string
	v, _ := n.InitialVariant()
	lengthUnchanged := 0
	more := true
	for more && len(out) < limit {
		buf.Truncate(lengthUnchanged)
		v.Render(&buf, lengthUnchanged)
		out = append(out, buf.String())
		_, lengthUnchanged, more = v.NextVariant()
	}
	return out
}

func c37Match(pattern, path string) bool {
	m, err := PathPatternMatches(pattern, path)
	return err == nil && m
}

// the second entry point that produces a PathPattern: (*PathPattern).UnmarshalJSON, reached through json.Unmarshal of the
// quoted pattern (this is how rule constraints arrive). Returns the Coq term (option (NumVariants, #raw expansions capped at
// 1001)) and the observation.
func c37JSON(pattern string) (string, map[string]interface{}) {
	quoted, err := json.Marshal(pattern)
	if err != nil {
		panic(err)
	}
	var pp PathPattern
	if err := json.Unmarshal(quoted, &pp); err != nil {
		return "None", map[string]interface{}{"accepted": false}
	}
	n := pp.NumVariants()
	raws := c37Raw(pp.renderTree, 1001)
	back, _ := json.Marshal(&pp)
	return "(Some (" + vh.CoqZ(int64(n)) + ", " + vh.CoqN(uint64(len(raws))) + "))",
		map[string]interface{}{"accepted": true, "num_variants": n, "raw_count_capped_at_1001": len(raws), "marshals_back": string(back) == string(quoted)}
}

func c37ExecPat(i c37In) vh.Out {
	obs := map[string]interface{}{}
	coqJSON, obsJSON := c37JSON(i.Pattern)
	obs["json"] = obsJSON
	pp, err := ParsePathPattern(i.Pattern)
	if err != nil {
		obs["accepted"] = false
		tags := []string{"pat-rejected"}
		if obsJSON["accepted"] == true {
			tags = append(tags, "entry-points-disagree")
		}
		return vh.Out{Observed: obs, Coq: "(CPat " + vh.CoqBytes(i.Pattern) + " None " + coqJSON + ")", Tags: tags}
	}
	if obsJSON["accepted"] != true {
		obs["entry_points_disagree"] = true
	}
	n := pp.NumVariants()
	obs["accepted"] = true
	obs["num_variants"] = n
	tags := []string{"pat-accepted"}
	raws := c37Raw(pp.renderTree, 1001)
	if n <= 0 || n > 1000 {
		// an accepted pattern must report 1..1000 variants; if it does not (the count wrapped before commit 1160e46), only the
		// first 1001 raw expansions are enumerated and nothing is rendered: the monitor fails on such a case
		obs["enumerated"] = false
		obs["raw_count_capped_at_1001"] = len(raws)
		var coqRaws []string
		for _, r := range raws {
			coqRaws = append(coqRaws, vh.CoqBytes(r))
		}
		coq := "(CPat " + vh.CoqBytes(i.Pattern) + " (Some (" + vh.CoqZ(int64(n)) + ", " + vh.CoqList(coqRaws) + ", [], [])) " + coqJSON + ")"
		return vh.Out{Observed: obs, Coq: coq, NonTrivial: true, Tags: append(tags, "count-not-positive")}
	}
	var variants []PatternVariant
	pp.RenderAllVariants(func(_ int, v PatternVariant) { variants = append(variants, v) })
	var strs []string
	var coqVars, coqRaws []string
	rewritten := false
	for k, v := range variants {
		strs = append(strs, v.String())
		coqVars = append(coqVars, "("+vh.CoqBytes(v.String())+", "+c37Comps(v.components)+")")
		if k >= len(raws) || raws[k] != v.String() {
			rewritten = true
		}
	}
	for _, r := range raws {
		coqRaws = append(coqRaws, vh.CoqBytes(r))
	}
	obs["raw"] = raws
	obs["variants"] = strs
	// every rendered variant must itself be an acceptable pattern that renders to itself
	stable := true
	for _, s := range strs {
		vp, err := ParsePathPattern(s)
		if err != nil || vp.NumVariants() != 1 {
			stable = false
			break
		}
		vp.RenderAllVariants(func(_ int, v PatternVariant) {
			if v.String() != s {
				stable = false
			}
		})
	}
	obs["variants_stable"] = stable
	if !stable {
		tags = append(tags, "variant-not-stable")
	}
	obs["rewritten"] = rewritten || len(raws) != len(variants)
	if rewritten {
		tags = append(tags, "rendering-rewrites")
	} else {
		tags = append(tags, "normal-form")
	}
	if n > 1 {
		tags = append(tags, "has-groups")
	}
	var coqPaths []string
	type pm struct {
		Path string `json:"path"`
		Orig bool   `json:"orig"`
		Var  []bool `json:"var"`
	}
	var pms []pm
	diff := false
	for _, p := range i.Paths {
		o := c37Match(i.Pattern, p)
		var vm []bool
		var coqVM []string
		anyV := false
		for _, v := range variants {
			m := c37Match(v.String(), p)
			vm = append(vm, m)
			coqVM = append(coqVM, vh.CoqBool(m))
			anyV = anyV || m
		}
		if anyV != o {
			diff = true
		}
		pms = append(pms, pm{p, o, vm})
		coqPaths = append(coqPaths, "("+vh.CoqBytes(p)+", "+vh.CoqBool(o)+", "+vh.CoqList(coqVM)+")")
		if o {
			tags = append(tags, "path-matches")
		} else {
			tags = append(tags, "path-no-match")
		}
	}
	obs["paths"] = pms
	if diff {
		tags = append(tags, "orig-differs-from-variants")
	}
	coq := "(CPat " + vh.CoqBytes(i.Pattern) + " (Some (" + vh.CoqZ(int64(n)) + ", " + vh.CoqList(coqRaws) + ", " +
		vh.CoqList(coqVars) + ", " + vh.CoqList(coqPaths) + ")) " + coqJSON + ")"
	return vh.Out{Observed: obs, Coq: coq, NonTrivial: n > 1 || len(i.Paths) > 0, Tags: tags}
}

func c37Perms(n int) [][]int {
	if n == 0 {
		return [][]int{{}}
	}
	var out [][]int
	var rec func(cur []int, used []bool)
	rec = func(cur []int, used []bool) {
		if len(cur) == n {
			out = append(out, append([]int{}, cur...))
			return
		}
		for k := 0; k < n; k++ {
			if !used[k] {
				used[k] = true
				rec(append(cur, k), used)
				used[k] = false
			}
		}
	}
	rec(nil, make([]bool, n))
	return out
}

func c37ExecPrec(i c37In) vh.Out {
	obs := map[string]interface{}{}
	var vs []PatternVariant
	seen := map[string]bool{}
	for _, s := range i.Variants {
		pp, err := ParsePathPattern(s)
		if err != nil || pp.NumVariants() != 1 {
			continue
		}
		pp.RenderAllVariants(func(_ int, v PatternVariant) {
			if seen[v.String()] || len(vs) >= 4 {
				return
			}
			if c37Match(v.String(), i.Path) && v.regex.MatchString(i.Path) {
				seen[v.String()] = true
				vs = append(vs, v)
			}
		})
	}
	var strs []string
	var coqVs []string
	for _, v := range vs {
		strs = append(strs, v.String())
		sub := v.regex.FindStringSubmatch(i.Path)[1:]
		var items []string
		for k, c := range v.components {
			sm := ""
			if k < len(sub) {
				sm = sub[k]
			}
			items = append(items, "("+vh.CoqN(uint64(c.compType))+", "+vh.CoqBytes(sm)+")")
		}
		coqVs = append(coqVs, "("+vh.CoqBytes(v.String())+", "+vh.CoqList(items)+")")
	}
	obs["variants"] = strs
	var cmps []int
	var coqCmps []string
	failed := false
	for _, a := range vs {
		for _, b := range vs {
			c, err := a.Compare(b, i.Path)
			if err != nil {
				failed = true
			}
			cmps = append(cmps, c)
			coqCmps = append(coqCmps, vh.CoqZ(int64(c)))
		}
	}
	obs["compare"] = cmps
	var coqPerms []string
	var winners []string
	for _, p := range c37Perms(len(vs)) {
		if len(p) == 0 {
			continue
		}
		l := make([]PatternVariant, len(p))
		var idx []string
		for a, b := range p {
			l[a] = vs[b]
			idx = append(idx, vh.CoqN(uint64(b)))
		}
		w, err := HighestPrecedencePattern(l, i.Path)
		if err != nil {
			failed = true
			continue
		}
		wi := 0
		for k, v := range vs {
			if v.String() == w.String() {
				wi = k
				break
			}
		}
		winners = append(winners, w.String())
		coqPerms = append(coqPerms, "("+vh.CoqList(idx)+", "+vh.CoqN(uint64(wi))+")")
	}
	obs["winners"] = winners
	obs["failed"] = failed
	tags := []string{"prec-" + string(rune('0'+len(vs))) + "-variants"}
	if failed {
		tags = append(tags, "prec-compare-error")
	}
	coq := "(CPrec " + vh.CoqBytes(i.Path) + " " + vh.CoqList(coqVs) + " " + vh.CoqList(coqCmps) + " " + vh.CoqList(coqPerms) + ")"
	return vh.Out{Observed: obs, Coq: coq, NonTrivial: len(vs) >= 2, Tags: tags}
}

func c37Exec(i c37In) vh.Out {
	if i.Kind == "prec" {
		return c37ExecPrec(i)
	}
	return c37ExecPat(i)
}

// ---------------------------------------------------------------- generation

var c37Tokens = []string{"a", "b", "/", "*", "?", "{", ",", "}", "**"}

func c37Enum(toks []string, maxLen int) []string {
	out := []string{""}
	prev := []string{""}
	for l := 1; l <= maxLen; l++ {
		var cur []string
		for _, p := range prev {
			for _, t := range toks {
				cur = append(cur, p+t)
			}
		}
		out = append(out, cur...)
		prev = cur
	}
	return out
}

// clean paths over a, b, / of length <= n starting with /
func c37Paths(n int) []string {
	var out []string
	for _, s := range c37Enum([]string{"a", "b", "/"}, n-1) {
		if !strings.Contains("/"+s, "//") {
			out = append(out, "/"+s)
		}
	}
	return out
}

// a path the brace-free glob `v` plausibly matches
func c37Instantiate(r *vh.Rand, v string) string {
	var sb strings.Builder
	for k := 0; k < len(v); k++ {
		switch c := v[k]; c {
		case '\\':
			if k+1 < len(v) {
				k++
				sb.WriteByte(v[k])
			}
		case '?':
			sb.WriteString(r.Pick([]string{"a", "b", "x"}))
		case '*':
			if k+1 < len(v) && v[k+1] == '*' {
				k++
				sb.WriteString(r.Pick([]string{"", "a", "a/b", "b/a/x", "x/"}))
			} else {
				sb.WriteString(r.Pick([]string{"", "", "a", "ab", "xyz"}))
			}
		default:
			sb.WriteByte(c)
		}
	}
	return sb.String()
}

// paths handed to the matcher are clean: no empty segments
func c37Clean(p string) string {
	for strings.Contains(p, "//") {
		p = strings.ReplaceAll(p, "//", "/")
	}
	return p
}

func c37Segment(r *vh.Rand, depth int) string {
	switch r.Intn(14) {
	case 0:
		return "*"
	case 1:
		return "**"
	case 2:
		return r.Str("ab", 1, 2) + "*"
	case 3:
		return "*" + r.Str("ab.", 1, 3)
	case 4:
		return r.Str("ab", 0, 2) + "?" + r.Str("ab", 0, 1)
	case 5, 6:
		if depth < 3 {
			n := r.Range(1, 3)
			alts := make([]string, n)
			for k := range alts {
				alts[k] = c37Piece(r, depth+1)
			}
			return r.Str("ab", 0, 2) + "{" + strings.Join(alts, ",") + "}" + r.Str("ab", 0, 1)
		}
	case 7:
		return r.Pick([]string{`\*`, `\?`, `\{a\}`, `a\,b`, `\\`, `\a`, `\[x\]`, `a,b`})
	case 8:
		return r.Pick([]string{"***", "**a", "a**", "*?", "?*", "*?*", "", "**?"})
	}
	return r.Str("abc", 1, 3)
}

func c37Piece(r *vh.Rand, depth int) string {
	switch r.Intn(6) {
	case 0:
		return ""
	case 1:
		return c37Segment(r, depth) + "/" + c37Segment(r, depth)
	case 2:
		return "/" + c37Segment(r, depth)
	case 3:
		return c37Segment(r, depth) + "/"
	}
	return c37Segment(r, depth)
}

func c37Pattern(r *vh.Rand) string {
	n := r.Range(1, 4)
	var sb strings.Builder
	for k := 0; k < n; k++ {
		sb.WriteString("/")
		sb.WriteString(c37Segment(r, 0))
	}
	if r.Chance(1, 5) {
		sb.WriteString("/")
	}
	if r.Chance(1, 6) {
		sb.WriteString(r.Pick([]string{"{,/}", "{,/**}", "/**", "/**/", "/**/*", "/*/**", "{/,/*,/**}"}))
	}
	return sb.String()
}

func c37Malformed(r *vh.Rand) string {
	switch r.Intn(8) {
	case 0:
		return r.Pick([]string{"", "a", "a/b", "/a{", "/a}", "/a{b", "/a{b,{c}", "/a\\", "/a[b]", "/a[", "/]", "/{", "/}", "/,", "/{,}", "/{}", "/{{}}",
			"/{a,b}}", "/\\{a", "/{a\\}", "/{a\\,b}", "/a{b,c}{d,e}{f,g}", "/{a,a}", "/{a,{a}}", "/{{a,b},{a,b}}", "/{a{b,c},ab}"})
	case 1:
		return "/" + strings.Repeat("{", r.Range(995, 1002)) + "a" + strings.Repeat("}", r.Range(995, 1002))
	case 2:
		return "/" + strings.Repeat("{a,b}", r.Range(10, 11)) + r.Pick([]string{"", "{a,b,c}"}) // 1024 .. 6144 variants: over the limit
	case 3:
		return "/{0,1,2,3,4,5,6,7,8,9}{0,1,2,3,4,5,6,7,8,9}{0,1,2,3,4,5,6,7,8,9" + r.Pick([]string{",a}", "}{a,}", ",a,b}"}) // 1100, 2000, 1200
	}
	return r.Str("/ab{},*?\\[]", 1, 8)
}

// generalisations of a path: brace-free patterns that match it
func c37Generalise(r *vh.Rand, path string) string {
	segs := strings.Split(strings.Trim(path, "/"), "/")
	var out []string
	k := 0
	for k < len(segs) {
		s := segs[k]
		switch r.Intn(10) {
		case 0:
			out = append(out, "*")
		case 1:
			// swallow this and some following segments
			k += r.Intn(len(segs) - k)
			out = append(out, "**")
		case 2:
			if len(s) > 0 {
				c := r.Intn(len(s) + 1)
				out = append(out, s[:c]+"*")
			} else {
				out = append(out, s)
			}
		case 3:
			if len(s) > 0 {
				c := r.Intn(len(s) + 1)
				out = append(out, "*"+s[c:])
			} else {
				out = append(out, s)
			}
		case 4:
			if len(s) > 0 {
				c := r.Intn(len(s))
				out = append(out, s[:c]+"?"+s[c+1:])
			} else {
				out = append(out, s)
			}
		case 5:
			if len(s) > 1 {
				c := r.Range(1, len(s)-1)
				out = append(out, s[:c]+"*"+s[c:])
			} else {
				out = append(out, s)
			}
		default:
			out = append(out, s)
		}
		k++
	}
	p := "/" + strings.Join(out, "/")
	switch r.Intn(8) {
	case 0:
		p += "/**"
	case 1:
		p += "/**/"
	case 2:
		p += "*"
	case 3:
		if strings.HasSuffix(path, "/") {
			p += "/"
		}
	}
	return p
}

// nested groups whose alternatives share a prefix of alternatives: {{X},{X,y}}, {{X,y},{X}}, {p{X},p{X,y}} ... together with
// paths that only the extra alternative y matches (duplicate-alternative removal must not drop an alternative that merely
// extends an earlier one)
func c37NestedFamily(r *vh.Rand) c37In {
	pool := []string{"a", "b", "jpg", "png", "x*", "c/d", "?", "ab", "\\*"}
	extra := []string{"gif", "c", "zz", "q*", "a/b", "abc"}
	perm := r.Perm(len(pool))
	k := r.Range(1, 3)
	var xs []string
	for _, i := range perm[:k] {
		xs = append(xs, pool[i])
	}
	y := extra[r.Intn(len(extra))]
	short := "{" + strings.Join(xs, ",") + "}"
	var long string
	switch r.Intn(4) {
	case 0:
		long = "{" + strings.Join(append([]string{y}, xs...), ",") + "}" // y first: not an extension
	default:
		long = "{" + strings.Join(append(append([]string{}, xs...), y), ",") + "}"
	}
	pre := r.Pick([]string{"", "", "*.", "f", "x/"})
	a, b := pre+short, pre+long
	ypath := y
	if r.Chance(1, 3) && k > 1 {
		// the later alternative extends the earlier one as a SEQUENCE: p{X} and p{X}s (s a literal or another group)
		suf := r.Pick([]string{"z", "/k", "{u,v}", ".gif"})
		b = pre + short + suf
		ypath = xs[0] + strings.NewReplacer("{u,v}", "v").Replace(suf)
	}
	if r.Chance(1, 3) {
		a, b = b, a
	}
	head := r.Pick([]string{"/foo/", "/", "/Pictures/", "/a/b/"})
	tail := r.Pick([]string{"", "", "/x", "/**", ".bak"})
	var group string
	switch r.Intn(4) {
	case 0:
		group = "{" + a + "," + b + "," + r.Pick([]string{"k", "", short}) + "}"
	default:
		group = "{" + a + "," + b + "}"
	}
	pat := head + group + tail
	var ps []string
	for _, z := range append(append([]string{}, xs...), y) {
		q := c37Clean(c37Instantiate(r, head+pre+z+tail))
		ps = append(ps, q)
	}
	ps = append(ps, c37Clean(c37Instantiate(r, head+pre+ypath+tail)), c37Clean(c37Instantiate(r, head+pre+ypath+tail)+"/"), "/foo")
	return c37In{Kind: "pat", Pattern: pat, Paths: ps}
}

func c37Escape(w string) string {
	var sb strings.Builder
	for k := 0; k < len(w); k++ {
		if strings.IndexByte("*?[]{}\\,", w[k]) >= 0 {
			sb.WriteByte('\\')
		}
		sb.WriteByte(w[k])
	}
	return sb.String()
}

// literals made of escaped metacharacters, with paths that contain those literal bytes and paths that an unescaped reading
// of the rendered variant would match (a character class, a wildcard, a group)
func c37EscapeFamily(r *vh.Rand) c37In {
	w := r.Str("ab[]*?{},\\", 1, 4)
	if r.Chance(1, 2) {
		w = r.Pick([]string{"[a]", "[ab]", "]", "[", "a[b", "{a,b}", "{a}", "a*", "?", "a\\b", "\\", "[a-b]", "[!a]", "*[a]", "a,b"})
	}
	head := r.Pick([]string{"/foo/", "/", "/a/"})
	tail := r.Pick([]string{"", "", "*", "/**", "{,x}", "/b"})
	pat := head + c37Escape(w) + tail
	if r.Chance(1, 4) {
		pat = head + "{" + c37Escape(w) + "," + c37Escape(r.Str("ab[]", 1, 2)) + "}" + tail
	}
	strip := strings.NewReplacer("[", "", "]", "", "{", "", "}", "", "\\", "", "!", "").Replace(w)
	ps := []string{head + w, head + strip, head + w + "x", head + "a", head + "b", c37Instantiate(r, head+w+tail)}
	if len(strip) > 0 {
		ps = append(ps, head+strip[:1])
	}
	for c := range ps {
		ps[c] = c37Clean(ps[c])
		if tail == "/b" || tail == "/**" {
			ps[c] = c37Clean(ps[c] + "/b")
		}
	}
	return c37In{Kind: "pat", Pattern: pat, Paths: ps}
}

func c37Gen(r *vh.Rand, tier string, n int) []c37In {
	if n == 0 {
		n = 600
	}
	var ins []c37In
	// witnesses of the recorded findings and regression cases of the count limit (64 groups: rejected since the count saturates)
	for _, p := range []string{"/**/*", "/**/**", "/a/**/*", "/a***", "/a//b", "/a/{}*", "/" + strings.Repeat("{a,b}", 64), "/" + strings.Repeat("{a,}", 63) + "{a,b,}",
		"/{0,1,2,3,4,5,6,7,8,9}{0,1,2,3,4,5,6,7,8,9}{0,1,2,3,4,5,6,7,8,9}", "/{0,1,2,3,4,5,6,7,8,9}{0,1,2,3,4,5,6,7,8,9}{0,1,2,3,4,5,6,7,8,9}{,/}"} {
		paths := []string{"/", "/a", "/a/", "/a/b", "/ab", "/a/b/"}
		if len(p) > 40 {
			paths = []string{"/123"}
		}
		ins = append(ins, c37In{Kind: "pat", Pattern: p, Paths: paths})
	}
	// the limit of 1000 expanded patterns, just below / at / just above, through every entry point:
	// 7*11*13 = 1001, 2^10 = 1024, 3*2^10 = 3072, 999 = 27*37, 1000 is among the witnesses above
	alts := func(n int) string {
		s := make([]string, n)
		for k := range s {
			s[k] = string(rune('a' + k%26)) + string(rune('a' + k/26))
		}
		return "{" + strings.Join(s, ",") + "}"
	}
	for _, p := range []string{"/" + alts(7) + alts(11) + alts(13), "/" + strings.Repeat("{a,b}", 10), "/" + strings.Repeat("{a,b}", 10) + "{a,b,c}",
		"/x/" + alts(27) + "/" + alts(37), "/" + alts(1001), "/" + alts(1000) + "{,/}"} {
		ins = append(ins, c37In{Kind: "pat", Pattern: p, Paths: []string{"/aa"}})
	}
	// a slash directly before a group with a doublestar alternative: the tail /** is zero-length only as plain text
	ins = append(ins,
		c37In{Kind: "pat", Pattern: "/a/{**}", Paths: []string{"/a", "/a/", "/a/b", "/ab"}},
		c37In{Kind: "pat", Pattern: "/a/{**,x}", Paths: []string{"/a", "/a/x", "/a/y/z"}},
		c37In{Kind: "pat", Pattern: "/a/{x,**/}", Paths: []string{"/a", "/a/", "/a/x"}},
		c37In{Kind: "pat", Pattern: "/a{/,}{**,b}", Paths: []string{"/a", "/ab", "/a/b"}})
	// fixed members of the escaped-metacharacter family
	ins = append(ins,
		c37In{Kind: "pat", Pattern: "/foo/\\[a\\]", Paths: []string{"/foo/[a]", "/foo/a", "/foo/[a]/", "/foo/b"}},
		c37In{Kind: "pat", Pattern: "/foo/{\\[,\\]}*", Paths: []string{"/foo/[x", "/foo/]", "/foo/x", "/foo/[", "/foo/]x/"}},
		c37In{Kind: "pat", Pattern: "/a\\*b", Paths: []string{"/a*b", "/axb", "/ab"}},
		c37In{Kind: "pat", Pattern: "/a\\?", Paths: []string{"/a?", "/ab"}},
		c37In{Kind: "pat", Pattern: "/\\{a\\,b\\}", Paths: []string{"/{a,b}", "/a", "/b"}},
		c37In{Kind: "pat", Pattern: "/a\\\\b", Paths: []string{"/a\\b", "/ab", "/a/b"}},
		c37In{Kind: "pat", Pattern: "/\\[a-c\\]/**", Paths: []string{"/[a-c]/x", "/b/x", "/[a-c]"}})
	// fixed members of the nested-group family
	ins = append(ins,
		c37In{Kind: "pat", Pattern: "/foo/{{a,b},{a,b,c}}", Paths: []string{"/foo/a", "/foo/b", "/foo/c", "/foo/d", "/foo/c/"}},
		c37In{Kind: "pat", Pattern: "/foo/{{a,b,c},{a,b}}", Paths: []string{"/foo/a", "/foo/c"}},
		c37In{Kind: "pat", Pattern: "/Pictures/{*.{jpg,png},*.{jpg,png,gif}}", Paths: []string{"/Pictures/x.jpg", "/Pictures/x.gif", "/Pictures/x.gif/", "/Pictures/x.bmp"}},
		c37In{Kind: "pat", Pattern: "/{{a},{a,b}}/x", Paths: []string{"/a/x", "/b/x"}},
		c37In{Kind: "pat", Pattern: "/{a{b,c},a{b,c,d},a{b}}", Paths: []string{"/ab", "/ad", "/ac"}},
		c37In{Kind: "pat", Pattern: "/foo/{a{b,c},a{b,c}d}", Paths: []string{"/foo/ab", "/foo/abd", "/foo/acd"}},
		c37In{Kind: "pat", Pattern: "/foo/{x{b,c}{d,e},x{b,c}}", Paths: []string{"/foo/xb", "/foo/xbd", "/foo/xce"}},
		c37In{Kind: "pat", Pattern: "/{{a,b}/*,{a,b}/*{.jpg,.png}}", Paths: []string{"/a/x", "/b/x.png"}})
	// exhaustive small scope: `/` followed by <= k tokens, every clean path of length <= 4 over a b /
	k := 3
	if tier == "thorough" {
		k = 4
	}
	paths := c37Paths(4)
	if tier != "thorough" {
		// quick: every clean path of length <= 3 plus six longer ones (two segments, trailing slash)
		paths = append(c37Paths(3), "/a/b", "/a/a", "/b/a", "/aab", "/ab/", "/a/b/")
	}
	for _, s := range c37Enum(c37Tokens, k) {
		ins = append(ins, c37In{Kind: "pat", Pattern: "/" + s, Paths: paths})
	}
	for j := 0; j < n; j++ {
		switch {
		case j%10 == 9:
			ins = append(ins, c37In{Kind: "pat", Pattern: c37Malformed(r)})
		case j%10 == 4:
			ins = append(ins, c37NestedFamily(r))
		case j%10 == 6:
			ins = append(ins, c37EscapeFamily(r))
		case j%2 == 0:
			p := c37Pattern(r)
			var ps []string
			if pp, err := ParsePathPattern(p); err == nil && pp.NumVariants() > 0 && pp.NumVariants() <= 1000 {
				var vs []string
				pp.RenderAllVariants(func(_ int, v PatternVariant) { vs = append(vs, v.String()) })
				for c := 0; c < 3; c++ {
					q := c37Instantiate(r, vs[r.Intn(len(vs))])
					ps = append(ps, q)
					if strings.HasSuffix(q, "/") {
						ps = append(ps, strings.TrimSuffix(q, "/"))
					} else {
						ps = append(ps, q+"/")
					}
				}
			}
			ps = append(ps, c37Clean("/"+r.Str("ab/", 0, 5)))
			for c := range ps {
				ps[c] = c37Clean(ps[c])
				if ps[c] == "" { // paths are absolute
					ps[c] = "/"
				}
			}
			ins = append(ins, c37In{Kind: "pat", Pattern: p, Paths: ps})
		default:
			np := r.Range(1, 4)
			path := ""
			for c := 0; c < np; c++ {
				path += "/" + r.Str("abc", 1, 4)
			}
			if r.Chance(1, 4) {
				path += "/"
			}
			var vs []string
			segs := strings.Split(strings.Trim(path, "/"), "/")
			switch r.Intn(4) {
			case 0: // variable-width components at the same position matching different lengths: /a/b/*<suffix of the last segment>
				last := segs[len(segs)-1]
				head := "/" + strings.Join(segs[:len(segs)-1], "/")
				if len(segs) > 1 {
					head += "/"
				}
				for _, c := range r.Perm(len(last) + 1) {
					vs = append(vs, head+"*"+last[c:])
				}
				if len(last) > 1 {
					vs = append(vs, head+last[:1]+"*"+last[len(last)-1:], head+last[:1]+"*")
				}
			case 1: // doublestars matching different numbers of segments: /**/<tail of the path>
				for _, c := range r.Perm(len(segs)) {
					vs = append(vs, "/**/"+strings.Join(segs[c:], "/"))
				}
				vs = append(vs, "/**", "/"+segs[0]+"/**")
			default:
				for c := 0; c < 6; c++ {
					vs = append(vs, c37Generalise(r, path))
				}
			}
			if len(vs) > 6 {
				vs = vs[:6]
			}
			for c := len(vs); c < 4; c++ {
				vs = append(vs, c37Generalise(r, path))
			}
			ins = append(ins, c37In{Kind: "prec", Variants: vs, Path: path})
		}
	}
	return ins
}

func TestVerifC37(t *testing.T) { vh.Run(c37Gen, c37Exec) }
