//go:build verif

package strutil_test

import (
	"os/exec"
	"strings"
	"testing"

	"github.com/snapcore/snapd/strutil"
	"github.com/snapcore/snapd/zzverif/vh"
)

type c33In struct {
	A    string `json:"a"`
	B    string `json:"b"`
	Dpkg bool   `json:"dpkg"` // also ask /usr/bin/dpkg
}

type c33Obs struct {
	AB   string `json:"ab"`
	BA   string `json:"ba"`
	Dpkg string `json:"dpkg,omitempty"`
}

const c33Alpha = "01a.~-+:"

func c33Enum(alpha string, maxLen int) []string {
	out := []string{""}
	prev := []string{""}
	for l := 1; l <= maxLen; l++ {
		var cur []string
		for _, p := range prev {
			for i := 0; i < len(alpha); i++ {
				cur = append(cur, p+string(alpha[i]))
			}
		}
		out = append(out, cur...)
		prev = cur
	}
	return out
}

// realistic-looking version: digit start, fragments, optional revision
func c33Version(r *vh.Rand) string {
	var sb strings.Builder
	n := r.Range(1, 5)
	for i := 0; i < n; i++ {
		switch r.Intn(8) {
		case 0:
			sb.WriteString(r.Str("0", 1, 2) + r.Str("0123456789", 0, 3))
		case 1, 2, 3:
			sb.WriteString(r.Str("0123456789", 1, 3))
		case 4:
			sb.WriteString(r.Str("abz", 1, 2))
		case 5:
			sb.WriteString(r.Pick([]string{".", "~", "+", "~~", ".~", "+git", "~rc", "-", ":"}))
		default:
			sb.WriteString(".")
		}
	}
	if r.Chance(1, 3) {
		sb.WriteString("-" + r.Str("0123456789ab.~+", 0, 3))
	}
	return sb.String()
}

func c33Mutate(r *vh.Rand, s string) string {
	switch r.Intn(6) {
	case 0:
		return s + r.Pick([]string{"0", ".0", "~", ".", "00", "-0", "-", "a", "+"})
	case 1:
		if len(s) > 0 {
			return s[:len(s)-1]
		}
	case 2:
		i := r.Intn(len(s) + 1)
		return s[:i] + r.Pick([]string{"0", ".", "~", "a", "1", "-"}) + s[i:]
	case 3:
		return s
	}
	return c33Version(r)
}

func c33Gen(r *vh.Rand, tier string, n int) []c33In {
	var ins []c33In
	maxLen := 2
	all := c33Enum(c33Alpha, maxLen)
	for _, a := range all {
		for _, b := range all {
			if a <= b { // (a,b) and (b,a) are both run by exec
				ins = append(ins, c33In{A: a, B: b})
			}
		}
	}
	if n == 0 {
		n = 1500
	}
	ndpkg := n / 10
	for i := 0; i < n; i++ {
		a := c33Version(r)
		b := c33Mutate(r, a)
		ins = append(ins, c33In{A: a, B: b, Dpkg: i < ndpkg})
	}
	// long numeric fragments: the comparison must stay exact beyond every machine integer width (lengths 17..22 and
	// the values around 2^63, 2^64 and 10^19, 10^20, with and without zero padding), alone and inside versions
	bigs := []string{"9223372036854775807", "9223372036854775808", "18446744073709551615", "18446744073709551616",
		"18446744073709551617", "9999999999999999999", "10000000000000000000", "99999999999999999999",
		"100000000000000000000", "20000000000000000000", "020000000000000000000", "18446744073709551614",
		"28446744073709551615", "99999999999999999998", "0018446744073709551616"}
	for i := 0; i < 6; i++ {
		bigs = append(bigs, r.Str("123456789", 1, 1)+r.Str("0123456789", 16, 21))
	}
	wrapv := func(x string, k int) string {
		switch k % 4 {
		case 0:
			return x
		case 1:
			return "1." + x
		case 2:
			return x + "-1"
		default:
			return "2.0~rc" + x + "+b"
		}
	}
	k := 0
	for _, x := range bigs {
		for _, y := range bigs {
			if x <= y {
				ins = append(ins, c33In{A: wrapv(x, k), B: wrapv(y, k), Dpkg: k%7 == 0})
				k++
			}
		}
	}
	// arbitrary bytes stream (malformed): any byte but NUL handled by the model too
	for i := 0; i < n/10; i++ {
		ins = append(ins, c33In{A: r.Str("\x00\x01 /09:;@AZ[`az{~\x7f\x80\xff", 0, 5), B: r.Str("\x00\x01 /09:;@AZ[`az{~\x7f\x80\xff", 0, 5)})
	}
	return ins
}

func c33Res(a, b string) (string, string) {
	r, err := strutil.VersionCompare(a, b)
	if err != nil {
		return "invalid", "ObsInvalid"
	}
	return vh.CoqZ(int64(r)), "(ObsRes " + vh.CoqZ(int64(r)) + ")"
}

var haveDpkg = func() bool { _, err := exec.LookPath("dpkg"); return err == nil }()

func c33Dpkg(a, b string) (string, bool) {
	if !haveDpkg || a == "" || b == "" || strings.ContainsAny(a+b, "\x00") {
		return "", false
	}
	for _, op := range []struct{ op, res string }{{"lt", "(-1)%Z"}, {"eq", "0%Z"}, {"gt", "1%Z"}} {
		cmd := exec.Command("dpkg", "--compare-versions", a, op.op, b)
		out, err := cmd.CombinedOutput()
		if len(out) > 0 { // warnings: dpkg does not consider the version valid
			return "", false
		}
		if err == nil {
			return op.res, true
		}
	}
	return "", false
}

func c33Exec(in c33In) vh.Out {
	ab, cab := c33Res(in.A, in.B)
	ba, cba := c33Res(in.B, in.A)
	obs := c33Obs{AB: ab, BA: ba}
	d, ok := "", false
	if in.Dpkg {
		d, ok = c33Dpkg(in.A, in.B)
		obs.Dpkg = d
	}
	coq := "(mkCase " + vh.CoqBytes(in.A) + " " + vh.CoqBytes(in.B) + " " + cab + " " + cba + " " + vh.CoqOpt(ok, d) + ")"
	tags := []string{"len" + string(rune('0'+min(len(in.A), 9)))}
	if ab == "invalid" {
		tags = append(tags, "invalid")
	} else {
		tags = append(tags, "res"+ab)
	}
	if ok {
		tags = append(tags, "dpkg-asked")
	}
	return vh.Out{Observed: obs, Coq: coq, NonTrivial: in.A != in.B && ab != "invalid" && len(in.A) > 0 && len(in.B) > 0, Tags: tags}
}

func min(a, b int) int {
	if a < b {
		return a
	}
	return b
}

func TestVerifC33Pairs(t *testing.T) { vh.Run(c33Gen, c33Exec) }

// triples: transitivity on the implementation's own answers
type c33Tri struct {
	A, B, C string
}

func TestVerifC33Triples(t *testing.T) {
	vh.Run(func(r *vh.Rand, tier string, n int) []c33Tri {
		var ins []c33Tri
		all := c33Enum("0a.~-", 2)
		if tier == "thorough" {
			all = c33Enum("01a.~-", 2)
		}
		for _, a := range all {
			for _, b := range all {
				for _, c := range all {
					ins = append(ins, c33Tri{a, b, c})
				}
			}
		}
		if n == 0 {
			n = 1500
		}
		for i := 0; i < n; i++ {
			a := c33Version(r)
			ins = append(ins, c33Tri{a, c33Mutate(r, a), c33Mutate(r, a)})
		}
		return ins
	}, func(in c33Tri) vh.Out {
		ab, e1 := strutil.VersionCompare(in.A, in.B)
		bc, e2 := strutil.VersionCompare(in.B, in.C)
		ac, e3 := strutil.VersionCompare(in.A, in.C)
		if e1 != nil || e2 != nil || e3 != nil {
			return vh.Out{Observed: "invalid", Coq: "(mkT 0 0 0)%Z", Tags: []string{"invalid"}}
		}
		return vh.Out{Observed: []int{ab, bc, ac}, Coq: "(mkT " + vh.CoqZ(int64(ab)) + " " + vh.CoqZ(int64(bc)) + " " + vh.CoqZ(int64(ac)) + ")",
			NonTrivial: ab <= 0 && bc <= 0 && in.A != in.B && in.B != in.C, Tags: []string{"triple"}}
	})
}
