//go:build verif

// C17 driver: runs the real boot package (SetNextBoot, MarkBootSuccessful, InitramfsRunModeSelectSnapsToMount,
// InitramfsRunModeUpdateBootloaderVars) against bootloadertest mocks wrapped in a logging bootloader that records
// every individual write (with a snapshot of the modeenv file) and can cut an operation after the k-th write to
// realise a power loss. The firmware step of UC20 is an interpreter of the kernel_status block of grub.cfg.
package boot_test

import (
	"errors"
	"fmt"
	"os"
	"path/filepath"
	"regexp"
	"strings"
	"testing"

	"github.com/snapcore/snapd/boot"
	"github.com/snapcore/snapd/boot/boottest"
	"github.com/snapcore/snapd/bootloader"
	"github.com/snapcore/snapd/bootloader/bootloadertest"
	"github.com/snapcore/snapd/dirs"
	"github.com/snapcore/snapd/osutil/kcmdline"
	"github.com/snapcore/snapd/release"
	"github.com/snapcore/snapd/snap"
	"github.com/snapcore/snapd/zzverif/vh"
)

type c17Act struct {
	K   string `json:"k"` // uc20: setk setb mark fw boot; uc16: setk setc mark boot
	R   int    `json:"r,omitempty"`
	NT  bool   `json:"nt,omitempty"`
	Cut int    `json:"cut,omitempty"` // 0 = complete; k>0 = power loss after k writes (uc16: before the single write)
	Rs  bool   `json:"rs,omitempty"`  // with cut>0: snapd is restarted (no reboot) instead of a power loss
	TB  bool   `json:"tb,omitempty"`  // boot/fw: the one-shot tryboot flag (only the not-scriptable firmware looks at it)
}

type c17In struct {
	Cfg     string   `json:"cfg"` // uc20 (grub) | ns20 (environment variables, not scriptable) | uc16 | ns
	K0      int      `json:"k0,omitempty"`
	B0      int      `json:"b0,omitempty"`
	Acts    []c17Act `json:"acts,omitempty"`
	Conf    string   `json:"conf,omitempty"`
	Cmdline string   `json:"cmdline,omitempty"`
}

type c17Crash struct{}

var errC17Reboot = errors.New("c17: initramfs asked for a reboot")

func c17Status(s string) string {
	switch s {
	case "":
		return "SDef"
	case "try":
		return "STry"
	case "trying":
		return "STrying"
	}
	return "SBad"
}

func c17Rev(r int) string { return fmt.Sprintf("%d%%N", r) }

func c17ORev(p snap.PlaceInfo) string {
	if p == nil {
		return "None"
	}
	return "(Some " + c17Rev(p.SnapRevision().N) + ")"
}

func c17Place(name string, r int) snap.PlaceInfo {
	p, err := snap.ParsePlaceInfoFromSnapFileName(fmt.Sprintf("%s_%d.snap", name, r))
	if err != nil {
		panic(err)
	}
	return p
}

func c17RevOfFile(fn string) int {
	if fn == "" {
		return -1
	}
	p, err := snap.ParsePlaceInfoFromSnapFileName(fn)
	if err != nil {
		return -2
	}
	return p.SnapRevision().N
}

// ---------------------------------------------------------------------------------------------- grub.cfg interpreter

type c17Grub struct {
	chain         []string // statements of the if/elif chain on $kernel_status
	fallbackEntry bool     // menu entry 1 reboots
}

func c17LoadGrub() *c17Grub {
	p := filepath.Join(vh.Env("VERIF_REPO", "/repo"), "bootloader/assets/data/grub.cfg")
	b, err := os.ReadFile(p)
	if err != nil {
		panic(err)
	}
	g := &c17Grub{}
	in := false
	var rest []string
	lines := strings.Split(string(b), "\n")
	for i, raw := range lines {
		l := strings.TrimSpace(raw)
		if !in && strings.HasPrefix(l, "if ") && strings.Contains(l, "$kernel_status") {
			in = true
		}
		if in {
			g.chain = append(g.chain, l)
			if l == "fi" {
				rest = lines[i+1:]
				break
			}
		}
	}
	if len(g.chain) == 0 {
		panic("c17: no kernel_status chain in grub.cfg")
	}
	ents := regexp.MustCompile(`(?s)menuentry "[^"]*" \{(.*?)\n\}`).FindAllStringSubmatch(strings.Join(rest, "\n"), -1)
	if len(ents) >= 2 {
		for _, l := range strings.Split(ents[1][1], "\n") {
			if strings.TrimSpace(l) == "reboot" {
				g.fallbackEntry = true
			}
		}
	}
	return g
}

var (
	c17ReEq  = regexp.MustCompile(`^(?:if|elif) \[ "\$kernel_status" = "([^"]*)" \]; then$`)
	c17ReN   = regexp.MustCompile(`^(?:if|elif) \[ -n "\$kernel_status" \]; then$`)
	c17ReSet = regexp.MustCompile(`^set ([a-z_]+)="?([^"]*)"?$`)
)

// run executes the chain on the bootenv; returns the kernel image name and whether fallback=1 was set
func (g *c17Grub) run(env map[string]string) (kernel string, fallback bool) {
	vars := map[string]string{"kernel_status": env["kernel_status"], "kernel": "kernel.efi"}
	taken, active := false, false
	for _, l := range g.chain {
		switch {
		case c17ReEq.MatchString(l):
			active = !taken && vars["kernel_status"] == c17ReEq.FindStringSubmatch(l)[1]
			taken = taken || active
		case c17ReN.MatchString(l):
			active = !taken && vars["kernel_status"] != ""
			taken = taken || active
		case l == "fi":
			active = false
		case !active || l == "" || strings.HasPrefix(l, "#") || strings.HasPrefix(l, "echo "):
		case l == "save_env kernel_status":
			env["kernel_status"] = vars["kernel_status"]
		case c17ReSet.MatchString(l):
			m := c17ReSet.FindStringSubmatch(l)
			vars[m[1]] = m[2]
		default:
			panic("c17: grub statement not understood: " + l)
		}
	}
	return vars["kernel"], vars["fallback"] == "1"
}

// ---------------------------------------------------------------------------------------------- UC20 environment

type c17Env struct {
	ns      bool                           // not scriptable, kernel revisions in the bootloader environment
	mbl     *bootloadertest.MockBootloader // always set
	cmdline string                         // mocked /proc/cmdline (ns)
	ebl     *bootloadertest.MockExtractedRunKernelImageBootloader
	items   []string
	lastME  string
	writes  int
	cut     int
	dev     snap.Device
	grub    *c17Grub
	reboots int
}

type c17LogBL struct {
	*bootloadertest.MockExtractedRunKernelImageBootloader
	e *c17Env
}

func (b *c17LogBL) SetBootVars(v map[string]string) error {
	b.e.pre()
	err := b.MockExtractedRunKernelImageBootloader.SetBootVars(v)
	b.e.post()
	return err
}
func (b *c17LogBL) EnableKernel(s snap.PlaceInfo) error {
	b.e.pre()
	err := b.MockExtractedRunKernelImageBootloader.EnableKernel(s)
	b.e.post()
	return err
}
func (b *c17LogBL) EnableTryKernel(s snap.PlaceInfo) error {
	b.e.pre()
	err := b.MockExtractedRunKernelImageBootloader.EnableTryKernel(s)
	b.e.post()
	return err
}
func (b *c17LogBL) DisableTryKernel() error {
	b.e.pre()
	err := b.MockExtractedRunKernelImageBootloader.DisableTryKernel()
	b.e.post()
	return err
}

// not scriptable configuration: plain environment variables (boot uses envRefExtractedKernelBootloaderKernelState)
type c17LogNS struct {
	*bootloadertest.MockNotScriptableBootloader
	e *c17Env
}

func (b *c17LogNS) SetBootVars(v map[string]string) error {
	b.e.pre()
	err := b.MockNotScriptableBootloader.SetBootVars(v)
	b.e.post()
	return err
}

func (e *c17Env) modeenvBytes() string {
	b, _ := os.ReadFile(dirs.SnapModeenvFileUnder(dirs.GlobalRootDir))
	return string(b)
}

// a modeenv write is detected at the next bootloader call (or at the end of the operation)
func (e *c17Env) pre() {
	if cur := e.modeenvBytes(); cur != e.lastME {
		e.lastME = cur
		e.post()
	}
}

func (e *c17Env) post() {
	e.writes++
	e.items = append(e.items, "OS "+e.snapshot())
	if e.cut > 0 && e.writes == e.cut {
		panic(c17Crash{})
	}
}

func (e *c17Env) snapshot() string {
	m, err := boot.ReadModeenv("")
	if err != nil {
		panic(err)
	}
	var k, tk snap.PlaceInfo
	if e.ns {
		k, err = snap.ParsePlaceInfoFromSnapFileName(e.mbl.BootVars["snap_kernel"])
		if err != nil {
			panic(err)
		}
		if v := e.mbl.BootVars["snap_try_kernel"]; v != "" {
			tk, err = snap.ParsePlaceInfoFromSnapFileName(v)
			if err != nil {
				panic(err)
			}
		}
	} else {
		k, err = e.ebl.Kernel()
		if err != nil {
			panic(err)
		}
		tk, err = e.ebl.TryKernel()
		if err != nil {
			tk = nil
		}
	}
	var ck []string
	for _, f := range m.CurrentKernels {
		ck = append(ck, c17Rev(c17RevOfFile(f)))
	}
	tb := "None"
	if m.TryBase != "" {
		tb = "(Some " + c17Rev(c17RevOfFile(m.TryBase)) + ")"
	}
	me := fmt.Sprintf("{| m_base := %s; m_try := %s; m_bst := %s; m_ck := %s |}",
		c17Rev(c17RevOfFile(m.Base)), tb, c17Status(m.BaseStatus), vh.CoqList(ck))
	return fmt.Sprintf("{| ks := %s; kl := %s; tkl := %s; me := %s |}",
		c17Status(e.mbl.BootVars["kernel_status"]), c17Rev(k.SnapRevision().N), c17ORev(tk), me)
}

func (e *c17Env) runOp(f func() error) (crashed bool, err error) {
	e.lastME = e.modeenvBytes()
	e.writes = 0
	defer func() {
		if r := recover(); r != nil {
			if _, ok := r.(c17Crash); ok {
				crashed = true
				return
			}
			panic(r)
		}
	}()
	err = f()
	e.pre()
	return
}

const (
	c17KernelName = "pc-kernel"
	c17BaseName   = "core20"
	c17MaxRev     = 6
)

func c17Setup20(t *testing.T, ns bool, k0, b0 int) *c17Env {
	root := t.TempDir()
	dirs.SetRootDir(root)
	e := &c17Env{grub: c17TheGrub}
	e.ns = ns
	e.mbl = bootloadertest.Mock("mock", filepath.Join(root, "boot"))
	if ns {
		e.mbl.BootVars["kernel_status"] = ""
		e.mbl.BootVars["snap_kernel"] = fmt.Sprintf("%s_%d.snap", c17KernelName, k0)
		e.mbl.BootVars["snap_try_kernel"] = ""
		bootloader.Force(&c17LogNS{MockNotScriptableBootloader: e.mbl.WithNotScriptable(), e: e})
		e.cmdline = filepath.Join(root, "cmdline")
		if err := os.WriteFile(e.cmdline, []byte("snapd_recovery_mode=run"), 0644); err != nil {
			t.Fatal(err)
		}
	} else {
		e.ebl = e.mbl.WithExtractedRunKernelImage()
		e.ebl.SetEnabledKernel(c17Place(c17KernelName, k0))
		bootloader.Force(&c17LogBL{MockExtractedRunKernelImageBootloader: e.ebl, e: e})
	}
	e.dev = boottest.MockUC20Device("run", nil)
	m := &boot.Modeenv{Mode: "run", Base: fmt.Sprintf("%s_%d.snap", c17BaseName, b0),
		CurrentKernels: []string{fmt.Sprintf("%s_%d.snap", c17KernelName, k0)},
		ModelSignKeyID: e.dev.Model().SignKeyID()}
	if err := m.WriteTo(""); err != nil {
		t.Fatal(err)
	}
	blobs := dirs.SnapBlobDirUnder(root)
	if err := os.MkdirAll(blobs, 0755); err != nil {
		t.Fatal(err)
	}
	for r := 1; r <= c17MaxRev; r++ {
		for _, n := range []string{c17KernelName, c17BaseName} {
			if err := os.WriteFile(filepath.Join(blobs, fmt.Sprintf("%s_%d.snap", n, r)), nil, 0644); err != nil {
				t.Fatal(err)
			}
		}
	}
	return e
}

var c17TheGrub *c17Grub

// consecutive identical state snapshots (a write that changed nothing) are printed once; the model side removes
// stutter in the same way (Boot.dedup)
func c17Dedup(items []string) []string {
	var out []string
	for _, it := range items {
		if len(out) > 0 && strings.HasPrefix(it, "OS ") && out[len(out)-1] == it {
			continue
		}
		out = append(out, it)
	}
	return out
}

func c17Has(l []int, r int) bool {
	for _, x := range l {
		if x == r {
			return true
		}
	}
	return false
}

func c17Exec20(t *testing.T, in c17In) vh.Out {
	ns := in.Cfg == "ns20"
	e := c17Setup20(t, ns, in.K0, in.B0)
	if ns {
		defer kcmdline.MockProcCmdline(e.cmdline)()
	}
	defer bootloader.Force(nil)
	defer dirs.SetRootDir("")
	restore := boot.MockInitramfsReboot(func() error { e.reboots++; return errC17Reboot })
	defer restore()

	running := true
	bootedK, bootedB := in.K0, in.B0
	trustedK, trustedB := []int{in.K0}, []int{in.B0}
	var acts []string
	tags := map[string]bool{}
	nboots, ncuts := 0, 0

	for _, a := range in.Acts {
		isOp := a.K == "setk" || a.K == "setb" || a.K == "mark"
		if isOp && !running {
			continue // snapd is not up: the generator is asked for a boot first
		}
		if a.K == "setk" && a.NT && !c17Has(trustedK, a.R) || a.K == "setb" && a.NT && !c17Has(trustedB, a.R) {
			continue // an undo only ever goes back to a revision that was known-good
		}
		idx := len(acts)
		e.items = append(e.items, fmt.Sprintf("OAct %d%%N", idx))
		cut := "None"
		if a.Cut > 0 {
			cut = fmt.Sprintf("(Some %d%%nat)", a.Cut)
		}
		// a restart inside a kernel setNext issued while kernel_status is still trying is outside the model
		// (snapd marks the boot successful first): such a cut is a power loss
		rs := isOp && a.Cut > 0 && a.Rs && !(a.K == "setk" && e.mbl.BootVars["kernel_status"] == "trying")
		opTerm := func(o string) string {
			if rs {
				return fmt.Sprintf("AOpR %s %d%%nat", o, a.Cut)
			}
			return fmt.Sprintf("AOp %s %s", o, cut)
		}
		e.cut = a.Cut
		switch a.K {
		case "setk", "setb":
			typ, name, ctor := snap.TypeKernel, c17KernelName, "SetK"
			if a.K == "setb" {
				typ, name, ctor = snap.TypeBase, c17BaseName, "SetB"
			}
			acts = append(acts, opTerm(fmt.Sprintf("(%s %s %s)", ctor, c17Rev(a.R), vh.CoqBool(a.NT))))
			bp := boot.Participant(c17Place(name, a.R), typ, e.dev)
			if bp.IsTrivial() {
				panic("c17: trivial boot participant")
			}
			crashed, err := e.runOp(func() error {
				_, err := bp.SetNextBoot(boot.NextBootContext{BootWithoutTry: a.NT})
				return err
			})
			if err != nil && !crashed {
				e.items = append(e.items, "OErr")
			}
			tags[a.K] = true
			if a.NT {
				tags["undo"] = true
			}
		case "mark":
			acts = append(acts, opTerm("Mark"))
			trustedK = append(trustedK, bootedK)
			trustedB = append(trustedB, bootedB)
			crashed, err := e.runOp(func() error { return boot.MarkBootSuccessful(e.dev) })
			if err != nil && !crashed {
				e.items = append(e.items, "OErr")
			}
			tags["mark"] = true
		case "fw":
			acts = append(acts, "AFw "+vh.CoqBool(a.TB))
			running = false
			e.firmware(a.TB)
		case "boot":
			acts = append(acts, "ABoot "+vh.CoqBool(a.TB))
			running = false
			nboots++
			for round := 0; round < 3; round++ {
				img, ok := e.firmware(a.TB && round == 0)
				if !ok {
					if img == "reboot" {
						continue
					}
					break
				}
				k, b, res := e.initramfs()
				if res == "mount" {
					running, bootedK, bootedB = true, k, b
					if !c17Has(trustedK, k) || !c17Has(trustedB, b) {
						tags["trial-boot"] = true
					}
					break
				}
				if res == "dead" {
					tags["dead-end"] = true
					break
				}
				tags["initramfs-reboot"] = true
			}
		default:
			panic("c17: unknown action " + a.K)
		}
		if isOp && a.Cut > 0 {
			if rs {
				tags["restart"] = true // the re-run is whatever operation comes next in the history
			} else {
				running = false
			}
			ncuts++
		}
	}
	cf := "Grub"
	if ns {
		cf = "EnvNS"
	}
	coq := fmt.Sprintf("(Case20 %s %s %s %s %s)", cf, c17Rev(in.K0), c17Rev(in.B0), vh.CoqList(acts), vh.CoqList(c17Dedup(e.items)))
	var tl []string
	for k := range tags {
		tl = append(tl, k)
	}
	tl = append(tl, in.Cfg)
	return vh.Out{Observed: e.items, Coq: coq, NonTrivial: nboots > 0 && (ncuts > 0 || tags["trial-boot"]), Tags: tl}
}

// firmware: grub.cfg. ok=false with img "reboot" (fallback entry) or "stuck"
func (e *c17Env) firmware(tb bool) (img string, ok bool) {
	if e.ns {
		return e.firmwareNS(tb)
	}
	kernel, fallback := e.grub.run(e.ebl.BootVars)
	e.items = append(e.items, "OS "+e.snapshot())
	var p snap.PlaceInfo
	var err error
	if kernel == "try-kernel.efi" {
		p, err = e.ebl.TryKernel()
	} else {
		p, err = e.ebl.Kernel()
	}
	if err != nil || p == nil {
		if fallback && e.grub.fallbackEntry {
			e.items = append(e.items, "OReboot")
			return "reboot", false
		}
		e.items = append(e.items, "ODead")
		return "stuck", false
	}
	return p.Filename(), true
}

// firmware that cannot run scripts (Raspberry Pi; not in the repository, modelled): with the tryboot flag and
// kernel_status=try it starts snap_try_kernel with kernel_status=trying on the command line (falling back to a normal
// boot if there is none), otherwise snap_kernel. Then the first thing the initramfs does, for real:
// boot.InitramfsRunModeUpdateBootloaderVars -> updateNotScriptableBootloaderStatus.
func (e *c17Env) firmwareNS(tb bool) (img string, ok bool) {
	cl := "snapd_recovery_mode=run"
	if tb && e.mbl.BootVars["kernel_status"] == "try" {
		img = e.mbl.BootVars["snap_try_kernel"]
		if img == "" {
			e.items = append(e.items, "OS "+e.snapshot(), "OReboot")
			return "reboot", false
		}
		cl += " kernel_status=trying"
	} else {
		img = e.mbl.BootVars["snap_kernel"]
	}
	if err := os.WriteFile(e.cmdline, []byte(cl), 0644); err != nil {
		panic(err)
	}
	if err := boot.InitramfsRunModeUpdateBootloaderVars(); err != nil {
		e.items = append(e.items, "OErr")
	}
	e.items = append(e.items, "OS "+e.snapshot())
	return img, true
}

// initramfs: the real selection functions, in snap-bootstrap's order (base, gadget, kernel)
func (e *c17Env) initramfs() (k, b int, res string) {
	m, err := boot.ReadModeenv("")
	if err != nil {
		panic(err)
	}
	before := e.reboots
	mounts, err := boot.InitramfsRunModeSelectSnapsToMount([]snap.Type{snap.TypeBase, snap.TypeGadget, snap.TypeKernel}, m, dirs.GlobalRootDir)
	e.items = append(e.items, "OS "+e.snapshot())
	if err != nil {
		if e.reboots > before {
			e.items = append(e.items, "OReboot")
			return 0, 0, "reboot"
		}
		e.items = append(e.items, "ODead")
		return 0, 0, "dead"
	}
	k = mounts[snap.TypeKernel].SnapRevision().N
	b = mounts[snap.TypeBase].SnapRevision().N
	e.items = append(e.items, fmt.Sprintf("OBoot %s %s", c17Rev(k), c17Rev(b)))
	return k, b, "mount"
}

// ---------------------------------------------------------------------------------------------- UC16/18

type c17LogBL16 struct {
	*bootloadertest.MockBootloader
	crashBefore bool
	items       *[]string
}

func c17Snap16(b *bootloadertest.MockBootloader) string {
	o := func(v string) string {
		if v == "" {
			return "None"
		}
		return "(Some " + c17Rev(c17RevOfFile(v)) + ")"
	}
	return fmt.Sprintf("{| mode := %s; sk := %s; stk := %s; sc := %s; stc := %s |}", c17Status(b.BootVars["snap_mode"]),
		c17Rev(c17RevOfFile(b.BootVars["snap_kernel"])), o(b.BootVars["snap_try_kernel"]),
		c17Rev(c17RevOfFile(b.BootVars["snap_core"])), o(b.BootVars["snap_try_core"]))
}

func (b *c17LogBL16) SetBootVars(v map[string]string) error {
	if b.crashBefore {
		panic(c17Crash{})
	}
	err := b.MockBootloader.SetBootVars(v)
	*b.items = append(*b.items, "O16S "+c17Snap16(b.MockBootloader))
	return err
}

func c17Exec16(t *testing.T, in c17In) vh.Out {
	root := t.TempDir()
	dirs.SetRootDir(root)
	defer dirs.SetRootDir("")
	var items []string
	mbl := bootloadertest.Mock("mock", filepath.Join(root, "boot"))
	lbl := &c17LogBL16{MockBootloader: mbl, items: &items}
	bootloader.Force(lbl)
	defer bootloader.Force(nil)
	const name = "core" // boottest.MockDevice uses one name for kernel and base
	dev := boottest.MockDevice(name)
	fn := func(r int) string { return fmt.Sprintf("%s_%d.snap", name, r) }
	mbl.BootVars["snap_mode"] = ""
	mbl.BootVars["snap_kernel"] = fn(in.K0)
	mbl.BootVars["snap_core"] = fn(in.B0)
	mbl.BootVars["snap_try_kernel"] = ""
	mbl.BootVars["snap_try_core"] = ""

	running := true
	bootedK, bootedC := in.K0, in.B0
	trustedK, trustedC := []int{in.K0}, []int{in.B0}
	var acts []string
	tags := map[string]bool{"uc16": true}
	nboots, ncuts, trial := 0, 0, false
	for _, a := range in.Acts {
		isOp := a.K != "boot"
		if isOp && !running {
			continue
		}
		if a.K == "setk" && a.NT && !c17Has(trustedK, a.R) || a.K == "setc" && a.NT && !c17Has(trustedC, a.R) {
			continue
		}
		items = append(items, fmt.Sprintf("O16Act %d%%N", len(acts)))
		lbl.crashBefore = a.Cut > 0
		var f func() error
		switch a.K {
		case "setk", "setc":
			typ := snap.TypeKernel
			if a.K == "setc" {
				typ = snap.TypeBase
			}
			acts = append(acts, fmt.Sprintf("A16Op (Set16 %s %s %s) %s", vh.CoqBool(a.K == "setk"), c17Rev(a.R), vh.CoqBool(a.NT), vh.CoqBool(a.Cut > 0)))
			bp := boot.Participant(c17Place(name, a.R), typ, dev)
			if bp.IsTrivial() {
				panic("c17: trivial boot participant (uc16)")
			}
			f = func() error {
				_, err := bp.SetNextBoot(boot.NextBootContext{BootWithoutTry: a.NT})
				return err
			}
			tags[a.K] = true
		case "mark":
			acts = append(acts, "A16Op Mark16 "+vh.CoqBool(a.Cut > 0))
			if a.Cut == 0 {
				trustedK = append(trustedK, bootedK)
				trustedC = append(trustedC, bootedC)
			}
			f = func() error { return boot.MarkBootSuccessful(dev) }
			tags["mark"] = true
		case "boot":
			acts = append(acts, "A16Boot")
			nboots++
			// the gadget's boot script (not in this repository), per the protocol comment in boot/boot.go
			k, c := mbl.BootVars["snap_kernel"], mbl.BootVars["snap_core"]
			switch mbl.BootVars["snap_mode"] {
			case "try":
				mbl.BootVars["snap_mode"] = "trying"
				if v := mbl.BootVars["snap_try_kernel"]; v != "" {
					k = v
				}
				if v := mbl.BootVars["snap_try_core"]; v != "" {
					c = v
				}
			case "trying":
				mbl.BootVars["snap_mode"] = ""
			}
			items = append(items, "O16S "+c17Snap16(mbl))
			bootedK, bootedC = c17RevOfFile(k), c17RevOfFile(c)
			items = append(items, fmt.Sprintf("O16Boot %s %s", c17Rev(bootedK), c17Rev(bootedC)))
			running = true
			if !c17Has(trustedK, bootedK) || !c17Has(trustedC, bootedC) {
				trial = true
			}
			continue
		default:
			panic("c17: unknown uc16 action " + a.K)
		}
		crashed := false
		var err error
		func() {
			defer func() {
				if r := recover(); r != nil {
					if _, ok := r.(c17Crash); ok {
						crashed = true
						return
					}
					panic(r)
				}
			}()
			err = f()
		}()
		if err != nil && !crashed {
			items = append(items, "O16Err")
		}
		if a.Cut > 0 {
			// power loss before the write (if the operation writes at all): the machine is off either way
			running = false
			ncuts++
		}
	}
	coq := fmt.Sprintf("(Case16 %s %s %s %s)", c17Rev(in.K0), c17Rev(in.B0), vh.CoqList(acts), vh.CoqList(items))
	var tl []string
	for k := range tags {
		tl = append(tl, k)
	}
	if trial {
		tl = append(tl, "trial-boot")
	}
	return vh.Out{Observed: items, Coq: coq, NonTrivial: nboots > 0 && trial, Tags: tl}
}

// ---------------------------------------------------------------------------------------------- not scriptable (piboot)

type c17NSBL struct {
	*bootloadertest.MockNotScriptableBootloader
	wrote *string
}

func (b *c17NSBL) SetBootVarsFromInitramfs(v map[string]string) error {
	if s, ok := v["kernel_status"]; ok {
		x := "(Some " + c17Status(s) + ")"
		*b.wrote = x
	}
	return b.MockNotScriptableBootloader.SetBootVarsFromInitramfs(v)
}

func c17ExecNS(t *testing.T, in c17In) vh.Out {
	root := t.TempDir()
	dirs.SetRootDir(root)
	defer dirs.SetRootDir("")
	cf := filepath.Join(root, "cmdline")
	cl := "snapd_recovery_mode=run"
	if in.Cmdline != "" {
		cl += " kernel_status=" + in.Cmdline
	}
	if err := os.WriteFile(cf, []byte(cl), 0644); err != nil {
		t.Fatal(err)
	}
	defer kcmdline.MockProcCmdline(cf)()
	wrote := "None"
	mbl := bootloadertest.Mock("mock", filepath.Join(root, "boot"))
	mbl.BootVars["kernel_status"] = in.Conf
	bootloader.Force(&c17NSBL{MockNotScriptableBootloader: mbl.WithNotScriptable(), wrote: &wrote})
	defer bootloader.Force(nil)
	if err := boot.InitramfsRunModeUpdateBootloaderVars(); err != nil {
		wrote = "(Some SBad)"
	}
	coq := fmt.Sprintf("(CaseNS %s %s %s)", c17Status(in.Conf), c17Status(in.Cmdline), wrote)
	return vh.Out{Observed: wrote, Coq: coq, NonTrivial: in.Conf != "", Tags: []string{"not-scriptable"}}
}

// ---------------------------------------------------------------------------------------------- generators

func c17Ops20() []c17Act {
	var ops []c17Act
	for _, r := range []int{1, 2, 3} {
		ops = append(ops, c17Act{K: "setk", R: r}, c17Act{K: "setk", R: r, NT: true})
	}
	for _, r := range []int{1, 2} {
		ops = append(ops, c17Act{K: "setb", R: r}, c17Act{K: "setb", R: r, NT: true})
	}
	ops = append(ops, c17Act{K: "mark"})
	return ops
}

func c17Gen(r *vh.Rand, tier string, n int) []c17In {
	var ins []c17In
	// B: orderly reboot (tryboot flag passed on; grub ignores it), Bp: boot after a power loss
	B, Bp, M := c17Act{K: "boot", TB: true}, c17Act{K: "boot"}, c17Act{K: "mark"}
	sk := func(r int) c17Act { return c17Act{K: "setk", R: r} }
	sb := func(r int) c17Act { return c17Act{K: "setb", R: r} }
	// systematic: every operation cut at every write, in a set of protocol contexts, followed by boots and marks
	ctxs := [][]c17Act{
		{},
		{sk(2)},
		{sk(2), B},
		{sk(2), B, M},
		{sb(2)},
		{sb(2), B},
		{sk(2), sb(2), B},
		{sk(2), B, B},
		{sk(2), B, sk(3)},
		{sk(2), {K: "fw", TB: true}, B},
		{sk(2), B, M, sk(3), B},
	}
	tails := [][]c17Act{{B, M, B}}
	if tier == "thorough" {
		tails = append(tails, []c17Act{B, B, M}, []c17Act{B, {K: "fw"}, B, M, B}, []c17Act{B, M, sk(1), B, M})
	}
	for _, ctx := range ctxs {
		for _, op := range c17Ops20() {
			for cut := 0; cut <= 4; cut++ {
				for _, tail := range tails {
					o := op
					o.Cut = cut
					acts := append(append(append([]c17Act{}, ctx...), o), tail...)
					if cut > 0 {
						acts[len(ctx)+1] = Bp
					}
					ins = append(ins, c17In{Cfg: "uc20", K0: 1, B0: 1, Acts: acts})
					// the same history on the not-scriptable configuration (kernel operations and mark; the base is
					// handled by the same modeenv code)
					if op.K != "setb" && cut <= 3 {
						ins = append(ins, c17In{Cfg: "ns20", K0: 1, B0: 1, Acts: acts})
					}
					if cut > 0 && cut <= 3 {
						// snapd restart instead of the power loss: mark is re-entered first, then the task re-runs
						or := o
						or.Rs = true
						full := op
						ra := append(append([]c17Act{}, ctx...), or, M, full, B, M, B)
						ins = append(ins, c17In{Cfg: "uc20", K0: 1, B0: 1, Acts: ra})
						rb := append(append([]c17Act{}, ctx...), or, full, B, M, B)
						cfg := "uc20"
						if op.K != "setb" {
							cfg = "ns20"
						}
						ins = append(ins, c17In{Cfg: cfg, K0: 1, B0: 1, Acts: rb})
						// a kernel undo cut by a restart and then a reboot BEFORE the undo has been re-run (with and
						// without another operation in between): the recorded finding's window entered through a restart
						if op.K == "setk" && op.NT {
							rc := append(append([]c17Act{}, ctx...), or, Bp, M, B)
							ins = append(ins, c17In{Cfg: cfg, K0: 1, B0: 1, Acts: rc})
							if cut == 1 {
								rd := append(append([]c17Act{}, ctx...), or, sb(1), Bp, M, B)
								ins = append(ins, c17In{Cfg: "uc20", K0: 1, B0: 1, Acts: rd})
							}
						}
					}
				}
			}
		}
	}
	// random UC20 histories
	if n == 0 {
		n = 120
	}
	for i := 0; i < n; i++ {
		var acts []c17Act
		l := r.Range(3, 14)
		for j := 0; j < l; j++ {
			switch x := r.Intn(10); {
			case x < 2:
				acts = append(acts, B)
			case x == 2:
				acts = append(acts, c17Act{K: "fw"}, B)
			case x < 5:
				a := M
				if r.Chance(1, 3) {
					a.Cut = r.Range(1, 4)
				}
				acts = append(acts, a)
				if a.Cut > 0 {
					acts = append(acts, B)
				}
			default:
				a := c17Act{K: "setk", R: r.Range(1, 4), NT: r.Chance(1, 4)}
				if r.Chance(1, 3) {
					a = c17Act{K: "setb", R: r.Range(1, 3), NT: r.Chance(1, 4)}
				}
				if r.Chance(1, 3) {
					a.Cut = r.Range(1, 4)
				}
				acts = append(acts, a)
				if a.Cut > 0 || r.Chance(1, 2) {
					acts = append(acts, B)
				}
			}
		}
		for j := range acts {
			if acts[j].K == "boot" || acts[j].K == "fw" {
				acts[j].TB = r.Chance(2, 3)
			} else if acts[j].Cut > 0 {
				acts[j].Rs = r.Chance(1, 2)
			}
		}
		cfg := "uc20"
		if i%3 == 2 {
			cfg = "ns20"
		}
		ins = append(ins, c17In{Cfg: cfg, K0: r.Range(1, 2), B0: 1, Acts: acts})
	}
	// UC16: all histories of length <= 3 over a small alphabet, each followed by boot, mark, boot; plus random ones
	var alpha []c17Act
	for _, k := range []string{"setk", "setc"} {
		alpha = append(alpha, c17Act{K: k, R: 2}, c17Act{K: k, R: 1}, c17Act{K: k, R: 1, NT: true}, c17Act{K: k, R: 2, Cut: 1})
	}
	alpha = append(alpha, M, c17Act{K: "mark", Cut: 1}, B)
	var rec func(prefix []c17Act, d int)
	rec = func(prefix []c17Act, d int) {
		acts := append(append([]c17Act{}, prefix...), B, M, B)
		ins = append(ins, c17In{Cfg: "uc16", K0: 1, B0: 1, Acts: acts})
		if d == 0 {
			return
		}
		for _, a := range alpha {
			rec(append(append([]c17Act{}, prefix...), a), d-1)
		}
	}
	depth := 2
	if tier == "thorough" {
		depth = 3
	}
	rec(nil, depth)
	for i := 0; i < n/2; i++ {
		var acts []c17Act
		l := r.Range(3, 14)
		for j := 0; j < l; j++ {
			switch x := r.Intn(10); {
			case x < 3:
				acts = append(acts, B)
			case x < 5:
				a := M
				if r.Chance(1, 4) {
					a.Cut = 1
				}
				acts = append(acts, a)
			default:
				a := c17Act{K: r.Pick([]string{"setk", "setc"}), R: r.Range(1, 4), NT: r.Chance(1, 4)}
				if r.Chance(1, 4) {
					a.Cut = 1
				}
				acts = append(acts, a)
			}
			if acts[len(acts)-1].Cut > 0 {
				acts = append(acts, B)
			}
		}
		ins = append(ins, c17In{Cfg: "uc16", K0: 1, B0: r.Range(1, 2), Acts: acts})
	}
	// not scriptable: the complete domain
	sts := []string{"", "try", "trying", "bogus"}
	for _, c := range sts {
		for _, l := range sts {
			ins = append(ins, c17In{Cfg: "ns", Conf: c, Cmdline: l})
		}
	}
	return ins
}

func TestVerifC17(t *testing.T) {
	defer release.MockOnClassic(false)()
	c17TheGrub = c17LoadGrub()
	vh.Run(c17Gen, func(in c17In) vh.Out {
		switch in.Cfg {
		case "uc20", "ns20":
			return c17Exec20(t, in)
		case "uc16":
			return c17Exec16(t, in)
		case "ns":
			return c17ExecNS(t, in)
		}
		panic("c17: unknown configuration " + in.Cfg)
	})
}
