//go:build verif

// Driver for C08 (state level): drives the real state.State.AddNotice / State.Notices through histories of
// additions (mocked server clock: same tick, backwards, forwards; repeat-after windows; rarely an explicit
// AddNoticeOptions.Time) interleaved with polls of several simulated clients that follow the cursor protocol
// (After := last-repeated of the last notice received). Prints each history with what was observed after every
// operation as a Coq term of type V.models.Notices.case. Times are nanoseconds relative to a base instant.
package main

import (
	"bytes"
	"encoding/json"
	"fmt"
	"strconv"
	"strings"
	"time"

	"github.com/snapcore/snapd/overlord/state"
	"github.com/snapcore/snapd/zzverif/vh"
)

type filterIn struct {
	User  *uint32  `json:"user"`
	Types []string `json:"types"`
	Keys  []string `json:"keys"`
	After *int64   `json:"after"`
}

type addIn struct {
	Clock int64   `json:"clock"`
	User  *uint32 `json:"user"`
	Type  string  `json:"type"`
	Key   string  `json:"key"`
	RA    int64   `json:"ra"`
	Time  *int64  `json:"time"`
}

type opIn struct {
	Add     *addIn `json:"add,omitempty"`
	Poll    *int   `json:"poll,omitempty"`
	Restart bool   `json:"restart,omitempty"` // snapd restarts: last checkpoint payload -> state.ReadState
}

type in struct {
	Clients []filterIn `json:"clients"`
	Ops     []opIn     `json:"ops"`
}

type onotice struct {
	ID      uint64  `json:"id"`
	User    *uint32 `json:"user"`
	Type    string  `json:"type"`
	Key     string  `json:"key"`
	LR      int64   `json:"lr"`
	LastOcc int64   `json:"lo"`
	Occ     uint64  `json:"occ"`
}

type obsOut struct {
	Op   string    `json:"op"`
	Add  *onotice  `json:"add,omitempty"`
	Err  bool      `json:"err,omitempty"`
	Poll []onotice `json:"poll,omitempty"`
	N    int       `json:"n,omitempty"` // restart: notices in the reloaded state
}

// the state backend: keeps the last checkpoint payload, as overlordStateBackend writes it to state.json
type cpBackend struct{ data []byte }

func (b *cpBackend) Checkpoint(data []byte) error {
	b.data = append([]byte(nil), data...)
	return nil
}
func (b *cpBackend) EnsureBefore(time.Duration) {}

// ---------------------------------------------------------------- Coq rendering

func coqOptN(u *uint32) string {
	if u == nil {
		return "None"
	}
	return "(Some " + vh.CoqN(uint64(*u)) + ")"
}
func coqOptZ(z *int64) string {
	if z == nil {
		return "None"
	}
	return "(Some " + vh.CoqZ(*z) + ")"
}
func coqBytesList(l []string, f func(string) string) string {
	items := make([]string, len(l))
	for i, s := range l {
		items[i] = f(s)
	}
	return vh.CoqList(items)
}

// string literals are slow to parse in Coq: the model names the valid types (Notices.ty) and the generator's keys (Notices.ky)
func coqType(t string) string {
	for i, v := range validTypes {
		if v == t {
			return fmt.Sprintf("(ty %d)", i)
		}
	}
	return vh.CoqBytes(t)
}
func coqKey(k string) string {
	for i, v := range genKeys {
		if v == k {
			return fmt.Sprintf("(ky %d)", i)
		}
	}
	return vh.CoqBytes(k)
}
func coqFilter(f filterIn) string {
	return "(mkF " + coqOptN(f.User) + " " + coqBytesList(f.Types, coqType) + " " + coqBytesList(f.Keys, coqKey) + " " + coqOptZ(f.After) + ")"
}
func coqAdd(a *addIn) string {
	return "(mkA " + vh.CoqZ(a.Clock) + " " + coqOptN(a.User) + " " + coqType(a.Type) + " " + coqKey(a.Key) + " " +
		vh.CoqZ(a.RA) + " " + coqOptZ(a.Time) + ")"
}
func coqONotice(o onotice) string {
	return "(mkO " + vh.CoqN(o.ID) + " " + coqOptN(o.User) + " " + coqType(o.Type) + " " + coqKey(o.Key) + " " +
		vh.CoqZ(o.LR) + " " + vh.CoqZ(o.LastOcc) + " " + vh.CoqN(o.Occ) + ")"
}

// ---------------------------------------------------------------- observation

type jsonNotice struct {
	ID           string    `json:"id"`
	UserID       *uint32   `json:"user-id"`
	Type         string    `json:"type"`
	Key          string    `json:"key"`
	LastOccurred time.Time `json:"last-occurred"`
	LastRepeated time.Time `json:"last-repeated"`
	Occurrences  uint64    `json:"occurrences"`
}

// what a client sees of a notice: its JSON form
func observe(n *state.Notice, base time.Time) (onotice, time.Time) {
	data, err := json.Marshal(n)
	if err != nil {
		panic(err)
	}
	var jn jsonNotice
	if err := json.Unmarshal(data, &jn); err != nil {
		panic(err)
	}
	id, err := strconv.ParseUint(jn.ID, 10, 64)
	if err != nil {
		panic(err)
	}
	return onotice{ID: id, User: jn.UserID, Type: jn.Type, Key: jn.Key, LR: int64(jn.LastRepeated.Sub(base)),
		LastOcc: int64(jn.LastOccurred.Sub(base)), Occ: jn.Occurrences}, jn.LastRepeated
}

func exec(h in) vh.Out {
	// expiry uses the real wall clock (7 days): keep every mocked instant within hours of now
	base := time.Now().UTC().Truncate(time.Second)
	backend := &cpBackend{}
	st := state.New(backend)
	st.Lock()
	defer func() { st.Unlock() }()

	cursors := make([]time.Time, len(h.Clients))
	for i, f := range h.Clients {
		if f.After != nil {
			cursors[i] = base.Add(time.Duration(*f.After))
		}
	}
	var observed []obsOut
	var coqOps, coqObs []string
	tags := map[string]bool{}
	var prevClock *int64
	polls, deliveredAfterRepeat := 0, 0
	seenIDs := map[uint64]int64{}
	for _, op := range h.Ops {
		switch {
		case op.Add != nil:
			a := op.Add
			coqOps = append(coqOps, "OAdd "+coqAdd(a))
			if prevClock != nil {
				if a.Clock == *prevClock {
					tags["clock-same-tick"] = true
				} else if a.Clock < *prevClock {
					tags["clock-backwards"] = true
				}
			}
			c := a.Clock
			prevClock = &c
			restore := state.MockTime(base.Add(time.Duration(a.Clock)))
			opts := &state.AddNoticeOptions{RepeatAfter: time.Duration(a.RA)}
			if a.Time != nil {
				opts.Time = base.Add(time.Duration(*a.Time))
				tags["explicit-time"] = true
			}
			if a.RA != 0 {
				tags["repeat-after"] = true
			}
			id, err := st.AddNotice(a.User, state.NoticeType(a.Type), a.Key, opts)
			restore()
			if err != nil {
				tags["add-error"] = true
				observed = append(observed, obsOut{Op: "add", Err: true})
				coqObs = append(coqObs, "BAdd None")
				continue
			}
			n := st.Notice(id)
			if n == nil {
				panic("notice just added not found: " + id)
			}
			o, _ := observe(n, base)
			if old, ok := seenIDs[o.ID]; ok {
				if old != o.LR {
					tags["repeated"] = true
				} else {
					tags["repeat-suppressed"] = true
				}
			}
			seenIDs[o.ID] = o.LR
			observed = append(observed, obsOut{Op: "add", Add: &o})
			coqObs = append(coqObs, "BAdd (Some "+coqONotice(o)+")")
		case op.Poll != nil:
			i := *op.Poll
			coqOps = append(coqOps, fmt.Sprintf("OPoll %d%%nat", i))
			var f *state.NoticeFilter
			if i >= 0 && i < len(h.Clients) {
				cf := h.Clients[i]
				f = &state.NoticeFilter{UserID: cf.User, Keys: cf.Keys, After: cursors[i]}
				for _, t := range cf.Types {
					f.Types = append(f.Types, state.NoticeType(t))
				}
			} else {
				panic("poll of unknown client")
			}
			res := st.Notices(f)
			out := make([]onotice, 0, len(res))
			items := make([]string, 0, len(res))
			for _, n := range res {
				o, lr := observe(n, base)
				out = append(out, o)
				items = append(items, coqONotice(o))
				// cursor protocol: remember the greatest last-repeated received
				if cursors[i].IsZero() || lr.After(cursors[i]) {
					cursors[i] = lr
				}
			}
			polls++
			if polls > 1 && len(out) > 0 {
				deliveredAfterRepeat++
			}
			if len(out) > 1 {
				tags["poll-multi"] = true
			}
			observed = append(observed, obsOut{Op: "poll", Poll: out})
			coqObs = append(coqObs, "BPoll "+vh.CoqList(items))
		case op.Restart:
			coqOps = append(coqOps, "ORestart")
			tags["restart"] = true
			st.Unlock() // writes the checkpoint if the state was modified
			if backend.data == nil {
				st = state.New(backend)
			} else {
				nst, err := state.ReadState(backend, bytes.NewReader(backend.data))
				if err != nil {
					panic(err)
				}
				st = nst
			}
			st.Lock()
			n := len(st.Notices(nil))
			observed = append(observed, obsOut{Op: "restart", N: n})
			coqObs = append(coqObs, "BRestart "+vh.CoqN(uint64(n)))
		default:
			panic("empty op")
		}
	}
	if len(h.Clients) > 1 {
		tags["multi-client"] = true
	}
	fs := make([]string, len(h.Clients))
	for i, f := range h.Clients {
		fs[i] = coqFilter(f)
	}
	var tl []string
	for t := range tags {
		tl = append(tl, t)
	}
	coq := "(Case " + vh.CoqList(fs) + "\n     [" + strings.Join(coqOps, ";\n      ") + "]\n     [" +
		strings.Join(coqObs, ";\n      ") + "])"
	return vh.Out{Observed: observed, Coq: coq, NonTrivial: deliveredAfterRepeat > 0 && (tags["repeated"] || tags["repeat-suppressed"]), Tags: tl}
}

// ---------------------------------------------------------------- generation

var (
	validTypes = []string{"change-update", "warning", "refresh-inhibit", "snap-run-inhibit", "interfaces-requests-prompt",
		"interfaces-requests-rule-update"}
	genKeys = []string{"a", "b", "-", "c d"}
)

func u32(v uint32) *uint32 { return &v }
func i64(v int64) *int64   { return &v }

func genUser(r *vh.Rand) *uint32 {
	switch r.Intn(5) {
	case 0, 1:
		return nil
	case 2:
		return u32(0)
	case 3:
		return u32(1000)
	}
	return u32(1001)
}

func genFilter(r *vh.Rand) filterIn {
	f := filterIn{Types: []string{}, Keys: []string{}}
	if r.Chance(1, 2) {
		f.User = genUser(r)
		if f.User == nil {
			f.User = u32(1000)
		}
	}
	if r.Chance(1, 3) {
		for k := r.Range(1, 3); k > 0; k-- {
			f.Types = append(f.Types, r.Pick(append(validTypes, "bogus")))
		}
	}
	if r.Chance(1, 3) {
		for k := r.Range(1, 2); k > 0; k-- {
			f.Keys = append(f.Keys, r.Pick(genKeys))
		}
	}
	// After stays unset: a client starts without a cursor (a cursor is only ever a last-repeated time it received)
	return f
}

func genHistory(r *vh.Rand) in {
	h := in{}
	nc := r.Range(1, 4)
	for i := 0; i < nc; i++ {
		h.Clients = append(h.Clients, genFilter(r))
	}
	explicit := r.Chance(1, 15)
	// a history uses few distinct (user, type, key) combinations so that notices reoccur often
	type combo struct {
		u *uint32
		t string
		k string
	}
	var combos []combo
	for k := r.Range(1, 4); k > 0; k-- {
		t := r.Pick(validTypes)
		key := r.Pick(genKeys)
		if t == "refresh-inhibit" && r.Chance(4, 5) {
			key = "-"
		}
		combos = append(combos, combo{genUser(r), t, key})
	}
	unit := int64(1)
	if r.Chance(1, 3) {
		unit = 1000000 // milliseconds
	}
	clock := int64(r.Range(0, 10)) * unit
	n := r.Range(3, 30)
	for i := 0; i < n; i++ {
		if r.Chance(1, 3) {
			c := r.Intn(nc)
			h.Ops = append(h.Ops, opIn{Poll: &c})
			continue
		}
		if r.Chance(1, 7) {
			h.Ops = append(h.Ops, opIn{Restart: true})
			if r.Chance(1, 2) { // the wall clock does not advance, or steps back, across the restart
				clock -= int64(r.Range(0, 8)) * unit
			}
			continue
		}
		switch r.Intn(8) {
		case 0, 1, 2: // same tick
		case 3: // backwards
			clock -= int64(r.Range(1, 8)) * unit
		case 4, 5: // small step
			clock += int64(r.Range(1, 3)) * unit
		default:
			clock += int64(r.Range(1, 20)) * unit
		}
		c := combos[r.Intn(len(combos))]
		a := &addIn{Clock: clock, User: c.u, Type: c.t, Key: c.k}
		switch r.Intn(6) {
		case 0, 1:
			a.RA = int64(r.Range(1, 12)) * unit
		case 2:
			a.RA = int64(r.Range(1, 3))
		case 3:
			if r.Chance(1, 4) {
				a.RA = -int64(r.Range(1, 5)) * unit
			}
		}
		if r.Chance(1, 25) { // malformed stream: invalid type, empty / over-long key, bad refresh-inhibit key
			switch r.Intn(4) {
			case 0:
				a.Type = r.Pick([]string{"bogus", "", "Warning"})
			case 1:
				a.Key = ""
			case 2:
				a.Key = strings.Repeat("k", r.Range(256, 258))
			default:
				a.Type, a.Key = "refresh-inhibit", "x"
			}
		}
		if explicit && r.Chance(1, 4) {
			a.Time = i64(clock + int64(r.Range(-6, 6))*unit)
		}
		h.Ops = append(h.Ops, opIn{Add: a})
	}
	return h
}

// all histories of length <= maxLen over a small alphabet of operations (two notices, two clients)
func enumHistories(maxLen int) []in {
	clients := []filterIn{{Types: []string{}, Keys: []string{}}, {User: u32(1000), Types: []string{}, Keys: []string{"a"}}}
	type step struct {
		restart bool
		poll  int
		delta int64
		user  *uint32
		key   string
		ra    int64
	}
	alpha := []step{
		{poll: -1, delta: 0, key: "a"},
		{poll: -1, delta: -5, key: "a", ra: 3},
		{poll: -1, delta: 2, key: "b", user: u32(1001)},
		{poll: -1, delta: 1, key: "a", ra: 10},
		{poll: 0},
		{poll: 1},
		{restart: true, poll: -1},
	}
	var out []in
	var rec func(prefix []int)
	rec = func(prefix []int) {
		if len(prefix) > 0 {
			h := in{Clients: clients}
			clock := int64(100)
			for _, k := range prefix {
				s := alpha[k]
				if s.restart {
					h.Ops = append(h.Ops, opIn{Restart: true})
				} else if s.poll >= 0 {
					p := s.poll
					h.Ops = append(h.Ops, opIn{Poll: &p})
				} else {
					clock += s.delta
					h.Ops = append(h.Ops, opIn{Add: &addIn{Clock: clock, User: s.user, Type: "warning", Key: s.key, RA: s.ra}})
				}
			}
			out = append(out, h)
		}
		if len(prefix) == maxLen {
			return
		}
		for k := range alpha {
			rec(append(append([]int{}, prefix...), k))
		}
	}
	rec(nil)
	return out
}

func gen(r *vh.Rand, tier string, n int) []in {
	maxLen := 3
	if tier == "thorough" {
		maxLen = 5
	}
	ins := enumHistories(maxLen)
	// the witness of C08_explicit_time_refuted (outside the property: compared with the model only)
	p0 := 0
	ins = append(ins, in{Clients: []filterIn{{Types: []string{}, Keys: []string{}}}, Ops: []opIn{
		{Add: &addIn{Clock: 10, Type: "warning", Key: "a"}},
		{Poll: &p0},
		{Add: &addIn{Clock: 20, Type: "warning", Key: "b", Time: i64(5)}},
		{Poll: &p0},
	}})
	// restarts: same-tick additions, a poll, a restart, then additions while the clock has not passed the cursor
	// (same coarse tick / clock stepped back across the reboot); with and without a second restart and a repeat
	for _, after := range []int64{100, 50, 101} {
		ins = append(ins, in{Clients: []filterIn{{Types: []string{}, Keys: []string{}}, {User: u32(1000), Types: []string{}, Keys: []string{}}}, Ops: []opIn{
			{Add: &addIn{Clock: 100, Type: "warning", Key: "a"}},
			{Add: &addIn{Clock: 100, Type: "warning", Key: "b", User: u32(1000)}},
			{Add: &addIn{Clock: 100, Type: "warning", Key: "a"}},
			{Poll: &p0},
			{Restart: true},
			{Add: &addIn{Clock: after, Type: "change-update", Key: "c d"}},
			{Poll: &p0},
			{Restart: true},
			{Restart: true},
			{Add: &addIn{Clock: after, Type: "warning", Key: "b", User: u32(1000)}},
			{Poll: &p0},
			{Poll: &p0},
		}})
	}
	if n <= 0 {
		n = 400
	}
	for i := 0; i < n; i++ {
		ins = append(ins, genHistory(r.Fork()))
	}
	return ins
}

func main() { vh.Run(gen, exec) }
