//go:build verif

// Driver for C08 (waiting clients): real goroutines blocked in state.State.WaitNotices. A history interleaves AddNotice
// (mocked server clock), WaitNotices calls with generated filters, cancellations of their contexts and restarts.
// Determinism without reading any model: a WaitNotices goroutine signals when it holds the state lock; the driver then
// takes the lock itself, which it can only get once the goroutine has parked in sync.Cond.Wait (Wait registers with the
// notify list before it unlocks) or returned. After every step the driver asks the real State.Notices(filter) for each
// blocked call: a non-empty answer means the call has to return now and the driver waits for it (time limit => recorded
// as stuck); the counts for the calls that stay blocked are recorded. Cases are Coq terms of type V.models.Notices.wcase.
package main

import (
	"bytes"
	"context"
	"encoding/json"
	"fmt"
	"sort"
	"strconv"
	"strings"
	"time"

	"github.com/snapcore/snapd/overlord/state"
	"github.com/snapcore/snapd/zzverif/vh"
)

type filterIn struct {
	User  *uint32  `json:"user"`
	Types []string `json:"types"`
	Keys  []string `json:"keys"`
	After *int64   `json:"after"`
}

type addIn struct {
	Clock int64   `json:"clock"`
	User  *uint32 `json:"user"`
	Type  string  `json:"type"`
	Key   string  `json:"key"`
	RA    int64   `json:"ra"`
}

type opIn struct {
	Add     *addIn    `json:"add,omitempty"`
	Wait    *filterIn `json:"wait,omitempty"` // the call gets the next id (1, 2, ...)
	Timeout int       `json:"timeout,omitempty"`
	Restart bool      `json:"restart,omitempty"`
}

type in struct {
	Ops []opIn `json:"ops"`
}

var (
	validTypes = []string{"change-update", "warning", "refresh-inhibit", "snap-run-inhibit", "interfaces-requests-prompt",
		"interfaces-requests-rule-update"}
	genKeys = []string{"a", "b", "-", "c d"}
)

func coqOptN(u *uint32) string {
	if u == nil {
		return "None"
	}
	return "(Some " + vh.CoqN(uint64(*u)) + ")"
}
func coqOptZ(z *int64) string {
	if z == nil {
		return "None"
	}
	return "(Some " + vh.CoqZ(*z) + ")"
}
func coqType(t string) string {
	for i, v := range validTypes {
		if v == t {
			return fmt.Sprintf("(ty %d)", i)
		}
	}
	return vh.CoqBytes(t)
}
func coqKey(k string) string {
	for i, v := range genKeys {
		if v == k {
			return fmt.Sprintf("(ky %d)", i)
		}
	}
	return vh.CoqBytes(k)
}
func coqStrs(l []string, f func(string) string) string {
	items := make([]string, len(l))
	for i, s := range l {
		items[i] = f(s)
	}
	return vh.CoqList(items)
}
func coqFilter(f *filterIn) string {
	return "(mkF " + coqOptN(f.User) + " " + coqStrs(f.Types, coqType) + " " + coqStrs(f.Keys, coqKey) + " " + coqOptZ(f.After) + ")"
}

type onotice struct {
	ID      uint64  `json:"id"`
	User    *uint32 `json:"user"`
	Type    string  `json:"type"`
	Key     string  `json:"key"`
	LR      int64   `json:"lr"`
	LastOcc int64   `json:"lo"`
	Occ     uint64  `json:"occ"`
}

func coqONotice(o onotice) string {
	return "(mkO " + vh.CoqN(o.ID) + " " + coqOptN(o.User) + " " + coqType(o.Type) + " " + coqKey(o.Key) + " " +
		vh.CoqZ(o.LR) + " " + vh.CoqZ(o.LastOcc) + " " + vh.CoqN(o.Occ) + ")"
}

type jsonNotice struct {
	ID           string    `json:"id"`
	UserID       *uint32   `json:"user-id"`
	Type         string    `json:"type"`
	Key          string    `json:"key"`
	LastOccurred time.Time `json:"last-occurred"`
	LastRepeated time.Time `json:"last-repeated"`
	Occurrences  uint64    `json:"occurrences"`
}

func observe(n *state.Notice, base time.Time) onotice {
	data, err := json.Marshal(n)
	if err != nil {
		panic(err)
	}
	var jn jsonNotice
	if err := json.Unmarshal(data, &jn); err != nil {
		panic(err)
	}
	id, err := strconv.ParseUint(jn.ID, 10, 64)
	if err != nil {
		panic(err)
	}
	return onotice{ID: id, User: jn.UserID, Type: jn.Type, Key: jn.Key, LR: int64(jn.LastRepeated.Sub(base)),
		LastOcc: int64(jn.LastOccurred.Sub(base)), Occ: jn.Occurrences}
}

type cpBackend struct{ data []byte }

func (b *cpBackend) Checkpoint(data []byte) error {
	b.data = append([]byte(nil), data...)
	return nil
}
func (b *cpBackend) EnsureBefore(time.Duration) {}

type result struct {
	notices []onotice
	err     error
}

type waiter struct {
	id     uint64
	filter *state.NoticeFilter
	cancel context.CancelFunc
	done   chan result
}

type obsOut struct {
	ID   uint64    `json:"id"`
	Kind int       `json:"kind"` // 0 returned, 1 cancelled, 2 stuck
	L    []onotice `json:"l,omitempty"`
}
type stepOut struct {
	Out     []obsOut    `json:"out"`
	Blocked [][2]uint64 `json:"blocked"` // id, len(Notices(filter))
}

const stuckAfter = 3 * time.Second

func exec(h in) vh.Out {
	base := time.Now().UTC().Truncate(time.Second)
	backend := &cpBackend{}
	st := state.New(backend)
	var blocked []*waiter
	nextID := uint64(0)
	var steps []stepOut
	var coqEvs, coqSteps []string
	tags := map[string]bool{}

	mkFilter := func(f *filterIn) *state.NoticeFilter {
		nf := &state.NoticeFilter{UserID: f.User, Keys: f.Keys}
		for _, t := range f.Types {
			nf.Types = append(nf.Types, state.NoticeType(t))
		}
		if f.After != nil {
			nf.After = base.Add(time.Duration(*f.After))
		}
		return nf
	}
	// start a WaitNotices call on the current state and return once it is parked in Cond.Wait or has returned
	start := func(w *waiter) {
		ctx, cancel := context.WithCancel(context.Background())
		w.cancel = cancel
		w.done = make(chan result, 1)
		locked := make(chan struct{})
		s := st
		go func() {
			s.Lock()
			close(locked)
			ns, err := s.WaitNotices(ctx, w.filter)
			var out []onotice
			for _, n := range ns {
				out = append(out, observe(n, base))
			}
			s.Unlock()
			w.done <- result{out, err}
		}()
		<-locked
		s.Lock()
		s.Unlock()
	}
	// after a step: which blocked calls have to return now (real Notices(filter) non-empty), collect them
	settle := func(step *stepOut, cancelled map[uint64]bool) {
		st.Lock()
		counts := map[uint64]int{}
		for _, w := range blocked {
			counts[w.id] = len(st.Notices(w.filter))
		}
		st.Unlock()
		var still []*waiter
		for _, w := range blocked {
			if counts[w.id] == 0 && !cancelled[w.id] {
				// must stay blocked; if it returned anyway that is recorded as a return
				select {
				case r := <-w.done:
					step.Out = append(step.Out, obsOut{ID: w.id, Kind: kindOf(r), L: r.notices})
				default:
					still = append(still, w)
					step.Blocked = append(step.Blocked, [2]uint64{w.id, 0})
				}
				continue
			}
			select {
			case r := <-w.done:
				step.Out = append(step.Out, obsOut{ID: w.id, Kind: kindOf(r), L: r.notices})
			case <-time.After(stuckAfter):
				step.Out = append(step.Out, obsOut{ID: w.id, Kind: 2})
				tags["stuck"] = true
				w.cancel()
			}
		}
		blocked = still
	}

	for _, op := range h.Ops {
		step := stepOut{Out: []obsOut{}, Blocked: [][2]uint64{}}
		switch {
		case op.Add != nil:
			a := op.Add
			coqEvs = append(coqEvs, "WAdd (mkA "+vh.CoqZ(a.Clock)+" "+coqOptN(a.User)+" "+coqType(a.Type)+" "+coqKey(a.Key)+" "+vh.CoqZ(a.RA)+" None)")
			st.Lock()
			restore := state.MockTime(base.Add(time.Duration(a.Clock)))
			st.AddNotice(a.User, state.NoticeType(a.Type), a.Key, &state.AddNoticeOptions{RepeatAfter: time.Duration(a.RA)})
			restore()
			st.Unlock()
			settle(&step, nil)
		case op.Wait != nil:
			nextID++
			w := &waiter{id: nextID, filter: mkFilter(op.Wait)}
			coqEvs = append(coqEvs, "WWait "+vh.CoqN(w.id)+" "+coqFilter(op.Wait))
			start(w)
			blocked = append(blocked, w)
			settle(&step, nil)
			tags["wait"] = true
		case op.Timeout > 0:
			id := uint64(op.Timeout)
			coqEvs = append(coqEvs, "WTimeout "+vh.CoqN(id))
			c := map[uint64]bool{}
			for _, w := range blocked {
				if w.id == id {
					w.cancel()
					c[id] = true
					tags["timeout-of-blocked"] = true
				}
			}
			settle(&step, c)
		case op.Restart:
			coqEvs = append(coqEvs, "WRestart")
			tags["restart"] = true
			// the blocked requests die with the process
			for _, w := range blocked {
				w.cancel()
				<-w.done
			}
			blocked = nil
			st.Lock()
			st.Unlock() // checkpoint
			if backend.data == nil {
				st = state.New(backend)
			} else {
				nst, err := state.ReadState(backend, bytes.NewReader(backend.data))
				if err != nil {
					panic(err)
				}
				st = nst
			}
		default:
			panic("empty op")
		}
		sort.Slice(step.Out, func(i, j int) bool { return step.Out[i].ID < step.Out[j].ID })
		steps = append(steps, step)
		var outs, bl []string
		for _, o := range step.Out {
			items := make([]string, len(o.L))
			for i, n := range o.L {
				items[i] = coqONotice(n)
			}
			outs = append(outs, "WO "+vh.CoqN(o.ID)+" "+vh.CoqN(uint64(o.Kind))+" "+vh.CoqList(items))
			if o.Kind == 0 {
				tags["returned"] = true
			}
		}
		for _, b := range step.Blocked {
			bl = append(bl, "("+vh.CoqN(b[0])+", "+vh.CoqN(b[1])+")")
		}
		if len(step.Blocked) > 0 {
			tags["stays-blocked"] = true
		}
		coqSteps = append(coqSteps, "("+vh.CoqList(outs)+", "+vh.CoqList(bl)+")")
	}
	for _, w := range blocked {
		w.cancel()
		<-w.done
	}
	var tl []string
	for t := range tags {
		tl = append(tl, t)
	}
	coq := "(WCase [" + strings.Join(coqEvs, ";\n   ") + "]\n  [" + strings.Join(coqSteps, ";\n   ") + "])"
	return vh.Out{Observed: steps, Coq: coq, NonTrivial: tags["returned"] && tags["stays-blocked"], Tags: tl}
}

func kindOf(r result) int {
	if r.err != nil {
		return 1
	}
	return 0
}

func u32(v uint32) *uint32 { return &v }
func i64(v int64) *int64   { return &v }

func genUser(r *vh.Rand) *uint32 {
	switch r.Intn(4) {
	case 0, 1:
		return nil
	case 2:
		return u32(1000)
	}
	return u32(1001)
}

func genHistory(r *vh.Rand) in {
	h := in{}
	type combo struct {
		u *uint32
		t string
		k string
	}
	var combos []combo
	for k := r.Range(1, 3); k > 0; k-- {
		t := r.Pick(validTypes)
		key := r.Pick(genKeys)
		if t == "refresh-inhibit" {
			key = "-"
		}
		combos = append(combos, combo{genUser(r), t, key})
	}
	clock := int64(r.Range(0, 10))
	waits := 0
	for k := r.Range(3, 16); k > 0; k-- {
		switch x := r.Intn(12); {
		case x < 3:
			f := &filterIn{Types: []string{}, Keys: []string{}}
			if r.Chance(1, 2) {
				f.User = u32(1000)
			}
			if r.Chance(1, 3) {
				f.Types = append(f.Types, combos[r.Intn(len(combos))].t)
			}
			if r.Chance(1, 4) {
				f.Keys = append(f.Keys, r.Pick(genKeys))
			}
			if r.Chance(3, 4) { // usually wait for something newer than what exists
				f.After = i64(clock + int64(r.Range(-2, 4)))
			}
			h.Ops = append(h.Ops, opIn{Wait: f})
			waits++
		case x == 3 && waits > 0:
			h.Ops = append(h.Ops, opIn{Timeout: r.Range(1, waits)})
		case x == 4:
			h.Ops = append(h.Ops, opIn{Restart: true})
			if r.Chance(1, 2) {
				clock -= int64(r.Range(0, 5))
			}
		default:
			switch r.Intn(6) {
			case 0, 1:
			case 2:
				clock -= int64(r.Range(1, 5))
			default:
				clock += int64(r.Range(1, 6))
			}
			c := combos[r.Intn(len(combos))]
			a := &addIn{Clock: clock, User: c.u, Type: c.t, Key: c.k}
			if r.Chance(1, 3) {
				a.RA = int64(r.Range(1, 10))
			}
			h.Ops = append(h.Ops, opIn{Add: a})
		}
	}
	return h
}

func gen(r *vh.Rand, tier string, n int) []in {
	all := &filterIn{Types: []string{}, Keys: []string{}}
	after := func(a int64) *filterIn { return &filterIn{Types: []string{}, Keys: []string{}, After: i64(a)} }
	ins := []in{
		// blocks, unrelated / suppressed additions do not wake it, a repeat does; same tick across a restart
		{Ops: []opIn{
			{Add: &addIn{Clock: 10, User: u32(1000), Type: "warning", Key: "a"}},
			{Wait: &filterIn{User: u32(1000), Types: []string{"warning"}, Keys: []string{}, After: i64(10)}},
			{Add: &addIn{Clock: 10, User: u32(1001), Type: "warning", Key: "a"}},
			{Add: &addIn{Clock: 10, User: u32(1000), Type: "warning", Key: "a", RA: 100}},
			{Add: &addIn{Clock: 5, User: u32(1000), Type: "warning", Key: "a"}},
			{Wait: &filterIn{Types: []string{"change-update"}, Keys: []string{}}},
			{Timeout: 2},
			{Wait: all},
			{Wait: after(13)},
			{Restart: true},
			{Wait: after(13)},
			{Add: &addIn{Clock: 5, Type: "warning", Key: "b"}},
		}},
		// several calls woken by one addition, one stays
		{Ops: []opIn{
			{Wait: all}, {Wait: after(0)}, {Wait: &filterIn{Types: []string{}, Keys: []string{"b"}}},
			{Add: &addIn{Clock: 1, Type: "warning", Key: "a"}},
			{Timeout: 3},
		}},
	}
	// restart on the real code: two calls blocked, snapd restarts (state.ReadState of the saved JSON): the blocked calls are
	// gone, the notices are kept (a call without After returns them at once on the new State), a call waiting for something
	// newer blocks on the new State and is woken by an addition at a clock reading that did not advance across the restart
	ins = append(ins, in{Ops: []opIn{
		{Add: &addIn{Clock: 100, Type: "warning", Key: "a"}},
		{Add: &addIn{Clock: 100, User: u32(1000), Type: "change-update", Key: "b"}},
		{Wait: after(101)},
		{Wait: &filterIn{User: u32(1001), Types: []string{}, Keys: []string{"b"}}},
		{Restart: true},
		{Wait: all},
		{Wait: after(101)},
		{Add: &addIn{Clock: 100, Type: "warning", Key: "a", RA: 50}},
		{Add: &addIn{Clock: 90, Type: "warning", Key: "a"}},
		{Timeout: 1},
		{Restart: true},
		{Wait: after(102)},
		{Add: &addIn{Clock: 90, Type: "warning", Key: "b"}},
	}})
	if n <= 0 {
		n = 100
	}
	for i := 0; i < n; i++ {
		ins = append(ins, genHistory(r.Fork()))
	}
	return ins
}

func main() { vh.Run(gen, exec) }
