//go:build verif

// Driver for C36: replays histories of NewGroup / NewSubGroup / UpdateQuotaLimits requests against the real
// snap/quota package and prints, for every request, whether it was accepted and the whole forest of groups
// afterwards as Coq terms of type V.models.Quota.case.
package main

import (
	"fmt"
	"strconv"
	"strings"

	"github.com/snapcore/snapd/gadget/quantity"
	"github.com/snapcore/snapd/snap/quota"
	"github.com/snapcore/snapd/zzverif/vh"
)

type resIn struct {
	Mem *uint64 `json:"mem,omitempty"`
	CPU *[2]int `json:"cpu,omitempty"` // count, percentage
	Set *[]int  `json:"set,omitempty"`
	Thr *int    `json:"thr,omitempty"`
}

type reqIn struct {
	Kind string `json:"kind"` // new | sub | upd
	// Path selects the target among the groups that exist when the request is executed: each entry is taken modulo
	// the number of candidates at that level; the walk stops early at a group without sub-groups.
	Path []int `json:"path,omitempty"`
	Res  resIn `json:"res"`
}

type in struct {
	NCPU int     `json:"ncpu"`
	Reqs []reqIn `json:"reqs"`
}

func (r resIn) resources() quota.Resources {
	var q quota.Resources
	if r.Mem != nil {
		q.Memory = &quota.ResourceMemory{Limit: quantity.Size(*r.Mem)}
	}
	if r.CPU != nil {
		q.CPU = &quota.ResourceCPU{Count: r.CPU[0], Percentage: r.CPU[1]}
	}
	if r.Set != nil {
		q.CPUSet = &quota.ResourceCPUSet{CPUs: append([]int{}, (*r.Set)...)}
	}
	if r.Thr != nil {
		q.Threads = &quota.ResourceThreads{Limit: *r.Thr}
	}
	return q
}

func zs(l []int) string {
	it := make([]string, len(l))
	for i, x := range l {
		it[i] = strconv.Itoa(x)
	}
	return "[" + strings.Join(it, ";") + "]"
}

func (r resIn) coq() string {
	mem, cpu, set, thr := "None", "None", "None", "None"
	if r.Mem != nil {
		mem = "(Some " + strconv.FormatUint(*r.Mem, 10) + ")"
	}
	if r.CPU != nil {
		cpu = fmt.Sprintf("(Some (%d, %d))", r.CPU[0], r.CPU[1])
	}
	if r.Set != nil {
		set = "(Some " + zs(*r.Set) + ")"
	}
	if r.Thr != nil {
		thr = "(Some (" + strconv.Itoa(*r.Thr) + "))"
	}
	return "(mkRes " + mem + " " + cpu + " " + set + " " + thr + ")"
}

// ---------------------------------------------------------------- observing the real forest

type world struct {
	roots  []*quota.Group
	byName map[string]*quota.Group // every group a constructor has returned
	ids    map[string]int
}

func name(id int) string { return fmt.Sprintf("grp%d", id) }

type obsGroup struct {
	ID   int        `json:"id"`
	Mem  uint64     `json:"mem"`
	Thr  int        `json:"thr"`
	Cnt  int        `json:"cnt"`
	Pct  int        `json:"pct"`
	Set  []int      `json:"set"`
	Subs []obsGroup `json:"subs"`
}

// the tree as the package links it: children are looked up through the exported SubGroups name lists
func (w *world) observe(g *quota.Group) obsGroup {
	o := obsGroup{ID: w.ids[g.Name], Mem: uint64(g.MemoryLimit), Thr: g.ThreadLimit, Set: []int{}, Subs: []obsGroup{}}
	if g.CPULimit != nil {
		o.Cnt, o.Pct = g.CPULimit.Count, g.CPULimit.Percentage
		o.Set = append(o.Set, g.CPULimit.CPUSet...)
	}
	for _, n := range g.SubGroups {
		if c, ok := w.byName[n]; ok {
			o.Subs = append(o.Subs, w.observe(c))
		} else {
			// linked into the tree although the constructor did not return it
			o.Subs = append(o.Subs, obsGroup{ID: 999999, Set: []int{}, Subs: []obsGroup{}})
		}
	}
	return o
}

func (w *world) forest() []obsGroup {
	f := []obsGroup{}
	for _, r := range w.roots {
		f = append(f, w.observe(r))
	}
	return f
}

func (o obsGroup) coq() string {
	subs := make([]string, len(o.Subs))
	for i, s := range o.Subs {
		subs[i] = s.coq()
	}
	return fmt.Sprintf("(G %d%%N (mkLim %d (%d) %d %d %s) [%s])", o.ID, o.Mem, o.Thr, o.Cnt, o.Pct, zs(o.Set), strings.Join(subs, "; "))
}

func coqForest(f []obsGroup) string {
	it := make([]string, len(f))
	for i, g := range f {
		it[i] = g.coq()
	}
	return "[" + strings.Join(it, "; ") + "]"
}

// ---------------------------------------------------------------- the driver's own diagnosis (classification only)

// which invariants are broken, computed with the package's exported getters (GetLocalCPUQuota, GetCPUSetQuota)
func (w *world) diagnose() []string {
	bad := map[string]bool{}
	type agg struct {
		mem      uint64
		thr, cpu int
	}
	var rec func(g *quota.Group) agg
	rec = func(g *quota.Group) agg {
		var sum agg
		for _, n := range g.SubGroups {
			c := w.byName[n]
			if c == nil {
				bad["shape"] = true
				continue
			}
			r := rec(c)
			cm, ct := uint64(c.MemoryLimit), c.ThreadLimit
			cnt, pct := c.GetLocalCPUQuota()
			cc := cnt * pct
			if r.mem > cm {
				cm = r.mem
			}
			if r.thr > ct {
				ct = r.thr
			}
			if r.cpu > cc {
				cc = r.cpu
			}
			sum.mem += cm
			sum.thr += ct
			sum.cpu += cc
			// cpu set nesting
			if local := c.GetLocalCPUSetQuota(); len(local) > 0 {
				up := g.GetCPUSetQuota()
				if len(up) > 0 {
					for _, x := range local {
						found := false
						for _, y := range up {
							if x == y {
								found = true
							}
						}
						if !found {
							bad["set"] = true
						}
					}
				}
			}
		}
		if g.MemoryLimit != 0 && sum.mem > uint64(g.MemoryLimit) {
			bad["mem"] = true
		}
		if g.ThreadLimit != 0 && sum.thr > g.ThreadLimit {
			bad["thr"] = true
		}
		cnt, pct := g.GetLocalCPUQuota()
		if cnt*pct != 0 && sum.cpu > cnt*pct {
			bad["cpu"] = true
		}
		return sum
	}
	for _, r := range w.roots {
		rec(r)
	}
	out := []string{}
	for _, k := range []string{"mem", "thr", "cpu", "set", "shape"} {
		if bad[k] {
			out = append(out, k)
		}
	}
	return out
}

// size of the effective cpu set (GetCPUSetQuota) of every group
func (w *world) effSetSizes() map[string]int {
	m := map[string]int{}
	for n, g := range w.byName {
		m[n] = len(g.GetCPUSetQuota())
	}
	return m
}

func isCount0(g *quota.Group) bool {
	return g.CPULimit != nil && g.CPULimit.Count == 0 && g.CPULimit.Percentage != 0
}

// ---------------------------------------------------------------- execution

type stepObs struct {
	Kind     string     `json:"kind"`
	Path     []int      `json:"path"`
	ID       int        `json:"id,omitempty"`
	Accepted bool       `json:"accepted"`
	Forest   []obsGroup `json:"forest"`
	Broken   []string   `json:"broken,omitempty"`
	// the request changed the size of the effective cpu set of an already existing group that is percentage-only
	// (count 0) after the request
	EffSetChangedForCount0 bool `json:"effset_changed_for_count0,omitempty"`
	// the request left its target with a percentage-only cpu quota whose effective cpu set has more entries than
	// runtime.NumCPU (the validator sizes the request by len(set), GetLocalCPUQuota caps it at NumCPU)
	Count0SetLargerThanNumCPU bool `json:"count0_set_larger_than_numcpu,omitempty"`
}

func exec(i in) vh.Out {
	quota.VerifSetNumCPU(i.NCPU)
	w := &world{byName: map[string]*quota.Group{}, ids: map[string]int{}}
	nextID := 1
	var steps []string
	var obs []stepObs
	tags := map[string]bool{}
	accepted, refused, maxDepth := 0, 0, 0
	for _, rq := range i.Reqs {
		kind := rq.Kind
		if len(w.roots) == 0 {
			kind = "new"
		}
		// resolve the path against the forest as it is now
		var target *quota.Group
		var path []int
		if kind != "new" {
			idx := 0
			if len(rq.Path) > 0 {
				idx = rq.Path[0] % len(w.roots)
			}
			target = w.roots[idx]
			path = []int{idx}
			for _, p := range rq.Path[min(1, len(rq.Path)):] {
				if len(target.SubGroups) == 0 || len(path) >= 3 {
					break
				}
				k := p % len(target.SubGroups)
				c := w.byName[target.SubGroups[k]]
				if c == nil {
					break
				}
				target = c
				path = append(path, k)
			}
		}
		if len(path) > maxDepth {
			maxDepth = len(path)
		}
		before := w.effSetSizes()
		res := rq.Res.resources()
		var err error
		var coqReq string
		so := stepObs{Kind: kind, Path: path}
		switch kind {
		case "new":
			id := nextID
			nextID++
			var g *quota.Group
			g, err = quota.NewGroup(name(id), res)
			w.ids[name(id)] = id
			if err == nil {
				w.byName[g.Name] = g
				w.roots = append(w.roots, g)
			}
			so.ID = id
			coqReq = fmt.Sprintf("(RNew %d%%N %s)", id, rq.Res.coq())
		case "sub":
			id := nextID
			nextID++
			var g *quota.Group
			g, err = target.NewSubGroup(name(id), res)
			w.ids[name(id)] = id
			if err == nil {
				w.byName[g.Name] = g
			}
			so.ID = id
			coqReq = fmt.Sprintf("(RSub %s%%nat %d%%N %s)", zs(path), id, rq.Res.coq())
		case "upd":
			err = target.UpdateQuotaLimits(res)
			coqReq = fmt.Sprintf("(RUpd %s%%nat %s)", zs(path), rq.Res.coq())
		default:
			panic("unknown request kind " + kind)
		}
		f := w.forest()
		so.Accepted, so.Forest = err == nil, f
		so.Broken = w.diagnose()
		for n, sz := range before {
			if g := w.byName[n]; isCount0(g) && len(g.GetCPUSetQuota()) != sz {
				so.EffSetChangedForCount0 = true
			}
		}
		if err == nil {
			t := target
			if kind != "upd" {
				t = w.byName[name(so.ID)]
			}
			if isCount0(t) && len(t.GetCPUSetQuota()) > i.NCPU {
				so.Count0SetLargerThanNumCPU = true
			}
			// a new percentage-only sub-group that brings its own cpu set: the validator sized it by the inherited set
			if kind == "sub" && isCount0(t) && len(t.GetCPUSetQuota()) != len(target.GetCPUSetQuota()) {
				so.EffSetChangedForCount0 = true
			}
		}
		obs = append(obs, so)
		steps = append(steps, "("+coqReq+", "+vh.CoqBool(err == nil)+", "+coqForest(f)+")")
		if err == nil {
			accepted++
			tags[kind+"-accepted"] = true
		} else {
			refused++
			tags[kind+"-refused"] = true
		}
		if len(so.Broken) > 0 {
			tags["invariant-broken-"+strings.Join(so.Broken, "+")] = true
			break // a history ends at the first request after which some group no longer fits
		}
	}
	tags[fmt.Sprintf("depth-%d", maxDepth)] = true
	tags[fmt.Sprintf("ncpu-%d", i.NCPU)] = true
	var tl []string
	for t := range tags {
		tl = append(tl, t)
	}
	coq := "(CHist " + strconv.Itoa(i.NCPU) + " " + vh.CoqList(steps) + ")"
	return vh.Out{Observed: map[string]interface{}{"steps": obs}, Coq: coq, NonTrivial: accepted >= 2 && refused >= 1 && maxDepth >= 2, Tags: tl}
}

func min(a, b int) int {
	if a < b {
		return a
	}
	return b
}

// ---------------------------------------------------------------- generation

func u64(v uint64) *uint64 { return &v }
func pint(v int) *int      { return &v }

const kib = 1024

var memVals = []uint64{0, 640 * kib, 640*kib + 1, 1024 * kib, 2048 * kib, 3072 * kib, 4096 * kib, 8192 * kib}
var thrVals = []int{-1, 0, 1, 2, 3, 4, 8, 16}
var cntVals = []int{0, 0, 0, 1, 2, 4}
var pctVals = []int{0, 25, 50, 50, 100, 100}

func randSet(r *vh.Rand) []int {
	switch r.Intn(6) {
	case 0:
		return []int{}
	case 1, 2: // a prefix 0..k
		k := r.Range(1, 8)
		if r.Chance(1, 8) {
			k = r.Range(9, 12)
		}
		s := make([]int, k)
		for i := range s {
			s[i] = i
		}
		return s
	case 3:
		return []int{r.Intn(4)}
	}
	var s []int
	for c := 0; c < 8; c++ {
		if r.Chance(1, 2) {
			s = append(s, c)
		}
	}
	if s == nil {
		s = []int{r.Intn(8)}
	}
	if r.Chance(1, 10) {
		s = append(s, s[0]) // a duplicate
	}
	return s
}

func randRes(r *vh.Rand) resIn {
	var x resIn
	if r.Chance(2, 5) {
		x.Mem = u64(memVals[r.Intn(len(memVals))])
	}
	if r.Chance(2, 5) {
		x.CPU = &[2]int{cntVals[r.Intn(len(cntVals))], pctVals[r.Intn(len(pctVals))]}
	}
	if r.Chance(1, 3) {
		s := randSet(r)
		x.Set = &s
	}
	if r.Chance(2, 5) {
		x.Thr = pint(thrVals[r.Intn(len(thrVals))])
	}
	return x
}

func randHistory(r *vh.Rand) in {
	h := in{NCPU: []int{2, 4, 8, 8}[r.Intn(4)]}
	n := r.Range(3, 12)
	// a history concentrates on one or two resources so that limits actually collide
	focus := r.Intn(5)
	for k := 0; k < n; k++ {
		kind := "sub"
		switch d := r.Intn(20); {
		case k == 0 || d < 2:
			kind = "new"
		case d < 9:
			kind = "upd"
		}
		res := randRes(r)
		switch focus {
		case 0:
			res.CPU, res.Set = nil, nil
			if res.Mem == nil && res.Thr == nil {
				res.Mem = u64(memVals[r.Range(1, len(memVals)-1)])
			}
		case 1:
			res.Mem, res.Thr = nil, nil
			if res.CPU == nil && res.Set == nil {
				res.CPU = &[2]int{cntVals[r.Intn(len(cntVals))], pctVals[r.Range(1, len(pctVals)-1)]}
			}
		case 2:
			res.Mem = nil
		}
		path := []int{r.Intn(4), r.Intn(4), r.Intn(4)}
		h.Reqs = append(h.Reqs, reqIn{Kind: kind, Path: path[:r.Range(1, 3)], Res: res})
	}
	return h
}

// the recorded finding (DESIGN.md section 4, finding 3), replayed on every run
func findingHistory() in {
	set01 := []int{0, 1}
	set07 := []int{0, 1, 2, 3, 4, 5, 6, 7}
	return in{NCPU: 8, Reqs: []reqIn{
		{Kind: "new", Res: resIn{CPU: &[2]int{2, 100}, Set: &set01}},
		{Kind: "sub", Path: []int{0}, Res: resIn{CPU: &[2]int{0, 50}}},
		{Kind: "upd", Path: []int{0}, Res: resIn{Set: &set07}},
	}}
}

// regression cases: the defect repaired in /repo commit 731c638 (the last request must now be refused), and the two other
// ways in which a percentage-only request is sized by something else than the cpu set it ends up with
func regressionHistories() []in {
	set0245 := []int{0, 2, 4, 5}
	set01 := []int{0, 1}
	set000 := []int{0, 0, 0}
	s12 := []int{0, 1, 2, 3, 4, 5, 6, 7, 8, 9, 10, 11}
	return []in{
		{NCPU: 8, Reqs: []reqIn{
			{Kind: "new", Res: resIn{CPU: &[2]int{2, 25}}},
			{Kind: "sub", Path: []int{0}, Res: resIn{Set: &set0245}},
			{Kind: "sub", Path: []int{0, 0}, Res: resIn{CPU: &[2]int{4, 100}}},
			{Kind: "sub", Path: []int{0, 0}, Res: resIn{CPU: &[2]int{1, 50}}},
		}},
		{NCPU: 8, Reqs: []reqIn{ // cpu set with more entries than NumCPU under a percentage-only quota
			{Kind: "new", Res: resIn{CPU: &[2]int{12, 100}, Set: &s12}},
			{Kind: "sub", Path: []int{0}, Res: resIn{CPU: &[2]int{4, 100}}},
			{Kind: "sub", Path: []int{0}, Res: resIn{CPU: &[2]int{4, 100}}},
			{Kind: "sub", Path: []int{0}, Res: resIn{CPU: &[2]int{2, 100}}},
			{Kind: "upd", Path: []int{0}, Res: resIn{CPU: &[2]int{0, 100}, Set: &s12}},
		}},
		{NCPU: 8, Reqs: []reqIn{ // a new percentage-only sub-group whose own cpu set repeats an entry
			{Kind: "new", Res: resIn{CPU: &[2]int{2, 100}, Set: &set01}},
			{Kind: "sub", Path: []int{0}, Res: resIn{CPU: &[2]int{0, 100}, Set: &set000}},
		}},
	}
}

// Scripted family: a limited ancestor, a middle group with its own limit, a limited leaf under the middle group and a
// sibling that uses part of the ancestor - for memory, threads and cpu each, optionally with groups that do not have
// that limit between ancestor and middle and between middle and leaf - followed by updates of the middle group up to,
// exactly at and beyond the space the ancestor has left, then of the leaf and the sibling. The interesting accounting
// is max(own limit, reserved by children) of the group being raised.
func scriptedFamily() []in {
	var out []in
	unit := map[string]uint64{"mem": 1024 * kib, "thr": 1, "cpu": 1}
	mk := func(kind string, v int) resIn {
		switch kind {
		case "mem":
			return resIn{Mem: u64(uint64(v) * unit["mem"])}
		case "thr":
			return resIn{Thr: pint(v)}
		}
		return resIn{CPU: &[2]int{v, 10}} // v x 10%
	}
	other := func(kind string) resIn { // a limit of another kind, so that the group is unlimited in `kind`
		if kind == "mem" {
			return resIn{Thr: pint(1000)}
		}
		return resIn{Mem: u64(4096 * 1024 * kib)}
	}
	const R = 100
	for _, kind := range []string{"mem", "thr", "cpu"} {
		for _, upper := range []bool{false, true} { // unlimited group between ancestor and middle
			for _, lower := range []bool{false, true} { // unlimited group between middle and leaf
				for _, M := range []int{30, 50} {
					for _, L := range []int{20, M} {
						for _, S := range []int{40, 50, R - M} {
							h := in{NCPU: 8}
							add := func(k string, path []int, res resIn) {
								h.Reqs = append(h.Reqs, reqIn{Kind: k, Path: path, Res: res})
							}
							add("new", nil, mk(kind, R))
							mid := []int{0, 0}
							if upper {
								add("sub", []int{0}, other(kind))
								add("sub", []int{0, 0}, mk(kind, M))
								mid = []int{0, 0, 0}
							} else {
								add("sub", []int{0}, mk(kind, M))
							}
							// the driver caps paths at depth 3: with both intermediates the leaf hangs directly under the lower one
							leafParent := mid
							if lower && !upper {
								add("sub", mid, other(kind))
								leafParent = append(append([]int{}, mid...), 0)
							}
							add("sub", leafParent, mk(kind, L))
							// sibling of the middle group (a second child of the ancestor)
							add("sub", []int{0}, mk(kind, S))
							free := R - S
							for _, v := range []int{M + 1, free - 1, free, free + 1, free + L, R, free} {
								if v > 0 {
									add("upd", mid, mk(kind, v))
								}
							}
							add("upd", []int{0, 1}, mk(kind, S+1))
							add("upd", []int{0}, mk(kind, R+10))
							add("upd", mid, mk(kind, free+10))
							add("upd", mid, mk(kind, free+11))
							out = append(out, h)
						}
					}
				}
			}
		}
	}
	return out
}

func gen(r *vh.Rand, tier string, n int) []in {
	if n == 0 {
		n = 400
	}
	ins := []in{findingHistory()}
	ins = append(ins, regressionHistories()...)
	ins = append(ins, scriptedFamily()...)
	// hand-written histories around the boundaries of each validator
	mib := func(v uint64) *uint64 { return u64(v * 1024 * kib) }
	ins = append(ins,
		in{NCPU: 4, Reqs: []reqIn{ // memory: children fill the parent exactly, one more byte is refused, unlimited middle group
			{Kind: "new", Res: resIn{Mem: mib(4)}},
			{Kind: "sub", Path: []int{0}, Res: resIn{Thr: pint(8)}},
			{Kind: "sub", Path: []int{0, 0}, Res: resIn{Mem: mib(2)}},
			{Kind: "sub", Path: []int{0, 0}, Res: resIn{Mem: mib(2)}},
			{Kind: "sub", Path: []int{0}, Res: resIn{Mem: mib(1)}},
			{Kind: "upd", Path: []int{0, 0, 1}, Res: resIn{Mem: mib(3)}},
			{Kind: "upd", Path: []int{0}, Res: resIn{Mem: mib(5)}},
			{Kind: "upd", Path: []int{0, 0, 1}, Res: resIn{Mem: mib(3)}},
			{Kind: "upd", Path: []int{0, 0}, Res: resIn{Mem: mib(4)}},
			{Kind: "upd", Path: []int{0, 0}, Res: resIn{Mem: mib(5)}},
		}},
		in{NCPU: 4, Reqs: []reqIn{ // threads
			{Kind: "new", Res: resIn{Thr: pint(8)}},
			{Kind: "sub", Path: []int{0}, Res: resIn{Thr: pint(4)}},
			{Kind: "sub", Path: []int{0}, Res: resIn{Thr: pint(4)}},
			{Kind: "sub", Path: []int{0}, Res: resIn{Thr: pint(1)}},
			{Kind: "upd", Path: []int{0, 0}, Res: resIn{Thr: pint(5)}},
			{Kind: "upd", Path: []int{0, 0}, Res: resIn{Thr: pint(3)}},
			{Kind: "sub", Path: []int{0, 1}, Res: resIn{Thr: pint(-1)}},
			{Kind: "upd", Path: []int{0}, Res: resIn{Thr: pint(9)}},
			{Kind: "sub", Path: []int{0}, Res: resIn{Thr: pint(1)}},
		}},
	)
	for k := 0; k < n; k++ {
		ins = append(ins, randHistory(r))
	}
	return ins
}

func main() { vh.Run(gen, exec) }
