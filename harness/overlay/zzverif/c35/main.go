//go:build verif

// Driver for C35: runs snap.Revision / snap.Epoch codecs and CanRead on generated inputs and prints the observed
// behaviour as Coq terms of type V.models.RevEpoch.case.
package main

import (
	"encoding/json"
	"math"
	"strconv"
	"strings"

	"gopkg.in/yaml.v2"

	"github.com/snapcore/snapd/snap"
	"github.com/snapcore/snapd/zzverif/vh"
)

type epochIn struct {
	Read  *[]uint32 `json:"read"` // nil pointer = nil slice
	Write *[]uint32 `json:"write"`
}

type in struct {
	Kind  string   `json:"kind"` // rev | revstr | epoch | epochstr
	N     int64    `json:"n,omitempty"`
	S     string   `json:"s,omitempty"`
	E     *epochIn `json:"e,omitempty"`
	Other *epochIn `json:"o,omitempty"`
}

func (e *epochIn) epoch() snap.Epoch {
	var ep snap.Epoch
	if e.Read != nil {
		ep.Read = append([]uint32{}, (*e.Read)...)
	}
	if e.Write != nil {
		ep.Write = append([]uint32{}, (*e.Write)...)
	}
	return ep
}

func coqList(l []uint32) string {
	if l == nil {
		return "None"
	}
	items := make([]string, len(l))
	for i, x := range l {
		items[i] = strconv.FormatUint(uint64(x), 10)
	}
	return "(Some [" + strings.Join(items, "; ") + "]%N)"
}
func coqEpoch(e snap.Epoch) string { return "(mkEpoch " + coqList(e.Read) + " " + coqList(e.Write) + ")" }
func coqOptEpoch(e *snap.Epoch) string {
	if e == nil {
		return "None"
	}
	return "(Some " + coqEpoch(*e) + ")"
}
func coqOptZ(ok bool, n int64) string { return vh.CoqOpt(ok, vh.CoqZ(n)) }

func parseRev(s string) (bool, int64) {
	r, err := snap.ParseRevision(s)
	return err == nil, int64(r.N)
}

func unmarshalRevJSON(data string) (ok bool, n int64, panicked bool) {
	defer func() {
		if recover() != nil {
			ok, n, panicked = false, 0, true
		}
	}()
	var r snap.Revision
	err := r.UnmarshalJSON([]byte(data))
	return err == nil, int64(r.N), false
}

func epochBack(data string) *snap.Epoch {
	var e snap.Epoch
	if err := json.Unmarshal([]byte(data), &e); err != nil {
		return nil
	}
	return &e
}

func exec(i in) vh.Out {
	switch i.Kind {
	case "rev":
		r := snap.Revision{N: int(i.N)}
		str := r.String()
		pok, pn := parseRev(str)
		js, _ := json.Marshal(r)
		var jb snap.Revision
		jerr := json.Unmarshal(js, &jb)
		ys, yerr := yaml.Marshal(r)
		var yb snap.Revision
		if yerr == nil {
			yerr = yaml.Unmarshal(ys, &yb)
		}
		obs := map[string]interface{}{"string": str, "parsed_ok": pok, "parsed": pn, "json": string(js),
			"json_back_ok": jerr == nil, "json_back": jb.N, "yaml": string(ys), "yaml_back_ok": yerr == nil, "yaml_back": yb.N}
		coq := "(CRev " + vh.CoqZ(i.N) + " " + vh.CoqBytes(str) + " " + coqOptZ(pok, pn) + " " + vh.CoqBytes(string(js)) + " " +
			coqOptZ(jerr == nil, int64(jb.N)) + " " + coqOptZ(yerr == nil, int64(yb.N)) + ")"
		tag := "rev-store"
		if i.N < 0 {
			tag = "rev-local"
		} else if i.N == 0 {
			tag = "rev-unset"
		}
		return vh.Out{Observed: obs, Coq: coq, NonTrivial: i.N != 0, Tags: []string{tag}}
	case "revstr":
		pok, pn := parseRev(i.S)
		jok, jn, panicked := unmarshalRevJSON(i.S)
		obs := map[string]interface{}{"parsed_ok": pok, "parsed": pn, "json_ok": jok, "json": jn, "panicked": panicked}
		coq := "(CRevStr " + vh.CoqBytes(i.S) + " " + coqOptZ(pok, pn) + " " + coqOptZ(jok, jn) + ")"
		tag := "revstr-rejected"
		if pok {
			tag = "revstr-accepted"
		}
		return vh.Out{Observed: obs, Coq: coq, NonTrivial: pok || jok, Tags: []string{tag}}
	case "epoch":
		e := i.E.epoch()
		o := i.Other.epoch()
		valid := e.Validate() == nil
		str := e.String()
		data := str
		if !strings.HasPrefix(str, "{") {
			data = strconv.Quote(str)
		}
		sb := epochBack(data)
		js, _ := json.Marshal(e)
		jb := epochBack(string(js))
		ro := e.CanRead(o)
		rs := e.CanRead(e)
		obs := map[string]interface{}{"valid": valid, "string": str, "string_back": sb, "json": string(js), "json_back": jb,
			"can_read_other": ro, "can_read_self": rs}
		coq := "(CEpoch " + coqEpoch(e) + " " + coqEpoch(o) + " " + vh.CoqBool(valid) + " " + vh.CoqBytes(str) + " " + coqOptEpoch(sb) +
			" " + vh.CoqBytes(string(js)) + " " + coqOptEpoch(jb) + " " + vh.CoqBool(ro) + " " + vh.CoqBool(rs) + ")"
		tags := []string{"epoch-invalid"}
		if valid {
			tags = []string{"epoch-valid"}
			if strings.HasPrefix(str, "{") {
				tags = append(tags, "epoch-structured")
			} else {
				tags = append(tags, "epoch-short")
			}
		}
		if ro {
			tags = append(tags, "can-read")
		}
		return vh.Out{Observed: obs, Coq: coq, NonTrivial: valid && !e.IsZero(), Tags: tags}
	case "epochstr":
		res := epochBack(strconv.Quote(i.S))
		obs := map[string]interface{}{"result": res}
		coq := "(CEpochStr " + vh.CoqBytes(i.S) + " " + coqOptEpoch(res) + ")"
		tag := "epochstr-rejected"
		if res != nil {
			tag = "epochstr-accepted"
		}
		return vh.Out{Observed: obs, Coq: coq, NonTrivial: res != nil, Tags: []string{tag}}
	}
	panic("unknown kind " + i.Kind)
}

// ---------------------------------------------------------------- generation

func lists(maxLen int, vals []uint32) [][]uint32 {
	out := [][]uint32{{}}
	prev := [][]uint32{{}}
	for l := 1; l <= maxLen; l++ {
		var cur [][]uint32
		for _, p := range prev {
			for _, v := range vals {
				cur = append(cur, append(append([]uint32{}, p...), v))
			}
		}
		out = append(out, cur...)
		prev = cur
	}
	return out
}

func mkIn(l []uint32, isNil bool) *[]uint32 {
	if isNil {
		return nil
	}
	c := append([]uint32{}, l...)
	return &c
}

func randList(r *vh.Rand) *[]uint32 {
	switch r.Intn(20) {
	case 0:
		return nil
	case 1:
		return mkIn(nil, false)
	}
	n := r.Range(1, 4)
	if r.Chance(1, 8) {
		n = r.Range(5, 12)
	}
	base := uint32(r.Intn(4))
	if r.Chance(1, 10) {
		base = math.MaxUint32 - uint32(r.Intn(6))
	}
	l := make([]uint32, 0, n)
	cur := base
	for k := 0; k < n; k++ {
		l = append(l, cur)
		switch {
		case r.Chance(1, 12): // break monotonicity
			cur -= uint32(r.Intn(2))
		default:
			cur += uint32(r.Range(1, 2))
		}
	}
	return &l
}

func revString(r *vh.Rand) string {
	switch r.Intn(10) {
	case 0:
		return r.Pick([]string{"", "unset", "x", "0", "x0", "-1", "x-1", "+5", "x+5", "00", "007", "x007", "unse", "unsett", "X1",
			"9223372036854775807", "9223372036854775808", "x9223372036854775807", "x9223372036854775808", "-9223372036854775808",
			"\"1\"", "\"x1\"", "\"unset\"", "\"\"", "\"0\"", "\"x\"", "1\"", "\"1", "-0", "+0", "12", "-12", "1_000", "0x10", " 1", "1 ", "1.0", "1e3"})
	case 1, 2, 3:
		return r.Pick([]string{"", "x", "\"", "\"x"}) + r.Str("0123456789", 1, 4) + r.Pick([]string{"", "", "\""})
	case 4:
		return r.Pick([]string{"", "x"}) + r.Pick([]string{"+", "-", ""}) + r.Str("0123456789", 17, 21)
	case 5:
		s := "\"" + r.Str("x0123456789unset+-", 0, 6) + "\""
		return s
	}
	s := r.Str("x0123456789unset+- \"", 0, 6)
	return s
}

func epochString(r *vh.Rand) string {
	switch r.Intn(8) {
	case 0:
		return r.Pick([]string{"", "0", "0*", "*", "1*", "00", "01", "1**", "4294967295", "4294967296", "4294967295*", "4294967296*",
			"-1", "+1", "1 ", " 1", "a", "1a", "99999999999999999999", "0x1", "1_0"})
	case 1, 2, 3:
		return r.Str("0123456789", 1, 3) + r.Pick([]string{"", "*"})
	case 4:
		return r.Str("0123456789", 9, 11) + r.Pick([]string{"", "*"})
	}
	return r.Str("0123456789*+- a", 0, 5)
}

func gen(r *vh.Rand, tier string, n int) []in {
	var ins []in
	if n == 0 {
		n = 1500
	}
	// revisions: boundaries, then random
	for _, v := range []int64{0, 1, -1, 2, -2, 9, 10, -10, 99, 100, math.MaxInt32, math.MinInt32, math.MaxInt64, math.MaxInt64 - 1,
		math.MinInt64 + 1, math.MinInt64, 1 << 32, -(1 << 32), 1 << 53} {
		ins = append(ins, in{Kind: "rev", N: v})
	}
	for k := 0; k < n/4; k++ {
		v := int64(r.U64() >> uint(r.Intn(64)))
		if r.Bool() {
			v = -v
		}
		ins = append(ins, in{Kind: "rev", N: v})
	}
	for k := 0; k < n/2; k++ {
		s := revString(r)
		if s == "\"" { // UnmarshalJSON slices [1:0] and panics on this one byte; never produced by encoding/json
			continue
		}
		ins = append(ins, in{Kind: "revstr", S: s})
	}
	// epochs: every pair of lists of length <= 2 over {0,1,2} (plus nil), the other epoch rotating over the same set
	all := lists(2, []uint32{0, 1, 2})
	type lo struct {
		l     []uint32
		isNil bool
	}
	opts := []lo{{nil, true}}
	for _, l := range all {
		opts = append(opts, lo{l, false})
	}
	k := 0
	for _, rd := range opts {
		for _, wr := range opts {
			o1 := opts[k%len(opts)]
			o2 := opts[(k*7+3)%len(opts)]
			k++
			ins = append(ins, in{Kind: "epoch", E: &epochIn{mkIn(rd.l, rd.isNil), mkIn(wr.l, wr.isNil)},
				Other: &epochIn{mkIn(o1.l, o1.isNil), mkIn(o2.l, o2.isNil)}})
		}
	}
	for k := 0; k < n/2; k++ {
		e := &epochIn{randList(r), randList(r)}
		if r.Chance(1, 3) && e.Read != nil && len(*e.Read) > 0 { // valid-looking: write = suffix of read
			w := append([]uint32{}, (*e.Read)[r.Intn(len(*e.Read)):]...)
			e.Write = &w
		}
		o := &epochIn{randList(r), randList(r)}
		if r.Chance(1, 2) && e.Read != nil && len(*e.Read) > 0 {
			w := []uint32{(*e.Read)[r.Intn(len(*e.Read))]}
			o.Write = &w
		}
		ins = append(ins, in{Kind: "epoch", E: e, Other: o})
	}
	for k := 0; k < n/4; k++ {
		ins = append(ins, in{Kind: "epochstr", S: epochString(r)})
	}
	return ins
}

func main() { vh.Run(gen, exec) }
