//go:build verif

// Driver for C34: runs snap/channel's ParseVerbatim / Parse / Clean / String / Full / Resolve / ResolvePinned on an
// exhaustively enumerated vocabulary of channel strings (plus a random stream) and prints the observed behaviour as
// Coq terms of type V.models.Channel.case.
package main

import (
	"errors"
	"strings"

	"github.com/snapcore/snapd/arch"
	"github.com/snapcore/snapd/snap/channel"
	"github.com/snapcore/snapd/zzverif/vh"
)

type chanIn struct {
	Arch   string `json:"arch"`
	Name   string `json:"name"`
	Track  string `json:"track"`
	Risk   string `json:"risk"`
	Branch string `json:"branch"`
}

type in struct {
	Kind  string  `json:"kind"` // parse | clean | resolve | pinned
	S     string  `json:"s,omitempty"`
	Arch  string  `json:"arch,omitempty"`
	C     *chanIn `json:"c,omitempty"`
	Cur   string  `json:"cur,omitempty"`
	New   string  `json:"new,omitempty"`
	Track string  `json:"track,omitempty"`
}

func coqChan(c channel.Channel) string {
	return "(mkChan " + vh.CoqBytes(c.Architecture) + " " + vh.CoqBytes(c.Name) + " " + vh.CoqBytes(c.Track) + " " +
		vh.CoqBytes(c.Risk) + " " + vh.CoqBytes(c.Branch) + ")"
}
func coqOptChan(c *channel.Channel) string {
	if c == nil {
		return "None"
	}
	return "(Some " + coqChan(*c) + ")"
}
func coqOptStr(s *string) string {
	if s == nil {
		return "None"
	}
	return "(Some " + vh.CoqBytes(*s) + ")"
}

func pv(s, a string) *channel.Channel {
	c, err := channel.ParseVerbatim(s, a)
	if err != nil {
		return nil
	}
	return &c
}
func parse(s, a string) *channel.Channel {
	c, err := channel.Parse(s, a)
	if err != nil {
		return nil
	}
	return &c
}
func chanFull(c *channel.Channel) (res *string) {
	defer func() {
		if recover() != nil {
			res = nil
		}
	}()
	f := c.Full()
	return &f
}
func fullStr(s string) *string {
	f, err := channel.Full(s)
	if err != nil {
		return nil
	}
	return &f
}

var riskNames = map[string]bool{"stable": true, "candidate": true, "beta": true, "edge": true}

func shapeTag(s string) string {
	n := strings.Count(s, "/")
	return "slashes-" + string(rune('0'+n%10))
}

func exec(i in) vh.Out {
	switch i.Kind {
	case "parse":
		sys := arch.DpkgArchitecture()
		v := pv(i.S, i.Arch)
		p := parse(i.S, i.Arch)
		var full *string
		var cl, rp *channel.Channel
		if p != nil {
			full = chanFull(p)
			c := p.Clean()
			cl = &c
			rp = parse(p.String(), i.Arch)
		}
		fs := fullStr(i.S)
		var fs2 *string
		if fs != nil {
			fs2 = fullStr(*fs)
		}
		obs := map[string]interface{}{"verbatim": v, "parse": p, "full": full, "clean": cl, "reparse": rp, "fullstr": fs, "fullstr2": fs2}
		coq := "(CParse " + vh.CoqBytes(sys) + " " + vh.CoqBytes(i.S) + " " + vh.CoqBytes(i.Arch) + " " + coqOptChan(v) + " " +
			coqOptChan(p) + " " + coqOptStr(full) + " " + coqOptChan(cl) + " " + coqOptChan(rp) + " " + coqOptStr(fs) + " " + coqOptStr(fs2) + ")"
		tags := []string{"parse-rejected", shapeTag(i.S)}
		if fs != nil && *fs != "" {
			tags = append(tags, "fullstr-nonempty")
			if strings.Contains(i.S, "//") || strings.HasPrefix(i.S, "/") || strings.HasSuffix(i.S, "/") {
				tags = append(tags, "fullstr-dropped-empty-components")
			}
		}
		if p != nil {
			tags[0] = "parse-accepted"
			if p.Name != i.S {
				tags = append(tags, "parse-normalised")
			}
		}
		return vh.Out{Observed: obs, Coq: coq, NonTrivial: p != nil, Tags: tags}
	case "clean":
		c := channel.Channel{Architecture: i.C.Arch, Name: i.C.Name, Track: i.C.Track, Risk: i.C.Risk, Branch: i.C.Branch}
		c1 := c.Clean()
		c2 := c1.Clean()
		obs := map[string]interface{}{"clean": c1, "clean2": c2}
		coq := "(CClean " + coqChan(c) + " " + coqChan(c1) + " " + coqChan(c2) + ")"
		return vh.Out{Observed: obs, Coq: coq, NonTrivial: c1 != c, Tags: []string{"clean"}}
	case "resolve":
		r, err := channel.Resolve(i.Cur, i.New)
		var res *string
		var rp *channel.Channel
		var res2 *string
		if err == nil {
			res = &r
			rp = pv(r, "-")
			if r2, err2 := channel.Resolve(i.Cur, r); err2 == nil {
				res2 = &r2
			}
		}
		cc := pv(i.Cur, "-")
		nc := pv(i.New, "-")
		obs := map[string]interface{}{"result": res, "cur": cc, "new": nc, "result_parsed": rp, "result2": res2}
		coq := "(CResolve " + vh.CoqBytes(i.Cur) + " " + vh.CoqBytes(i.New) + " " + coqOptStr(res) + " " + coqOptChan(cc) + " " +
			coqOptChan(nc) + " " + coqOptChan(rp) + " " + coqOptStr(res2) + ")"
		tags := []string{"resolve-error"}
		nt := false
		if err == nil {
			tags[0] = "resolve-unchanged"
			if r != i.New && i.New != "" {
				tags[0] = "resolve-track-inherited"
				nt = true
			}
		}
		if cc != nil && nc != nil && nc.Track == "" && nc.Risk != "" {
			tags = append(tags, "risk-only-request-on-parseable-current")
		}
		return vh.Out{Observed: obs, Coq: coq, NonTrivial: nt, Tags: tags}
	case "pinned":
		r, err := channel.ResolvePinned(i.Track, i.New)
		var rp *channel.Channel
		coqRes, tag := "", ""
		obs := map[string]interface{}{}
		switch {
		case err == nil:
			rp = pv(r, "-")
			coqRes, tag = "(POk "+vh.CoqBytes(r)+")", "pinned-ok"
			obs["result"] = r
		case errors.Is(err, channel.ErrPinnedTrackSwitch):
			coqRes, tag = "PSwitch", "pinned-switch-refused"
			obs["error"] = "switch"
		default:
			coqRes, tag = "PInvalid", "pinned-invalid-track"
			obs["error"] = "invalid"
		}
		obs["result_parsed"] = rp
		coqRes2 := "PInvalid"
		if err == nil {
			r2, err2 := channel.ResolvePinned(i.Track, r)
			switch {
			case err2 == nil:
				coqRes2 = "(POk " + vh.CoqBytes(r2) + ")"
				obs["result2"] = r2
			case errors.Is(err2, channel.ErrPinnedTrackSwitch):
				coqRes2 = "PSwitch"
				obs["error2"] = "switch"
			default:
				obs["error2"] = "invalid"
			}
		}
		coq := "(CPinned " + vh.CoqBytes(i.Track) + " " + vh.CoqBytes(i.New) + " " + coqRes + " " + coqOptChan(rp) + " " + coqRes2 + ")"
		return vh.Out{Observed: obs, Coq: coq, NonTrivial: i.Track != "" && tag != "pinned-invalid-track", Tags: []string{tag}}
	}
	panic("unknown kind " + i.Kind)
}

// ---------------------------------------------------------------- generation

var vocab9 = []string{"", "latest", "stable", "candidate", "beta", "edge", "foo", "1.0", "hotfix"}
var vocab6 = []string{"", "latest", "stable", "edge", "foo", "1.0"}
var vocab5 = []string{"", "latest", "stable", "edge", "foo"}
var vocabP = []string{"", "latest", "edge", "foo", "foox"} // pinned tracks: one word is a proper prefix of another

// all strings made of 1..maxComps vocabulary words joined by "/"
func enum(vocab []string, maxComps int) []string {
	var out []string
	prev := []string{}
	for k := 1; k <= maxComps; k++ {
		var cur []string
		if k == 1 {
			cur = append(cur, vocab...)
		} else {
			for _, p := range prev {
				for _, w := range vocab {
					cur = append(cur, p+"/"+w)
				}
			}
		}
		out = append(out, cur...)
		prev = cur
	}
	return out
}

var archs = []string{"amd64", "arm64", "-", "", "riscv64", "x"}

func randWord(r *vh.Rand) string {
	switch r.Intn(10) {
	case 0, 1, 2, 3, 4:
		return r.Pick(vocab9)
	case 5:
		return r.Pick([]string{"latest ", "Latest", "stable2", "STABLE", "edge-", "é", "日本", " ", "-", "..", "lates", "stabl"})
	case 6:
		return r.Str("abcdefghijklmnopqrstuvwxyz0123456789.-_", 1, 8)
	case 7:
		return r.Str("/ae", 0, 3)
	}
	return r.Pick(vocab9[1:])
}

func randChannel(r *vh.Rand) string {
	n := r.Range(1, 3)
	if r.Chance(1, 6) {
		n = r.Range(4, 6)
	}
	ws := make([]string, n)
	for k := range ws {
		ws[k] = randWord(r)
	}
	return strings.Join(ws, "/")
}

func gen(r *vh.Rand, tier string, n int) []in {
	if n == 0 {
		n = 1500
	}
	var ins []in
	thorough := tier == "thorough"
	// 1. every unary entry point on every vocabulary string with up to 3 (thorough: 4) slashes
	var strs []string
	if thorough {
		// all 1..4 components over the nine words (7 380) and every 5-component string over four of them (1 024, all refused)
		strs = enum(vocab9, 4)
		for _, s := range enum([]string{"", "latest", "stable", "foo"}, 5) {
			if strings.Count(s, "/") == 4 {
				strs = append(strs, s)
			}
		}
	} else {
		// 1..3 components over the nine words, 4 components (always refused: too many) over five of them
		strs = enum(vocab9, 3)
		for _, s := range enum(vocab5, 4) {
			if strings.Count(s, "/") == 3 {
				strs = append(strs, s)
			}
		}
	}
	for k, s := range strs {
		ins = append(ins, in{Kind: "parse", S: s, Arch: archs[k%len(archs)]})
	}
	// 2. Clean on arbitrary Channel values (fields need not come from the parser)
	fv := []string{"", "latest", "stable", "edge", "foo", "a/b"}
	for _, t := range fv {
		for _, ri := range fv {
			for _, b := range fv {
				ins = append(ins, in{Kind: "clean", C: &chanIn{Arch: "amd64", Name: "junk", Track: t, Risk: ri, Branch: b}})
			}
		}
	}
	// 3. Resolve / ResolvePinned on all pairs
	// quick: every one-word track plus a few two-component ones (all two-component tracks are invalid pinned tracks)
	curs, news, tracks := enum(vocab5, 3), enum(vocab5, 2), append(enum(vocabP, 1), "foo/edge", "latest/", "/foo", "edge/foo")
	pnews := enum(vocabP, 3)
	if thorough {
		// sized so that the whole thorough tier stays below ~27k cases (about 5 ms of Coq evaluation each)
		curs, news = enum(vocab5, 3), enum(vocab6, 2) // 155 x 42
		tracks = enum(vocabP, 2)                      // all 30 tracks of 1..2 components x 155
	}
	for _, c := range curs {
		for _, nw := range news {
			ins = append(ins, in{Kind: "resolve", Cur: c, New: nw})
		}
	}
	for _, t := range tracks {
		for _, nw := range pnews {
			ins = append(ins, in{Kind: "pinned", Track: t, New: nw})
		}
	}
	// the recorded finding (track named like a risk) is replayed on every run, whatever the enumeration bounds
	ins = append(ins, in{Kind: "resolve", Cur: "edge/stable/hotfix", New: "beta"})
	// 4. random stream: odd words, non-ASCII, doubled slashes, long strings
	for k := 0; k < n; k++ {
		switch k % 4 {
		case 0:
			ins = append(ins, in{Kind: "parse", S: randChannel(r), Arch: r.Pick(archs)})
		case 1:
			ins = append(ins, in{Kind: "clean", C: &chanIn{Arch: r.Pick(archs), Name: randWord(r), Track: randWord(r), Risk: randWord(r), Branch: randWord(r)}})
		case 2:
			ins = append(ins, in{Kind: "resolve", Cur: randChannel(r), New: randChannel(r)})
		case 3:
			t := randWord(r)
			nw := randChannel(r)
			if r.Chance(1, 3) {
				nw = t + r.Pick([]string{"", "/", "/edge", "x/edge", "/stable/b", "/foo"})
			}
			ins = append(ins, in{Kind: "pinned", Track: t, New: nw})
		}
	}
	return ins
}

func main() { vh.Run(gen, exec) }
