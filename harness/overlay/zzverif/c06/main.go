//go:build verif

// Driver for C06. A plain (non-test) binary, so osutil's snapdUnsafeIO is false. For every generated scenario it
// re-executes itself under `strace -f` as a child that performs the real osutil.AtomicWriteFile / AtomicWrite /
// NewAtomicFile..Commit / CommitAs / Cancel / AtomicRename / AtomicSymlink calls in a scratch directory, parses the
// system-call trace into the operation language of V.models.AtomicWrite (Creat, Write, Fsync, Meta, Rename,
// FsyncDir, Unlink, Symlink) and prints the case as a Coq term. Any system call on the scratch files that is outside
// that language makes the case `parsed = false` (a mismatch, never silently dropped).
package main

import (
	"bufio"
	"encoding/json"
	"fmt"
	"io"
	"os"
	"os/exec"
	"path/filepath"
	"regexp"
	"strconv"
	"strings"
	"syscall"
	"time"

	"github.com/snapcore/snapd/osutil"
	"github.com/snapcore/snapd/osutil/sys"
	"github.com/snapcore/snapd/zzverif/vh"
)

type file struct {
	Path string `json:"path"`
	Data string `json:"data"`
}

type call struct {
	Kind   string   `json:"kind"` // writefile | write | newcommit | commitas | cancel | rename | symlink
	Chunks []string `json:"chunks,omitempty"`
	Chown  bool     `json:"chown,omitempty"`
	Mtime  bool     `json:"mtime,omitempty"`
	Src    string   `json:"src,omitempty"`  // rename: source path; commitas: the name given to NewAtomicFile
	Data   string   `json:"data,omitempty"` // symlink text
	Mid    string   `json:"mid,omitempty"`  // newcommit: "rename-dir" = the target's directory is renamed away before Commit
}

type in struct {
	Files  []file `json:"files"`
	Target string `json:"target"`
	Calls  []call `json:"calls"`
	// error-path family: the calls run as uid/gid 65534 in directories owned by it; DirMode (if non-zero) is the mode
	// of the target's directory d0 (0300 = writable and searchable but not openable for reading, ...)
	Unpriv  bool `json:"unpriv,omitempty"`
	DirMode int  `json:"dir_mode,omitempty"`
}

// ------------------------------------------------------------------------------------------------ child

type chunkReader struct{ chunks []string }

func (r *chunkReader) Read(p []byte) (int, error) {
	for len(r.chunks) > 0 && r.chunks[0] == "" {
		r.chunks = r.chunks[1:]
	}
	if len(r.chunks) == 0 {
		return 0, io.EOF
	}
	n := copy(p, r.chunks[0])
	r.chunks[0] = r.chunks[0][n:]
	return n, nil
}

func mark(s string) { os.Stat("VERIF-" + s) }

func child(path string) int {
	data, err := os.ReadFile(path)
	if err != nil {
		fmt.Fprintln(os.Stderr, "child:", err)
		return 3
	}
	var ins []in
	if err := json.Unmarshal(data, &ins); err != nil {
		fmt.Fprintln(os.Stderr, "child:", err)
		return 3
	}
	// phase 1 (as the invoking user): directories and pre-existing files of every case
	for k, i := range ins {
		dir := "case-" + strconv.Itoa(k)
		if err := os.Mkdir(dir, 0755); err != nil {
			fmt.Fprintln(os.Stderr, "child:", err)
			return 3
		}
		if err := setupOne(dir, i); err != nil {
			fmt.Fprintln(os.Stderr, "child: setup:", err)
			return 3
		}
	}
	// the error-path family runs without privileges
	if len(ins) > 0 && ins[0].Unpriv {
		if err := syscall.Setgroups([]int{}); err != nil {
			fmt.Fprintln(os.Stderr, "child: setgroups:", err)
			return 3
		}
		if err := syscall.Setgid(65534); err != nil {
			fmt.Fprintln(os.Stderr, "child: setgid:", err)
			return 3
		}
		if err := syscall.Setuid(65534); err != nil {
			fmt.Fprintln(os.Stderr, "child: setuid:", err)
			return 3
		}
	}
	// phase 2: the calls
	rc := 0
	for k, i := range ins {
		if err := os.Chdir("case-" + strconv.Itoa(k)); err != nil {
			fmt.Fprintln(os.Stderr, "child:", err)
			return 3
		}
		mark("CASE-" + strconv.Itoa(k))
		if r := childOne(i); r != 0 {
			fmt.Fprintf(os.Stderr, "child: case %d failed\n", k)
			mark("FAILED")
			rc = r
		}
		os.Chdir("..")
	}
	return rc
}

func setupOne(dir string, i in) error {
	for _, d := range []string{"d0", "d1"} {
		if err := os.Mkdir(filepath.Join(dir, d), 0755); err != nil {
			return err
		}
	}
	for _, f := range i.Files {
		if err := os.WriteFile(filepath.Join(dir, f.Path), []byte(f.Data), 0644); err != nil {
			return err
		}
	}
	if i.Unpriv {
		for _, d := range []string{dir, filepath.Join(dir, "d0"), filepath.Join(dir, "d1")} {
			if err := os.Chown(d, 65534, 65534); err != nil {
				return err
			}
		}
	}
	if i.DirMode != 0 {
		if err := os.Chmod(filepath.Join(dir, "d0"), os.FileMode(i.DirMode)); err != nil {
			return err
		}
	}
	return nil
}

func childOne(i in) int {
	rc := 0
	uid, gid := sys.UserID(os.Getuid()), sys.GroupID(os.Getgid())
	for k, c := range i.Calls {
		mark("CALL-" + strconv.Itoa(k))
		var err error
		switch c.Kind {
		case "writefile":
			data := strings.Join(c.Chunks, "")
			if c.Chown {
				err = osutil.AtomicWriteFileChown(i.Target, []byte(data), 0644, 0, uid, gid)
			} else {
				err = osutil.AtomicWriteFile(i.Target, []byte(data), 0600, 0)
			}
		case "write":
			if c.Chown {
				err = osutil.AtomicWriteChown(i.Target, &chunkReader{append([]string{}, c.Chunks...)}, 0644, 0, uid, gid)
			} else {
				err = osutil.AtomicWrite(i.Target, &chunkReader{append([]string{}, c.Chunks...)}, 0644, 0)
			}
		case "newcommit", "commitas", "cancel":
			name := i.Target
			if c.Kind == "commitas" {
				name = c.Src
			}
			u, g := sys.UserID(osutil.NoChown), sys.GroupID(osutil.NoChown)
			if c.Chown {
				u, g = uid, gid
			}
			var aw *osutil.AtomicFile
			aw, err = osutil.NewAtomicFile(name, 0644, 0, u, g)
			if err != nil {
				break
			}
			for _, ch := range c.Chunks {
				if _, err = aw.Write([]byte(ch)); err != nil {
					break
				}
			}
			if err != nil {
				aw.Cancel()
				break
			}
			if c.Mtime {
				aw.SetModTime(time.Unix(1000000000, 0))
			}
			if c.Mid == "rename-dir" {
				if err = os.Rename(filepath.Dir(i.Target), filepath.Dir(i.Target)+"-moved"); err != nil {
					fmt.Fprintln(os.Stderr, "child: mid action:", err)
					return 3
				}
			}
			switch c.Kind {
			case "newcommit":
				err = aw.Commit()
			case "commitas":
				err = aw.CommitAs(i.Target)
			case "cancel":
				err = aw.Cancel()
			}
			if err != nil && c.Kind != "cancel" {
				aw.Cancel() // what AtomicWriteChown's deferred Cancel does
			}
		case "rename":
			err = osutil.AtomicRename(c.Src, i.Target)
		case "symlink":
			err = osutil.AtomicSymlink(c.Data, i.Target)
		default:
			err = fmt.Errorf("unknown call kind %q", c.Kind)
		}
		if err != nil {
			// an error return is an outcome, not a failure of the driver: the caller is then entitled to the OLD content
			mark("ERR")
			if c.Mid != "" || c.Kind == "newcommit" || c.Kind == "commitas" {
				// callers of NewAtomicFile clean up themselves (AtomicWriteChown defers Cancel)
			}
		}
	}
	mark("END")
	return rc
}

// ------------------------------------------------------------------------------------------------ trace parsing

const traced = "openat,open,creat,write,pwrite64,writev,pwritev,pwritev2,fsync,fdatasync,sync,syncfs,sync_file_range,close," +
	"rename,renameat,renameat2,unlink,unlinkat,rmdir,symlink,symlinkat,link,linkat,fchown,fchownat,chown,lchown," +
	"utimensat,futimesat,utimes,truncate,ftruncate,fallocate,dup,dup2,dup3,newfstatat,stat,lstat,copy_file_range,sendfile,splice," +
	"fchmod,fchmodat,chmod,mkdir,mkdirat"

var lineRe = regexp.MustCompile(`^(\d+)\s+(.*)$`)
var callRe = regexp.MustCompile(`^([a-z0-9_]+)\((.*)\)\s+=\s+(-?\d+|\?)(.*)$`)
var resumedRe = regexp.MustCompile(`^<\.\.\. ([a-z0-9_]+) resumed>(.*)$`)

// split the argument text of a strace line at top-level commas; strings are "\x.." with -xx so contain no commas/quotes
func splitArgs(s string) []string {
	var out []string
	depth, inq, cur := 0, false, strings.Builder{}
	for i := 0; i < len(s); i++ {
		c := s[i]
		switch {
		case c == '"':
			inq = !inq
			cur.WriteByte(c)
		case inq:
			cur.WriteByte(c)
		case c == '{' || c == '[' || c == '(':
			depth++
			cur.WriteByte(c)
		case c == '}' || c == ']' || c == ')':
			depth--
			cur.WriteByte(c)
		case c == ',' && depth == 0:
			out = append(out, strings.TrimSpace(cur.String()))
			cur.Reset()
		default:
			cur.WriteByte(c)
		}
	}
	if strings.TrimSpace(cur.String()) != "" || len(out) > 0 {
		out = append(out, strings.TrimSpace(cur.String()))
	}
	return out
}

// "\x64\x30"... -> bytes; ok=false if the string was abbreviated by strace ("..." suffix) or is not a string
func unhex(a string) (string, bool) {
	if len(a) < 2 || a[0] != '"' {
		return "", false
	}
	end := strings.LastIndexByte(a, '"')
	if end <= 0 || strings.HasSuffix(a, "...") {
		return "", false
	}
	body := a[1:end]
	var sb strings.Builder
	for i := 0; i < len(body); {
		if body[i] == '\\' && i+3 < len(body)+0 && body[i+1] == 'x' {
			v, err := strconv.ParseUint(body[i+2:i+4], 16, 8)
			if err != nil {
				return "", false
			}
			sb.WriteByte(byte(v))
			i += 4
		} else {
			sb.WriteByte(body[i])
			i++
		}
	}
	return sb.String(), true
}

type opT struct {
	K    string `json:"k"`
	A    [2]int `json:"a,omitempty"`
	B    [2]int `json:"b,omitempty"`
	I    int    `json:"i,omitempty"`
	Data string `json:"data,omitempty"`
}

func coqName(n [2]int) string { return fmt.Sprintf("(%d, %d)", n[0], n[1]) }
func (o opT) coq() string {
	switch o.K {
	case "Creat", "Unlink":
		return o.K + " " + coqName(o.A)
	case "Write":
		return fmt.Sprintf("Write %d %s", o.I, vh.CoqBytes(o.Data))
	case "Fsync":
		return fmt.Sprintf("Fsync %d", o.I)
	case "FsyncDir":
		return fmt.Sprintf("FsyncDir %d", o.I)
	case "Rename":
		return "Rename " + coqName(o.A) + " " + coqName(o.B)
	case "Symlink":
		return "Symlink " + coqName(o.A) + " " + vh.CoqBytes(o.Data)
	}
	return "Meta"
}

type parser struct {
	dirs    map[string]int
	bases   map[string]int
	fdino   map[int]int
	fddir   map[int]int
	nextIno int
	steps   [][]opT
	bad     []string
	started bool
	ended   bool
	failed  bool
	errs    map[int]bool // call index -> the call returned an error
}

func (p *parser) name(path string) ([2]int, bool) {
	path = filepath.Clean(path)
	if filepath.IsAbs(path) {
		return [2]int{}, false
	}
	d, b := filepath.Dir(path), filepath.Base(path)
	di, ok := p.dirs[d]
	if !ok {
		return [2]int{}, false
	}
	bi, ok := p.bases[b]
	if !ok {
		bi = len(p.bases)
		p.bases[b] = bi
	}
	return [2]int{di, bi}, true
}

func (p *parser) emit(o opT) {
	if len(p.steps) == 0 {
		p.bad = append(p.bad, "operation before the first call marker: "+o.K)
		return
	}
	p.steps[len(p.steps)-1] = append(p.steps[len(p.steps)-1], o)
}

func (p *parser) unsupported(what string) { p.bad = append(p.bad, what) }

func atoi(s string) int { v, _ := strconv.Atoi(strings.TrimSpace(s)); return v }

// one completed system call
func (p *parser) syscall(name string, args []string, ret int, retErrno string, raw string) {
	pathArg := func(k int) (string, bool) {
		if k >= len(args) {
			return "", false
		}
		return unhex(args[k])
	}
	// markers
	if name == "newfstatat" || name == "stat" || name == "lstat" {
		k := 0
		if name == "newfstatat" {
			k = 1
		}
		if s, ok := pathArg(k); ok && strings.HasPrefix(s, "VERIF-") {
			switch {
			case strings.HasPrefix(s, "VERIF-CALL-"):
				p.started = true
				p.steps = append(p.steps, nil)
			case s == "VERIF-END":
				p.ended = true
			case s == "VERIF-FAILED":
				p.failed = true
			case s == "VERIF-ERR":
				if p.errs == nil {
					p.errs = map[int]bool{}
				}
				p.errs[len(p.steps)-1] = true
			}
		}
		return
	}
	_ = retErrno
	if !p.started || p.ended || ret < 0 {
		// before the first call marker: set-up of the pre-existing files (descriptors closed before the marker);
		// a failed call changes nothing (EEXIST on a temp name just makes AtomicSymlink retry)
		return
	}
	ours := func(path string) bool { _, ok := p.name(path); return ok }
	switch name {
	case "openat", "open", "creat":
		k := 1
		if name != "openat" {
			k = 0
		}
		path, ok := pathArg(k)
		if !ok {
			p.unsupported("unreadable path in " + raw)
			return
		}
		flags := ""
		if k+1 < len(args) {
			flags = args[k+1]
		}
		clean := filepath.Clean(path)
		if di, isDir := p.dirs[clean]; isDir && !filepath.IsAbs(clean) {
			p.fddir[ret] = di
			return
		}
		if !ours(path) {
			return
		}
		n, _ := p.name(path)
		wr := strings.Contains(flags, "O_WRONLY") || strings.Contains(flags, "O_RDWR") || name == "creat"
		switch {
		case wr && strings.Contains(flags, "O_CREAT") && strings.Contains(flags, "O_EXCL") && !strings.Contains(flags, "O_APPEND"):
			p.emit(opT{K: "Creat", A: n})
			p.fdino[ret] = p.nextIno
			p.nextIno++
		case !wr && !strings.Contains(flags, "O_TRUNC") && !strings.Contains(flags, "O_CREAT"):
			// read-only open of a scratch file: no effect
		default:
			p.unsupported("open of an existing file for writing / non-exclusive create: " + raw)
		}
	case "write":
		fd := atoi(args[0])
		if ino, ok := p.fdino[fd]; ok {
			data, ok := pathArg(1)
			if !ok || len(data) != ret {
				p.unsupported("write whose data strace did not show completely: " + raw)
				return
			}
			p.emit(opT{K: "Write", I: ino, Data: data})
		} else if _, ok := p.fddir[fd]; ok {
			p.unsupported("write to a directory descriptor: " + raw)
		}
	case "fsync":
		fd := atoi(args[0])
		if ino, ok := p.fdino[fd]; ok {
			p.emit(opT{K: "Fsync", I: ino})
		} else if d, ok := p.fddir[fd]; ok {
			p.emit(opT{K: "FsyncDir", I: d})
		}
	case "close":
		fd := atoi(args[0])
		if _, ok := p.fdino[fd]; ok {
			p.emit(opT{K: "Meta"})
			delete(p.fdino, fd)
		}
		delete(p.fddir, fd)
	case "fchown", "fchmod":
		if _, ok := p.fdino[atoi(args[0])]; ok {
			p.emit(opT{K: "Meta"})
		}
	case "utimensat", "fchownat", "fchmodat":
		if s, ok := pathArg(1); ok && ours(s) {
			p.emit(opT{K: "Meta"})
		}
	case "chown", "lchown", "chmod", "utimes":
		if s, ok := pathArg(0); ok && ours(s) {
			p.emit(opT{K: "Meta"})
		}
	case "rename", "renameat", "renameat2":
		ai, bi := 0, 1
		if name != "rename" {
			ai, bi = 1, 3
		}
		a, ok1 := pathArg(ai)
		b, ok2 := pathArg(bi)
		if !ok1 || !ok2 {
			p.unsupported("unreadable rename: " + raw)
			return
		}
		if name == "renameat2" && len(args) > 4 && strings.TrimSpace(args[4]) != "0" {
			p.unsupported("renameat2 with flags: " + raw)
			return
		}
		na, oka := p.name(a)
		nb, okb := p.name(b)
		if !oka && !okb {
			return
		}
		if !oka || !okb {
			p.unsupported("rename across the scratch boundary: " + raw)
			return
		}
		p.emit(opT{K: "Rename", A: na, B: nb})
	case "unlink", "unlinkat":
		k := 0
		if name == "unlinkat" {
			k = 1
		}
		if s, ok := pathArg(k); ok && ours(s) {
			if name == "unlinkat" && len(args) > 2 && strings.Contains(args[2], "AT_REMOVEDIR") {
				p.unsupported("rmdir: " + raw)
				return
			}
			n, _ := p.name(s)
			p.emit(opT{K: "Unlink", A: n})
		}
	case "symlink", "symlinkat":
		k := 1
		if name == "symlinkat" {
			k = 2
		}
		text, ok1 := pathArg(0)
		link, ok2 := pathArg(k)
		if ok1 && ok2 && ours(link) {
			n, _ := p.name(link)
			p.emit(opT{K: "Symlink", A: n, Data: text})
			p.nextIno++
		}
	case "newfstatat", "stat", "lstat":
	case "pwrite64", "writev", "pwritev", "pwritev2", "fdatasync", "sync_file_range", "ftruncate", "fallocate", "dup", "dup2", "dup3":
		fd := atoi(args[0])
		_, a := p.fdino[fd]
		_, b := p.fddir[fd]
		if a || b {
			p.unsupported(name + " on a scratch descriptor: " + raw)
		}
	case "copy_file_range", "sendfile", "splice":
		for _, k := range []int{0, 1, 2} {
			if k < len(args) {
				if _, a := p.fdino[atoi(args[k])]; a {
					p.unsupported(name + " on a scratch descriptor: " + raw)
				}
			}
		}
	case "sync", "syncfs":
		p.unsupported(name + ": not in the model's language: " + raw)
	case "link", "linkat", "truncate", "rmdir", "mkdir", "mkdirat":
		for k := range args {
			if s, ok := pathArg(k); ok && (ours(s) || p.isDir(s)) {
				p.unsupported(name + " on a scratch path: " + raw)
				break
			}
		}
	}
}

func (p *parser) isDir(s string) bool { _, ok := p.dirs[filepath.Clean(s)]; return ok }

func newParser(i in) *parser {
	p := &parser{dirs: map[string]int{"d0": 0, "d1": 1}, bases: map[string]int{}, fdino: map[int]int{}, fddir: map[int]int{}}
	// fixed numbering of the known names: target first, then the pre-existing files, then whatever shows up
	p.name(i.Target)
	for _, f := range i.Files {
		p.name(f.Path)
	}
	p.nextIno = len(i.Files)
	return p
}

var caseMarkRe = regexp.MustCompile(`VERIF-CASE-(\d+)`)

func parseTrace(path string, ins []in) ([]*parser, error) {
	ps := make([]*parser, len(ins))
	for k := range ins {
		ps[k] = newParser(ins[k])
	}
	var p *parser
	f, err := os.Open(path)
	if err != nil {
		return nil, err
	}
	defer f.Close()
	pendingU := map[string]string{} // pid -> unfinished prefix
	sc := bufio.NewScanner(f)
	sc.Buffer(make([]byte, 1<<20), 1<<26)
	for sc.Scan() {
		m := lineRe.FindStringSubmatch(sc.Text())
		if m == nil {
			continue
		}
		pid, rest := m[1], m[2]
		if strings.HasSuffix(rest, "<unfinished ...>") {
			pendingU[pid] = strings.TrimSuffix(rest, "<unfinished ...>")
			continue
		}
		if r := resumedRe.FindStringSubmatch(rest); r != nil {
			rest = pendingU[pid] + r[2]
			delete(pendingU, pid)
		}
		c := callRe.FindStringSubmatch(rest)
		if c == nil {
			continue // signals, exits
		}
		ret := -1
		if c[3] != "?" {
			ret = atoi(c[3])
		}
		args := splitArgs(c[2])
		if c[1] == "newfstatat" && len(args) > 1 {
			if s, ok := unhex(args[1]); ok {
				if cm := caseMarkRe.FindStringSubmatch(s); cm != nil && atoi(cm[1]) < len(ps) {
					p = ps[atoi(cm[1])]
					continue
				}
			}
		}
		if p != nil {
			p.syscall(c[1], args, ret, strings.TrimSpace(c[4]), rest)
		}
	}
	return ps, sc.Err()
}

// ------------------------------------------------------------------------------------------------ parent

// runBatch performs the scenarios in one child process under one strace and returns one parser per scenario
func runBatch(ins []in) []*parser {
	base := vh.Env("VERIF_SCRATCH_DIR", os.TempDir())
	dir, err := os.MkdirTemp(base, "c06-work-")
	if err != nil {
		panic(err)
	}
	defer os.RemoveAll(dir)
	work := filepath.Join(dir, "w")
	if err := os.Mkdir(work, 0755); err != nil {
		panic(err)
	}
	exe, err := os.Executable()
	if err != nil {
		panic(err)
	}
	js, _ := json.Marshal(ins)
	inPath := filepath.Join(dir, "inputs.json")
	if err := os.WriteFile(inPath, js, 0644); err != nil {
		panic(err)
	}
	tracePath := filepath.Join(dir, "trace.txt")
	cmd := exec.Command("strace", "-f", "-qq", "-o", tracePath, "-s", "100000", "-xx", "-e", "trace="+traced, exe, "child", inPath)
	cmd.Dir = work
	out, runErr := cmd.CombinedOutput()
	ps, err := parseTrace(tracePath, ins)
	if err != nil {
		panic(fmt.Sprintf("strace did not run: %v %v\n%s", err, runErr, out))
	}
	for k, p := range ps {
		if !p.started {
			panic(fmt.Sprintf("no call marker for case %d in the strace output (strace not working?): %v\n%s", k, runErr, out))
		}
	}
	return ps
}

func execCase(i in, p *parser) vh.Out {
	var bad []string
	bad = append(bad, p.bad...)
	if p.failed {
		bad = append(bad, "the child could not set the case up")
	}
	if !p.ended {
		bad = append(bad, "no end marker")
	}
	if len(p.steps) != len(i.Calls) {
		bad = append(bad, fmt.Sprintf("%d call markers for %d calls", len(p.steps), len(i.Calls)))
	}

	// what the caller is entitled to find under the target after each call, from the inputs alone
	content := map[string]*string{}
	for _, f := range i.Files {
		d := f.Data
		content[filepath.Clean(f.Path)] = &d
	}
	tname, _ := p.name(i.Target)
	var filesCoq []string
	for _, f := range i.Files {
		n, _ := p.name(f.Path)
		filesCoq = append(filesCoq, "("+coqName(n)+", "+vh.CoqBytes(f.Data)+")")
	}
	var stepsCoq []string
	var obsSteps []map[string]interface{}
	publishes := false
	for k, c := range i.Calls {
		var ops []opT
		if k < len(p.steps) {
			ops = p.steps[k]
		}
		firstOf := func(kind string) [2]int {
			for _, o := range ops {
				if o.K == kind {
					return o.A
				}
			}
			return [2]int{9, 999}
		}
		var chunks []string
		for _, ch := range c.Chunks {
			// AtomicFile.Write of an empty slice still issues a write(2); the chunk reader and bytes.Reader do not
			if ch != "" || c.Kind == "newcommit" || c.Kind == "commitas" || c.Kind == "cancel" {
				chunks = append(chunks, ch)
			}
		}
		var chunksCoq []string
		for _, ch := range chunks {
			chunksCoq = append(chunksCoq, vh.CoqBytes(ch))
		}
		var acall string
		tgt := filepath.Clean(i.Target)
		erred := p.errs[k]
		hasOp := func(kind string) bool {
			for _, o := range ops {
				if o.K == kind {
					return true
				}
			}
			return false
		}
		switch {
		case erred && (c.Kind == "writefile" || c.Kind == "write" || c.Kind == "newcommit" || c.Kind == "commitas"):
			// refused: the caller keeps the old content. Predicted operation lists: nothing if the temp file could not
			// be created; create, write, clean up if the directory could not be opened for the dir-sync
			switch {
			case !hasOp("Creat"):
				acall = "ANothing"
			case i.DirMode == 0300 && c.Mid == "":
				cc := chunksCoq
				if c.Kind == "writefile" {
					cc = nil
					if d := strings.Join(chunks, ""); d != "" {
						cc = []string{vh.CoqBytes(d)}
					}
				}
				acall = fmt.Sprintf("AWriteFail %s %s %s %s %s COpenDir", vh.CoqBool(c.Chown), vh.CoqBool(c.Mtime && c.Kind != "write" && c.Kind != "writefile"),
					coqName(firstOf("Creat")), coqName(tname), vh.CoqList(cc))
			default:
				acall = "AOther"
			}
		case erred && c.Kind == "rename":
			acall = "AOther"
			if len(ops) == 0 {
				acall = "ANothing"
			}
		case erred && c.Kind == "symlink":
			acall = "ANothing"
			if hasOp("Symlink") {
				acall = fmt.Sprintf("ASymlinkFail %s %s", coqName(firstOf("Symlink")), vh.CoqBytes(c.Data))
			}
		case erred:
			acall = "AOther"
		}
		if acall != "" {
			// fall through to the common tail with the content unchanged
		} else {
			switch c.Kind {
			case "writefile":
				data := strings.Join(chunks, "")
				one := []string{}
				if data != "" {
					one = append(one, vh.CoqBytes(data)) // bytes.Reader.WriteTo: a single write, none for empty data
				}
				acall = fmt.Sprintf("AWrite %s false %s %s %s", vh.CoqBool(c.Chown), coqName(firstOf("Creat")), coqName(tname), vh.CoqList(one))
				content[tgt] = &data
				publishes = true
			case "write", "newcommit", "commitas":
				data := strings.Join(chunks, "")
				acall = fmt.Sprintf("AWrite %s %s %s %s %s", vh.CoqBool(c.Chown), vh.CoqBool(c.Mtime && c.Kind != "write"), coqName(firstOf("Creat")), coqName(tname), vh.CoqList(chunksCoq))
				content[tgt] = &data
				publishes = true
			case "cancel":
				acall = fmt.Sprintf("ACancel %s %s", coqName(firstOf("Creat")), vh.CoqList(chunksCoq))
			case "rename":
				src, _ := p.name(c.Src)
				acall = fmt.Sprintf("ARename %s %s", coqName(src), coqName(tname))
				content[tgt] = content[filepath.Clean(c.Src)]
				delete(content, filepath.Clean(c.Src))
				publishes = true
			case "symlink":
				acall = fmt.Sprintf("ASymlink %s %s %s", coqName(firstOf("Symlink")), coqName(tname), vh.CoqBytes(c.Data))
				d := c.Data
				content[tgt] = &d
				publishes = true
			default:
				acall = "ARename (9, 999) (9, 999)"
				bad = append(bad, "unknown call kind")
			}
		}
		after := "None"
		var afterObs interface{}
		if v := content[tgt]; v != nil {
			after = "(Some " + vh.CoqBytes(*v) + ")"
			afterObs = *v
		}
		var opsCoq []string
		var opsObs []string
		for _, o := range ops {
			opsCoq = append(opsCoq, o.coq())
			opsObs = append(opsObs, o.coq())
		}
		stepsCoq = append(stepsCoq, "("+acall+", "+vh.CoqList(opsCoq)+", "+after+")")
		obsSteps = append(obsSteps, map[string]interface{}{"call": acall, "ops": opsObs, "after": afterObs, "returned_error": erred})
	}
	coq := fmt.Sprintf("(Case %s %s %s %s)", vh.CoqList(filesCoq), coqName(tname), vh.CoqList(stepsCoq), vh.CoqBool(len(bad) == 0))
	tags := []string{fmt.Sprintf("calls-%d", len(i.Calls))}
	for _, c := range i.Calls {
		tags = append(tags, c.Kind)
	}
	if content != nil {
		old := "old-absent"
		for _, f := range i.Files {
			if filepath.Clean(f.Path) == filepath.Clean(i.Target) {
				old = "old-present"
			}
		}
		tags = append(tags, old)
	}
	if len(bad) > 0 {
		tags = append(tags, "unparsed")
	}
	if i.Unpriv {
		tags = append(tags, fmt.Sprintf("unpriv-dir-%04o", i.DirMode))
	}
	if len(p.errs) > 0 {
		tags = append(tags, "error-return")
	}
	return vh.Out{Observed: map[string]interface{}{"steps": obsSteps, "unparsed": bad}, Coq: coq, NonTrivial: (publishes || len(p.errs) > 0) && len(bad) == 0, Tags: tags}
}

// ------------------------------------------------------------------------------------------------ generation

func gen(r *vh.Rand, tier string, n int) []in {
	if n <= 0 {
		n = 190
	}
	var out []in
	target := "d0/state.json"
	olds := []*string{nil, strp("old-content")}
	mk := func(old *string, calls []call, extra ...file) in {
		var fs []file
		if old != nil {
			fs = append(fs, file{target, *old})
		}
		fs = append(fs, extra...)
		return in{Files: fs, Target: target, Calls: calls}
	}
	// small scope, enumerated: every call kind x old absent/present x chown/mtime x same/other directory
	for _, old := range olds {
		for _, data := range [][]string{{}, {"x"}, {"new-", "content", "!"}} {
			out = append(out, mk(old, []call{{Kind: "writefile", Chunks: data}}))
			out = append(out, mk(old, []call{{Kind: "write", Chunks: data}}))
			out = append(out, mk(old, []call{{Kind: "cancel", Chunks: data}}))
			for _, ch := range []bool{false, true} {
				for _, mt := range []bool{false, true} {
					out = append(out, mk(old, []call{{Kind: "newcommit", Chunks: data, Chown: ch, Mtime: mt}}))
				}
			}
			out = append(out, mk(old, []call{{Kind: "commitas", Chunks: data, Src: "d0/other-name", Mtime: true}}))
		}
		out = append(out, mk(old, []call{{Kind: "writefile", Chunks: []string{"abc"}, Chown: true}}))
		out = append(out, mk(old, []call{{Kind: "write", Chunks: []string{"ab", "c"}, Chown: true}}))
		out = append(out, mk(old, []call{{Kind: "rename", Src: "d0/src"}}, file{"d0/src", "from-src"}))
		out = append(out, mk(old, []call{{Kind: "rename", Src: "d1/src"}}, file{"d1/src", "from-other-dir"}))
		out = append(out, mk(old, []call{{Kind: "rename", Src: "d0/./src"}}, file{"d0/src", ""}))
		out = append(out, mk(old, []call{{Kind: "symlink", Data: "../somewhere/else"}}))
		out = append(out, mk(old, []call{{Kind: "symlink", Data: "x"}}))
	}
	// error paths: unprivileged writer, target directory writable+searchable but not openable (0300), search only (0100),
	// read+search only (0500), normal (0700, control); and the directory renamed away between the writes and Commit
	for _, mode := range []int{0300, 0100, 0500, 0700} {
		for _, old := range olds {
			u := func(calls []call, extra ...file) in {
				x := mk(old, calls, extra...)
				x.Unpriv, x.DirMode = true, mode
				return x
			}
			out = append(out, u([]call{{Kind: "writefile", Chunks: []string{"new-content"}}}))
			out = append(out, u([]call{{Kind: "writefile", Chunks: []string{"abc"}, Chown: true}}))
			out = append(out, u([]call{{Kind: "write", Chunks: []string{"new-", "content", "!"}}}))
			out = append(out, u([]call{{Kind: "newcommit", Chunks: []string{"x", "y"}, Chown: true, Mtime: true}}))
			out = append(out, u([]call{{Kind: "commitas", Chunks: []string{"x"}, Src: "d0/other-name"}}))
			out = append(out, u([]call{{Kind: "rename", Src: "d1/src"}}, file{"d1/src", "from-other-dir"}))
			out = append(out, u([]call{{Kind: "symlink", Data: "../somewhere"}}))
			out = append(out, u([]call{{Kind: "writefile", Chunks: []string{"first"}}, {Kind: "writefile", Chunks: []string{"second"}}}))
		}
	}
	for _, old := range olds {
		x := mk(old, []call{{Kind: "newcommit", Chunks: []string{"data"}, Mid: "rename-dir"}})
		x.Unpriv, x.DirMode = true, 0700
		out = append(out, x)
		out = append(out, mk(old, []call{{Kind: "newcommit", Chunks: []string{"data"}, Mtime: true, Mid: "rename-dir"}}))
	}
	// random sequences of 1..4 calls on the same target
	alpha := "abcdefghijklmnopqrstuvwxyz0123456789{}\":, \n\x00"
	for len(out) < n {
		var old *string
		if r.Chance(2, 3) {
			old = strp(r.Str(alpha, 0, 24))
		}
		var extra []file
		var calls []call
		k := r.Range(1, 4)
		for j := 0; j < k; j++ {
			var chunks []string
			for c := r.Range(0, 4); c > 0; c-- {
				chunks = append(chunks, r.Str(alpha, 0, 12))
			}
			switch r.Intn(10) {
			case 0, 1, 2:
				calls = append(calls, call{Kind: "writefile", Chunks: chunks, Chown: r.Chance(1, 4)})
			case 3, 4:
				calls = append(calls, call{Kind: "write", Chunks: chunks, Chown: r.Chance(1, 4)})
			case 5:
				calls = append(calls, call{Kind: "newcommit", Chunks: chunks, Chown: r.Chance(1, 3), Mtime: r.Bool()})
			case 6:
				calls = append(calls, call{Kind: "commitas", Chunks: chunks, Src: "d0/as-" + strconv.Itoa(j), Mtime: r.Bool()})
			case 7:
				calls = append(calls, call{Kind: "cancel", Chunks: chunks})
			case 8:
				src := fmt.Sprintf("d%d/src-%d", r.Intn(2), j)
				extra = append(extra, file{src, r.Str(alpha, 0, 16)})
				calls = append(calls, call{Kind: "rename", Src: src})
			case 9:
				calls = append(calls, call{Kind: "symlink", Data: r.Str("abc/.", 1, 10)})
			}
		}
		out = append(out, mk(old, calls, extra...))
	}
	return out
}

func strp(s string) *string { return &s }

func main() {
	if len(os.Args) >= 3 && os.Args[1] == "child" {
		os.Exit(child(os.Args[2]))
	}
	// vh.Run's loop, batched: many scenarios per strace'd child (process start dominates otherwise)
	var inputs []in
	if rp := os.Getenv("VERIF_REPLAY"); rp != "" {
		data, err := os.ReadFile(rp)
		if err != nil {
			panic(err)
		}
		if err := json.Unmarshal(data, &inputs); err != nil {
			panic(err)
		}
	} else {
		inputs = gen(vh.NewRand(vh.Seed()), vh.Tier(), vh.N(0))
	}
	f, err := os.Create(vh.Env("VERIF_OUT", "/dev/stdout"))
	if err != nil {
		panic(err)
	}
	defer f.Close()
	enc := json.NewEncoder(f)
	const batch = 50
	outs := make([]vh.Out, len(inputs))
	for _, unpriv := range []bool{false, true} {
		var idx []int
		for k := range inputs {
			if inputs[k].Unpriv == unpriv {
				idx = append(idx, k)
			}
		}
		for lo := 0; lo < len(idx); lo += batch {
			hi := lo + batch
			if hi > len(idx) {
				hi = len(idx)
			}
			var part []in
			for _, k := range idx[lo:hi] {
				part = append(part, inputs[k])
			}
			ps := runBatch(part)
			for j, k := range idx[lo:hi] {
				outs[k] = execCase(inputs[k], ps[j])
			}
		}
	}
	for k := range inputs {
		o := outs[k]
		if err := enc.Encode(vh.Case{ID: k, Input: inputs[k], Observed: o.Observed, Coq: o.Coq, NonTrivial: o.NonTrivial, Tags: o.Tags}); err != nil {
			panic(err)
		}
	}
	fmt.Fprintf(os.Stderr, "vh: %d cases written\n", len(inputs))
}
