//go:build verif

// Package vh is the shared helper library of the /verif drivers. It is never part of /repo: the check adds
// it (and every driver) to the build through `go -overlay`.
package vh

import (
	"encoding/json"
	"fmt"
	"os"
	"strconv"
	"strings"
)

// ---------------------------------------------------------------- PRNG (SplitMix64; every choice derives from VERIF_SEED)

type Rand struct{ s uint64 }

// NewRand hashes the seed before use, so that the streams of neighbouring seeds (and of seed + k*7919, used when
// a check widens its search) share nothing.
func NewRand(seed uint64) *Rand {
	z := seed + 0x9E3779B97F4A7C15
	z = (z ^ (z >> 30)) * 0xBF58476D1CE4E5B9
	z = (z ^ (z >> 27)) * 0x94D049BB133111EB
	z ^= z >> 31
	return &Rand{s: z*0x9E3779B97F4A7C15 + 0x1234567}
}

func (r *Rand) U64() uint64 {
	r.s += 0x9E3779B97F4A7C15
	z := r.s
	z = (z ^ (z >> 30)) * 0xBF58476D1CE4E5B9
	z = (z ^ (z >> 27)) * 0x94D049BB133111EB
	return z ^ (z >> 31)
}
func (r *Rand) Intn(n int) int {
	if n <= 0 {
		return 0
	}
	return int(r.U64() % uint64(n))
}
func (r *Rand) Range(lo, hi int) int { return lo + r.Intn(hi-lo+1) } // inclusive
func (r *Rand) Bool() bool          { return r.U64()&1 == 1 }
func (r *Rand) Chance(num, den int) bool { return r.Intn(den) < num }
func (r *Rand) Pick(xs []string) string { return xs[r.Intn(len(xs))] }
func (r *Rand) Fork() *Rand         { return NewRand(r.U64()) }
func (r *Rand) Perm(n int) []int {
	p := make([]int, n)
	for i := range p {
		p[i] = i
	}
	for i := n - 1; i > 0; i-- {
		j := r.Intn(i + 1)
		p[i], p[j] = p[j], p[i]
	}
	return p
}

// String over an alphabet, length in [lo,hi]
func (r *Rand) Str(alpha string, lo, hi int) string {
	n := r.Range(lo, hi)
	b := make([]byte, n)
	for i := range b {
		b[i] = alpha[r.Intn(len(alpha))]
	}
	return string(b)
}

// ---------------------------------------------------------------- Coq term printing

func CoqN(n uint64) string  { return strconv.FormatUint(n, 10) + "%N" }
func CoqNat(n int) string   { return strconv.Itoa(n) + "%nat" }
func CoqZ(n int64) string {
	if n < 0 {
		return "(" + strconv.FormatInt(n, 10) + ")%Z"
	}
	return strconv.FormatInt(n, 10) + "%Z"
}
func CoqBool(b bool) string {
	if b {
		return "true"
	}
	return "false"
}

// CoqBytes renders a Go string as a Coq term of type `list N` (V.lib.Bytes.bytes).
func CoqBytes(s string) string {
	printable := true
	for i := 0; i < len(s); i++ {
		if s[i] < 0x20 || s[i] > 0x7e || s[i] == '"' {
			printable = false
			break
		}
	}
	if printable {
		return `(bs "` + s + `")`
	}
	var sb strings.Builder
	sb.WriteString("[")
	for i := 0; i < len(s); i++ {
		if i > 0 {
			sb.WriteString(";")
		}
		sb.WriteString(strconv.Itoa(int(s[i])))
	}
	sb.WriteString("]%N")
	return sb.String()
}

func CoqList(items []string) string { return "[" + strings.Join(items, "; ") + "]" }
func CoqOpt(ok bool, v string) string {
	if ok {
		return "(Some " + v + ")"
	}
	return "None"
}
func CoqTuple(items ...string) string { return "(" + strings.Join(items, ", ") + ")" }

// ---------------------------------------------------------------- case plumbing

type Case struct {
	ID         int         `json:"id"`
	Input      interface{} `json:"input"`
	Observed   interface{} `json:"observed"`
	Coq        string      `json:"coq"`
	NonTrivial bool        `json:"nontrivial"`
	Tags       []string    `json:"tags,omitempty"`
}

type Out struct {
	Observed   interface{}
	Coq        string // Coq term of the driver's case type (input + observed)
	NonTrivial bool
	Tags       []string
}

func Env(name, def string) string {
	if v := os.Getenv(name); v != "" {
		return v
	}
	return def
}
func Seed() uint64 {
	v, _ := strconv.ParseUint(Env("VERIF_SEED", "1"), 10, 64)
	return v
}
func Tier() string { return Env("VERIF_TIER", "quick") }
func N(def int) int {
	if v, err := strconv.Atoi(os.Getenv("VERIF_N")); err == nil && v > 0 {
		return v
	}
	return def
}

// Run is the body of every driver: gen produces the inputs (or they come from VERIF_REPLAY, a JSON array of
// inputs), exec runs the implementation on one input and renders the observed case as a Coq term.
func Run[I any](gen func(r *Rand, tier string, n int) []I, exec func(in I) Out) {
	var inputs []I
	if rp := os.Getenv("VERIF_REPLAY"); rp != "" {
		data, err := os.ReadFile(rp)
		if err != nil {
			panic(err)
		}
		if err := json.Unmarshal(data, &inputs); err != nil {
			panic(err)
		}
	} else {
		inputs = gen(NewRand(Seed()), Tier(), N(0))
	}
	f, err := os.Create(Env("VERIF_OUT", "/dev/stdout"))
	if err != nil {
		panic(err)
	}
	defer f.Close()
	enc := json.NewEncoder(f)
	for i, in := range inputs {
		o := exec(in)
		if err := enc.Encode(Case{ID: i, Input: in, Observed: o.Observed, Coq: o.Coq, NonTrivial: o.NonTrivial, Tags: o.Tags}); err != nil {
			panic(err)
		}
	}
	fmt.Fprintf(os.Stderr, "vh: %d cases written\n", len(inputs))
}
