//go:build verif

// Driver for C24: runs the daemon's name validators (snap/naming), ParseSecurityTag and the tag generators of
// snap/info.go, and — through the co-process built by checks/c24.py from the unmodified C sources — snap-confine's
// and snap-update-ns' validators, on the same strings. Prints the observed verdicts as Coq terms of type
// V.models.Naming.case.
package main

import (
	"bufio"
	"encoding/hex"
	"fmt"
	"os"
	"os/exec"
	"path/filepath"
	"strings"

	"github.com/snapcore/snapd/snap"
	"github.com/snapcore/snapd/snap/naming"
	"github.com/snapcore/snapd/zzverif/vh"
)

// B is a byte string that survives JSON exactly (base64)
type B []byte

type in struct {
	Kind    string `json:"kind"` // name | tag | gen | sweep (all strings of length N over S) | more | sweepmore | ishook
	N       int    `json:"n,omitempty"`
	S       B      `json:"s,omitempty"`
	Inst    B      `json:"inst,omitempty"`
	Comp    B      `json:"comp,omitempty"`
	HasComp bool   `json:"hascomp,omitempty"`
	Hook    bool   `json:"hook,omitempty"`
	Name    B      `json:"name,omitempty"`
	Key     B      `json:"key,omitempty"` // gen: instance key (Inst is the snap name there)
	Text    string `json:"text"`          // readable rendering, informational only
}

// ---------------------------------------------------------------- the C co-process

type cproc struct {
	cmd *exec.Cmd
	w   *bufio.Writer
	r   *bufio.Reader
}

var cp *cproc

func startC() *cproc {
	path := os.Getenv("VERIF_C24_CDRIVER")
	if path == "" {
		path = filepath.Join(os.Getenv("VERIF_SCRATCH_DIR"), "c24_cdriver")
	}
	cmd := exec.Command(path)
	cmd.Env = []string{"LC_ALL=C"}
	cmd.Stderr = os.Stderr
	stdin, err := cmd.StdinPipe()
	if err != nil {
		panic(err)
	}
	stdout, err := cmd.StdoutPipe()
	if err != nil {
		panic(err)
	}
	if err := cmd.Start(); err != nil {
		panic(fmt.Sprintf("cannot start the C driver %q (built by checks/c24.py): %v", path, err))
	}
	return &cproc{cmd: cmd, w: bufio.NewWriter(stdin), r: bufio.NewReader(stdout)}
}

func (c *cproc) ask(req string) string {
	if _, err := c.w.WriteString(req + "\n"); err != nil {
		panic(err)
	}
	if err := c.w.Flush(); err != nil {
		panic(err)
	}
	line, err := c.r.ReadString('\n')
	if err != nil {
		panic(fmt.Sprintf("C driver died on request %q: %v", req, err))
	}
	return strings.TrimSpace(line)
}

func hx(b []byte) string { return "x" + hex.EncodeToString(b) }

// ---------------------------------------------------------------- generators

const alpha = "az09-_.+A"

func enum(alpha string, maxLen int) []string {
	out := []string{""}
	prev := []string{""}
	for l := 1; l <= maxLen; l++ {
		var cur []string
		for _, p := range prev {
			for i := 0; i < len(alpha); i++ {
				cur = append(cur, p+string(alpha[i]))
			}
		}
		out = append(out, cur...)
		prev = cur
	}
	return out
}

// a dashed name of exactly n bytes that is valid when n is in range (starts with a letter)
func nameOfLen(r *vh.Rand, n int) string {
	if n <= 0 {
		return ""
	}
	b := make([]byte, n)
	for i := range b {
		switch {
		case i == 0:
			b[i] = "abz"[r.Intn(3)]
		case i < n-1 && b[i-1] != '-' && r.Chance(1, 6):
			b[i] = '-'
		default:
			b[i] = "az09"[r.Intn(4)]
		}
	}
	return string(b)
}

func goodName(r *vh.Rand) string {
	switch r.Intn(10) {
	case 0:
		return nameOfLen(r, r.Range(38, 42))
	case 1:
		return r.Pick([]string{"0a", "a0", "00", "1-a", "a", "0", "a-0", "0-0"})
	}
	return nameOfLen(r, r.Range(2, 8))
}

func goodKey(r *vh.Rand) string {
	switch r.Intn(6) {
	case 0:
		return r.Str("az09", 9, 12)
	case 1:
		return ""
	}
	return r.Str("abz019", 1, 4)
}

func mutate(r *vh.Rand, s string) string {
	const junk = "-_+.A Z/~\x01\x7f\x80\xff:a0"
	switch r.Intn(7) {
	case 0:
		i := r.Intn(len(s) + 1)
		return s[:i] + string(junk[r.Intn(len(junk))]) + s[i:]
	case 1:
		if len(s) > 0 {
			i := r.Intn(len(s))
			return s[:i] + s[i+1:]
		}
	case 2:
		if len(s) > 0 {
			i := r.Intn(len(s))
			return s[:i] + string(junk[r.Intn(len(junk))]) + s[i+1:]
		}
	case 3:
		return s + r.Pick([]string{"-", "_", "+", ".", "--", "_a", "+ab", ".x", "\n"})
	case 4:
		return r.Pick([]string{"-", "_", "+", ".", "A"}) + s
	case 5:
		return strings.ToUpper(s)
	}
	return s
}

func instanceName(r *vh.Rand) string {
	n := goodName(r)
	if r.Chance(1, 2) {
		return n
	}
	return n + "_" + goodKey(r)
}

func appName(r *vh.Rand) string {
	switch r.Intn(12) {
	case 0:
		return r.Pick([]string{"hook", "0", "A", "a-", "-a", "a--b", "App-1", "hook.x", ""})
	case 1:
		return nameOfLen(r, r.Range(180, 260)) // long names: tags around snap-confine's 256 byte limit
	}
	return r.Pick([]string{"", "A", "0", "X"}) + nameOfLen(r, r.Range(1, 8))
}

func hookName(r *vh.Rand) string {
	switch r.Intn(12) {
	case 0:
		return r.Pick([]string{"0a", "A", "a-", "-a", "a--b", "Install", ""})
	case 1:
		return nameOfLen(r, r.Range(180, 260))
	}
	return r.Pick([]string{"install", "configure", "pre-refresh", "post-refresh", "remove", "connect-plug-x1", nameOfLen(r, r.Range(1, 8))})
}

func gen(r *vh.Rand, tier string, n int) []in {
	var ins []in
	if n == 0 {
		n = 1500
	}
	// 1. every string over the covering alphabet up to length 3 as individual cases, and every string of length 4 and 5
	// (thorough: also 6) as one packed sweep case per length, through every name validator
	for _, s := range enum(alpha, 3) {
		ins = append(ins, in{Kind: "name", S: B(s)})
	}
	ins = append(ins, in{Kind: "sweep", S: B(alpha), N: 4}, in{Kind: "sweep", S: B(alpha), N: 5})
	if tier == "thorough" {
		ins = append(ins, in{Kind: "sweep", S: B(alpha), N: 6})
	}
	// 2. the length limits: 40 (name), 10 (key), 51/52/53 (instance, snap-update-ns buffer), 40+1+40 (component)
	for _, nl := range []int{1, 2, 39, 40, 41, 50, 51, 52, 53, 54, 60} {
		ins = append(ins, in{Kind: "name", S: B(nameOfLen(r, nl))})
		ins = append(ins, in{Kind: "name", S: B(strings.Repeat("a", nl))})
		for _, kl := range []int{0, 1, 9, 10, 11, 12, 13} {
			k := r.Str("az09", kl, kl)
			ins = append(ins, in{Kind: "name", S: B(nameOfLen(r, nl) + "_" + k)})
			ins = append(ins, in{Kind: "name", S: B(nameOfLen(r, nl) + "_" + k + "_")})
			ins = append(ins, in{Kind: "name", S: B(nameOfLen(r, nl) + "_" + k + "_x")})
			ins = append(ins, in{Kind: "name", S: B(k)}) // as a bare key
		}
		for _, cl := range []int{1, 2, 39, 40, 41} {
			ins = append(ins, in{Kind: "name", S: B(nameOfLen(r, nl) + "+" + nameOfLen(r, cl))})
		}
	}
	// 3. random: mostly valid names / instance names / components, and mutations of them
	for i := 0; i < n; i++ {
		var s string
		switch r.Intn(4) {
		case 0:
			s = goodName(r)
		case 1:
			s = instanceName(r)
		case 2:
			s = goodName(r) + "+" + goodName(r)
		default:
			s = r.Str("\x01 -+./09:AZ_az{\x7f\x80\xff", 0, 6)
		}
		if r.Chance(1, 2) {
			s = mutate(r, s)
		}
		if strings.IndexByte(s, 0) >= 0 {
			continue
		}
		ins = append(ins, in{Kind: "name", S: B(s)})
	}
	// 4. tags generated by the daemon's own functions
	for i := 0; i < n/2; i++ {
		x := in{Kind: "gen", Inst: B(goodName(r)), Key: B(goodKey(r)), Hook: r.Bool()}
		if r.Chance(1, 3) {
			x.Key = nil
		}
		if x.Hook {
			x.Name = B(hookName(r))
			if r.Chance(1, 3) {
				x.HasComp, x.Comp = true, B(goodName(r))
			}
		} else {
			x.Name = B(appName(r))
		}
		ins = append(ins, x)
	}
	// 5. tags asked about an (instance, component): built from parts, then mutated
	for i := 0; i < n; i++ {
		inst := instanceName(r)
		x := in{Kind: "tag", Inst: B(inst), Hook: r.Bool()}
		tag := "snap." + inst
		if r.Chance(1, 3) {
			x.HasComp, x.Comp = true, B(goodName(r))
			tag += "+" + string(x.Comp)
		}
		if x.Hook {
			tag += ".hook." + hookName(r)
		} else {
			tag += "." + appName(r)
		}
		switch r.Intn(8) {
		case 0, 1:
			tag = mutate(r, tag)
		case 2: // asked about another instance / component than the tag names
			if r.Bool() {
				x.Inst = B(instanceName(r))
			} else if x.HasComp {
				x.Comp = B(goodName(r))
			} else {
				x.HasComp, x.Comp = true, B(r.Pick([]string{"", "comp", "ab"}))
			}
		case 3:
			x.HasComp, x.Comp = !x.HasComp, B(r.Pick([]string{"", "comp"}))
			if !x.HasComp {
				x.Comp = nil
			}
		case 4:
			tag = strings.Replace(tag, ".hook.", r.Pick([]string{".Hook.", ".hook", "hook.", ".hooks.", ".hook.hook."}), 1)
		}
		if strings.IndexByte(tag, 0) >= 0 {
			continue
		}
		x.S = B(tag)
		ins = append(ins, x)
	}
	// 6. near-miss pairs: the tag names (inst, comp); snap-confine is asked about a pair in which the instance (name or
	// key) or the component is a proper prefix, an extension by one or two bytes, or differs in one byte — in both
	// directions, on tags produced by the real SecurityTag() functions and on assembled ones
	type base struct {
		name, key, comp, hook string
	}
	bases := []base{{"foo", "", "comp", "install"}, {"foo", "k1", "comp", "install"}, {"foo-bar", "", "comp-extra", "configure"},
		{"ab", "x", "cd", "remove"}, {"foo", "", "", "install"}, {"foo", "bar", "", "pre-refresh"}, {goodName(r), goodKey(r), goodName(r), "install"}}
	variants := func(s string) []string {
		if s == "" {
			return []string{"a", "ab"}
		}
		v := []string{s + "a", s + "0", s + "-x", s[:len(s)-1] + "q", "q" + s[1:]}
		for k := 1; k <= 2 && k < len(s); k++ {
			v = append(v, s[:len(s)-k])
		}
		return v
	}
	realTag := func(name, key, comp, hook string, isHook bool) (string, string) {
		info := &snap.Info{SuggestedName: name, InstanceKey: key}
		if !isHook {
			return (&snap.AppInfo{Snap: info, Name: hook}).SecurityTag(), info.InstanceName()
		}
		h := &snap.HookInfo{Snap: info, Name: hook}
		if comp != "" {
			h.Component = &snap.Component{Name: comp}
		}
		return h.SecurityTag(), info.InstanceName()
	}
	addPair := func(tag, askInst, askComp string, hasComp bool) {
		x := in{Kind: "tag", S: B(tag), Inst: B(askInst), HasComp: hasComp}
		if hasComp {
			x.Comp = B(askComp)
		}
		ins = append(ins, x)
	}
	for _, b := range bases {
		for _, isHook := range []bool{true, false} {
			comp := b.comp
			if !isHook {
				comp = "" // no app tags for components
			}
			tag, inst := realTag(b.name, b.key, comp, b.hook, isHook)
			asm := "snap." + inst
			if comp != "" {
				asm += "+" + comp
			}
			if isHook {
				asm += ".hook." + b.hook
			} else {
				asm += "." + b.hook
			}
			for _, tg := range []string{tag, asm} {
				addPair(tg, inst, comp, comp != "") // the matching pair
				for _, v := range variants(inst) {
					addPair(tg, v, comp, comp != "")
				}
				if b.key != "" {
					for _, v := range variants(b.name) {
						addPair(tg, v+"_"+b.key, comp, comp != "")
					}
					for _, v := range variants(b.key) {
						addPair(tg, b.name+"_"+v, comp, comp != "")
					}
				}
				if comp != "" {
					for _, v := range variants(comp) {
						addPair(tg, inst, v, true)
					}
				}
			}
			// the other direction: the tag names the variant, the question is about the base pair
			for _, v := range variants(b.name) {
				tv, _ := realTag(v, b.key, comp, b.hook, isHook)
				addPair(tv, inst, comp, comp != "")
			}
			if comp != "" {
				for _, v := range variants(comp) {
					tv, _ := realTag(b.name, b.key, v, b.hook, isHook)
					addPair(tv, inst, comp, true)
				}
			}
		}
	}
	// 7. the daemon's other validators (app hook plug slot interface alias snap-id socket iface-tag quota-group provenance)
	for _, s := range enum(alpha, 3) {
		ins = append(ins, in{Kind: "more", S: B(s)})
	}
	ins = append(ins, in{Kind: "sweepmore", S: B(alpha), N: 4})
	if tier == "thorough" {
		ins = append(ins, in{Kind: "sweepmore", S: B(alpha), N: 5})
	}
	for _, l := range []int{1, 2, 31, 32, 33, 39, 40, 41, 64} {
		ins = append(ins, in{Kind: "more", S: B(r.Str("azAZ09", l, l))}, in{Kind: "more", S: B(nameOfLen(r, l))},
			in{Kind: "more", S: B(r.Str("azAZ09", l, l) + "-")}, in{Kind: "more", S: B(r.Str("az09AZ-_.", l, l))})
	}
	for _, s := range []string{"a.b_c-d", ".a", "_a", "-a", "a.", "A-b", "a--b", "a-", "Install", "install", "x11", "0ad", "global-upload", "a_b", "a b", "a\n", "\xc3\xa9"} {
		ins = append(ins, in{Kind: "more", S: B(s)})
	}
	for i := 0; i < n/2; i++ {
		s := r.Pick([]string{goodName(r), appName(r), hookName(r), r.Str("azAZ09-_.", 1, 8), r.Str("azAZ09", 32, 32)})
		if r.Chance(1, 3) {
			s = mutate(r, s)
		}
		if strings.IndexByte(s, 0) >= 0 || len(s) > 300 {
			continue
		}
		ins = append(ins, in{Kind: "more", S: B(s)})
	}
	// 8. which tags snap-confine's sc_is_hook_security_tag calls hook tags, against ParseSecurityTag's kind
	for _, nm := range []string{"foo", "0ad", "a0", "9", "foo-bar", "x"} {
		for _, key := range []string{"", "k1", "0"} {
			for _, comp := range []string{"", "comp", "0c"} {
				for _, hk := range []string{"install", "configure", "hook", "0h", "A"} {
					th, _ := realTag(nm, key, comp, hk, true)
					ta, _ := realTag(nm, key, "", hk, false)
					ins = append(ins, in{Kind: "ishook", S: B(th)}, in{Kind: "ishook", S: B(ta)}, in{Kind: "ishook", S: B(mutate(r, th))})
				}
			}
		}
	}
	for i := range ins {
		ins[i].Text = fmt.Sprintf("%q %q %q %q", ins[i].S, ins[i].Inst, ins[i].Comp, ins[i].Name)
	}
	return ins
}

// ---------------------------------------------------------------- execution

func b01(c byte) bool { return c == '1' }

func coqOptBytes(ok bool, b []byte) string { return vh.CoqOpt(ok, vh.CoqBytes(string(b))) }

func goParse(tag string) (string, string) {
	t, err := naming.ParseSecurityTag(tag)
	if err != nil {
		return "None", "error"
	}
	switch v := t.(type) {
	case naming.HookSecurityTag:
		comp := v.ComponentName()
		return "(Some (" + vh.CoqBytes(v.InstanceName()) + ", " + coqOptBytes(comp != "", []byte(comp)) + ", true, " + vh.CoqBytes(v.HookName()) + "))",
			fmt.Sprintf("hook %q %q %q", v.InstanceName(), comp, v.HookName())
	case naming.AppSecurityTag:
		return "(Some (" + vh.CoqBytes(v.InstanceName()) + ", None, false, " + vh.CoqBytes(v.AppName()) + "))",
			fmt.Sprintf("app %q %q", v.InstanceName(), v.AppName())
	}
	panic("unknown tag type")
}

func compArg(has bool, c []byte) string {
	if !has {
		return "-"
	}
	return hx(c)
}

// nameVerdicts runs one string through the three Go and six C name validators
func nameVerdicts(s string) (goSnap, goInst, goComp bool, c string) {
	goSnap = naming.ValidateSnap(s) == nil
	goInst = naming.ValidateInstance(s) == nil
	if sn, cn, err := naming.SplitFullComponentName(s); err == nil {
		goComp = naming.NewComponentRef(sn, cn).Validate() == nil
	}
	c = cp.ask("N " + hx([]byte(s)))
	if len(c) != 6 {
		panic("bad answer from the C driver: " + c)
	}
	return
}

// moreVerdicts: the daemon's other name validators, in the order of Naming.more_verdicts
func moreVerdicts(s string) []bool {
	return []bool{naming.ValidateApp(s) == nil, naming.ValidateHook(s) == nil, naming.ValidatePlug(s) == nil, naming.ValidateSlot(s) == nil,
		naming.ValidateInterface(s) == nil, naming.ValidateAlias(s) == nil, naming.ValidateSnapID(s) == nil, naming.ValidateSocket(s) == nil,
		naming.ValidateIfaceTag(s) == nil, naming.ValidateQuotaGroup(s) == nil, naming.ValidateProvenance(s) == nil}
}

func execCase(x in) vh.Out {
	if cp == nil {
		cp = startC()
	}
	switch x.Kind {
	case "sweep":
		var sb strings.Builder
		sb.WriteString("(CSweep " + vh.CoqBytes(string(x.S)) + " " + vh.CoqNat(x.N) + " [[")
		cur := []string{""}
		for l := 0; l < x.N; l++ {
			var next []string
			for _, p := range cur {
				for i := 0; i < len(x.S); i++ {
					next = append(next, p+string(x.S[i]))
				}
			}
			cur = next
		}
		accepted, disagree := 0, []string{}
		for i, s := range cur {
			g1, g2, g3, c := nameVerdicts(s)
			w := 0
			for k, b := range []bool{g1, g2, g3, b01(c[0]), b01(c[1]), b01(c[2]), b01(c[3]), b01(c[4]), b01(c[5])} {
				if b {
					w |= 1 << k
				}
			}
			if w != 0 {
				accepted++
			}
			if g1 != b01(c[0]) || g1 != b01(c[4]) || g2 != b01(c[1]) || g2 != b01(c[5]) || g3 != b01(c[3]) {
				disagree = append(disagree, s)
			}
			if i > 0 && i%500 == 0 {
				sb.WriteString("];\n[")
			} else if i > 0 {
				sb.WriteString(";")
			}
			fmt.Fprintf(&sb, "%d", w)
		}
		sb.WriteString("]]%N)")
		if len(disagree) > 20 {
			disagree = disagree[:20]
		}
		return vh.Out{Observed: map[string]interface{}{"strings": len(cur), "accepted_by_some": accepted, "disagreeing": disagree}, Coq: sb.String(),
			NonTrivial: accepted > 0, Tags: []string{fmt.Sprintf("sweep-len%d(%d strings)", x.N, len(cur))}}
	case "more":
		vs := moreVerdicts(string(x.S))
		items := make([]string, len(vs))
		acc := 0
		for i, b := range vs {
			items[i] = vh.CoqBool(b)
			if b {
				acc++
			}
		}
		return vh.Out{Observed: vs, Coq: "(CMore " + vh.CoqBytes(string(x.S)) + " " + vh.CoqList(items) + ")", NonTrivial: acc > 0, Tags: []string{"more"}}
	case "sweepmore":
		var sb strings.Builder
		sb.WriteString("(CSweepMore " + vh.CoqBytes(string(x.S)) + " " + vh.CoqNat(x.N) + " [[")
		cur := []string{""}
		for l := 0; l < x.N; l++ {
			var next []string
			for _, p := range cur {
				for i := 0; i < len(x.S); i++ {
					next = append(next, p+string(x.S[i]))
				}
			}
			cur = next
		}
		accepted := 0
		for i, s := range cur {
			w := 0
			for k, b := range moreVerdicts(s) {
				if b {
					w |= 1 << k
				}
			}
			if w != 0 {
				accepted++
			}
			if i > 0 && i%500 == 0 {
				sb.WriteString("];\n[")
			} else if i > 0 {
				sb.WriteString(";")
			}
			fmt.Fprintf(&sb, "%d", w)
		}
		sb.WriteString("]]%N)")
		return vh.Out{Observed: map[string]interface{}{"strings": len(cur), "accepted_by_some": accepted}, Coq: sb.String(),
			NonTrivial: accepted > 0, Tags: []string{fmt.Sprintf("sweepmore-len%d(%d strings)", x.N, len(cur))}}
	case "ishook":
		tag := string(x.S)
		gk := "None"
		if t, err := naming.ParseSecurityTag(tag); err == nil {
			if _, ok := t.(naming.HookSecurityTag); ok {
				gk = "(Some true)"
			} else {
				gk = "(Some false)"
			}
		}
		c := cp.ask("H " + hx(x.S))
		tags := []string{"ishook"}
		if c == "1" {
			tags = append(tags, "sc-says-hook")
		}
		if gk == "(Some true)" {
			tags = append(tags, "go-says-hook")
		}
		return vh.Out{Observed: map[string]interface{}{"go_kind": gk, "sc_is_hook": c}, Coq: "(CIsHook " + vh.CoqBytes(tag) + " " + gk + " " + vh.CoqBool(c == "1") + ")",
			NonTrivial: gk != "None" || c == "1", Tags: tags}
	case "name":
		s := string(x.S)
		goSnap, goInst, goComp, c := nameVerdicts(s)
		coq := fmt.Sprintf("(CName %s %s %s %s %s %s %s %s %s %s)", vh.CoqBytes(s), vh.CoqBool(goSnap), vh.CoqBool(goInst), vh.CoqBool(goComp),
			vh.CoqBool(b01(c[0])), vh.CoqBool(b01(c[1])), vh.CoqBool(b01(c[2])), vh.CoqBool(b01(c[3])), vh.CoqBool(b01(c[4])), vh.CoqBool(b01(c[5])))
		tags := []string{"name"}
		for _, t := range []struct {
			b bool
			n string
		}{{goSnap, "snap-ok"}, {goInst, "instance-ok"}, {goComp, "component-ok"}, {b01(c[2]), "key-ok"}} {
			if t.b {
				tags = append(tags, t.n)
			}
		}
		if len(s) >= 40 {
			tags = append(tags, "len>=40")
		}
		return vh.Out{Observed: map[string]interface{}{"go": []bool{goSnap, goInst, goComp}, "c": c}, Coq: coq,
			NonTrivial: goSnap || goInst || goComp || b01(c[2]), Tags: tags}
	case "tag":
		tag := string(x.S)
		gp, gtxt := goParse(tag)
		gi := naming.ValidateInstance(string(x.Inst)) == nil
		gc := !x.HasComp || naming.ValidateSnap(string(x.Comp)) == nil
		c := cp.ask("T " + hx(x.S) + " " + hx(x.Inst) + " " + compArg(x.HasComp, x.Comp))
		coq := fmt.Sprintf("(CTag %s %s %s %s %s %s %s)", vh.CoqBytes(tag), vh.CoqBytes(string(x.Inst)), coqOptBytes(x.HasComp, x.Comp), gp,
			vh.CoqBool(gi), vh.CoqBool(gc), vh.CoqBool(c == "1"))
		tags := []string{"tag"}
		if gp != "None" {
			tags = append(tags, "go-parses")
		}
		if c == "1" {
			tags = append(tags, "sc-accepts")
		}
		if len(tag) > 256 {
			tags = append(tags, "len>256")
		}
		return vh.Out{Observed: map[string]interface{}{"go": gtxt, "go_inst_ok": gi, "go_comp_ok": gc, "sc": c}, Coq: coq,
			NonTrivial: gp != "None" || c == "1", Tags: tags}
	case "gen":
		info := &snap.Info{SuggestedName: string(x.Inst), InstanceKey: string(x.Key)}
		inst := info.InstanceName()
		var tag string
		var nameOK bool
		if x.Hook {
			h := &snap.HookInfo{Snap: info, Name: string(x.Name)}
			if x.HasComp {
				h.Component = &snap.Component{Name: string(x.Comp)}
			}
			tag = h.SecurityTag()
			nameOK = snap.ValidateHook(h) == nil
		} else {
			a := &snap.AppInfo{Snap: info, Name: string(x.Name)}
			tag = a.SecurityTag()
			nameOK = snap.ValidAppName(a.Name)
		}
		gi := snap.ValidateInstanceName(inst) == nil
		gc := !x.HasComp || naming.ValidateSnap(string(x.Comp)) == nil
		c := cp.ask("T " + hx([]byte(tag)) + " " + hx([]byte(inst)) + " " + compArg(x.HasComp, x.Comp))
		coq := fmt.Sprintf("(CGen %s %s %s %s %s %s %s %s %s)", vh.CoqBytes(inst), coqOptBytes(x.HasComp, x.Comp), vh.CoqBool(x.Hook),
			vh.CoqBytes(string(x.Name)), vh.CoqBool(gi), vh.CoqBool(gc), vh.CoqBool(nameOK), vh.CoqBytes(tag), vh.CoqBool(c == "1"))
		tags := []string{"gen"}
		if gi && gc && nameOK {
			tags = append(tags, "daemon-accepts")
		}
		if c == "1" {
			tags = append(tags, "sc-accepts")
		}
		if len(tag) > 256 {
			tags = append(tags, "len>256")
		}
		return vh.Out{Observed: map[string]interface{}{"tag": tag, "taglen": len(tag), "go_ok": []bool{gi, gc, nameOK}, "sc": c}, Coq: coq,
			NonTrivial: gi && gc && nameOK, Tags: tags}
	}
	panic("unknown kind " + x.Kind)
}

func main() { vh.Run(gen, execCase) }
