//go:build verif

// Driver for C29: runs real config.Transaction objects (several live at once on one state.State) and the revision
// snapshot helpers on generated histories and prints what was observed as Coq terms of type V.models.Config.case.
package main

import (
	"bytes"
	"encoding/json"
	"errors"
	"fmt"
	"sort"
	"strconv"
	"strings"

	"github.com/snapcore/snapd/overlord/configstate/config"
	"github.com/snapcore/snapd/overlord/state"
	"github.com/snapcore/snapd/snap"
	"github.com/snapcore/snapd/zzverif/vh"
)

type op struct {
	K    string      `json:"k"` // new set get commit save restore discard
	I    int         `json:"i,omitempty"`
	Snap string      `json:"snap,omitempty"`
	Key  string      `json:"key,omitempty"` // dotted
	V    interface{} `json:"v,omitempty"`
	Rev  int         `json:"rev,omitempty"`
}

type in struct {
	Init map[string]interface{} `json:"init"`
	Ops  []op                   `json:"ops"`
}

// ---------------------------------------------------------------- trees -> Coq

func keyN(k string) string {
	// single-letter keys map to their byte value; anything else base-256
	var n uint64
	for i := 0; i < len(k); i++ {
		n = n*256 + uint64(k[i])
	}
	return strconv.FormatUint(n, 10)
}

func norm(v interface{}) interface{} {
	switch x := v.(type) {
	case float64:
		return int64(x)
	case json.Number:
		n, err := x.Int64()
		if err != nil {
			panic(err)
		}
		return n
	case int:
		return int64(x)
	case map[string]interface{}:
		out := make(map[string]interface{}, len(x))
		for k, e := range x {
			out[k] = norm(e)
		}
		return out
	case *json.RawMessage:
		if x == nil {
			return nil
		}
		return decode(*x)
	}
	return v
}

func decode(data []byte) interface{} {
	var v interface{}
	d := json.NewDecoder(bytes.NewReader(data))
	d.UseNumber()
	if err := d.Decode(&v); err != nil {
		panic(fmt.Sprintf("decode %q: %v", data, err))
	}
	return norm(v)
}

func coqTree(v interface{}) string {
	switch x := v.(type) {
	case nil:
		return "Null"
	case int64:
		return "(Atom " + vh.CoqZ(x) + ")"
	case map[string]interface{}:
		return "(Obj " + coqMap(x) + ")"
	}
	panic(fmt.Sprintf("unexpected value %T", v))
}

func coqMap(m map[string]interface{}) string {
	ks := make([]string, 0, len(m))
	for k := range m {
		ks = append(ks, k)
	}
	sort.Strings(ks)
	items := make([]string, len(ks))
	for i, k := range ks {
		items[i] = "(" + keyN(k) + ", " + coqTree(m[k]) + ")"
	}
	return vh.CoqList(items)
}

func coqPath(key string) string {
	if key == "" {
		return "[]"
	}
	parts := strings.Split(key, ".")
	items := make([]string, len(parts))
	for i, p := range parts {
		items[i] = keyN(p)
	}
	return vh.CoqList(items)
}

// ---------------------------------------------------------------- observation

func committed(st *state.State) (map[string]interface{}, map[string]interface{}) {
	var cfg map[string]*json.RawMessage
	if err := st.Get("config", &cfg); err != nil && !errors.Is(err, state.ErrNoState) {
		panic(err)
	}
	c := map[string]interface{}{}
	for k, v := range cfg {
		c[k] = norm(v)
	}
	var rc map[string]map[string]*json.RawMessage
	if err := st.Get("revision-config", &rc); err != nil && !errors.Is(err, state.ErrNoState) {
		panic(err)
	}
	r := map[string]interface{}{}
	for s, m := range rc {
		mm := map[string]interface{}{}
		for rev, v := range m {
			mm[rev] = norm(v)
		}
		r[s] = mm
	}
	return c, r
}

// revision-config: snap -> revision string -> snap config; revision strings of positive store revisions are decimal
func coqRev(r map[string]interface{}) string {
	ss := make([]string, 0, len(r))
	for s := range r {
		ss = append(ss, s)
	}
	sort.Strings(ss)
	items := make([]string, len(ss))
	for i, s := range ss {
		m := r[s].(map[string]interface{})
		type rv struct {
			n uint64
			v interface{}
		}
		var rvs []rv
		for rev, v := range m {
			n, err := strconv.ParseUint(rev, 10, 64)
			if err != nil {
				panic(err)
			}
			rvs = append(rvs, rv{n, v})
		}
		sort.Slice(rvs, func(a, b int) bool { return rvs[a].n < rvs[b].n })
		sub := make([]string, len(rvs))
		for j, x := range rvs {
			sub[j] = "(" + strconv.FormatUint(x.n, 10) + ", " + coqTree(x.v) + ")"
		}
		items[i] = "(" + keyN(s) + ", " + vh.CoqList(sub) + ")"
	}
	return vh.CoqList(items)
}

func exec(i in) vh.Out {
	st := state.New(nil)
	st.Lock()
	defer st.Unlock()
	init := norm(i.Init).(map[string]interface{})
	if len(init) > 0 {
		st.Set("config", init)
	}
	var txs []*config.Transaction
	var steps []string
	var obsj []interface{}
	tags := map[string]bool{}
	commits, concurrent := 0, false
	dirty := map[int]bool{}
	stale := map[int]bool{} // transactions that were live while another one committed changes
	panicked := false
	for _, o := range i.Ops {
		if panicked {
			break
		}
		var opS, obS string
		var ob interface{}
		func() {
			defer func() {
				if r := recover(); r != nil {
					// a panic inside the implementation is reported as an observation no model step produces
					panicked = true
					tags["panic"] = true
					if opS == "" {
						opS = "ONew"
					}
					obS = "(BGet GOther)"
					ob = fmt.Sprintf("panic: %v", r)
				}
			}()
			switch o.K {
			case "new":
				txs = append(txs, config.NewTransaction(st))
				opS = "ONew"
			case "set":
				v := norm(o.V)
				err := txs[o.I].Set(o.Snap, o.Key, v)
				opS = fmt.Sprintf("(OSet %d%%nat %s %s %s)", o.I, keyN(o.Snap), coqPath(o.Key), coqTree(v))
				obS = "(BSet " + vh.CoqBool(err == nil) + ")"
				ob = err == nil
				if err != nil {
					tags["set-rejected"] = true
				} else {
					dirty[o.I] = true
					if v == nil {
						tags["null-write"] = true
					}
				}
			case "get":
				var res interface{}
				err := txs[o.I].Get(o.Snap, o.Key, &res)
				opS = fmt.Sprintf("(OGet %d%%nat %s %s)", o.I, keyN(o.Snap), coqPath(o.Key))
				switch {
				case err == nil:
					t := norm(res)
					obS = "(BGet (GOk " + coqTree(t) + "))"
					ob = map[string]interface{}{"ok": t}
					tags["get-ok"] = true
				case config.IsNoOption(err):
					obS = "(BGet GNoOption)"
					ob = "no-option"
					tags["get-nooption"] = true
				case strings.Contains(err.Error(), "is not a map"):
					obS = "(BGet GNotMap)"
					ob = "not-a-map"
					tags["get-notmap"] = true
				default:
					obS = "(BGet GOther)"
					ob = "error: " + err.Error()
					tags["get-other-error"] = true
				}
			case "commit":
				txs[o.I].Commit()
				opS = fmt.Sprintf("(OCommit %d%%nat)", o.I)
				if dirty[o.I] {
					commits++
					if stale[o.I] {
						concurrent = true
						tags["commit-on-newer-config"] = true
					}
					for j := range txs {
						if j != o.I {
							stale[j] = true
						}
					}
				}
				dirty[o.I] = false
				stale[o.I] = false
			case "save":
				if err := config.SaveRevisionConfig(st, o.Snap, snap.R(o.Rev)); err != nil {
					panic(err)
				}
				opS = fmt.Sprintf("(OSave %s %d)", keyN(o.Snap), o.Rev)
				tags["save"] = true
			case "restore":
				if err := config.RestoreRevisionConfig(st, o.Snap, snap.R(o.Rev)); err != nil {
					panic(err)
				}
				opS = fmt.Sprintf("(ORestore %s %d)", keyN(o.Snap), o.Rev)
				tags["restore"] = true
				for j := range txs {
					stale[j] = true
				}
			case "discard":
				if err := config.DiscardRevisionConfig(st, o.Snap, snap.R(o.Rev)); err != nil {
					panic(err)
				}
				opS = fmt.Sprintf("(ODiscard %s %d)", keyN(o.Snap), o.Rev)
				tags["discard"] = true
			default:
				panic("unknown op " + o.K)
			}
		}()
		if obS == "" {
			c, r := committed(st)
			obS = "(BCfg " + coqMap(c) + " " + coqRev(r) + ")"
			ob = map[string]interface{}{"config": c, "revision-config": r}
		}
		steps = append(steps, "("+opS+", "+obS+")")
		obsj = append(obsj, ob)
	}
	coq := "(CHist " + coqMap(init) + " " + vh.CoqList(steps) + ")"
	var tl []string
	for t := range tags {
		tl = append(tl, t)
	}
	sort.Strings(tl)
	if len(txs) > 1 {
		tl = append(tl, "multi-tx")
	}
	return vh.Out{Observed: obsj, Coq: coq, NonTrivial: concurrent && commits >= 2, Tags: tl}
}

// ---------------------------------------------------------------- generation

var letters = []string{"a", "b", "c", "d"}
var snaps = []string{"s", "t"}

func genValue(r *vh.Rand, depth int, nulls bool) interface{} {
	switch {
	case depth <= 0 || r.Chance(1, 2):
		if nulls && r.Chance(1, 4) {
			return nil
		}
		return int64(r.Intn(9))
	}
	n := r.Intn(4)
	if r.Chance(1, 10) {
		n = 0
	}
	m := map[string]interface{}{}
	for k := 0; k < n; k++ {
		m[r.Pick(letters)] = genValue(r, depth-1, nulls)
	}
	return m
}

func genPath(r *vh.Rand, used []string, maxDepth int) string {
	if len(used) > 0 && r.Chance(3, 5) {
		p := strings.Split(used[r.Intn(len(used))], ".")
		switch r.Intn(4) {
		case 0: // same
		case 1: // prefix
			p = p[:r.Range(1, len(p))]
		case 2: // extension
			if len(p) < maxDepth {
				p = append(p, r.Pick(letters))
			}
		case 3: // sibling
			p = append(append([]string{}, p[:len(p)-1]...), r.Pick(letters))
		}
		return strings.Join(p, ".")
	}
	n := r.Range(1, maxDepth)
	if r.Chance(1, 2) {
		n = r.Range(1, 2)
	}
	p := make([]string, n)
	for k := range p {
		p[k] = r.Pick(letters)
	}
	return strings.Join(p, ".")
}

// every path of a tree, used to seed the path generator with what exists
func paths(prefix string, v interface{}, out *[]string) {
	m, ok := v.(map[string]interface{})
	if !ok {
		return
	}
	for k, e := range m {
		p := k
		if prefix != "" {
			p = prefix + "." + k
		}
		*out = append(*out, p)
		paths(p, e, out)
	}
}

func genHist(r *vh.Rand, nOps int) in {
	init := map[string]interface{}{}
	var used []string
	for _, s := range snaps {
		if r.Chance(2, 3) {
			m, _ := genValue(r, 3, r.Chance(1, 8)).(map[string]interface{})
			if m == nil {
				m = map[string]interface{}{}
			}
			init[s] = m
			paths("", m, &used)
		}
	}
	sort.Strings(used)
	ops := []op{{K: "new"}}
	ntx := 1
	maxTx := r.Range(1, 3)
	for len(ops) < nOps {
		x := r.Intn(100)
		snapName := snaps[0]
		if r.Chance(1, 5) {
			snapName = snaps[1]
		}
		switch {
		case x < 6 && ntx < maxTx:
			ops = append(ops, op{K: "new"})
			ntx++
		case x < 45:
			p := genPath(r, used, 4)
			var v interface{}
			switch r.Intn(10) {
			case 0, 1:
				v = nil
			case 2, 3, 4:
				v = genValue(r, 2, true)
				if _, ok := v.(map[string]interface{}); !ok {
					v = map[string]interface{}{r.Pick(letters): v}
				}
			default:
				v = int64(r.Intn(9))
			}
			used = append(used, p)
			ops = append(ops, op{K: "set", I: r.Intn(ntx), Snap: snapName, Key: p, V: v})
		case x < 75:
			p := genPath(r, used, 4)
			if r.Chance(1, 12) {
				p = ""
			}
			ops = append(ops, op{K: "get", I: r.Intn(ntx), Snap: snapName, Key: p})
		case x < 87:
			ops = append(ops, op{K: "commit", I: r.Intn(ntx)})
		case x < 92:
			ops = append(ops, op{K: "save", Snap: snapName, Rev: r.Range(1, 3)})
		case x < 96:
			ops = append(ops, op{K: "restore", Snap: snapName, Rev: r.Range(1, 3)})
		default:
			ops = append(ops, op{K: "discard", Snap: snapName, Rev: r.Range(1, 3)})
		}
	}
	// read everything back at the end through every transaction, then commit all and read the roots
	for t := 0; t < ntx; t++ {
		ops = append(ops, op{K: "get", I: t, Snap: snaps[0], Key: ""})
	}
	for t := 0; t < ntx; t++ {
		ops = append(ops, op{K: "commit", I: t})
	}
	return in{Init: init, Ops: ops}
}

// fixed histories for the corners named in DESIGN.md
func fixed() []in {
	m := func(kv ...interface{}) map[string]interface{} {
		out := map[string]interface{}{}
		for i := 0; i < len(kv); i += 2 {
			out[kv[i].(string)] = kv[i+1]
		}
		return out
	}
	set := func(i int, k string, v interface{}) op { return op{K: "set", I: i, Snap: "s", Key: k, V: v} }
	get := func(i int, k string) op { return op{K: "get", I: i, Snap: "s", Key: k} }
	return []in{
		// Set through a committed scalar looks at the configuration as of transaction start
		{Init: m("s", m("a", int64(1))), Ops: []op{{K: "new"}, set(0, "a", m()), set(0, "a.b", int64(2)), get(0, "a"), get(0, "a.b"), {K: "commit"}}},
		// lost update scenario: two transactions from the same base
		{Init: m("s", m("a", m("b", int64(1)))), Ops: []op{{K: "new"}, {K: "new"}, set(0, "a.c", int64(2)), set(1, "a.d", int64(3)), set(1, "b", int64(4)),
			{K: "commit", I: 0}, get(1, "a"), {K: "commit", I: 1}, {K: "new"}, get(2, "")}},
		// null write to a missing path leaves an empty object
		{Init: m(), Ops: []op{{K: "new"}, set(0, "a.b", nil), get(0, "a"), get(0, "a.b"), {K: "commit"}}},
		// unset then set below in the same transaction (LP 1920773)
		{Init: m("s", m("a", m("b", m("c", int64(1))))), Ops: []op{{K: "new"}, set(0, "a.b", nil), set(0, "a.b.d", int64(2)), get(0, "a"), {K: "commit"}}},
		// raw value then a write through a scalar inside it
		{Init: m(), Ops: []op{{K: "new"}, set(0, "a", m("b", int64(1))), set(0, "a.b.c", int64(2)), set(0, "a.c.d", int64(3)), get(0, "a"), {K: "commit"}}},
		// snapshots: save without config is a no-op; restore brings back exactly what was saved
		{Init: m("s", m("a", int64(1))), Ops: []op{{K: "save", Snap: "t", Rev: 1}, {K: "save", Snap: "s", Rev: 1}, {K: "new"}, set(0, "a", int64(2)), {K: "commit"},
			{K: "save", Snap: "s", Rev: 2}, {K: "restore", Snap: "s", Rev: 1}, {K: "restore", Snap: "t", Rev: 1}, {K: "discard", Snap: "s", Rev: 1}, {K: "restore", Snap: "s", Rev: 1},
			{K: "discard", Snap: "s", Rev: 2}}},
	}
}

func gen(r *vh.Rand, tier string, n int) []in {
	if n == 0 {
		n = 400
	}
	ins := fixed()
	for k := 0; k < n; k++ {
		ins = append(ins, genHist(r, r.Range(6, 28)))
	}
	return ins
}

func main() { vh.Run(gen, exec) }
