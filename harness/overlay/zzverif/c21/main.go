//go:build verif

// Driver for C21: builds real asserts.SnapDeclaration / asserts.BaseDeclaration objects from generated headers
// (asserts.Assemble, then Encode/Decode through the text form) and runs policy.ConnectCandidate.Check /
// CheckAutoConnect and policy.InstallCandidate.Check on generated candidates. Each case is printed as a Coq term of
// type V.models.Policy.case: the candidate and declarations, the verdict, and the verdicts of two variants
// (a deny alternative added to every rule; the rules below the deciding level replaced).
package main

import (
	"fmt"
	"os"
	"sort"
	"strings"

	"github.com/snapcore/snapd/asserts"
	"github.com/snapcore/snapd/asserts/assertstest"
	"github.com/snapcore/snapd/interfaces"
	"github.com/snapcore/snapd/interfaces/policy"
	"github.com/snapcore/snapd/release"
	"github.com/snapcore/snapd/snap"
	"github.com/snapcore/snapd/zzverif/vh"
)

// ---------------------------------------------------------------- input types (JSON-serialisable)

type val struct {
	K string `json:"k"` // s b i l m
	S string `json:"s,omitempty"`
	B bool   `json:"b,omitempty"`
	I int64  `json:"i,omitempty"`
	L []val  `json:"l,omitempty"`
	M []kv   `json:"m,omitempty"`
}
type kv struct {
	Key string `json:"key"`
	V   val    `json:"v"`
}

type matcher struct {
	K    string    `json:"k"` // map alt lit missing eval ref
	M    []km      `json:"m,omitempty"`
	A    []matcher `json:"a,omitempty"`
	S    string    `json:"s,omitempty"` // literal, or the argument of $SLOT()/$PLUG()
	Slot bool      `json:"slot,omitempty"`
}
type km struct {
	Key string  `json:"key"`
	M   matcher `json:"m"`
}

type onClassic struct {
	Classic bool     `json:"classic"`
	IDs     []string `json:"ids,omitempty"`
}

type alt struct {
	PlugNames     []string   `json:"plug_names,omitempty"`
	SlotNames     []string   `json:"slot_names,omitempty"`
	PlugAttrs     *matcher   `json:"plug_attrs,omitempty"`
	SlotAttrs     *matcher   `json:"slot_attrs,omitempty"`
	PlugSnapTypes []string   `json:"plug_snap_types,omitempty"`
	SlotSnapTypes []string   `json:"slot_snap_types,omitempty"`
	PlugSnapIDs   []string   `json:"plug_snap_ids,omitempty"`
	SlotSnapIDs   []string   `json:"slot_snap_ids,omitempty"`
	PlugPubIDs    []string   `json:"plug_pub_ids,omitempty"`
	SlotPubIDs    []string   `json:"slot_pub_ids,omitempty"`
	SlotsPerPlug  string     `json:"slots_per_plug,omitempty"` // "" | "*" | "<n>"
	OnClassic     *onClassic `json:"on_classic,omitempty"`
	OnCoreDesktop *bool      `json:"on_core_desktop,omitempty"`
	Device        bool       `json:"device,omitempty"`
	OnStore       []string   `json:"on_store,omitempty"`
	OnBrand       []string   `json:"on_brand,omitempty"`
	OnModel       []string   `json:"on_model,omitempty"`
}

type subrule struct {
	Short *bool `json:"short,omitempty"`
	One   *alt  `json:"one,omitempty"`
	Alts  []alt `json:"alts,omitempty"`
}

type rule struct {
	Short *bool       `json:"short,omitempty"`
	Sub   [6]*subrule `json:"sub"` // allow-inst deny-inst allow-conn deny-conn allow-auto deny-auto
}

var subNames = [6]string{"allow-installation", "deny-installation", "allow-connection", "deny-connection", "allow-auto-connection", "deny-auto-connection"}

type irule struct {
	Iface string `json:"iface"`
	R     rule   `json:"r"`
}

type decl struct {
	SnapID string  `json:"snap_id,omitempty"`
	PubID  string  `json:"pub_id,omitempty"`
	Plugs  []irule `json:"plugs,omitempty"`
	Slots  []irule `json:"slots,omitempty"`
}

type side struct {
	Name   string `json:"name"`
	Iface  string `json:"iface"`
	Type   string `json:"type"`
	Static []kv   `json:"static,omitempty"`
	Dyn    []kv   `json:"dyn,omitempty"`
}

type envT struct {
	Classic     bool      `json:"classic"`
	OSID        string    `json:"os_id"`
	CoreDesktop bool      `json:"core_desktop"`
	Model       *[3]string `json:"model,omitempty"` // brand, model, store
	Store       *storeT   `json:"store,omitempty"`
}
type storeT struct {
	Store    string   `json:"store"`
	Friendly []string `json:"friendly,omitempty"`
}

type in struct {
	Kind string `json:"kind"` // conn | auto | inst
	Env  envT   `json:"env"`
	// conn / auto
	Plug     side  `json:"plug"`
	Slot     side  `json:"slot"`
	PlugDecl *decl `json:"plug_decl,omitempty"`
	SlotDecl *decl `json:"slot_decl,omitempty"`
	Base     decl  `json:"base"`
	// inst
	Type  string `json:"type,omitempty"`
	Slots []side `json:"slots,omitempty"`
	Plugs []side `json:"plugs,omitempty"`
	Decl  *decl  `json:"decl,omitempty"`
	// variants
	ExtraDenyPlug alt   `json:"extra_deny_plug"`
	ExtraDenySlot alt   `json:"extra_deny_slot"`
	Low           *rule `json:"low,omitempty"` // replacement for the rules below the deciding level (nil: remove them)
}

// ---------------------------------------------------------------- Coq printing

// Strings of the generator pools are printed as identifiers defined once in the prelude of the case file
// (checks/c21.py builds `Definition s_<name> := bs "<name>".` from the same list): string literals are what makes
// Coq slow on large case files.
var interned = map[string]string{}

func init() {
	for _, pool := range [][]string{ifaces, names, nameEntries, litEntries, attrKeys, scalars, snapIDs, pubIDs, ruleTypes, snapTypes, distros, stores,
		brands, models, {"", "ubuntu-core", "substore", "k1.k1", "k2.k3", ".k1.", "k9", "$INTERFACE", "$OTHER",
			"$PLUG_PUBLISHER_ID", "$SLOT_PUBLISHER_ID", "$UNKNOWN", "brand1/model1", "brand1/model2", "brand2/model1", "brand2/model2"}} {
		for _, x := range pool {
			interned[x] = "s_" + strings.NewReplacer("-", "_", "$", "D_", ".", "_dot_", "/", "_sl_", "|", "_bar_").Replace(x)
		}
	}
}

func cB(x string) string {
	if id, ok := interned[x]; ok {
		return id
	}
	return vh.CoqBytes(x)
}

func cBytesList(l []string) string {
	items := make([]string, len(l))
	for i, s := range l {
		items[i] = cB(s)
	}
	return vh.CoqList(items)
}
func cOptBytesList(l []string) string {
	if l == nil {
		return "None"
	}
	return "(Some " + cBytesList(l) + ")"
}
func cVal(v val) string {
	switch v.K {
	case "s":
		return "(VStr " + cB(v.S) + ")"
	case "b":
		return "(VBool " + vh.CoqBool(v.B) + ")"
	case "i":
		return "(VInt " + vh.CoqZ(v.I) + ")"
	case "l":
		items := make([]string, len(v.L))
		for i, x := range v.L {
			items[i] = cVal(x)
		}
		return "(VList " + vh.CoqList(items) + ")"
	case "m":
		return "(VMap " + cKVs(v.M) + ")"
	}
	panic("bad val kind " + v.K)
}
func sortedKVs(m []kv) []kv {
	c := append([]kv{}, m...)
	sort.Slice(c, func(i, j int) bool { return c[i].Key < c[j].Key })
	return c
}
func cKVs(m []kv) string {
	items := []string{}
	for _, e := range sortedKVs(m) {
		items = append(items, "("+cB(e.Key)+", "+cVal(e.V)+")")
	}
	return vh.CoqList(items)
}
func cMatcher(m matcher) string {
	switch m.K {
	case "map":
		items := make([]string, len(m.M))
		for i, e := range m.M {
			items[i] = "(" + cB(e.Key) + ", " + cMatcher(e.M) + ")"
		}
		return "(MMap " + vh.CoqList(items) + ")"
	case "alt":
		items := make([]string, len(m.A))
		for i, e := range m.A {
			items[i] = cMatcher(e)
		}
		return "(MAlt " + vh.CoqList(items) + ")"
	case "lit":
		return "(MLit " + cB(m.S) + ")"
	case "missing":
		return "MMissing"
	case "eval":
		return "(MEval " + vh.CoqBool(m.Slot) + " " + cB(m.S) + ")"
	case "ref":
		return "(MRef " + vh.CoqBool(m.Slot) + ")"
	}
	panic("bad matcher kind " + m.K)
}
func cOptMatcher(m *matcher) string {
	if m == nil {
		return "None"
	}
	return "(Some " + cMatcher(*m) + ")"
}
func cAlt(a alt) string {
	spp := "None"
	if a.SlotsPerPlug == "*" {
		spp = "(Some None)"
	} else if a.SlotsPerPlug != "" {
		spp = "(Some (Some " + a.SlotsPerPlug + "%N))"
	}
	oc := "None"
	if a.OnClassic != nil {
		oc = "(Some (" + vh.CoqBool(a.OnClassic.Classic) + ", " + cBytesList(a.OnClassic.IDs) + "))"
	}
	ocd := "None"
	if a.OnCoreDesktop != nil {
		ocd = "(Some " + vh.CoqBool(*a.OnCoreDesktop) + ")"
	}
	dev := "None"
	if a.Device {
		dev = "(Some (" + cBytesList(a.OnStore) + ", " + cBytesList(a.OnBrand) + ", " + cBytesList(a.OnModel) + "))"
	}
	return "(mkAlt " + strings.Join([]string{cOptBytesList(a.PlugNames), cOptBytesList(a.SlotNames), cOptMatcher(a.PlugAttrs),
		cOptMatcher(a.SlotAttrs), cBytesList(a.PlugSnapTypes), cBytesList(a.SlotSnapTypes), cBytesList(a.PlugSnapIDs),
		cBytesList(a.SlotSnapIDs), cBytesList(a.PlugPubIDs), cBytesList(a.SlotPubIDs), spp, oc, ocd, dev}, " ") + ")"
}
func cSub(s *subrule) string {
	if s == nil {
		return "None"
	}
	if s.Short != nil {
		return "(Some (SShort " + vh.CoqBool(*s.Short) + "))"
	}
	if s.One != nil {
		return "(Some (SOne " + cAlt(*s.One) + "))"
	}
	items := make([]string, len(s.Alts))
	for i, a := range s.Alts {
		items[i] = cAlt(a)
	}
	return "(Some (SAlts " + vh.CoqList(items) + "))"
}
func cRule(r rule) string {
	if r.Short != nil {
		return "(RShort " + vh.CoqBool(*r.Short) + ")"
	}
	parts := make([]string, 6)
	for i := range r.Sub {
		parts[i] = cSub(r.Sub[i])
	}
	return "(RMap (mkRuleMap " + strings.Join(parts, " ") + "))"
}
func cOptRule(r *rule) string {
	if r == nil {
		return "None"
	}
	return "(Some " + cRule(*r) + ")"
}
func cIRules(l []irule) string {
	items := make([]string, len(l))
	for i, e := range l {
		items[i] = "(" + cB(e.Iface) + ", " + cRule(e.R) + ")"
	}
	return vh.CoqList(items)
}
func cDecl(d decl) string {
	return "(mkDecl " + cB(d.SnapID) + " " + cB(d.PubID) + " " + cIRules(d.Plugs) + " " + cIRules(d.Slots) + ")"
}
func cOptDecl(d *decl) string {
	if d == nil {
		return "None"
	}
	return "(Some " + cDecl(*d) + ")"
}
func cSide(s side) string {
	return "(mkSide " + cB(s.Name) + " " + cB(s.Iface) + " " + cB(s.Type) + " " + cKVs(s.Static) + " " + cKVs(s.Dyn) + ")"
}
func cSides(l []side) string {
	items := make([]string, len(l))
	for i, s := range l {
		items[i] = cSide(s)
	}
	return vh.CoqList(items)
}
func cEnv(e envT) string {
	m := "None"
	if e.Model != nil {
		m = "(Some (" + cB(e.Model[0]) + ", " + cB(e.Model[1]) + ", " + cB(e.Model[2]) + "))"
	}
	s := "None"
	if e.Store != nil {
		s = "(Some (" + cB(e.Store.Store) + ", " + cBytesList(e.Store.Friendly) + "))"
	}
	return "(mkEnv " + vh.CoqBool(e.Classic) + " " + cB(e.OSID) + " " + vh.CoqBool(e.CoreDesktop) + " " + m + " " + s + ")"
}
func cDecls(p, s *decl, b decl) string {
	return "(mkDecls " + cOptDecl(p) + " " + cOptDecl(s) + " " + cDecl(b) + ")"
}

// ---------------------------------------------------------------- building the real objects

func goVal(v val) interface{} {
	switch v.K {
	case "s":
		return v.S
	case "b":
		return v.B
	case "i":
		return v.I
	case "l":
		l := make([]interface{}, len(v.L))
		for i, x := range v.L {
			l[i] = goVal(x)
		}
		return l
	case "m":
		return goKVs(v.M)
	}
	panic("bad val kind")
}
func goKVs(m []kv) map[string]interface{} {
	r := map[string]interface{}{}
	for _, e := range m {
		r[e.Key] = goVal(e.V)
	}
	return r
}

func strList(l []string) []interface{} {
	r := make([]interface{}, len(l))
	for i, s := range l {
		r[i] = s
	}
	return r
}

// header form of an attribute matcher
func hMatcher(m matcher) interface{} {
	switch m.K {
	case "map":
		r := map[string]interface{}{}
		for _, e := range m.M {
			r[e.Key] = hMatcher(e.M)
		}
		return r
	case "alt":
		l := make([]interface{}, len(m.A))
		for i, e := range m.A {
			l[i] = hMatcher(e)
		}
		return l
	case "lit":
		return m.S
	case "missing":
		return "$MISSING"
	case "eval":
		if m.Slot {
			return "$SLOT(" + m.S + ")"
		}
		return "$PLUG(" + m.S + ")"
	case "ref":
		if m.Slot {
			return "$SLOT_PUBLISHER_ID"
		}
		return "$PLUG_PUBLISHER_ID"
	}
	panic("bad matcher kind")
}

func hAlt(a alt) map[string]interface{} {
	r := map[string]interface{}{}
	if a.PlugNames != nil {
		r["plug-names"] = strList(a.PlugNames)
	}
	if a.SlotNames != nil {
		r["slot-names"] = strList(a.SlotNames)
	}
	if a.PlugAttrs != nil {
		r["plug-attributes"] = hMatcher(*a.PlugAttrs)
	}
	if a.SlotAttrs != nil {
		r["slot-attributes"] = hMatcher(*a.SlotAttrs)
	}
	for k, l := range map[string][]string{"plug-snap-type": a.PlugSnapTypes, "slot-snap-type": a.SlotSnapTypes,
		"plug-snap-id": a.PlugSnapIDs, "slot-snap-id": a.SlotSnapIDs, "plug-publisher-id": a.PlugPubIDs,
		"slot-publisher-id": a.SlotPubIDs} {
		if len(l) != 0 {
			r[k] = strList(l)
		}
	}
	if a.SlotsPerPlug != "" {
		r["slots-per-plug"] = a.SlotsPerPlug
	}
	if a.OnClassic != nil {
		if len(a.OnClassic.IDs) != 0 {
			r["on-classic"] = strList(a.OnClassic.IDs)
		} else if a.OnClassic.Classic {
			r["on-classic"] = "true"
		} else {
			r["on-classic"] = "false"
		}
	}
	if a.OnCoreDesktop != nil {
		r["on-core-desktop"] = fmt.Sprint(*a.OnCoreDesktop)
	}
	if a.Device {
		if len(a.OnStore) != 0 {
			r["on-store"] = strList(a.OnStore)
		}
		if len(a.OnBrand) != 0 {
			r["on-brand"] = strList(a.OnBrand)
		}
		if len(a.OnModel) != 0 {
			r["on-model"] = strList(a.OnModel)
		}
	}
	return r
}

func hRule(r rule) interface{} {
	if r.Short != nil {
		return fmt.Sprint(*r.Short)
	}
	m := map[string]interface{}{}
	for i, s := range r.Sub {
		if s == nil {
			continue
		}
		switch {
		case s.Short != nil:
			m[subNames[i]] = fmt.Sprint(*s.Short)
		case s.One != nil:
			m[subNames[i]] = hAlt(*s.One)
		default:
			l := make([]interface{}, len(s.Alts))
			for j, a := range s.Alts {
				l[j] = hAlt(a)
			}
			m[subNames[i]] = l
		}
	}
	return m
}

func hRules(l []irule) map[string]interface{} {
	m := map[string]interface{}{}
	for _, e := range l {
		m[e.Iface] = hRule(e.R)
	}
	return m
}

func dbg(err error) {
	if os.Getenv("VERIF_DEBUG") != "" {
		fmt.Fprintf(os.Stderr, "invalid: %v\n", err)
	}
}

var (
	signKey, _ = assertstest.GenerateKey(752)
	signDB     = assertstest.NewSigningDB("canonical", signKey)
	cache      = map[string]asserts.Assertion{}
)

// assemble signs the headers with a test key (asserts.Database.Sign: header validation, format check, rule
// compilation), then goes through the text form and back (asserts.Encode / asserts.Decode)
func assemble(headers map[string]interface{}) (a asserts.Assertion, err error) {
	defer func() {
		if r := recover(); r != nil {
			a, err = nil, fmt.Errorf("panic: %v", r)
		}
	}()
	t := asserts.Type(headers["type"].(string))
	delete(headers, "type")
	a, err = signDB.Sign(t, headers, nil, "")
	if err != nil {
		return nil, err
	}
	return asserts.Decode(asserts.Encode(a))
}

func snapDecl(d *decl, name string) (*asserts.SnapDeclaration, error) {
	if d == nil {
		return nil, nil
	}
	h := map[string]interface{}{"type": "snap-declaration", "authority-id": "canonical", "series": "16",
		"snap-id": d.SnapID, "snap-name": name, "publisher-id": d.PubID, "timestamp": "2018-09-12T12:00:00Z"}
	if len(d.Plugs) != 0 {
		h["plugs"] = hRules(d.Plugs)
	}
	if len(d.Slots) != 0 {
		h["slots"] = hRules(d.Slots)
	}
	// the format iteration the rules need
	f, err := asserts.SuggestFormat(asserts.SnapDeclarationType, h, nil)
	if err != nil {
		return nil, err
	}
	if f != 0 {
		h["format"] = fmt.Sprint(f)
	}
	a, err := assemble(h)
	if err != nil {
		return nil, err
	}
	return a.(*asserts.SnapDeclaration), nil
}

func baseDecl(d decl) (*asserts.BaseDeclaration, error) {
	h := map[string]interface{}{"type": "base-declaration", "authority-id": "canonical", "series": "16",
		"timestamp": "2018-09-12T12:00:00Z"}
	if len(d.Plugs) != 0 {
		h["plugs"] = hRules(d.Plugs)
	}
	if len(d.Slots) != 0 {
		h["slots"] = hRules(d.Slots)
	}
	a, err := assemble(h)
	if err != nil {
		return nil, err
	}
	return a.(*asserts.BaseDeclaration), nil
}

func setEnv(e envT) (*asserts.Model, *asserts.Store) {
	release.OnClassic = e.Classic
	release.OnCoreDesktop = e.CoreDesktop
	release.ReleaseInfo = release.OS{ID: e.OSID}
	var model *asserts.Model
	var store *asserts.Store
	if e.Model != nil {
		h := map[string]interface{}{"type": "model", "authority-id": e.Model[0], "series": "16", "brand-id": e.Model[0],
			"model": e.Model[1], "architecture": "armhf", "kernel": "krnl", "gadget": "gadget", "timestamp": "2018-09-12T12:00:00Z"}
		if e.Model[2] != "" {
			h["store"] = e.Model[2]
		}
		model = cached(fmt.Sprint("model", *e.Model), h).(*asserts.Model)
	}
	if e.Store != nil {
		h := map[string]interface{}{"type": "store", "authority-id": "canonical", "store": e.Store.Store, "operator-id": "canonical",
			"timestamp": "2018-09-12T12:00:00Z"}
		if len(e.Store.Friendly) != 0 {
			h["friendly-stores"] = strList(e.Store.Friendly)
		}
		store = cached(fmt.Sprint("store", *e.Store), h).(*asserts.Store)
	}
	return model, store
}

func cached(key string, h map[string]interface{}) asserts.Assertion {
	if a, ok := cache[key]; ok {
		return a
	}
	a, err := assemble(h)
	if err != nil {
		panic(err)
	}
	cache[key] = a
	return a
}

func snapInfo(name, typ string) *snap.Info {
	info := &snap.Info{SuggestedName: name, SnapType: snap.Type(typ), Plugs: map[string]*snap.PlugInfo{}, Slots: map[string]*snap.SlotInfo{}}
	return info
}

// guard: every compiled rule has six non-empty alternative lists
func plugRuleGuard(r *asserts.PlugRule) bool {
	return r == nil || (len(r.AllowInstallation) > 0 && len(r.DenyInstallation) > 0 && len(r.AllowConnection) > 0 &&
		len(r.DenyConnection) > 0 && len(r.AllowAutoConnection) > 0 && len(r.DenyAutoConnection) > 0)
}
func slotRuleGuard(r *asserts.SlotRule) bool {
	return r == nil || (len(r.AllowInstallation) > 0 && len(r.DenyInstallation) > 0 && len(r.AllowConnection) > 0 &&
		len(r.DenyConnection) > 0 && len(r.AllowAutoConnection) > 0 && len(r.DenyAutoConnection) > 0)
}

type ruler interface {
	PlugRule(string) *asserts.PlugRule
	SlotRule(string) *asserts.SlotRule
}

func declGuard(r ruler, d *decl) bool {
	if d == nil {
		return true
	}
	ok := true
	for _, e := range d.Plugs {
		ok = ok && plugRuleGuard(r.PlugRule(e.Iface))
	}
	for _, e := range d.Slots {
		ok = ok && slotRuleGuard(r.SlotRule(e.Iface))
	}
	return ok
}

// ---------------------------------------------------------------- running one candidate

const (
	vAllow1 = "(VAllow false)"
	vAllowA = "(VAllow true)"
	vRefuse = "VRefuse"
	vPanic  = "VPanic"
	vInval  = "VInvalid"
)

func runConn(i *in, pd, sd *decl, bd decl) (verdict string, guard bool) {
	defer func() {
		if r := recover(); r != nil {
			verdict = vPanic
		}
	}()
	plugDecl, err := snapDecl(pd, "plug-snap")
	if err != nil {
		dbg(err)
		return vInval, true
	}
	slotDecl, err := snapDecl(sd, "slot-snap")
	if err != nil {
		dbg(err)
		return vInval, true
	}
	base, err := baseDecl(bd)
	if err != nil {
		dbg(err)
		return vInval, true
	}
	guard = declGuard(base, &bd)
	if plugDecl != nil {
		guard = guard && declGuard(plugDecl, pd)
	}
	if slotDecl != nil {
		guard = guard && declGuard(slotDecl, sd)
	}
	model, store := setEnv(i.Env)

	plugSnap := snapInfo("plug-snap", i.Plug.Type)
	slotSnap := snapInfo("slot-snap", i.Slot.Type)
	plugInfo := &snap.PlugInfo{Snap: plugSnap, Name: i.Plug.Name, Interface: i.Plug.Iface, Attrs: goKVs(i.Plug.Static)}
	slotInfo := &snap.SlotInfo{Snap: slotSnap, Name: i.Slot.Name, Interface: i.Slot.Iface, Attrs: goKVs(i.Slot.Static)}
	plugSnap.Plugs[i.Plug.Name] = plugInfo
	slotSnap.Slots[i.Slot.Name] = slotInfo
	plugSet, err := interfaces.NewSnapAppSet(plugSnap, nil)
	if err != nil {
		panic(err)
	}
	slotSet, err := interfaces.NewSnapAppSet(slotSnap, nil)
	if err != nil {
		panic(err)
	}
	var pdyn, sdyn map[string]interface{}
	if len(i.Plug.Dyn) != 0 {
		pdyn = goKVs(i.Plug.Dyn)
	}
	if len(i.Slot.Dyn) != 0 {
		sdyn = goKVs(i.Slot.Dyn)
	}
	cand := policy.ConnectCandidate{
		Plug:                interfaces.NewConnectedPlug(plugInfo, plugSet, nil, pdyn),
		PlugSnapDeclaration: plugDecl,
		Slot:                interfaces.NewConnectedSlot(slotInfo, slotSet, nil, sdyn),
		SlotSnapDeclaration: slotDecl,
		BaseDeclaration:     base,
		Model:               model,
		Store:               store,
	}
	if i.Kind == "auto" {
		arity, err := cand.CheckAutoConnect()
		if err != nil {
			return vRefuse, guard
		}
		if arity.SlotsPerPlugAny() {
			return vAllowA, guard
		}
		return vAllow1, guard
	}
	if err := cand.Check(); err != nil {
		return vRefuse, guard
	}
	return vAllowA, guard
}

func runInst(i *in, d *decl, bd decl) (verdict string, guard bool) {
	defer func() {
		if r := recover(); r != nil {
			verdict = vPanic
		}
	}()
	sdecl, err := snapDecl(d, "the-snap")
	if err != nil {
		dbg(err)
		return vInval, true
	}
	base, err := baseDecl(bd)
	if err != nil {
		dbg(err)
		return vInval, true
	}
	guard = declGuard(base, &bd)
	if sdecl != nil {
		guard = guard && declGuard(sdecl, d)
	}
	model, store := setEnv(i.Env)
	info := snapInfo("the-snap", i.Type)
	for _, s := range i.Slots {
		info.Slots[s.Name] = &snap.SlotInfo{Snap: info, Name: s.Name, Interface: s.Iface, Attrs: goKVs(s.Static)}
	}
	for _, p := range i.Plugs {
		info.Plugs[p.Name] = &snap.PlugInfo{Snap: info, Name: p.Name, Interface: p.Iface, Attrs: goKVs(p.Static)}
	}
	cand := policy.InstallCandidate{Snap: info, SnapDeclaration: sdecl, BaseDeclaration: base, Model: model, Store: store}
	if err := cand.Check(); err != nil {
		return vRefuse, guard
	}
	return vAllowA, guard
}

// ---------------------------------------------------------------- variants

func cloneRule(r rule) rule {
	c := rule{Short: r.Short}
	for i, s := range r.Sub {
		if s != nil {
			cs := *s
			cs.Alts = append([]alt{}, s.Alts...)
			c.Sub[i] = &cs
		}
	}
	return c
}

// addDeny adds the alternative d to the deny subrules with the given indexes. A rule shortcut is first written out
// as the map it stands for; `deny-*: true` absorbs any further alternative and stays.
func addDeny(r rule, d alt, idx []int) rule {
	c := cloneRule(r)
	if c.Short != nil {
		b := *c.Short
		nb := !b
		c.Short = nil
		for k := 0; k < 6; k += 2 {
			c.Sub[k] = &subrule{Short: &b}
			c.Sub[k+1] = &subrule{Short: &nb}
		}
	}
	for _, k := range idx {
		s := c.Sub[k]
		switch {
		case s == nil || (s.Short != nil && !*s.Short):
			dd := d
			c.Sub[k] = &subrule{One: &dd}
		case s.Short != nil:
			// deny: true
		case s.One != nil:
			c.Sub[k] = &subrule{Alts: []alt{*s.One, d}}
		default:
			c.Sub[k] = &subrule{Alts: append(append([]alt{}, s.Alts...), d)}
		}
	}
	return c
}

func declAddDeny(d *decl, dp, ds alt, idx []int) *decl {
	if d == nil {
		return nil
	}
	c := decl{SnapID: d.SnapID, PubID: d.PubID}
	for _, e := range d.Plugs {
		c.Plugs = append(c.Plugs, irule{e.Iface, addDeny(e.R, dp, idx)})
	}
	for _, e := range d.Slots {
		c.Slots = append(c.Slots, irule{e.Iface, addDeny(e.R, ds, idx)})
	}
	return &c
}

func hasRule(l []irule, iface string) bool {
	for _, e := range l {
		if e.Iface == iface {
			return true
		}
	}
	return false
}

// drop the rule for iface, then (when low is given) add low as the rule for iface  (Policy.set_rule)
func setRule(l []irule, iface string, low *rule) []irule {
	var r []irule
	for _, e := range l {
		if e.Iface != iface {
			r = append(r, e)
		}
	}
	if low != nil {
		r = append(r, irule{iface, cloneRule(*low)})
	}
	return r
}

func declCopy(d *decl) *decl {
	if d == nil {
		return nil
	}
	c := *d
	return &c
}

// the rules of the levels below the deciding one are replaced (plug-decl plug rule > slot-decl slot rule > base plug
// rule > base slot rule)   (Policy.decls_low)
func lowVariantConn(i *in) (pd, sd *decl, bd decl) {
	iface := i.Plug.Iface
	pd, sd, bd = declCopy(i.PlugDecl), declCopy(i.SlotDecl), *declCopy(&i.Base)
	level := 0
	switch {
	case pd != nil && hasRule(pd.Plugs, iface):
		level = 1
	case sd != nil && hasRule(sd.Slots, iface):
		level = 2
	case hasRule(bd.Plugs, iface):
		level = 3
	case hasRule(bd.Slots, iface):
		level = 4
	}
	if level == 0 {
		return
	}
	if level < 2 && sd != nil {
		sd.Slots = setRule(sd.Slots, iface, i.Low)
	}
	if level < 3 {
		bd.Plugs = setRule(bd.Plugs, iface, i.Low)
	}
	if level < 4 {
		bd.Slots = setRule(bd.Slots, iface, i.Low)
	}
	return
}

// base-declaration rules shadowed by a snap-declaration rule are replaced   (Policy.inst_base_low)
func lowVariantInst(i *in) decl {
	bd := *declCopy(&i.Base)
	if i.Decl == nil {
		return bd
	}
	for _, e := range i.Decl.Slots {
		bd.Slots = setRule(bd.Slots, e.Iface, i.Low)
	}
	for _, e := range i.Decl.Plugs {
		bd.Plugs = setRule(bd.Plugs, e.Iface, i.Low)
	}
	return bd
}

// ---------------------------------------------------------------- exec

func exec(i in) vh.Out {
	switch i.Kind {
	case "conn", "auto":
		auto := i.Kind == "auto"
		obs, guard := runConn(&i, i.PlugDecl, i.SlotDecl, i.Base)
		idx := []int{3}
		if auto {
			idx = []int{5}
		}
		pdD, sdD := declAddDeny(i.PlugDecl, i.ExtraDenyPlug, i.ExtraDenySlot, idx), declAddDeny(i.SlotDecl, i.ExtraDenyPlug, i.ExtraDenySlot, idx)
		bdD := *declAddDeny(&i.Base, i.ExtraDenyPlug, i.ExtraDenySlot, idx)
		pdL, sdL, bdL := lowVariantConn(&i)
		obsD, obsL := vInval, vInval
		if obs != vInval {
			obsD, _ = runConn(&i, pdD, sdD, bdD)
			obsL, _ = runConn(&i, pdL, sdL, bdL)
		}
		coq := "(CConn " + vh.CoqBool(auto) + " (mkConn " + cEnv(i.Env) + " " + cSide(i.Plug) + " " + cSide(i.Slot) + " " +
			cDecls(i.PlugDecl, i.SlotDecl, i.Base) + ") " + obs + " " + cAlt(i.ExtraDenyPlug) + " " + cAlt(i.ExtraDenySlot) + " " + obsD + " " +
			cOptRule(i.Low) + " " + obsL + " " + vh.CoqBool(guard) + ")"
		tags := []string{i.Kind + ":" + obs}
		level := "level:none"
		iface := i.Plug.Iface
		switch {
		case i.Plug.Iface != i.Slot.Iface:
			level = "level:iface-mismatch"
		case i.PlugDecl != nil && hasRule(i.PlugDecl.Plugs, iface):
			level = "level:plug-decl"
		case i.SlotDecl != nil && hasRule(i.SlotDecl.Slots, iface):
			level = "level:slot-decl"
		case hasRule(i.Base.Plugs, iface):
			level = "level:base-plug"
		case hasRule(i.Base.Slots, iface):
			level = "level:base-slot"
		}
		tags = append(tags, level)
		if obs != obsD {
			tags = append(tags, "extra-deny-flips")
		}
		return vh.Out{Observed: map[string]interface{}{"verdict": obs, "with_extra_deny": obsD, "with_low_replaced": obsL, "guard": guard},
			Coq: coq, NonTrivial: level != "level:none" && level != "level:iface-mismatch" && obs != vInval, Tags: tags}
	case "inst":
		obs, guard := runInst(&i, i.Decl, i.Base)
		idx := []int{1}
		dD := declAddDeny(i.Decl, i.ExtraDenyPlug, i.ExtraDenySlot, idx)
		bdD := *declAddDeny(&i.Base, i.ExtraDenyPlug, i.ExtraDenySlot, idx)
		bdL := lowVariantInst(&i)
		obsD, obsL := vInval, vInval
		if obs != vInval {
			obsD, _ = runInst(&i, dD, bdD)
			obsL, _ = runInst(&i, i.Decl, bdL)
		}
		coq := "(CInst (mkInst " + cEnv(i.Env) + " " + cB(i.Type) + " " + cSides(i.Slots) + " " + cSides(i.Plugs) + " " +
			cOptDecl(i.Decl) + " " + cDecl(i.Base) + ") " + obs + " " + cAlt(i.ExtraDenyPlug) + " " + cAlt(i.ExtraDenySlot) + " " + obsD + " " +
			cOptRule(i.Low) + " " + obsL + " " + vh.CoqBool(guard) + ")"
		tags := []string{"inst:" + obs}
		if obs != obsD {
			tags = append(tags, "extra-deny-flips")
		}
		return vh.Out{Observed: map[string]interface{}{"verdict": obs, "with_extra_deny": obsD, "with_low_replaced": obsL, "guard": guard},
			Coq: coq, NonTrivial: obs != vInval && len(i.Slots)+len(i.Plugs) > 0, Tags: tags}
	}
	panic("bad kind " + i.Kind)
}

func main() { vh.Run(gen, exec) }
