//go:build verif

package main

import (
	"github.com/snapcore/snapd/zzverif/vh"
)

// Small pools so that constraints hit and miss with comparable probability.
var (
	ifaces    = []string{"ia", "ib", "ic"}
	names     = []string{"ia", "ib", "n1", "n2", "led", "buzzer", "led-admin", "xbuzzer", "xn1x", "ledbuzzer", "le"}
	// name constraint entries: literals and top-level alternations of literals (the whole name must equal one alternative)
	nameEntries = []string{"ia", "ib", "n1", "n2", "led", "buzzer", "led|buzzer", "buzzer|led", "n1|n2", "led|n1|buzzer", "ia|led", "n2|led-admin"}
	attrKeys  = []string{"k1", "k2", "k3"}
	scalars   = []string{"x", "y", "true", "5", "-3", "pub-one", "xq", "qy", "qxq"}
	// attribute constraint literals and alternations of literals
	litEntries = []string{"x", "y", "true", "5", "-3", "pub-one", "x|y", "y|5|x", "true|-3"}
	snapIDs   = []string{"snapidsnapidsnapidsnapidsnapid01", "snapidsnapidsnapidsnapidsnapid02", "snapidsnapidsnapidsnapidsnapid03"}
	pubIDs    = []string{"pub-one", "pub-two", "canonical"}
	ruleTypes = []string{"core", "kernel", "gadget", "app"}
	snapTypes = []string{"app", "app", "gadget", "kernel", "os", "snapd", "base"}
	distros   = []string{"ubuntu", "debian", "fedora"}
	stores    = []string{"store1", "store2", "store3"}
	brands    = []string{"brand1", "brand2"}
	models    = []string{"model1", "model2"}
)

func pickSome(r *vh.Rand, pool []string, lo, hi int) []string {
	n := r.Range(lo, hi)
	if n > len(pool) {
		n = len(pool)
	}
	p := r.Perm(len(pool))
	out := make([]string, n)
	for i := 0; i < n; i++ {
		out[i] = pool[p[i]]
	}
	return out
}

func genScalar(r *vh.Rand) val {
	switch r.Intn(6) {
	case 0:
		return val{K: "b", B: r.Bool()}
	case 1:
		return val{K: "i", I: []int64{5, -3, 0, 12}[r.Intn(4)]}
	default:
		return val{K: "s", S: r.Pick(scalars)}
	}
}

func genVal(r *vh.Rand, depth int) val {
	if depth <= 0 {
		return genScalar(r)
	}
	switch r.Intn(8) {
	case 0:
		n := r.Range(0, 3)
		l := make([]val, n)
		for i := range l {
			l[i] = genVal(r, depth-1)
		}
		return val{K: "l", L: l}
	case 1:
		return val{K: "m", M: genAttrs(r, depth-1, 2)}
	default:
		return genScalar(r)
	}
}

func genAttrs(r *vh.Rand, depth, max int) []kv {
	var out []kv
	for _, k := range attrKeys {
		if r.Chance(max, 4) {
			out = append(out, kv{k, genVal(r, depth)})
		}
	}
	return out
}

func genLeaf(r *vh.Rand) matcher {
	switch r.Intn(10) {
	case 0:
		return matcher{K: "missing"}
	case 1:
		return matcher{K: "eval", Slot: r.Bool(), S: r.Pick([]string{"k1", "k2", "k3", "k1.k1", "k2.k3", ".k1.", "k9"})}
	case 2:
		return matcher{K: "ref", Slot: r.Bool()}
	default:
		return matcher{K: "lit", S: r.Pick(litEntries)}
	}
}

// below the first level: leaf, nested map, or (not directly inside an alternative list) an alternative list
func genSub(r *vh.Rand, depth int, inAlt bool) matcher {
	if depth > 0 {
		switch r.Intn(8) {
		case 0:
			return genMapMatcher(r, depth-1)
		case 1:
			if !inAlt {
				n := r.Range(1, 3)
				a := make([]matcher, n)
				for i := range a {
					a[i] = genSub(r, depth-1, true)
				}
				return matcher{K: "alt", A: a}
			}
		}
	}
	return genLeaf(r)
}

func genMapMatcher(r *vh.Rand, depth int) matcher {
	var ms []km
	for _, k := range attrKeys {
		if r.Chance(1, 3) {
			ms = append(ms, km{k, genSub(r, depth, false)})
		}
	}
	if len(ms) == 0 {
		ms = append(ms, km{r.Pick(attrKeys), genSub(r, depth, false)})
	}
	return matcher{K: "map", M: ms}
}

// first level: a map, or a list of alternative maps
func genRootMatcher(r *vh.Rand) *matcher {
	if r.Chance(1, 6) {
		n := r.Range(1, 3)
		a := make([]matcher, n)
		for i := range a {
			a[i] = genMapMatcher(r, 1)
		}
		return &matcher{K: "alt", A: a}
	}
	m := genMapMatcher(r, 2)
	return &m
}

// a publisher-id list of 1-3 entries: literals and specials (the side's own special, an unknown one) in any position
func genIDList(r *vh.Rand, special string) []string {
	l := pickSome(r, pubIDs, 0, 2)
	if r.Chance(1, 2) {
		l = append(l, special)
	}
	if r.Chance(1, 8) {
		l = append(l, "$UNKNOWN")
	}
	if len(l) == 0 {
		l = []string{r.Pick(pubIDs)}
	}
	p := r.Perm(len(l))
	out := make([]string, len(l))
	for i, j := range p {
		out[i] = l[j]
	}
	return out
}

func genNames(r *vh.Rand) []string {
	l := pickSome(r, nameEntries, 1, 2)
	if r.Chance(1, 3) {
		l = append(l, "$INTERFACE")
	}
	if r.Chance(1, 12) {
		l = append(l, "$OTHER")
	}
	return l
}

// plugSide: alternative of a plug rule; inst: of an *-installation subrule; arity: slots-per-plug may be given.
// Only the fields the compiler of that subrule knows are ever set. want = roughly how many constraints.
func genAlt(r *vh.Rand, plugSide, inst, arity bool) alt {
	var a alt
	n := 0
	for tries := 0; n == 0 && tries < 20; tries++ {
		a = alt{}
		p := func() bool {
			if r.Chance(1, 5) {
				n++
				return true
			}
			return false
		}
		// names
		if (!inst || plugSide) && p() {
			a.PlugNames = genNames(r)
		}
		if (!inst || !plugSide) && p() {
			a.SlotNames = genNames(r)
		}
		// attributes
		if (!inst || plugSide) && p() {
			a.PlugAttrs = genRootMatcher(r)
		}
		if (!inst || !plugSide) && p() {
			a.SlotAttrs = genRootMatcher(r)
		}
		// ids
		if inst {
			if plugSide {
				if p() {
					a.PlugSnapTypes = pickSome(r, ruleTypes, 1, 2)
				}
				if p() {
					a.PlugSnapIDs = pickSome(r, snapIDs, 1, 2)
				}
			} else {
				if p() {
					a.SlotSnapTypes = pickSome(r, ruleTypes, 1, 2)
				}
				if p() {
					a.SlotSnapIDs = pickSome(r, snapIDs, 1, 2)
				}
			}
		} else {
			if p() {
				a.SlotSnapTypes = pickSome(r, ruleTypes, 1, 2)
			}
			if plugSide {
				if p() {
					a.SlotSnapIDs = pickSome(r, snapIDs, 1, 2)
				}
				if p() {
					a.SlotPubIDs = genIDList(r, "$PLUG_PUBLISHER_ID")
				}
			} else {
				if p() {
					a.PlugSnapTypes = pickSome(r, ruleTypes, 1, 2)
				}
				if p() {
					a.PlugSnapIDs = pickSome(r, snapIDs, 1, 2)
				}
				if p() {
					a.PlugPubIDs = genIDList(r, "$SLOT_PUBLISHER_ID")
				}
			}
		}
		if arity && r.Chance(1, 2) {
			n++
			a.SlotsPerPlug = r.Pick([]string{"*", "1", "2", "*", "*"})
		}
		if p() {
			oc := onClassic{Classic: r.Bool()}
			if r.Chance(1, 3) {
				oc = onClassic{Classic: true, IDs: pickSome(r, distros, 1, 2)}
			}
			a.OnClassic = &oc
		}
		if p() {
			b := r.Bool()
			a.OnCoreDesktop = &b
		}
		if p() {
			a.Device = true
			switch r.Intn(4) {
			case 0:
				a.OnBrand = pickSome(r, brands, 1, 1)
			case 1:
				a.OnModel = []string{r.Pick(brands) + "/" + r.Pick(models)}
			case 2:
				a.OnStore = pickSome(r, stores, 1, 2)
			default:
				a.OnStore = pickSome(r, stores, 1, 1)
				a.OnBrand = pickSome(r, brands, 1, 2)
			}
		}
	}
	if n == 0 {
		oc := onClassic{Classic: r.Bool()}
		a.OnClassic = &oc
	}
	return a
}

func genSubrule(r *vh.Rand, plugSide, inst, allow bool) *subrule {
	switch r.Intn(8) {
	case 0:
		b := r.Bool()
		return &subrule{Short: &b}
	case 1, 2:
		n := r.Range(1, 3)
		l := make([]alt, n)
		for i := range l {
			l[i] = genAlt(r, plugSide, inst, allow && !inst)
		}
		return &subrule{Alts: l}
	default:
		a := genAlt(r, plugSide, inst, allow && !inst)
		return &subrule{One: &a}
	}
}

// focus: the subrule pair (0 inst, 1 conn, 2 auto) that is most likely present
func genRule(r *vh.Rand, plugSide bool, focus int) rule {
	if r.Chance(1, 10) {
		b := r.Bool()
		return rule{Short: &b}
	}
	var ru rule
	any := false
	for k := 0; k < 6; k++ {
		prob := 1
		if k/2 == focus {
			prob = 5
		}
		if r.Chance(prob, 8) {
			ru.Sub[k] = genSubrule(r, plugSide, k/2 == 0, k%2 == 0)
			any = true
		}
	}
	if !any {
		k := focus*2 + r.Intn(2)
		ru.Sub[k] = genSubrule(r, plugSide, k/2 == 0, k%2 == 0)
	}
	return ru
}

func genIRules(r *vh.Rand, plugSide bool, focus int, prob int) []irule {
	var out []irule
	for _, ifc := range ifaces {
		if r.Chance(prob, 10) {
			out = append(out, irule{ifc, genRule(r, plugSide, focus)})
		}
	}
	return out
}

func genDecl(r *vh.Rand, snapDecl bool, focus, prob int) decl {
	d := decl{Plugs: genIRules(r, true, focus, prob), Slots: genIRules(r, false, focus, prob)}
	if snapDecl {
		d.SnapID = r.Pick(snapIDs)
		d.PubID = r.Pick(pubIDs)
	}
	return d
}

func genEnv(r *vh.Rand) envT {
	// the three kinds of system: classic, core, core desktop (rarely the combination no real system has)
	e := envT{OSID: r.Pick([]string{"ubuntu", "debian", "fedora", "ubuntu-core", ""})}
	switch r.Intn(10) {
	case 0, 1, 2, 3:
		e.Classic = true
	case 4, 5, 6:
	case 7, 8:
		e.CoreDesktop = true
	default:
		e.Classic, e.CoreDesktop = true, true
	}
	if r.Chance(3, 4) {
		m := [3]string{r.Pick(brands), r.Pick(models), r.Pick([]string{"store1", "store2", "substore", ""})}
		e.Model = &m
		if r.Chance(1, 3) {
			st := storeT{Store: m[2], Friendly: pickSome(r, stores, 0, 2)}
			if st.Store == "" || r.Chance(1, 8) {
				st.Store = r.Pick(stores)
			}
			e.Store = &st
		}
	} else if r.Chance(1, 4) {
		e.Store = &storeT{Store: r.Pick(stores), Friendly: pickSome(r, stores, 0, 2)}
	}
	return e
}

func genSide(r *vh.Rand, dyn bool) side {
	s := side{Name: r.Pick(names), Iface: r.Pick(ifaces), Type: r.Pick(snapTypes), Static: genAttrs(r, 2, 2)}
	if dyn && r.Chance(1, 3) {
		s.Dyn = genAttrs(r, 1, 1)
	}
	return s
}

// malformed declarations: an empty rule map, an alternative without any constraint, a misplaced slots-per-plug
func malform(r *vh.Rand, d *decl) {
	target := &d.Plugs
	plugSide := true
	if r.Bool() {
		target = &d.Slots
		plugSide = false
	}
	var ru rule
	switch r.Intn(4) {
	case 0: // {} as a rule
	case 1:
		ru.Sub[2+r.Intn(4)] = &subrule{One: &alt{}}
	case 2:
		a := genAlt(r, plugSide, false, false)
		a.SlotsPerPlug = "*"
		ru.Sub[[]int{3, 5}[r.Intn(2)]] = &subrule{One: &a}
	default:
		a := genAlt(r, plugSide, true, false)
		a.SlotsPerPlug = "1"
		ru.Sub[r.Intn(2)] = &subrule{One: &a}
	}
	*target = append([]irule{{r.Pick(ifaces), ru}}, *target...)
	// an interface may only appear once in a header map: drop later duplicates
	seen := map[string]bool{}
	var out []irule
	for _, e := range *target {
		if !seen[e.Iface] {
			seen[e.Iface] = true
			out = append(out, e)
		}
	}
	*target = out
}

func genLow(r *vh.Rand, focus int) *rule {
	if r.Chance(1, 4) {
		return nil
	}
	// a rule that is well-formed on either side: shortcuts and common fields only
	var ru rule
	if r.Chance(1, 3) {
		b := r.Bool()
		ru.Short = &b
		return &ru
	}
	mk := func() *subrule {
		if r.Chance(1, 3) {
			b := r.Bool()
			return &subrule{Short: &b}
		}
		oc := onClassic{Classic: r.Bool()}
		return &subrule{One: &alt{OnClassic: &oc}}
	}
	ru.Sub[focus*2] = mk()
	if r.Bool() {
		ru.Sub[focus*2+1] = mk()
	}
	return &ru
}

func genConn(r *vh.Rand, auto bool) in {
	focus := 1
	kind := "conn"
	if auto {
		focus, kind = 2, "auto"
	}
	i := in{Kind: kind, Env: genEnv(r), Plug: genSide(r, true), Slot: genSide(r, true)}
	if r.Chance(9, 10) {
		i.Slot.Iface = i.Plug.Iface
	}
	// presence per level is varied so that every level decides in a fair share of the cases
	probs := [][4]int{{6, 6, 6, 6}, {0, 6, 6, 6}, {0, 0, 7, 7}, {0, 0, 0, 8}, {8, 2, 2, 2}, {0, 0, 0, 0}}[r.Intn(6)]
	if r.Chance(3, 4) {
		d := genDecl(r, true, focus, 0)
		d.Plugs = genIRules(r, true, focus, probs[0])
		d.Slots = genIRules(r, false, focus, 3)
		i.PlugDecl = &d
	}
	if r.Chance(3, 4) {
		d := genDecl(r, true, focus, 0)
		d.Slots = genIRules(r, false, focus, probs[1])
		d.Plugs = genIRules(r, true, focus, 3)
		i.SlotDecl = &d
	}
	i.Base = decl{Plugs: genIRules(r, true, focus, probs[2]), Slots: genIRules(r, false, focus, probs[3])}
	i.ExtraDenyPlug = genAlt(r, true, false, false)
	i.ExtraDenySlot = genAlt(r, false, false, false)
	if r.Chance(1, 3) { // an alternative that certainly matches
		i.ExtraDenyPlug = alt{OnClassic: &onClassic{Classic: i.Env.Classic}}
		i.ExtraDenySlot = alt{OnClassic: &onClassic{Classic: i.Env.Classic}}
	}
	i.Low = genLow(r, focus)
	if r.Chance(1, 25) {
		ds := []*decl{&i.Base}
		if i.PlugDecl != nil {
			ds = append(ds, i.PlugDecl)
		}
		if i.SlotDecl != nil {
			ds = append(ds, i.SlotDecl)
		}
		malform(r, ds[r.Intn(len(ds))])
	}
	return i
}

func genInst(r *vh.Rand) in {
	i := in{Kind: "inst", Env: genEnv(r), Type: r.Pick(snapTypes)}
	used := map[string]bool{}
	for k, n := 0, r.Range(0, 2); k < n; k++ {
		s := genSide(r, false)
		s.Type = i.Type
		if !used[s.Name] {
			used[s.Name] = true
			i.Slots = append(i.Slots, s)
		}
	}
	used = map[string]bool{}
	for k, n := 0, r.Range(0, 2); k < n; k++ {
		s := genSide(r, false)
		s.Type = i.Type
		if !used[s.Name] {
			used[s.Name] = true
			i.Plugs = append(i.Plugs, s)
		}
	}
	if len(i.Slots)+len(i.Plugs) == 0 {
		s := genSide(r, false)
		s.Type = i.Type
		i.Plugs = append(i.Plugs, s)
	}
	if r.Chance(2, 3) {
		d := genDecl(r, true, 0, []int{0, 4, 7}[r.Intn(3)])
		i.Decl = &d
	}
	i.Base = genDecl(r, false, 0, []int{4, 7, 9}[r.Intn(3)])
	i.ExtraDenyPlug = genAlt(r, true, true, false)
	i.ExtraDenySlot = genAlt(r, false, true, false)
	if r.Chance(1, 3) {
		i.ExtraDenyPlug = alt{OnClassic: &onClassic{Classic: i.Env.Classic}}
		i.ExtraDenySlot = alt{OnClassic: &onClassic{Classic: i.Env.Classic}}
	}
	i.Low = genLow(r, 0)
	if r.Chance(1, 25) {
		if i.Decl != nil && r.Bool() {
			malform(r, i.Decl)
		} else {
			malform(r, &i.Base)
		}
	}
	return i
}

// fixed cases: the shapes named in the property statement, first
func fixedCases() []in {
	t, f := true, false
	_ = f
	env := envT{Classic: true, OSID: "ubuntu"}
	p := side{Name: "n1", Iface: "ia", Type: "app"}
	s := side{Name: "n2", Iface: "ia", Type: "os"}
	ocT := &onClassic{Classic: true}
	ocF := &onClassic{Classic: false}
	any := alt{OnClassic: ocT}
	none := alt{OnClassic: ocF}
	var out []in
	// no declaration at all; interface mismatch
	out = append(out, in{Kind: "conn", Env: env, Plug: p, Slot: s, ExtraDenyPlug: any, ExtraDenySlot: any})
	out = append(out, in{Kind: "auto", Env: env, Plug: p, Slot: side{Name: "n2", Iface: "ib", Type: "os"}, ExtraDenyPlug: any, ExtraDenySlot: any})
	// deny and allow both match: deny wins
	both := rule{}
	both.Sub[2] = &subrule{One: &any}
	both.Sub[3] = &subrule{One: &any}
	out = append(out, in{Kind: "conn", Env: env, Plug: p, Slot: s, Base: decl{Plugs: []irule{{"ia", both}}}, ExtraDenyPlug: none, ExtraDenySlot: none})
	// the four levels disagree: plug-decl allows, everything below denies, and the reverse
	allow, deny := rule{Short: &t}, rule{Short: &f}
	for _, top := range []rule{allow, deny} {
		bot := deny
		if top.Short == &f {
			bot = allow
		}
		out = append(out, in{Kind: "conn", Env: env, Plug: p, Slot: s,
			PlugDecl: &decl{SnapID: snapIDs[0], PubID: "pub-one", Plugs: []irule{{"ia", top}}},
			SlotDecl: &decl{SnapID: snapIDs[1], PubID: "pub-two", Slots: []irule{{"ia", bot}}},
			Base:     decl{Plugs: []irule{{"ia", bot}}, Slots: []irule{{"ia", bot}}}, ExtraDenyPlug: none, ExtraDenySlot: none, Low: &top})
		out = append(out, in{Kind: "auto", Env: env, Plug: p, Slot: s,
			SlotDecl: &decl{SnapID: snapIDs[1], PubID: "pub-two", Slots: []irule{{"ia", top}}},
			Base:     decl{Plugs: []irule{{"ia", bot}}, Slots: []irule{{"ia", bot}}}, ExtraDenyPlug: any, ExtraDenySlot: any, Low: &bot})
		out = append(out, in{Kind: "conn", Env: env, Plug: p, Slot: s,
			Base: decl{Plugs: []irule{{"ia", top}}, Slots: []irule{{"ia", bot}}}, ExtraDenyPlug: none, ExtraDenySlot: any})
		out = append(out, in{Kind: "inst", Env: env, Type: "app", Plugs: []side{p}, Slots: []side{{Name: "n2", Iface: "ib", Type: "app"}},
			Decl: &decl{SnapID: snapIDs[0], PubID: "pub-one", Plugs: []irule{{"ia", top}}},
			Base: decl{Plugs: []irule{{"ia", bot}}, Slots: []irule{{"ib", top}}}, ExtraDenyPlug: any, ExtraDenySlot: none, Low: &bot})
	}
	// name constraints that are alternations: the whole name must equal one alternative
	for _, nm := range []string{"led", "buzzer", "led-admin", "xbuzzer", "ledbuzzer", "le", "xn1x", "n1"} {
		for _, entry := range []string{"led|buzzer", "led|n1|buzzer"} {
			pr := rule{}
			pr.Sub[2] = &subrule{One: &alt{PlugNames: []string{entry}}}
			out = append(out, in{Kind: "conn", Env: env, Plug: side{Name: nm, Iface: "ia", Type: "app"}, Slot: s,
				Base: decl{Plugs: []irule{{"ia", pr}}}, ExtraDenyPlug: none, ExtraDenySlot: none})
			sr := rule{}
			sr.Sub[5] = &subrule{One: &alt{SlotNames: []string{entry}}}
			out = append(out, in{Kind: "auto", Env: env, Plug: p, Slot: side{Name: nm, Iface: "ia", Type: "os"},
				Base: decl{Slots: []irule{{"ia", sr}}}, ExtraDenyPlug: none, ExtraDenySlot: none})
			ir := rule{}
			ir.Sub[0] = &subrule{One: &alt{PlugNames: []string{entry}}}
			out = append(out, in{Kind: "inst", Env: env, Type: "app", Plugs: []side{{Name: nm, Iface: "ia", Type: "app"}},
				Base: decl{Plugs: []irule{{"ia", ir}}}, ExtraDenyPlug: none, ExtraDenySlot: none})
		}
	}
	// the same for attribute value regexps
	for _, v := range []string{"x", "y", "xq", "qy", "qxq"} {
		ar := rule{}
		ar.Sub[2] = &subrule{One: &alt{SlotAttrs: &matcher{K: "map", M: []km{{"k1", matcher{K: "lit", S: "x|y"}}}}}}
		out = append(out, in{Kind: "conn", Env: env, Plug: p, Slot: side{Name: "n2", Iface: "ia", Type: "os", Static: []kv{{"k1", val{K: "s", S: v}}}},
			Base: decl{Plugs: []irule{{"ia", ar}}}, ExtraDenyPlug: none, ExtraDenySlot: none})
	}
	// on-core-desktop: the three system kinds x value x allow/deny at each of the four levels, and for installation
	cdT, cdF := true, false
	kinds := []envT{{Classic: true, OSID: "ubuntu"}, {OSID: "ubuntu-core"}, {OSID: "ubuntu-core", CoreDesktop: true}}
	cnt := 0
	for level := 1; level <= 4; level++ {
		for _, e := range kinds {
			for _, v := range []*bool{&cdT, &cdF} {
				for deny := 0; deny < 2; deny++ {
					cnt++
					kind, idx := "conn", 2
					if cnt%2 == 0 {
						kind, idx = "auto", 4
					}
					ru := rule{}
					ru.Sub[idx+deny] = &subrule{One: &alt{OnCoreDesktop: v}}
					opp := rule{Short: &cdT}
					if deny == 0 {
						opp = rule{Short: &cdF}
					}
					i := in{Kind: kind, Env: e, Plug: p, Slot: s, ExtraDenyPlug: none, ExtraDenySlot: none}
					pd := &decl{SnapID: snapIDs[0], PubID: "pub-one"}
					sd := &decl{SnapID: snapIDs[1], PubID: "pub-two"}
					switch level {
					case 1:
						pd.Plugs = []irule{{"ia", ru}}
						sd.Slots = []irule{{"ia", opp}}
						i.Base = decl{Plugs: []irule{{"ia", opp}}, Slots: []irule{{"ia", opp}}}
					case 2:
						sd.Slots = []irule{{"ia", ru}}
						i.Base = decl{Plugs: []irule{{"ia", opp}}, Slots: []irule{{"ia", opp}}}
					case 3:
						i.Base = decl{Plugs: []irule{{"ia", ru}}, Slots: []irule{{"ia", opp}}}
					default:
						i.Base = decl{Slots: []irule{{"ia", ru}}}
					}
					i.PlugDecl, i.SlotDecl = pd, sd
					out = append(out, i)
				}
			}
		}
	}
	for _, plugSide := range []bool{true, false} {
		for _, snapLevel := range []bool{true, false} {
			for _, e := range kinds {
				for _, v := range []*bool{&cdT, &cdF} {
					cnt++
					ru := rule{}
					ru.Sub[cnt%2] = &subrule{One: &alt{OnCoreDesktop: v}}
					opp := rule{Short: &cdT}
					if cnt%2 == 0 {
						opp = rule{Short: &cdF}
					}
					i := in{Kind: "inst", Env: e, Type: "app", ExtraDenyPlug: none, ExtraDenySlot: none}
					d := decl{}
					if plugSide {
						i.Plugs = []side{p}
						d.Plugs = []irule{{"ia", ru}}
					} else {
						i.Slots = []side{{Name: "n2", Iface: "ia", Type: "app"}}
						d.Slots = []irule{{"ia", ru}}
					}
					if snapLevel {
						d.SnapID, d.PubID = snapIDs[0], "pub-one"
						i.Decl = &d
						if plugSide {
							i.Base = decl{Plugs: []irule{{"ia", opp}}}
						} else {
							i.Base = decl{Slots: []irule{{"ia", opp}}}
						}
					} else {
						i.Base = d
					}
					out = append(out, i)
				}
			}
		}
	}
	// device scope without a model; with a model and a store assertion whose friendly stores match
	for _, e := range []envT{{Classic: true, OSID: "ubuntu"},
		{Classic: true, OSID: "ubuntu", Model: &[3]string{"brand1", "model1", "store1"}},
		{Classic: true, OSID: "ubuntu", Model: &[3]string{"brand2", "model1", "substore"}, Store: &storeT{Store: "substore", Friendly: []string{"store1"}}}} {
		for _, a := range []alt{{Device: true, OnBrand: []string{"brand1"}}, {Device: true, OnStore: []string{"store1"}}, {Device: true, OnModel: []string{"brand1/model1"}}} {
			a := a
			dr := rule{}
			dr.Sub[2] = &subrule{One: &a}
			out = append(out, in{Kind: "conn", Env: e, Plug: p, Slot: s, Base: decl{Plugs: []irule{{"ia", dr}}}, ExtraDenyPlug: none, ExtraDenySlot: none})
		}
	}
	// $SLOT_PUBLISHER_ID in a slot rule, with and without declarations
	spub := rule{}
	spub.Sub[2] = &subrule{One: &alt{PlugPubIDs: []string{"$SLOT_PUBLISHER_ID"}}}
	for _, pd := range []*decl{nil, {SnapID: snapIDs[0], PubID: "pub-one"}, {SnapID: snapIDs[0], PubID: "pub-two"}} {
		for _, sd := range []*decl{nil, {SnapID: snapIDs[1], PubID: "pub-one"}} {
			out = append(out, in{Kind: "conn", Env: env, Plug: p, Slot: s, PlugDecl: pd, SlotDecl: sd,
				Base: decl{Slots: []irule{{"ia", spub}}}, ExtraDenyPlug: none, ExtraDenySlot: none})
		}
	}
	// id lists are alternations: specials in every position, resolvable or not, the id matching an earlier / a later
	// literal, the special's value, or nothing; on plug rules (slot-publisher-id) and slot rules (plug-publisher-id), as
	// allow and as deny constraint, for Check and CheckAutoConnect
	idc := 0
	for _, plugSide := range []bool{true, false} {
		sp := "$SLOT_PUBLISHER_ID"
		if plugSide {
			sp = "$PLUG_PUBLISHER_ID"
		}
		for _, list := range [][]string{{sp, "canonical"}, {"canonical", sp}, {"canonical", sp, "pub-two"}, {sp, "canonical", "pub-two"},
			{"$UNKNOWN", "canonical"}, {sp, "$UNKNOWN", "pub-two"}, {"pub-two", "canonical"}} {
			for _, resolvable := range []bool{false, true} {
				for _, idPub := range []string{"canonical", "pub-two", "pub-one", ""} {
					idc++
					kind, idx := "conn", 2
					if idc%2 == 0 {
						kind, idx = "auto", 4
					}
					idx += (idc / 2) % 2 // allow / deny
					ru := rule{}
					a := alt{}
					if plugSide {
						a.SlotPubIDs = list
					} else {
						a.PlugPubIDs = list
					}
					ru.Sub[idx] = &subrule{One: &a}
					// idSide: the declaration whose publisher is compared; otherSide: the one the special resolves to
					var idDecl, otherDecl *decl
					if idPub != "" {
						idDecl = &decl{SnapID: snapIDs[0], PubID: idPub}
					}
					if resolvable {
						otherDecl = &decl{SnapID: snapIDs[1], PubID: "pub-one"}
					}
					i := in{Kind: kind, Env: env, Plug: p, Slot: s, ExtraDenyPlug: none, ExtraDenySlot: none}
					if plugSide {
						i.SlotDecl, i.PlugDecl = idDecl, otherDecl
						i.Base = decl{Plugs: []irule{{"ia", ru}}}
					} else {
						i.PlugDecl, i.SlotDecl = idDecl, otherDecl
						i.Base = decl{Slots: []irule{{"ia", ru}}}
					}
					out = append(out, i)
				}
			}
		}
	}
	// installation: snap-id lists (no specials exist for them) matching an earlier / a later entry or none
	for _, plugSide := range []bool{true, false} {
		for _, sid := range []string{snapIDs[0], snapIDs[1], snapIDs[2], ""} {
			for deny := 0; deny < 2; deny++ {
				a := alt{}
				i := in{Kind: "inst", Env: env, Type: "app", ExtraDenyPlug: none, ExtraDenySlot: none}
				ru := rule{}
				if plugSide {
					a.PlugSnapIDs = []string{snapIDs[0], snapIDs[1]}
					i.Plugs = []side{p}
				} else {
					a.SlotSnapIDs = []string{snapIDs[0], snapIDs[1]}
					i.Slots = []side{{Name: "n2", Iface: "ia", Type: "app"}}
				}
				ru.Sub[deny] = &subrule{One: &a}
				if plugSide {
					i.Base = decl{Plugs: []irule{{"ia", ru}}}
				} else {
					i.Base = decl{Slots: []irule{{"ia", ru}}}
				}
				if sid != "" {
					i.Decl = &decl{SnapID: sid, PubID: "pub-one"}
				}
				out = append(out, i)
			}
		}
	}
	// attribute constraints over nested maps and lists
	nested := &matcher{K: "map", M: []km{{"k1", matcher{K: "map", M: []km{{"k2", matcher{K: "alt", A: []matcher{{K: "lit", S: "x"}, {K: "lit", S: "y|5"}}}}}}}}}
	for _, v := range []val{
		{K: "m", M: []kv{{"k2", val{K: "l", L: []val{{K: "s", S: "x"}, {K: "i", I: 5}}}}}},
		{K: "m", M: []kv{{"k2", val{K: "l", L: []val{{K: "s", S: "x"}, {K: "s", S: "xq"}}}}}},
		{K: "l", L: []val{{K: "m", M: []kv{{"k2", val{K: "s", S: "y"}}}}, {K: "m", M: []kv{{"k2", val{K: "l", L: []val{{K: "l", L: []val{{K: "s", S: "x"}}}}}}}}}},
		{K: "l", L: []val{{K: "m", M: []kv{{"k3", val{K: "s", S: "y"}}}}}},
		{K: "s", S: "x"},
	} {
		nr := rule{}
		nr.Sub[2] = &subrule{One: &alt{PlugAttrs: nested}}
		out = append(out, in{Kind: "conn", Env: env, Plug: side{Name: "n1", Iface: "ia", Type: "app", Static: []kv{{"k1", v}}}, Slot: s,
			Base: decl{Plugs: []irule{{"ia", nr}}}, ExtraDenyPlug: none, ExtraDenySlot: none})
	}
	// slots-per-plug
	for _, spp := range []string{"*", "1", "2", ""} {
		ar := rule{}
		ar.Sub[4] = &subrule{One: &alt{SlotsPerPlug: spp, OnClassic: ocT}}
		out = append(out, in{Kind: "auto", Env: env, Plug: p, Slot: s, Base: decl{Slots: []irule{{"ia", ar}}}, ExtraDenyPlug: none, ExtraDenySlot: none})
	}
	// $PLUG_PUBLISHER_ID with and without declarations
	pubr := rule{}
	pubr.Sub[2] = &subrule{One: &alt{SlotPubIDs: []string{"$PLUG_PUBLISHER_ID"}}}
	for _, pd := range []*decl{nil, {SnapID: snapIDs[0], PubID: "pub-one"}} {
		for _, sd := range []*decl{nil, {SnapID: snapIDs[1], PubID: "pub-one"}, {SnapID: snapIDs[1], PubID: "pub-two"}} {
			out = append(out, in{Kind: "conn", Env: env, Plug: p, Slot: s, PlugDecl: pd, SlotDecl: sd,
				Base: decl{Plugs: []irule{{"ia", pubr}}}, ExtraDenyPlug: none, ExtraDenySlot: none})
		}
	}
	return out
}

func gen(r *vh.Rand, tier string, n int) []in {
	if n <= 0 {
		n = 600
	}
	out := fixedCases()
	for len(out) < n {
		switch r.Intn(5) {
		case 0, 1:
			out = append(out, genConn(r.Fork(), false))
		case 2, 3:
			out = append(out, genConn(r.Fork(), true))
		default:
			out = append(out, genInst(r.Fork()))
		}
	}
	return out
}
