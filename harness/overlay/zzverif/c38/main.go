//go:build verif

// Driver for C38: writes a gadget.yaml for a generated volume definition, loads it with the real
// gadget.InfoFromGadgetYaml, lays it out with gadget.OnDiskStructsFromGadget and gadget.LayoutVolume (raw image
// files of the requested sizes are created in a temporary gadget root) and prints the observed behaviour as a Coq
// term of type V.models.Gadget.case.
package main

import (
	"fmt"
	"os"
	"path/filepath"
	"strconv"
	"strings"

	"github.com/snapcore/snapd/gadget"
	"github.com/snapcore/snapd/zzverif/vh"
)

type qty struct {
	N int64  `json:"n"`
	U string `json:"u"` // "", "M", "G"
}

type contentIn struct {
	Off  *qty  `json:"off,omitempty"`
	Size *qty  `json:"size,omitempty"`
	Img  int64 `json:"img"` // size of the image file; -1: the file does not exist
}

type owIn struct {
	Rel int `json:"rel"` // -1: absolute; otherwise relative to the structure named s<rel>
	Off qty `json:"off"`
}

type structIn struct {
	Off     *qty        `json:"off,omitempty"`
	Size    *qty        `json:"size,omitempty"`
	Min     *qty        `json:"min,omitempty"`
	Kind    string      `json:"kind"` // mbr-type | mbr-role | mbr-guid | bare | part | part-nofs | data
	OW      *owIn       `json:"ow,omitempty"`
	Content []contentIn `json:"content,omitempty"`
}

type in struct {
	Partial bool       `json:"partial,omitempty"`
	Structs []structIn `json:"structs"`
}

const guid = "0FC63DAF-8483-4772-8E79-3D69D8477DE4"

func (q *qty) text() string { return strconv.FormatInt(q.N, 10) + q.U }

func kindFlags(k string) (mbr, fs bool) {
	switch k {
	case "mbr-type", "mbr-role", "mbr-guid":
		return true, false
	case "bare", "part-nofs":
		return false, false
	case "part", "data":
		return false, true
	}
	panic("unknown kind " + k)
}

func yamlOf(i in) string {
	var b strings.Builder
	b.WriteString("volumes:\n  pc:\n    bootloader: grub\n")
	if i.Partial {
		b.WriteString("    partial: [size]\n")
	}
	b.WriteString("    structure:\n")
	for k, s := range i.Structs {
		fmt.Fprintf(&b, "      - name: s%d\n", k)
		switch s.Kind {
		case "mbr-type":
			b.WriteString("        type: mbr\n")
		case "mbr-role":
			b.WriteString("        type: bare\n        role: mbr\n")
		case "mbr-guid":
			b.WriteString("        type: " + guid + "\n        role: mbr\n")
		case "bare":
			b.WriteString("        type: bare\n")
		case "part":
			b.WriteString("        type: " + guid + "\n        filesystem: ext4\n")
		case "part-nofs":
			b.WriteString("        type: " + guid + "\n")
		case "data":
			b.WriteString("        type: " + guid + "\n        role: system-data\n        filesystem: ext4\n")
		}
		if s.Off != nil {
			b.WriteString("        offset: " + s.Off.text() + "\n")
		}
		if s.Size != nil {
			b.WriteString("        size: " + s.Size.text() + "\n")
		}
		if s.Min != nil {
			b.WriteString("        min-size: " + s.Min.text() + "\n")
		}
		if s.OW != nil {
			if s.OW.Rel >= 0 {
				fmt.Fprintf(&b, "        offset-write: s%d+%s\n", s.OW.Rel, s.OW.Off.text())
			} else {
				b.WriteString("        offset-write: " + s.OW.Off.text() + "\n")
			}
		}
		if _, fs := kindFlags(s.Kind); !fs && len(s.Content) > 0 {
			b.WriteString("        content:\n")
			for j, c := range s.Content {
				fmt.Fprintf(&b, "          - image: img-%d-%d\n", k, j)
				if c.Off != nil {
					b.WriteString("            offset: " + c.Off.text() + "\n")
				}
				if c.Size != nil {
					b.WriteString("            size: " + c.Size.text() + "\n")
				}
			}
		}
	}
	return b.String()
}

// ---------------------------------------------------------------- Coq rendering

func coqQty(q *qty) string {
	u := map[string]string{"": "UB", "M": "UM", "G": "UG"}[q.U]
	return "(Q " + vh.CoqZ(q.N) + " " + u + ")"
}
func coqOptQty(q *qty) string {
	if q == nil {
		return "None"
	}
	return "(Some " + coqQty(q) + ")"
}
func coqPair(a, b uint64) string { return "(" + vh.CoqN(a) + ", " + vh.CoqN(b) + ")" }

func coqVolume(i in) string {
	var ss []string
	for _, s := range i.Structs {
		mbr, fs := kindFlags(s.Kind)
		ow := "None"
		if s.OW != nil {
			rel := "None"
			if s.OW.Rel >= 0 {
				rel = "(Some " + vh.CoqN(uint64(s.OW.Rel)) + ")"
			}
			ow = "(Some (" + rel + ", " + coqQty(&s.OW.Off) + "))"
		}
		var cs []string
		if !fs {
			for _, c := range s.Content {
				img := "None"
				if c.Img >= 0 {
					img = "(Some " + vh.CoqN(uint64(c.Img)) + ")"
				}
				cs = append(cs, "(RC "+coqOptQty(c.Off)+" "+coqOptQty(c.Size)+" "+img+")")
			}
		}
		ss = append(ss, "(RS "+coqOptQty(s.Off)+" "+coqOptQty(s.Size)+" "+coqOptQty(s.Min)+" "+vh.CoqBool(mbr)+" "+
			vh.CoqBool(fs)+" "+ow+" "+vh.CoqList(cs)+")")
	}
	return "(RV " + vh.CoqBool(i.Partial) + " " + vh.CoqList(ss) + ")"
}

// ---------------------------------------------------------------- execution

var rootSeq int

type obsStruct struct {
	Idx    int     `json:"idx"`
	Offset *uint64 `json:"offset"`
	Size   uint64  `json:"size"`
	Min    uint64  `json:"min"`
}

func exec(i in) vh.Out {
	y := yamlOf(i)
	obs := map[string]interface{}{"yaml": y}
	tags := []string{fmt.Sprintf("structs-%d", len(i.Structs))}
	info, err := gadget.InfoFromGadgetYaml([]byte(y), nil)
	if err != nil {
		obs["accepted"] = false
		obs["error"] = errClass(err)
		tags = append(tags, "rejected", "rej-"+errClass(err))
		return vh.Out{Observed: obs, Coq: "(CVol " + coqVolume(i) + " None)", NonTrivial: false, Tags: tags}
	}
	vol := info.Volumes["pc"]
	obs["accepted"] = true
	tags = append(tags, "accepted")

	// gadget root with the image files
	rootSeq++
	root := filepath.Join(vh.Env("VERIF_SCRATCH_DIR", os.TempDir()), fmt.Sprintf("c38-root-%d-%d", os.Getpid(), rootSeq))
	if err := os.MkdirAll(root, 0755); err != nil {
		panic(err)
	}
	defer os.RemoveAll(root)
	hasContent := false
	for k, s := range i.Structs {
		if _, fs := kindFlags(s.Kind); fs {
			continue
		}
		for j, c := range s.Content {
			hasContent = true
			if c.Img < 0 {
				continue
			}
			p := filepath.Join(root, fmt.Sprintf("img-%d-%d", k, j))
			f, err := os.Create(p)
			if err != nil {
				panic(err)
			}
			if err := f.Truncate(c.Img); err != nil { // sparse
				panic(err)
			}
			f.Close()
		}
	}

	var ostructs []obsStruct
	var coqStructs []string
	explicit := 0
	for _, vs := range vol.Structure {
		o := obsStruct{Idx: vs.YamlIndex, Size: uint64(vs.Size), Min: uint64(vs.MinSize)}
		off := "None"
		if vs.Offset != nil {
			v := uint64(*vs.Offset)
			o.Offset = &v
			off = "(Some " + vh.CoqN(v) + ")"
			explicit++
		}
		ostructs = append(ostructs, o)
		coqStructs = append(coqStructs, "("+vh.CoqN(uint64(vs.YamlIndex))+", "+off+", "+vh.CoqN(uint64(vs.Size))+", "+vh.CoqN(uint64(vs.MinSize))+")")
	}
	obs["structures"] = ostructs
	if explicit < len(vol.Structure) {
		tags = append(tags, "has-floating-structure")
	}
	for k := range vol.Structure {
		if vol.Structure[k].YamlIndex != k {
			tags = append(tags, "reordered")
			break
		}
	}

	disk := gadget.OnDiskStructsFromGadget(vol)
	var od [][2]uint64
	var coqOD []string
	wraps := false
	for _, vs := range vol.Structure {
		d := disk[vs.YamlIndex]
		st, sz := uint64(d.StartOffset), uint64(d.Size)
		od = append(od, [2]uint64{st, sz})
		coqOD = append(coqOD, coqPair(st, sz))
		if st+sz < st {
			wraps = true
		}
	}
	obs["ondisk"] = od
	obs["wraps"] = wraps
	if wraps {
		tags = append(tags, "end-beyond-2^64")
	}

	lay := "None"
	lv, lerr := gadget.LayoutVolume(vol, disk, &gadget.LayoutOptions{SkipResolveContent: true, GadgetRootDir: root})
	if lerr != nil {
		obs["layout"] = nil
		obs["layout_error"] = true
		tags = append(tags, "layout-error")
	} else {
		var all [][][2]uint64
		var coqAll []string
		n := 0
		for _, los := range lv.LaidOutStructure {
			cs := [][2]uint64{}
			var coqCs []string
			for _, c := range los.LaidOutContent {
				cs = append(cs, [2]uint64{uint64(c.StartOffset), uint64(c.Size)})
				coqCs = append(coqCs, coqPair(uint64(c.StartOffset), uint64(c.Size)))
				n++
			}
			all = append(all, cs)
			coqAll = append(coqAll, vh.CoqList(coqCs))
		}
		obs["layout"] = all
		lay = "(Some " + vh.CoqList(coqAll) + ")"
		if n > 0 {
			tags = append(tags, "content-laid-out")
		} else if hasContent {
			tags = append(tags, "content-none-laid-out")
		}
	}
	coq := "(CVol " + coqVolume(i) + " (Some (" + vh.CoqList(coqStructs) + ", " + vh.CoqList(coqOD) + ", " + lay + ")))"
	return vh.Out{Observed: obs, Coq: coq, NonTrivial: len(i.Structs) >= 2, Tags: tags}
}

// small error enum for the tag histogram only (never compared)
func errClass(err error) string {
	m := err.Error()
	switch {
	case strings.Contains(m, "overlaps with the preceding"):
		return "overlap"
	case strings.Contains(m, "cannot parse"):
		return "parse"
	case strings.Contains(m, "missing size"):
		return "missing-size"
	case strings.Contains(m, "min-size"):
		return "min-size"
	case strings.Contains(m, "mbr"):
		return "mbr"
	case strings.Contains(m, "wants to write offset"), strings.Contains(m, "refers to"):
		return "offset-write"
	}
	return "other"
}

// ---------------------------------------------------------------- generation

func q(n int64, u string) *qty { return &qty{N: n, U: u} }
func pick64(r *vh.Rand, xs []int64) int64 { return xs[r.Intn(len(xs))] }
func pickInt(r *vh.Rand, xs []int) int   { return xs[r.Intn(len(xs))] }

// a small quantity in bytes, M or G
func smallQty(r *vh.Rand) *qty {
	switch r.Intn(10) {
	case 0:
		return q(int64(r.Range(1, 2000)), "")
	case 1:
		return q(int64(r.Range(1, 8))*512, "")
	case 2:
		return q(int64(r.Range(1, 3)), "G")
	}
	return q(int64(r.Range(1, 12)), "M")
}

var hugeNums = []int64{8589934591, 8589934590, 4294967296, 4294967295, 8589934592, 17179869184, 17179869185, 17179869183,
	6442450944, 2147483648}

func hugeQty(r *vh.Rand) *qty {
	switch r.Intn(6) {
	case 0:
		return q(hugeNums[r.Intn(len(hugeNums))]*1024+int64(r.Intn(3))-1, "M")
	case 1:
		return q(int64(r.U64()>>1), "")
	case 2:
		return q(-hugeNums[r.Intn(len(hugeNums))], "G")
	}
	return q(hugeNums[r.Intn(len(hugeNums))], "G")
}

func bytesOf(x *qty) uint64 {
	if x == nil {
		return 0
	}
	m := map[string]uint64{"": 1, "M": 1 << 20, "G": 1 << 30}[x.U]
	return uint64(x.N) * m
}

func genContent(r *vh.Rand, ssize uint64) []contentIn {
	n := r.Range(1, 3)
	var cs []contentIn
	cur := uint64(0)
	for j := 0; j < n; j++ {
		c := contentIn{Img: int64(r.Range(0, 2048))}
		if r.Chance(1, 20) {
			c.Img = -1
		}
		if ssize > 0 && ssize < 4096 && r.Chance(1, 2) {
			c.Img = int64(r.Intn(int(ssize)/n + 2))
		}
		if r.Chance(1, 3) {
			sz := uint64(c.Img) + uint64(r.Intn(512))
			if c.Img < 0 || r.Chance(1, 8) {
				sz = uint64(r.Range(1, 600))
			}
			if sz > 0 {
				c.Size = q(int64(sz), "")
			}
		}
		if r.Chance(1, 3) {
			off := cur + uint64(r.Intn(1024))
			if r.Chance(1, 5) {
				off = uint64(r.Intn(2048)) // may overlap / be out of order
			}
			c.Off = q(int64(off), "")
			cur = off
		}
		act := uint64(0)
		if c.Img > 0 {
			act = uint64(c.Img)
		}
		if c.Size != nil {
			act = bytesOf(c.Size)
		}
		cur += act
		cs = append(cs, c)
	}
	return cs
}

// mostly valid volume: optional mbr, then structures placed left to right with occasional perturbations
func genVolume(r *vh.Rand) in {
	var v in
	v.Partial = r.Chance(1, 10)
	n := r.Range(1, 6)
	cur := uint64(0)
	curKnown := true
	if r.Chance(1, 2) {
		s := structIn{Kind: r.Pick([]string{"mbr-type", "mbr-type", "mbr-role", "mbr-guid"}), Size: q(int64(pick64(r, []int64{446, 446, 440, 440, 100, 1, 447})), "")}
		if r.Chance(1, 4) {
			s.Off = q(0, "")
		}
		if r.Chance(1, 3) {
			s.Content = genContent(r, bytesOf(s.Size))
		}
		v.Structs = append(v.Structs, s)
		cur = bytesOf(s.Size)
	}
	for k := 0; k < n; k++ {
		s := structIn{Kind: r.Pick([]string{"bare", "bare", "part", "part", "part-nofs", "data"})}
		s.Size = smallQty(r)
		if r.Chance(1, 50) {
			s.Size = nil
		}
		if r.Chance(1, 60) {
			s.Kind = "mbr-role" // misplaced mbr
		}
		if r.Chance(1, 3) { // min-size
			b := bytesOf(s.Size)
			switch r.Intn(10) {
			case 0, 1:
				s.Min = s.Size
			case 2:
				s.Min = q(int64(b+uint64(r.Range(1, 100))), "")
			default:
				if b > 1 {
					s.Min = q(int64(b/2), "")
				}
			}
		}
		expl := r.Chance(2, 5) || !curKnown && r.Chance(2, 3)
		start := cur
		if start < 1<<20 {
			start = 1 << 20
		}
		if expl {
			off := start
			switch r.Intn(8) {
			case 0, 1, 2:
				off = start + uint64(r.Intn(4))<<20
			case 3:
				if start > 4096 && r.Bool() {
					off = start - uint64(r.Range(1, 4096)) // overlap by a little
				}
			case 4:
				if r.Bool() {
					off = uint64(r.Intn(int(start>>9)+1)) << 9 // somewhere before: reordering or overlap
				}
			case 5:
				off = start + uint64(r.Intn(100))
			}
			if off%(1<<20) == 0 && r.Bool() {
				s.Off = q(int64(off>>20), "M")
			} else {
				s.Off = q(int64(off), "")
			}
			start = off
			curKnown = true
		}
		cur = start + bytesOf(s.Size)
		if s.Min != nil && bytesOf(s.Min) != bytesOf(s.Size) || v.Partial && s.Size == nil {
			curKnown = false
		}
		if _, fs := kindFlags(s.Kind); !fs && r.Chance(2, 5) {
			s.Content = genContent(r, bytesOf(s.Size))
		}
		if r.Chance(1, 8) {
			ow := &owIn{Rel: -1, Off: *q(int64(pick64(r, []int64{0, 92, 440, 442, 443, 446, 1 << 20, 4 << 30, 4<<30 + 1})), "")}
			if r.Chance(1, 2) {
				ow.Rel = pickInt(r, []int{0, 0, 0, 1, 7})
			}
			if r.Chance(1, 3) {
				ow.Off = *q(int64(r.Range(0, int(cur>>20)+2)), "M")
			}
			s.OW = ow
		}
		v.Structs = append(v.Structs, s)
	}
	if r.Chance(1, 3) && len(v.Structs) > 1 { // shuffle the yaml order of structures that all have explicit offsets
		p := r.Perm(len(v.Structs))
		allExpl := true
		for _, s := range v.Structs {
			allExpl = allExpl && s.Off != nil
		}
		if allExpl || r.Chance(1, 3) {
			ns := make([]structIn, len(v.Structs))
			for a, b := range p {
				ns[a] = v.Structs[b]
			}
			v.Structs = ns
		}
	}
	return v
}

// volumes built from quantities next to 2^63 / 2^64: the uint64 sums of the implementation wrap
func genHuge(r *vh.Rand) in {
	var v in
	n := r.Range(2, 5)
	for k := 0; k < n; k++ {
		s := structIn{Kind: r.Pick([]string{"bare", "part", "part-nofs"})}
		if r.Chance(1, 2) {
			s.Size = hugeQty(r)
		} else {
			s.Size = smallQty(r)
		}
		if r.Chance(1, 3) {
			s.Min = q(1, "M")
		}
		if r.Chance(1, 3) {
			if r.Chance(1, 2) {
				s.Off = hugeQty(r)
			} else {
				s.Off = smallQty(r)
			}
		}
		v.Structs = append(v.Structs, s)
	}
	return v
}

// the recorded witnesses of the uint64 wrap (KNOWN_FINDINGS key offset-sum-wraps-uint64): always run
func witnesses() []in {
	x := int64(8589934591) // 8589934591G = 2^63 - 2^30, the largest G quantity ParseSize accepts
	return []in{
		// s0 [X, 2X) with a smaller min-size, s1 floats at 2X with size 4G: the running end wraps to 2^31; s2 at X+1M is accepted
		{Structs: []structIn{
			{Kind: "part", Off: q(x, "G"), Size: q(x, "G"), Min: q(1, "M")},
			{Kind: "part", Size: q(4, "G")},
			{Kind: "part", Off: q(x*1024+1, "M"), Size: q(1, "M")}}},
		// all implicit after the first: 1M + X + X + 4G wraps, s3 at 4G lands inside s0
		{Structs: []structIn{
			{Kind: "bare", Off: q(1, "M"), Size: q(x, "G"), Min: q(1, "M")},
			{Kind: "bare", Size: q(x, "G")},
			{Kind: "bare", Size: q(4, "G")},
			{Kind: "part", Off: q(4, "G"), Size: q(1, "M")}}},
		// quantities whose int64 product wraps: 17179869184G is 2^64 -> 0 (missing size), 17179869185G -> 1G
		{Structs: []structIn{{Kind: "part", Size: q(17179869184, "G")}}},
		{Structs: []structIn{{Kind: "part", Size: q(17179869185, "G")}, {Kind: "part", Size: q(1, "M")}}},
		{Structs: []structIn{{Kind: "part", Size: q(-17179869183, "G")}}},
		{Structs: []structIn{{Kind: "part", Size: q(8589934592, "G")}}},
	}
}

// exhaustive small scope: up to 3 structures, offsets in {none, 1M, 2M, 3M}, size in {1M, 2M}, min-size in {none, 1M}
func smallScope(maxN int) []in {
	offs := []*qty{nil, q(1, "M"), q(2, "M"), q(3, "M")}
	sizes := []*qty{q(1, "M"), q(2, "M")}
	mins := []*qty{nil, q(1, "M")}
	var one []structIn
	for _, o := range offs {
		for _, s := range sizes {
			for _, m := range mins {
				one = append(one, structIn{Kind: "part", Off: o, Size: s, Min: m})
			}
		}
	}
	var out []in
	var rec func(cur []structIn, n int)
	rec = func(cur []structIn, n int) {
		if len(cur) == n {
			out = append(out, in{Structs: append([]structIn{}, cur...)})
			return
		}
		for _, s := range one {
			rec(append(cur, s), n)
		}
	}
	for n := 1; n <= maxN; n++ {
		rec(nil, n)
	}
	return out
}

// chains of structures without an offset of their own (they follow a structure with min-size < size), closed by a
// structure whose explicit offset sweeps over every boundary of the last floating structure: its start, the end of its
// min-size, the end of its full size (validation must use the full size)
func floatChains() []in {
	var out []in
	for _, s1 := range []int64{2, 3} {
		for _, s2 := range []int64{2, 4} {
			for _, m2 := range []int64{0, 1} { // 0: no min-size (fixed)
				for _, extra := range []int64{0, 2} { // a second floating structure of that size (min 1M) in between
					start2 := 1 + s1
					end := start2 + s2 + extra
					for o3 := start2; o3 <= end+1; o3++ {
						p2 := structIn{Kind: "part", Size: q(s2, "M")}
						if m2 > 0 {
							p2.Min = q(m2, "M")
						}
						v := in{Structs: []structIn{{Kind: "part", Off: q(1, "M"), Size: q(s1, "M"), Min: q(1, "M")}, p2}}
						if extra > 0 {
							if m2 == 0 {
								continue // the structure after a fixed-size one gets an implicit offset: covered elsewhere
							}
							v.Structs = append(v.Structs, structIn{Kind: "part-nofs", Size: q(extra, "M"), Min: q(1, "M")})
						}
						v.Structs = append(v.Structs, structIn{Kind: "part", Off: q(o3, "M"), Size: q(1, "M")})
						out = append(out, v)
					}
				}
			}
		}
	}
	return out
}

// random chain: byte-exact offsets around the min-size end and the full-size end of the last floating structure
func genFloatChain(r *vh.Rand) in {
	var v in
	cur := uint64(r.Range(1, 4)) << 20
	first := structIn{Kind: "part", Off: q(int64(cur), ""), Size: smallQty(r)}
	first.Min = q(int64(bytesOf(first.Size)/2), "")
	if bytesOf(first.Min) == 0 {
		first.Min = nil
		first.Size = q(2, "M")
		first.Min = q(1, "M")
	}
	v.Structs = append(v.Structs, first)
	cur += bytesOf(first.Size)
	n := r.Range(1, 3)
	var lastStart, lastMin, lastSize uint64
	for k := 0; k < n; k++ {
		s := structIn{Kind: r.Pick([]string{"part", "bare", "part-nofs"}), Size: smallQty(r)}
		b := bytesOf(s.Size)
		if k < n-1 || r.Chance(3, 4) {
			m := b / 2
			if r.Chance(1, 3) && b > 1 {
				m = b - 1
			}
			if m > 0 {
				s.Min = q(int64(m), "")
			}
		}
		lastStart, lastSize = cur, b
		lastMin = b
		if s.Min != nil {
			lastMin = bytesOf(s.Min)
		}
		v.Structs = append(v.Structs, s)
		cur += b
	}
	cands := []uint64{lastStart, lastStart + lastMin - 1, lastStart + lastMin, lastStart + lastMin + 1,
		lastStart + (lastMin+lastSize)/2, lastStart + lastSize - 1, lastStart + lastSize, lastStart + lastSize + 1, lastStart + lastSize + 1<<20}
	o := cands[r.Intn(len(cands))]
	v.Structs = append(v.Structs, structIn{Kind: "part", Off: q(int64(o), ""), Size: smallQty(r)})
	if r.Chance(1, 3) {
		v.Structs = append(v.Structs, structIn{Kind: "part", Size: smallQty(r)})
	}
	return v
}

// raw images with explicit offsets declared out of order in a bare structure of 4096 bytes at 1M (followed by a structure
// right behind it): k = 2..4 images in slots of 4096/k bytes, every declaration order; the image in the physically last
// slot fits exactly, sticks out by one byte, or by a whole slot - so every position in declaration order is, in some
// case, the one that does not fit. Plus implicit-offset images after an explicit one.
func contentFamilies() []in {
	const S = 4096
	var out []in
	mk := func(cs []contentIn) in {
		return in{Structs: []structIn{
			{Kind: "bare", Off: q(1, "M"), Size: q(S, ""), Content: cs},
			{Kind: "part", Off: q(1<<20+S, ""), Size: q(1, "M")}}}
	}
	var perms func(n int) [][]int
	perms = func(n int) [][]int {
		if n == 0 {
			return [][]int{{}}
		}
		var res [][]int
		for _, p := range perms(n - 1) {
			for pos := 0; pos <= len(p); pos++ {
				np := append(append(append([]int{}, p[:pos]...), n-1), p[pos:]...)
				res = append(res, np)
			}
		}
		return res
	}
	for k := 2; k <= 4; k++ {
		w := int64(S / k)
		for _, p := range perms(k) {
			for v, extra := range []int64{0, 1, w} {
				var cs []contentIn
				for d, slot := range p {
					sz := w
					if slot == k-1 {
						sz = int64(S) - int64(k-1)*w + extra
					}
					c := contentIn{Off: q(int64(slot)*w, ""), Img: sz}
					if (d+v)%3 == 0 { // declared size a little above the file size
						c.Size = q(sz, "")
						c.Img = sz - 1
					}
					cs = append(cs, c)
				}
				out = append(out, mk(cs))
			}
		}
	}
	e := func(off, sz int64) contentIn { return contentIn{Off: q(off, ""), Img: sz} }
	i := func(sz int64) contentIn { return contentIn{Img: sz} }
	for _, cs := range [][]contentIn{
		{e(2048, 1024), i(1024), e(0, 1024)},  // fits
		{e(2048, 1024), i(1025), e(0, 1024)},  // the implicit one in the middle of the declaration sticks out
		{e(3072, 1024), i(1), e(0, 10)},       // implicit image starts at the end of the structure
		{e(3072, 1024), i(0), e(0, 10)},       // empty image at the very end: fits
		{e(0, 1024), e(3072, 1025), i(5)},     // explicit overflow followed by an implicit one
		{e(1024, 3073), e(0, 1024)},           // first declared, physically last, one byte too long
		{e(1024, 3072), e(0, 1024)},           // fits exactly
		{i(100), e(4000, 97), e(200, 100)},    // 4097
		{i(100), e(4000, 96), e(200, 100), i(50)},
		{e(4096, 1), e(0, 1)},                 // starts at the end
		{e(4097, 0), e(0, 1)},                 // empty image beyond the end
		{e(2048, 1024), e(1024, 1025), e(0, 1024)}, // non-last overlap with a neighbour image, all inside
	} {
		out = append(out, mk(cs))
	}
	return out
}

func gen(r *vh.Rand, tier string, n int) []in {
	if n == 0 {
		n = 1200
	}
	ins := witnesses()
	if tier == "thorough" {
		ins = append(ins, smallScope(3)...)
	} else {
		ins = append(ins, smallScope(2)...)
	}
	ins = append(ins, floatChains()...)
	ins = append(ins, contentFamilies()...)
	for k := 0; k < n; k++ {
		if k%8 == 7 {
			ins = append(ins, genHuge(r))
		} else if k%8 == 3 {
			ins = append(ins, genFloatChain(r))
		} else {
			ins = append(ins, genVolume(r))
		}
	}
	return ins
}

func main() { vh.Run(gen, exec) }
