//go:build verif

// Driver for C23: runs osutil.EnsureDirStateGlobs / EnsureDirState (and through them EnsureFileState) on generated
// directories and prints the observed behaviour as Coq terms of type V.models.SyncDir.case.
package main

import (
	"errors"
	"io"
	"os"
	"path/filepath"
	"sort"
	"strconv"
	"strings"
	"syscall"

	"github.com/snapcore/snapd/osutil"
	"github.com/snapcore/snapd/zzverif/vh"
)

type entry struct {
	Name    string `json:"name"`
	Kind    string `json:"kind"` // reg | sym | dir | dirne
	Content string `json:"content,omitempty"`
	Mode    uint32 `json:"mode,omitempty"`
	Target  string `json:"target,omitempty"`
}

type want struct {
	Name    string `json:"name"`
	Kind    string `json:"kind"` // reg | sym | bad | ref (osutil.FileReference) | refmode (FileReferencePlusMode) | refmissing | refdir
	Content string `json:"content,omitempty"`
	Mode    uint32 `json:"mode,omitempty"`
	Target  string `json:"target,omitempty"`
	FailAt  int    `json:"failat,omitempty"` // which State() call of this entry returns an error (0 = none)
}

type in struct {
	Kind    string   `json:"kind"` // sync | match
	Globs   []string `json:"globs,omitempty"`
	Single  bool     `json:"single,omitempty"` // call EnsureDirState (one glob) instead of EnsureDirStateGlobs
	Umask   int      `json:"umask,omitempty"`
	Dir     []entry  `json:"dir,omitempty"`
	Content []want   `json:"content,omitempty"`
	Glob    string   `json:"glob,omitempty"`
	Name    string   `json:"name,omitempty"`
	// tree mode (EnsureTreeState)
	Tree     []tdir     `json:"tree,omitempty"`
	TContent []tcontent `json:"tcontent,omitempty"`
}

type tdir struct {
	Path  string  `json:"path"` // "." or a/b
	Files []entry `json:"files"`
}
type tcontent struct {
	Path    string `json:"path"`
	Content []want `json:"content"`
}

// what lives outside the managed directory (symlink targets); never touched by the code under test
var outside = []entry{
	{Name: "../out/r1", Kind: "reg", Content: "alpha", Mode: 0644},
	{Name: "../out/r2", Kind: "reg", Content: "beta", Mode: 0600},
	{Name: "../out/d1", Kind: "dir"},
}
var targets = []string{"../out/r1", "../out/r2", "../out/d1", "../out/missing", "/nonexistent-verif-c23"}

// FileState with a call counter: fails on the FailAt-th call, records the order of first visits, and otherwise
// delegates to the real osutil.MemoryFileState / SymlinkFileState.
type fstate struct {
	w     want
	src   string // ref kinds: the referenced path
	key   string // what is recorded on the first visit (tree mode: dir + "\x00" + name); default the name
	calls int
	visit *[]string
}

func (f *fstate) State() (io.ReadCloser, int64, os.FileMode, error) {
	f.calls++
	if f.calls == 1 {
		k := f.key
		if k == "" {
			k = f.w.Name
		}
		*f.visit = append(*f.visit, k)
	}
	if f.calls == f.w.FailAt {
		return nil, 0, 0, errors.New("injected State failure")
	}
	switch f.w.Kind {
	case "reg":
		return (&osutil.MemoryFileState{Content: []byte(f.w.Content), Mode: os.FileMode(f.w.Mode)}).State()
	case "sym":
		return osutil.SymlinkFileState{Target: f.w.Target}.State()
	case "ref", "refmissing", "refdir":
		return osutil.FileReference{Path: f.src}.State()
	case "refmode":
		return osutil.FileReferencePlusMode{FileReference: osutil.FileReference{Path: f.src}, Mode: os.FileMode(f.w.Mode)}.State()
	}
	return io.NopCloser(strings.NewReader("")), 0, os.ModeDir | 0755, nil
}

func must(err error) {
	if err != nil {
		panic(err)
	}
}

func populate(dir string, es []entry) {
	for _, e := range es {
		p := filepath.Join(dir, e.Name)
		switch e.Kind {
		case "reg":
			must(os.WriteFile(p, []byte(e.Content), 0600))
			must(os.Chmod(p, os.FileMode(e.Mode)))
		case "sym":
			must(os.Symlink(e.Target, p))
		case "dir":
			must(os.Mkdir(p, 0755))
		case "dirne":
			must(os.Mkdir(p, 0755))
			must(os.WriteFile(filepath.Join(p, "inner"), []byte("x"), 0644))
		}
	}
}

func listDir(dir string) []entry {
	des, err := os.ReadDir(dir)
	must(err)
	var out []entry
	for _, de := range des {
		p := filepath.Join(dir, de.Name())
		fi, err := os.Lstat(p)
		must(err)
		switch {
		case fi.Mode().IsRegular():
			b, err := os.ReadFile(p)
			must(err)
			out = append(out, entry{Name: de.Name(), Kind: "reg", Content: string(b), Mode: uint32(fi.Mode().Perm())})
		case fi.Mode()&os.ModeSymlink != 0:
			t, err := os.Readlink(p)
			must(err)
			out = append(out, entry{Name: de.Name(), Kind: "sym", Target: t})
		case fi.IsDir():
			sub, err := os.ReadDir(p)
			must(err)
			k := "dir"
			if len(sub) > 0 {
				k = "dirne"
			}
			out = append(out, entry{Name: de.Name(), Kind: k})
		default:
			out = append(out, entry{Name: de.Name(), Kind: "other"})
		}
	}
	return out
}

func coqNode(e entry) string {
	switch e.Kind {
	case "reg":
		return "(Reg " + vh.CoqBytes(e.Content) + " " + vh.CoqN(uint64(e.Mode)) + ")"
	case "sym":
		return "(Sym " + vh.CoqBytes(e.Target) + ")"
	case "dir":
		return "(Dir false)"
	case "dirne":
		return "(Dir true)"
	}
	panic("node kind " + e.Kind)
}
func coqDir(es []entry) string {
	items := make([]string, len(es))
	for i, e := range es {
		items[i] = "(" + vh.CoqBytes(e.Name) + ", " + coqNode(e) + ")"
	}
	return vh.CoqList(items)
}
func coqOut() string {
	items := make([]string, len(outside))
	for i, e := range outside {
		v := "ODir"
		if e.Kind == "reg" {
			v = "(OReg " + vh.CoqBytes(e.Content) + " " + vh.CoqN(uint64(e.Mode)) + ")"
		}
		items[i] = "(" + vh.CoqBytes(e.Name) + ", " + v + ")"
	}
	return vh.CoqList(items)
}
func coqWant(w want) string {
	f := vh.CoqN(uint64(w.FailAt))
	switch w.Kind {
	case "reg":
		return "(DReg " + vh.CoqBytes(w.Content) + " " + vh.CoqN(uint64(w.Mode)) + " " + f + ")"
	case "sym":
		return "(DSym " + vh.CoqBytes(w.Target) + " " + f + ")"
	case "ref", "refmode":
		// a reference to an existing regular file: its content, and its own mode (ref) or the given one (refmode)
		return "(DReg " + vh.CoqBytes(w.Content) + " " + vh.CoqN(uint64(w.Mode)) + " " + f + ")"
	case "refmissing", "refdir":
		// State() of a reference to a missing file / to a directory fails on every call, so on the first
		return "(DReg " + vh.CoqBytes("") + " 0%N 1%N)"
	}
	return "(DBad " + f + ")"
}
func coqNames(l []string) string {
	items := make([]string, len(l))
	for i, s := range l {
		items[i] = vh.CoqBytes(s)
	}
	return vh.CoqList(items)
}

var scratchBase = vh.Env("VERIF_SCRATCH_DIR", "")

func exec(i in) vh.Out {
	if i.Kind == "tree" {
		return execTree(i)
	}
	if i.Kind == "match" {
		ok, err := filepath.Match(i.Glob, i.Name)
		must(err)
		tag := "match-no"
		if ok {
			tag = "match-yes"
		}
		return vh.Out{Observed: map[string]interface{}{"ok": ok}, NonTrivial: ok, Tags: []string{tag},
			Coq: "(CMatch " + vh.CoqBytes(i.Glob) + " " + vh.CoqBytes(i.Name) + " " + vh.CoqBool(ok) + ")"}
	}
	syscall.Umask(0)
	top, err := os.MkdirTemp(scratchBase, "c23-")
	must(err)
	defer os.RemoveAll(top)
	dir := filepath.Join(top, "d")
	must(os.Mkdir(dir, 0755))
	must(os.Mkdir(filepath.Join(top, "out"), 0755))
	populate(dir, outside)
	populate(dir, i.Dir)
	before := listDir(dir)

	var visit []string
	content := map[string]osutil.FileState{}
	srcDir := filepath.Join(top, "src")
	must(os.Mkdir(srcDir, 0755))
	for k, w := range i.Content {
		fs := &fstate{w: w, visit: &visit, src: filepath.Join(srcDir, strconv.Itoa(k))}
		switch w.Kind {
		case "ref":
			must(os.WriteFile(fs.src, []byte(w.Content), 0600))
			must(os.Chmod(fs.src, os.FileMode(w.Mode)))
		case "refmode":
			must(os.WriteFile(fs.src, []byte(w.Content), 0600))
		case "refdir":
			must(os.Mkdir(fs.src, 0755))
		}
		content[w.Name] = fs
	}
	syscall.Umask(i.Umask)
	var changed, removed []string
	if i.Single && len(i.Globs) == 1 {
		changed, removed, err = osutil.EnsureDirState(dir, i.Globs[0], content)
	} else {
		changed, removed, err = osutil.EnsureDirStateGlobs(dir, i.Globs, content)
	}
	syscall.Umask(0)
	after := listDir(dir)
	outAfter := listDir(filepath.Join(top, "out"))

	// content in the order the implementation visited it, then the entries it never reached
	var ordered []want
	seen := map[string]bool{}
	byName := map[string]want{}
	for _, w := range i.Content {
		byName[w.Name] = w
	}
	for _, n := range visit {
		ordered = append(ordered, byName[n])
		seen[n] = true
	}
	for _, w := range i.Content {
		if !seen[w.Name] {
			ordered = append(ordered, w)
		}
	}
	cw := make([]string, len(ordered))
	for k, w := range ordered {
		cw[k] = "(" + vh.CoqBytes(w.Name) + ", " + coqWant(w) + ")"
	}
	globs := make([]string, len(i.Globs))
	for k, g := range i.Globs {
		globs[k] = vh.CoqBytes(g)
	}
	// the outside table is part of the observation: if the code touched it, the after-listing says so through a
	// bogus extra entry (the model never produces one)
	if len(outAfter) != 3 || outAfter[0].Name != "d1" || outAfter[1].Content != "alpha" || outAfter[1].Mode != 0644 ||
		outAfter[2].Content != "beta" || outAfter[2].Mode != 0600 || outAfter[0].Kind != "dir" {
		after = append(after, entry{Name: "!outside-modified", Kind: "dir"})
	}
	coq := "(CSync " + vh.CoqList(globs) + " " + vh.CoqN(uint64(i.Umask)) + " " + coqOut() + " " + coqDir(before) + " " +
		vh.CoqList(cw) + " " + coqNames(changed) + " " + coqNames(removed) + " " + vh.CoqBool(err != nil) + " " + coqDir(after) + ")"
	tags := []string{}
	injected := false
	for _, w := range i.Content {
		if w.FailAt > 0 {
			injected = true
		}
	}
	switch {
	case err == nil && len(changed)+len(removed) == 0:
		tags = append(tags, "noop")
	case err == nil:
		tags = append(tags, "success")
	case strings.Contains(err.Error(), "internal error: EnsureDirState got"):
		tags = append(tags, "bad-input")
	case len(changed) > 0:
		tags = append(tags, "remove-fail-only")
	default:
		tags = append(tags, "failed")
	}
	if injected {
		tags = append(tags, "state-failure-injected")
	}
	if len(visit) > 1 {
		sorted := sort.StringsAreSorted(visit)
		if !sorted {
			tags = append(tags, "visit-order-unsorted")
		}
	}
	errs := ""
	if err != nil {
		errs = "error"
	}
	return vh.Out{Observed: map[string]interface{}{"changed": changed, "removed": removed, "err": errs, "after": after, "visit": visit},
		Coq: coq, NonTrivial: len(changed)+len(removed) > 0 || err != nil, Tags: tags}
}

// ---------------------------------------------------------------- generation

var pool = []string{"snap.foo.a", "snap.foo.b", "snap.foo.c", "snap.bar.a", "x", "y", "foo.conf", ".hid.conf", "snap.foo.a~", "snap.foo."}
var globPool = []string{"snap.foo.*", "*.conf", "*", "snap.*.a", "x", "?", "snap.foo.?", "snap.foo.a", "*a", "s*o*"}
var contents = []string{"alpha", "beta", "", "alphA", "a longer text\nwith two lines\n"}
var modes = []uint32{0644, 0644, 0600, 0755, 0444, 0666, 0}

func randNode(r *vh.Rand, name string) entry {
	switch r.Intn(10) {
	case 0, 1, 2, 3, 4:
		return entry{Name: name, Kind: "reg", Content: r.Pick(contents), Mode: modes[r.Intn(len(modes))]}
	case 5, 6:
		return entry{Name: name, Kind: "sym", Target: r.Pick(targets)}
	case 7:
		return entry{Name: name, Kind: "dir"}
	case 8:
		return entry{Name: name, Kind: "dirne"}
	}
	return entry{Name: name, Kind: "reg", Content: "alpha", Mode: 0644}
}

func randWant(r *vh.Rand, name string, cur *entry) want {
	if cur != nil && r.Chance(2, 5) { // same as what is there
		switch cur.Kind {
		case "reg":
			return want{Name: name, Kind: "reg", Content: cur.Content, Mode: cur.Mode}
		case "sym":
			if r.Bool() {
				return want{Name: name, Kind: "sym", Target: cur.Target}
			}
			return want{Name: name, Kind: "reg", Content: "alpha", Mode: 0644} // what ../out/r1 holds
		}
	}
	switch r.Intn(12) {
	case 0, 1:
		return want{Name: name, Kind: "sym", Target: r.Pick(targets)}
	case 2:
		if r.Chance(1, 3) {
			return want{Name: name, Kind: "bad"}
		}
	}
	return want{Name: name, Kind: "reg", Content: r.Pick(contents), Mode: modes[r.Intn(len(modes))]}
}

func matchAny(globs []string, n string) bool {
	for _, g := range globs {
		if ok, _ := filepath.Match(g, n); ok {
			return true
		}
	}
	return false
}

func randSync(r *vh.Rand) in {
	i := in{Kind: "sync", Umask: []int{022, 022, 022, 0, 077, 027}[r.Intn(6)]}
	i.Globs = []string{r.Pick(globPool)}
	if r.Chance(1, 3) {
		i.Globs = append(i.Globs, r.Pick(globPool))
	} else {
		i.Single = r.Bool()
	}
	cur := map[string]*entry{}
	for _, n := range pool {
		if r.Chance(2, 5) {
			e := randNode(r, n)
			i.Dir = append(i.Dir, e)
			cur[n] = &i.Dir[len(i.Dir)-1]
		}
	}
	for _, n := range pool {
		if matchAny(i.Globs, n) && r.Chance(1, 2) {
			i.Content = append(i.Content, randWant(r, n, cur[n]))
		}
	}
	// pointers into i.Dir may have moved; only used above
	if r.Chance(1, 40) { // invalid input: a name that does not match, or has a path component
		bad := r.Pick([]string{"zzz-nomatch", "sub/x", "snap.foo.a/", "../x"})
		if !matchAny(i.Globs, bad) || strings.Contains(bad, "/") {
			i.Content = append(i.Content, want{Name: bad, Kind: "reg", Content: "alpha", Mode: 0644})
		}
	}
	for k := range i.Content {
		if i.Content[k].Kind == "reg" && !strings.Contains(i.Content[k].Name, "/") {
			switch r.Intn(14) {
			case 0, 1:
				i.Content[k].Kind = "ref"
			case 2:
				i.Content[k].Kind = "refmode"
			case 3:
				if r.Chance(1, 3) {
					i.Content[k].Kind = r.Pick([]string{"refmissing", "refdir"})
				}
			}
		}
	}
	if len(i.Content) > 0 && r.Chance(1, 4) {
		k := r.Intn(len(i.Content))
		i.Content[k].FailAt = r.Range(1, 3)
	}
	return i
}

// every combination of (initial node, desired state) for one or two managed names under the glob `m*`, next to an
// unrelated file `u`
func enumerate(two bool) []in {
	nodes := []*entry{nil, {Kind: "reg", Content: "alpha", Mode: 0644}, {Kind: "reg", Content: "beta", Mode: 0644},
		{Kind: "reg", Content: "alpha", Mode: 0600}, {Kind: "sym", Target: "../out/r1"}, {Kind: "sym", Target: "../out/missing"},
		{Kind: "sym", Target: "../out/d1"}, {Kind: "dir"}, {Kind: "dirne"}}
	wants := []*want{nil, {Kind: "reg", Content: "alpha", Mode: 0644}, {Kind: "reg", Content: "alpha", Mode: 0644, FailAt: 1},
		{Kind: "reg", Content: "alpha", Mode: 0644, FailAt: 2}, {Kind: "reg", Content: "alpha", Mode: 0644, FailAt: 3},
		{Kind: "sym", Target: "../out/r1"}, {Kind: "sym", Target: "../out/r1", FailAt: 3}, {Kind: "bad"}}
	if !two {
		wants = append(wants, &want{Kind: "ref", Content: "alpha", Mode: 0644}, &want{Kind: "refmode", Content: "alpha", Mode: 0644},
			&want{Kind: "ref", Content: "alpha", Mode: 0600, FailAt: 2}, &want{Kind: "refmissing"}, &want{Kind: "refdir"})
	}
	var out []in
	mk := func(name string, n *entry, w *want, i *in) {
		if n != nil {
			e := *n
			e.Name = name
			i.Dir = append(i.Dir, e)
		}
		if w != nil {
			x := *w
			x.Name = name
			i.Content = append(i.Content, x)
		}
	}
	for _, n1 := range nodes {
		for _, w1 := range wants {
			if !two {
				i := in{Kind: "sync", Globs: []string{"m*"}, Umask: 022, Dir: []entry{{Name: "u", Kind: "reg", Content: "keep", Mode: 0640}}}
				mk("ma", n1, w1, &i)
				out = append(out, i)
				continue
			}
			for _, n2 := range nodes {
				for _, w2 := range wants {
					i := in{Kind: "sync", Globs: []string{"m*"}, Umask: 022, Dir: []entry{{Name: "u", Kind: "reg", Content: "keep", Mode: 0640}}}
					mk("ma", n1, w1, &i)
					mk("mb", n2, w2, &i)
					out = append(out, i)
				}
			}
		}
	}
	return out
}

func gen(r *vh.Rand, tier string, n int) []in {
	if n == 0 {
		n = 1200
	}
	var ins []in
	for _, g := range globPool {
		for _, nm := range pool {
			ins = append(ins, in{Kind: "match", Glob: g, Name: nm})
		}
	}
	for k := 0; k < 60; k++ {
		ins = append(ins, in{Kind: "match", Glob: r.Str("ab*?", 0, 4), Name: r.Str("ab", 0, 4)})
	}
	ins = append(ins, enumerate(false)...)
	if tier == "thorough" {
		ins = append(ins, enumerate(true)...)
	}
	for k := 0; k < n; k++ {
		ins = append(ins, randSync(r))
	}
	return ins
}

func main() {
	_ = strconv.Itoa
	if os.Getenv("VERIF_C23_MODE") == "tree" {
		vh.Run(genTree, exec)
		return
	}
	vh.Run(gen, exec)
}

// ---------------------------------------------------------------- tree mode: osutil.EnsureTreeState

func coqPath(rel string) string {
	if rel == "." || rel == "" {
		return "[]"
	}
	parts := strings.Split(rel, "/")
	items := make([]string, len(parts))
	for i, p := range parts {
		items[i] = vh.CoqBytes(p)
	}
	return vh.CoqList(items)
}

func listTree(base string) []tdir {
	var out []tdir
	must(filepath.Walk(base, func(p string, fi os.FileInfo, err error) error {
		must(err)
		if !fi.IsDir() {
			return nil
		}
		rel, err := filepath.Rel(base, p)
		must(err)
		var files []entry
		for _, e := range listDir(p) {
			if e.Kind != "dir" && e.Kind != "dirne" {
				files = append(files, e)
			}
		}
		out = append(out, tdir{Path: rel, Files: files})
		return nil
	}))
	return out
}

func coqTree(t []tdir) string {
	items := make([]string, len(t))
	for i, d := range t {
		items[i] = "(" + coqPath(d.Path) + ", " + coqDir(d.Files) + ")"
	}
	return vh.CoqList(items)
}

func execTree(i in) vh.Out {
	syscall.Umask(0)
	top, err := os.MkdirTemp(scratchBase, "c23t-")
	must(err)
	defer os.RemoveAll(top)
	base := filepath.Join(top, "d")
	must(os.Mkdir(base, 0755))
	for _, d := range i.Tree {
		must(os.MkdirAll(filepath.Join(base, d.Path), 0755))
		populate(filepath.Join(base, d.Path), d.Files)
	}
	before := listTree(base)

	var visit []string
	content := map[string]map[string]osutil.FileState{}
	for _, tc := range i.TContent {
		m := map[string]osutil.FileState{}
		for _, w := range tc.Content {
			m[w.Name] = &fstate{w: w, key: tc.Path + "\x00" + w.Name, visit: &visit}
		}
		content[tc.Path] = m
	}
	syscall.Umask(i.Umask)
	changed, removed, err := osutil.EnsureTreeState(base, i.Globs, content)
	syscall.Umask(0)
	after := listTree(base)

	// directory order: content directories in the order of their first visit, then the other content directories
	var ord []string
	seenDir := map[string]bool{}
	seenFile := map[string]bool{}
	perDir := map[string][]string{}
	for _, k := range visit {
		parts := strings.SplitN(k, "\x00", 2)
		if !seenDir[parts[0]] {
			seenDir[parts[0]] = true
			ord = append(ord, parts[0])
		}
		seenFile[k] = true
		perDir[parts[0]] = append(perDir[parts[0]], parts[1])
	}
	cw := make([]string, 0, len(i.TContent))
	for _, tc := range i.TContent {
		if !seenDir[tc.Path] {
			seenDir[tc.Path] = true
			ord = append(ord, tc.Path)
		}
		byName := map[string]want{}
		for _, w := range tc.Content {
			byName[w.Name] = w
		}
		var items []string
		for _, n := range perDir[tc.Path] {
			items = append(items, "("+vh.CoqBytes(n)+", "+coqWant(byName[n])+")")
		}
		for _, w := range tc.Content {
			if !seenFile[tc.Path+"\x00"+w.Name] {
				items = append(items, "("+vh.CoqBytes(w.Name)+", "+coqWant(w)+")")
			}
		}
		cw = append(cw, "("+coqPath(tc.Path)+", "+vh.CoqList(items)+")")
	}
	for _, d := range before {
		if !seenDir[d.Path] {
			seenDir[d.Path] = true
			ord = append(ord, d.Path)
		}
	}
	ordItems := make([]string, len(ord))
	for k, o := range ord {
		ordItems[k] = coqPath(o)
	}
	globs := make([]string, len(i.Globs))
	for k, g := range i.Globs {
		globs[k] = vh.CoqBytes(g)
	}
	coq := "(CTree " + vh.CoqList(globs) + " " + vh.CoqN(uint64(i.Umask)) + " [] " + coqTree(before) + " " + vh.CoqList(cw) + " " +
		vh.CoqList(ordItems) + " " + coqNames(changed) + " " + coqNames(removed) + " " + vh.CoqBool(err != nil) + " " + coqTree(after) + ")"
	tag := "tree-success"
	switch {
	case err == nil && len(changed)+len(removed) == 0:
		tag = "tree-noop"
	case err != nil && strings.Contains(err.Error(), "internal error: EnsureTreeState got"):
		tag = "tree-bad-input"
	case err != nil:
		tag = "tree-failed"
	}
	tags := []string{tag}
	if len(after) < len(before) {
		tags = append(tags, "tree-dirs-removed")
	}
	if len(ord) > 1 && len(visit) > 0 {
		tags = append(tags, "tree-multi-dir")
	}
	errs := ""
	if err != nil {
		errs = "error"
	}
	return vh.Out{Observed: map[string]interface{}{"changed": changed, "removed": removed, "err": errs, "after": after, "visit": visit},
		Coq: coq, NonTrivial: len(changed)+len(removed) > 0 || err != nil, Tags: tags}
}

var tDirs = []string{".", "a", "b", "a/x", "c/y/z", "b/q"}
var tNames = []string{"snap.foo.a", "snap.foo.b", "snap.bar.a", "x.png", "readme"}
var tGlobs = []string{"snap.foo.*", "*.png", "snap.*.a", "snap.foo.?"}

func genTree(r *vh.Rand, tier string, n int) []in {
	if n == 0 {
		n = 150
	}
	var ins []in
	for k := 0; k < n; k++ {
		i := in{Kind: "tree", Umask: []int{022, 022, 0, 077}[r.Intn(4)]}
		i.Globs = []string{r.Pick(tGlobs)}
		if r.Chance(1, 3) {
			i.Globs = append(i.Globs, r.Pick(tGlobs))
		}
		cur := map[string]map[string]entry{}
		for _, d := range tDirs {
			if !r.Chance(1, 2) {
				continue
			}
			td := tdir{Path: d}
			cur[d] = map[string]entry{}
			for _, nm := range tNames {
				if r.Chance(2, 5) {
					e := entry{Name: nm, Kind: "reg", Content: r.Pick(contents), Mode: modes[r.Intn(len(modes))]}
					if r.Chance(1, 8) {
						e = entry{Name: nm, Kind: "sym", Target: "/nonexistent-verif-c23"}
					}
					td.Files = append(td.Files, e)
					cur[d][nm] = e
				}
			}
			i.Tree = append(i.Tree, td)
		}
		for _, d := range tDirs {
			if !r.Chance(2, 5) {
				continue
			}
			tc := tcontent{Path: d}
			for _, nm := range tNames {
				if matchAny(i.Globs, nm) && r.Chance(1, 2) {
					var c *entry
					if e, ok := cur[d][nm]; ok {
						c = &e
					}
					w := randWant(r, nm, c)
					if w.Kind == "sym" {
						w.Target = "/nonexistent-verif-c23"
					}
					tc.Content = append(tc.Content, w)
				}
			}
			i.TContent = append(i.TContent, tc)
		}
		if r.Chance(1, 30) {
			// a directory path with a component matching the globs (rejected by the validity check). Only used when it
			// does match: otherwise `x.png/y` could ask MkdirAll to create a directory below an existing FILE x.png, an
			// error path that the model does not have (see assumptions)
			bad := r.Pick([]string{"snap.foo.d", "a/snap.foo.d/x", "x.png/y"})
			matches := false
			for _, comp := range strings.Split(bad, "/") {
				if matchAny(i.Globs, comp) {
					matches = true
				}
			}
			if matches {
				i.TContent = append(i.TContent, tcontent{Path: bad,
					Content: []want{{Name: "snap.foo.a", Kind: "reg", Content: "alpha", Mode: 0644}}})
			}
		} else if r.Chance(1, 30) {
			i.TContent = append(i.TContent, tcontent{Path: "a", Content: []want{{Name: r.Pick([]string{"zzz-nomatch", "sub/snap.foo.a"}), Kind: "reg", Content: "alpha", Mode: 0644}}})
		}
		if r.Chance(1, 4) {
			var idx [][2]int
			for a, tc := range i.TContent {
				for b := range tc.Content {
					idx = append(idx, [2]int{a, b})
				}
			}
			if len(idx) > 0 {
				x := idx[r.Intn(len(idx))]
				i.TContent[x[0]].Content[x[1]].FailAt = r.Range(1, 3)
			}
		}
		ins = append(ins, i)
	}
	return ins
}
