//go:build verif

// Driver for C30: real registry.New views (literal and {placeholder} rules, nested content rules, all three access
// modes), registry.JSONDataBag and registry.Transaction (several live on one committed databag), a schema that rejects
// the marked number 99. Prints what was observed as Coq terms of type V.models.Registry.case.
package main

import (
	"bytes"
	"encoding/json"
	"errors"
	"fmt"
	"sort"
	"strconv"
	"strings"

	"github.com/snapcore/snapd/registry"
	"github.com/snapcore/snapd/zzverif/vh"
)

type rule struct {
	Req     string `json:"req"`
	Sto     string `json:"sto"`
	Acc     string `json:"acc"`               // read-write | read | write | "" (default)
	Content []rule `json:"content,omitempty"` // nested rules, relative
}

type op struct {
	K   string      `json:"k"` // new set unset get commit
	I   int         `json:"i,omitempty"`
	Req string      `json:"req,omitempty"`
	V   interface{} `json:"v,omitempty"`
}

type in struct {
	Rules []rule `json:"rules"`
	Ops   []op   `json:"ops"`
}

// ---------------------------------------------------------------- schema: no 99 anywhere

type markSchema struct{}

func has99(v interface{}) bool {
	switch x := v.(type) {
	case float64:
		return x == 99
	case map[string]interface{}:
		for _, e := range x {
			if has99(e) {
				return true
			}
		}
	case []interface{}:
		for _, e := range x {
			if has99(e) {
				return true
			}
		}
	}
	return false
}

func (markSchema) Validate(data []byte) error {
	var v map[string]interface{}
	if err := json.Unmarshal(data, &v); err != nil {
		return err
	}
	if has99(v) {
		return errors.New("marked value is not allowed")
	}
	return nil
}
func (s markSchema) SchemaAt(path []string) ([]registry.Schema, error) {
	return []registry.Schema{s}, nil
}
func (markSchema) Type() registry.SchemaType { return registry.Any }

// ---------------------------------------------------------------- Coq printing

func keyN(k string) string {
	var n uint64
	for i := 0; i < len(k); i++ {
		n = n*256 + uint64(k[i])
	}
	return strconv.FormatUint(n, 10)
}

func norm(v interface{}) interface{} {
	switch x := v.(type) {
	case float64:
		return int64(x)
	case json.Number:
		n, err := x.Int64()
		if err != nil {
			panic(err)
		}
		return n
	case int:
		return int64(x)
	case map[string]interface{}:
		out := make(map[string]interface{}, len(x))
		for k, e := range x {
			out[k] = norm(e)
		}
		return out
	}
	return v
}

func coqTree(v interface{}) string {
	switch x := v.(type) {
	case nil:
		return "Null"
	case int64:
		return "(Atom " + vh.CoqZ(x) + ")"
	case map[string]interface{}:
		return "(Obj " + coqMap(x) + ")"
	}
	panic(fmt.Sprintf("unexpected value %T", v))
}

func coqMap(m map[string]interface{}) string {
	ks := make([]string, 0, len(m))
	for k := range m {
		ks = append(ks, k)
	}
	sort.Strings(ks)
	items := make([]string, len(ks))
	for i, k := range ks {
		items[i] = "(" + keyN(k) + ", " + coqTree(m[k]) + ")"
	}
	return vh.CoqList(items)
}

func coqPath(p string) string {
	if p == "" {
		return "[]"
	}
	parts := strings.Split(p, ".")
	items := make([]string, len(parts))
	for i, x := range parts {
		items[i] = keyN(x)
	}
	return vh.CoqList(items)
}

func coqParts(p string) string {
	parts := strings.Split(p, ".")
	items := make([]string, len(parts))
	for i, x := range parts {
		if strings.HasPrefix(x, "{") {
			items[i] = "Ph " + keyN(x[1:len(x)-1])
		} else {
			items[i] = "Lit " + keyN(x)
		}
	}
	return vh.CoqList(items)
}

func coqAcc(a string) string {
	switch a {
	case "read":
		return "RO"
	case "write":
		return "WO"
	}
	return "RW"
}

// flattened rules in the order parseRule produces them
func flatten(prefixReq, prefixSto string, rs []rule, out *[]string) {
	for _, r := range rs {
		req, sto := r.Req, r.Sto
		if prefixReq != "" {
			req, sto = prefixReq+"."+req, prefixSto+"."+sto
		}
		*out = append(*out, "(mkRule "+coqParts(req)+" "+coqParts(sto)+" "+coqAcc(r.Acc)+")")
		flatten(req, sto, r.Content, out)
	}
}

func ruleJSON(r rule) map[string]interface{} {
	m := map[string]interface{}{"request": r.Req, "storage": r.Sto}
	if r.Acc != "" {
		m["access"] = r.Acc
	}
	if len(r.Content) > 0 {
		var c []interface{}
		for _, x := range r.Content {
			c = append(c, ruleJSON(x))
		}
		m["content"] = c
	}
	return m
}

func mkView(rs []rule) (*registry.View, error) {
	var l []interface{}
	for _, r := range rs {
		l = append(l, ruleJSON(r))
	}
	reg, err := registry.New("acc", "reg", map[string]interface{}{"v": map[string]interface{}{"rules": l}}, markSchema{})
	if err != nil {
		return nil, err
	}
	return reg.View("v"), nil
}

func errClass(err error) string {
	switch {
	case err == nil:
		return "ROk"
	case errors.Is(err, &registry.NotFoundError{}):
		return "RNotFound"
	case errors.Is(err, &registry.BadRequestError{}):
		return "RBadRequest"
	}
	return "RError"
}

func bagMap(b registry.JSONDataBag) map[string]interface{} {
	out := map[string]interface{}{}
	for k, raw := range b {
		var v interface{}
		d := json.NewDecoder(bytes.NewReader(raw))
		d.UseNumber()
		if err := d.Decode(&v); err != nil {
			panic(err)
		}
		out[k] = norm(v)
	}
	return out
}

func exec(i in) vh.Out {
	view, err := mkView(i.Rules)
	if err != nil {
		panic("generated view rejected: " + err.Error())
	}
	committed := registry.NewJSONDataBag()
	read := func() (registry.JSONDataBag, error) { return committed, nil }
	write := func(b registry.JSONDataBag) error { committed = b; return nil }
	bare := registry.NewJSONDataBag() // View.Set without a transaction
	var txs []*registry.Transaction
	var steps []string
	var obsj []interface{}
	tags := map[string]bool{}
	nontrivial := false
	for _, o := range i.Ops {
		var opS, obS string
		var ob interface{}
		switch o.K {
		case "new":
			tx, err := registry.NewTransaction(view.Registry(), read, write)
			if err != nil {
				panic(err)
			}
			txs = append(txs, tx)
			opS = "ONew"
			obS = "(BBag true " + coqMap(bagMap(committed)) + ")"
			ob = bagMap(committed)
		case "set":
			v := norm(o.V)
			opS = fmt.Sprintf("(OSet %d%%nat %s %s)", o.I, coqPath(o.Req), coqTree(v))
			err := view.Set(txs[o.I], o.Req, v)
			c := errClass(err)
			obS = "(BRes " + c + ")"
			ob = c
			tags["set-"+c] = true
		case "unset":
			err := view.Unset(txs[o.I], o.Req)
			c := errClass(err)
			opS = fmt.Sprintf("(OUnset %d%%nat %s)", o.I, coqPath(o.Req))
			obS = "(BRes " + c + ")"
			ob = c
			tags["unset-"+c] = true
		case "get":
			val, err := view.Get(txs[o.I], o.Req)
			opS = fmt.Sprintf("(OGet %d%%nat %s)", o.I, coqPath(o.Req))
			if err == nil {
				t := norm(val)
				obS = "(BVal (VOk " + coqTree(t) + "))"
				ob = map[string]interface{}{"ok": t}
				tags["get-ok"] = true
				nontrivial = true
			} else {
				c := errClass(err)
				obS = "(BVal (VErr " + c + "))"
				ob = c
				tags["get-"+c] = true
			}
		case "bare":
			v := norm(o.V)
			// printed first: JSONDataBag.Set strips nil members from the caller's value in place
			opS = fmt.Sprintf("(OBare %s %s)", coqPath(o.Req), coqTree(v))
			err := view.Set(bare, o.Req, v)
			obS = "(BBag " + vh.CoqBool(err == nil) + " " + coqMap(bagMap(bare)) + ")"
			ob = map[string]interface{}{"class": errClass(err), "bag": bagMap(bare)}
			tags["bare-"+errClass(err)] = true
		case "commit":
			err := txs[o.I].Commit()
			opS = fmt.Sprintf("(OCommit %d%%nat)", o.I)
			obS = "(BBag " + vh.CoqBool(err == nil) + " " + coqMap(bagMap(committed)) + ")"
			ob = map[string]interface{}{"ok": err == nil, "bag": bagMap(committed)}
			if err != nil {
				tags["commit-rejected"] = true
			} else {
				tags["commit-ok"] = true
			}
		default:
			panic("unknown op " + o.K)
		}
		steps = append(steps, "("+opS+", "+obS+")")
		obsj = append(obsj, ob)
	}
	var rl []string
	flatten("", "", i.Rules, &rl)
	coq := "(CHist " + vh.CoqList(rl) + " " + vh.CoqList(steps) + ")"
	var tl []string
	for t := range tags {
		tl = append(tl, t)
	}
	sort.Strings(tl)
	return vh.Out{Observed: obsj, Coq: coq, NonTrivial: nontrivial, Tags: tl}
}

// ---------------------------------------------------------------- generation

var reqKeys = []string{"a", "b", "c", "d"}
var stoKeys = []string{"p", "q", "r"}
var accs = []string{"", "read-write", "read", "write", "read-write"}

func genRule(r *vh.Rand, maxLen int, names ...string) rule {
	n := r.Range(1, maxLen)
	var req, phs []string
	if len(names) == 0 {
		names = []string{"x", "y"}
	}
	for k := 0; k < n; k++ {
		if r.Chance(1, 4) && len(phs) < 2 {
			ph := "{" + names[len(phs)] + "}"
			phs = append(phs, ph)
			req = append(req, ph)
		} else {
			req = append(req, r.Pick(reqKeys))
		}
	}
	m := r.Range(1, 2)
	var sto []string
	for k := 0; k < m; k++ {
		sto = append(sto, r.Pick(stoKeys))
	}
	for _, ph := range phs {
		pos := r.Intn(len(sto) + 1)
		sto = append(sto[:pos], append([]string{ph}, sto[pos:]...)...)
	}
	return rule{Req: strings.Join(req, "."), Sto: strings.Join(sto, "."), Acc: r.Pick(accs)}
}

func flatReqs(prefix string, rs []rule, out *[][]string) {
	for _, x := range rs {
		req := x.Req
		if prefix != "" {
			req = prefix + "." + req
		}
		*out = append(*out, strings.Split(req, "."))
		flatReqs(req, x.Content, out)
	}
}

func genRules(r *vh.Rand) []rule {
	for {
		var rs []rule
		n := r.Range(1, 4)
		for k := 0; k < n; k++ {
			x := genRule(r, 3)
			if r.Chance(1, 4) {
				x = genRule(r, 2)
				c := r.Range(1, 2)
				for j := 0; j < c; j++ {
					// nested rules use their own placeholder names (reusing the parent's name makes every candidate
					// of the unmatched suffix write to the same storage path: map-order dependent)
					x.Content = append(x.Content, genRule(r, 2, "z", "w"))
				}
			}
			rs = append(rs, x)
		}
		if _, err := mkView(rs); err == nil {
			return rs
		}
	}
}

func setNested(m map[string]interface{}, path []string, v interface{}) {
	for k, p := range path {
		if k == len(path)-1 {
			m[p] = v
			return
		}
		sub, ok := m[p].(map[string]interface{})
		if !ok {
			sub = map[string]interface{}{}
			m[p] = sub
		}
		m = sub
	}
}

func scalar(r *vh.Rand) interface{} {
	if r.Chance(1, 9) {
		return int64(99)
	}
	return int64(r.Intn(9))
}

func genValue(r *vh.Rand, depth int) interface{} {
	if depth <= 0 || r.Chance(1, 2) {
		return scalar(r)
	}
	m := map[string]interface{}{}
	n := r.Range(1, 3)
	for k := 0; k < n; k++ {
		if r.Chance(1, 8) {
			m[r.Pick(reqKeys)] = nil
		} else {
			m[r.Pick(reqKeys)] = genValue(r, depth-1)
		}
	}
	return m
}

func genHist(r *vh.Rand) in {
	rules := genRules(r)
	var reqs [][]string
	flatReqs("", rules, &reqs)
	genReq := func() []string {
		if r.Chance(1, 8) {
			n := r.Range(1, 3)
			p := make([]string, n)
			for k := range p {
				p[k] = r.Pick(reqKeys)
			}
			return p
		}
		pat := reqs[r.Intn(len(reqs))]
		p := make([]string, len(pat))
		for k, x := range pat {
			if strings.HasPrefix(x, "{") {
				p[k] = r.Pick(reqKeys)
			} else {
				p[k] = x
			}
		}
		if len(p) > 1 && r.Chance(1, 3) {
			p = p[:r.Range(1, len(p)-1)]
		}
		return p
	}
	// a value shaped after the unmatched suffixes of the rules the request is a prefix of
	genFor := func(req []string) interface{} {
		if r.Chance(1, 4) {
			return genValue(r, 2)
		}
		m := map[string]interface{}{}
		full := false
		for _, pat := range reqs {
			if len(pat) < len(req) {
				continue
			}
			ok := true
			for k := range req {
				if !strings.HasPrefix(pat[k], "{") && pat[k] != req[k] {
					ok = false
				}
			}
			if !ok {
				continue
			}
			suffix := pat[len(req):]
			if len(suffix) == 0 {
				full = true
				continue
			}
			lit := true
			for _, s := range suffix {
				if strings.HasPrefix(s, "{") {
					lit = false
				}
			}
			if lit && !r.Chance(1, 10) {
				setNested(m, suffix, genValue(r, 1))
			}
			if !lit { // one or two candidates for every placeholder of the suffix
				for c := r.Range(1, 2); c > 0; c-- {
					inst := make([]string, len(suffix))
					for k, s := range suffix {
						if strings.HasPrefix(s, "{") {
							inst[k] = r.Pick(reqKeys)
						} else {
							inst[k] = s
						}
					}
					setNested(m, inst, genValue(r, 1))
				}
			}
		}
		if full || len(m) == 0 {
			return genValue(r, 2)
		}
		if r.Chance(1, 10) {
			m[r.Pick(reqKeys)] = scalar(r)
		}
		return m
	}
	// what the Coq model does not cover: a matching rule leaves a {placeholder} in the unmatched suffix, or (writes)
	// two unmatched suffixes are prefixes of one another. Such requests are kept only occasionally.
	type frule struct {
		req []string
		acc string
	}
	var frules []frule
	var collect func(prefix string, rs []rule)
	collect = func(prefix string, rs []rule) {
		for _, x := range rs {
			req := x.Req
			if prefix != "" {
				req = prefix + "." + req
			}
			frules = append(frules, frule{strings.Split(req, "."), x.Acc})
			collect(req, x.Content)
		}
	}
	collect("", rules)
	outside := func(req []string) bool {
		var suffixes []string
		for _, fr := range frules {
			if len(fr.req) < len(req) {
				continue
			}
			ok := true
			for k := range req {
				if !strings.HasPrefix(fr.req[k], "{") && fr.req[k] != req[k] {
					ok = false
				}
			}
			if !ok {
				continue
			}
			for _, sfx := range fr.req[len(req):] {
				if strings.HasPrefix(sfx, "{") {
					return true
				}
			}
			if fr.acc != "read" {
				suffixes = append(suffixes, strings.Join(fr.req[len(req):], ".")+".")
			}
		}
		for _, a := range suffixes {
			for _, b := range suffixes {
				if a != b && strings.HasPrefix(b, a) {
					return true
				}
			}
		}
		return false
	}
	_ = outside
	phLeft := func(req []string) bool { // a matching rule keeps a {placeholder} in its unmatched suffix
		for _, fr := range frules {
			if len(fr.req) < len(req) {
				continue
			}
			ok := true
			for k := range req {
				if !strings.HasPrefix(fr.req[k], "{") && fr.req[k] != req[k] {
					ok = false
				}
			}
			if !ok {
				continue
			}
			for _, sfx := range fr.req[len(req):] {
				if strings.HasPrefix(sfx, "{") {
					return true
				}
			}
		}
		return false
	}
	ops := []op{{K: "new"}}
	ntx := 1
	n := r.Range(4, 14)
	used := [][]string{}
	for len(ops) < n {
		x := r.Intn(100)
		req := genReq()
		if len(used) > 0 && r.Chance(1, 2) {
			req = used[r.Intn(len(used))]
		}
		switch {
		case x < 6 && ntx < 2:
			ops = append(ops, op{K: "new"})
			ntx++
		case x < 45:
			used = append(used, req)
			ti := r.Intn(ntx)
			if r.Chance(1, 2) { // the same Get before and after: a rejected Set must not change the answer
				ops = append(ops, op{K: "get", I: ti, Req: strings.Join(req, ".")})
			}
			ops = append(ops, op{K: "set", I: ti, Req: strings.Join(req, "."), V: genFor(req)})
			// read back at once through the same transaction: the request itself and the requests of the rules below it
			if r.Chance(3, 4) {
				ops = append(ops, readBacks(reqs, req, ti, 3)...)
			}
		case x < 55:
			_ = phLeft // View.Unset through an unfilled placeholder is modelled now: no avoidance
			ops = append(ops, op{K: "unset", I: r.Intn(ntx), Req: strings.Join(req, ".")})
		case x < 59:
			ops = append(ops, op{K: "bare", Req: strings.Join(req, "."), V: genFor(req)})
		case x < 85:
			rq := strings.Join(req, ".")
			if r.Chance(1, 10) {
				rq = ""
			}
			ops = append(ops, op{K: "get", I: r.Intn(ntx), Req: rq})
		default:
			ops = append(ops, op{K: "commit", I: r.Intn(ntx)})
		}
	}
	for t := 0; t < ntx; t++ {
		ops = append(ops, op{K: "commit", I: t})
	}
	ops = append(ops, op{K: "new"})
	for _, u := range used {
		ops = append(ops, op{K: "get", I: ntx, Req: strings.Join(u, ".")})
	}
	// Unset through an unfilled placeholder: the literal prefix of a rule request that has a placeholder further right
	if r.Chance(1, 2) {
		for _, pat := range reqs {
			cut := -1
			for k, x := range pat {
				if strings.HasPrefix(x, "{") {
					cut = k
					break
				}
			}
			if cut <= 0 {
				continue
			}
			pre := strings.Join(pat[:cut], ".")
			ops = append(ops, op{K: "get", I: ntx, Req: pre}, op{K: "unset", I: ntx, Req: pre}, op{K: "get", I: ntx, Req: pre},
				op{K: "get", I: ntx, Req: ""}, op{K: "commit", I: ntx}, op{K: "new"}, op{K: "get", I: ntx + 1, Req: ""})
			break
		}
	}
	return in{Rules: rules, Ops: ops}
}

// Get operations for req and for every rule request that extends req with literal parts only
func readBacks(reqs [][]string, req []string, tx int, max int) []op {
	ops := []op{{K: "get", I: tx, Req: strings.Join(req, ".")}}
	for _, pat := range reqs {
		if len(ops) > max || len(pat) <= len(req) {
			continue
		}
		ok := true
		for k := range req {
			if !strings.HasPrefix(pat[k], "{") && pat[k] != req[k] {
				ok = false
			}
		}
		full := append([]string{}, req...)
		for _, sfx := range pat[len(req):] {
			if strings.HasPrefix(sfx, "{") {
				ok = false
			}
			full = append(full, sfx)
		}
		if ok {
			ops = append(ops, op{K: "get", I: tx, Req: strings.Join(full, ".")})
		}
	}
	return ops
}

// views whose rules under one request prefix write to NESTED storage paths (p and p.q), in both request-string orders
// and as nested content rules; the Set value carries data for all of them; everything is read back at once and again
// by a fresh transaction after the commit
func genNested(r *vh.Rand) in {
	for {
		pre := r.Pick(reqKeys)
		perm := r.Perm(len(reqKeys))
		k1, k2, k3 := reqKeys[perm[0]], reqKeys[perm[1]], reqKeys[perm[2]]
		if k1 > k2 {
			k1, k2 = k2, k1
		}
		outer := r.Pick(stoKeys)
		inner := outer + "." + r.Pick(stoKeys)
		acc := func() string {
			if r.Chance(1, 6) {
				return r.Pick(accs)
			}
			return "read-write"
		}
		var rules []rule
		switch r.Intn(3) {
		case 0: // the smaller request string goes to the inner storage path
			rules = []rule{{Req: pre + "." + k1, Sto: inner, Acc: acc()}, {Req: pre + "." + k2, Sto: outer, Acc: acc()}}
		case 1: // the smaller request string goes to the outer storage path
			rules = []rule{{Req: pre + "." + k1, Sto: outer, Acc: acc()}, {Req: pre + "." + k2, Sto: inner, Acc: acc()}}
		default: // parent with content: request pre is matched in full by the parent and as a prefix by the child
			rules = []rule{{Req: pre, Sto: outer, Acc: acc(), Content: []rule{{Req: k1, Sto: r.Pick(stoKeys), Acc: acc()}}}}
		}
		if r.Bool() {
			for i, j := 0, len(rules)-1; i < j; i, j = i+1, j-1 {
				rules[i], rules[j] = rules[j], rules[i]
			}
		}
		if r.Chance(1, 3) {
			other := "q"
			if outer == "q" {
				other = "r"
			}
			rules = append(rules, rule{Req: pre + "." + k3, Sto: other + "." + r.Pick(stoKeys), Acc: acc()})
		}
		if _, err := mkView(rules); err != nil {
			continue
		}
		var reqs [][]string
		flatReqs("", rules, &reqs)
		val := map[string]interface{}{}
		for _, pat := range reqs {
			if len(pat) == 2 {
				if r.Chance(1, 3) {
					val[pat[1]] = scalar(r)
				} else {
					val[pat[1]] = map[string]interface{}{r.Pick(reqKeys): scalar(r), r.Pick(stoKeys): scalar(r)}
				}
			}
		}
		if len(val) == 0 || r.Chance(1, 10) {
			val[r.Pick(reqKeys)] = scalar(r)
		}
		ops := []op{{K: "new"}, {K: "set", Req: pre, V: val}}
		ops = append(ops, readBacks(reqs, []string{pre}, 0, 4)...)
		if r.Chance(1, 2) { // a second, narrower write afterwards
			pat := reqs[r.Intn(len(reqs))]
			ops = append(ops, op{K: "set", Req: strings.Join(pat, "."), V: genValue(r, 1)})
			ops = append(ops, readBacks(reqs, pat, 0, 3)...)
		}
		ops = append(ops, op{K: "commit"}, op{K: "new"})
		for _, g := range readBacks(reqs, []string{pre}, 1, 4) {
			ops = append(ops, g)
		}
		return in{Rules: rules, Ops: ops}
	}
}

// rules whose unmatched suffixes are prefixes of one another (b and b.c): the real View.Set accepts or answers
// BadRequest depending on map iteration order; either way nothing partial may happen
func genOverlap(r *vh.Rand) in {
	for {
		pre := r.Pick(reqKeys)
		perm := r.Perm(len(reqKeys))
		k1, k2, k3 := reqKeys[perm[0]], reqKeys[perm[1]], reqKeys[perm[2]]
		sp := r.Perm(len(stoKeys))
		rules := []rule{{Req: pre + "." + k1, Sto: stoKeys[sp[0]]}, {Req: pre + "." + k1 + "." + k2, Sto: stoKeys[sp[1]]}}
		if r.Chance(1, 4) {
			rules[1].Sto = stoKeys[sp[0]] + "." + stoKeys[sp[1]]
		}
		if r.Chance(2, 3) {
			rules = append(rules, rule{Req: pre + "." + k3, Sto: stoKeys[sp[2]], Acc: r.Pick(accs)})
		}
		if r.Bool() {
			rules[0], rules[1] = rules[1], rules[0]
		}
		if _, err := mkView(rules); err != nil {
			continue
		}
		var reqs [][]string
		flatReqs("", rules, &reqs)
		inner := map[string]interface{}{k2: scalar(r)}
		if r.Chance(1, 2) {
			inner[r.Pick(reqKeys)] = scalar(r)
		}
		val := map[string]interface{}{k1: inner}
		if r.Chance(2, 3) {
			val[k3] = scalar(r)
		}
		if r.Chance(1, 6) {
			val[r.Pick(reqKeys)] = scalar(r) // possibly unused data: must be rejected whatever the order
		}
		ops := []op{{K: "new"}}
		ops = append(ops, readBacks(reqs, []string{pre}, 0, 4)...)
		ops = append(ops, op{K: "set", Req: pre, V: val})
		ops = append(ops, readBacks(reqs, []string{pre}, 0, 4)...)
		ops = append(ops, op{K: "commit"}, op{K: "new"})
		ops = append(ops, readBacks(reqs, []string{pre}, 1, 4)...)
		ops = append(ops, op{K: "bare", Req: pre, V: val})
		return in{Rules: rules, Ops: ops}
	}
}

func fixed() []in {
	return []in{
		// write-only data never leaks, read-only rules are never written
		{Rules: []rule{{Req: "a", Sto: "p", Acc: "write"}, {Req: "b", Sto: "p", Acc: "read"}, {Req: "c", Sto: "q", Acc: "read-write"}},
			Ops: []op{{K: "new"}, {K: "set", Req: "a", V: int64(1)}, {K: "get", Req: "a"}, {K: "get", Req: "b"}, {K: "set", Req: "b", V: int64(2)},
				{K: "set", Req: "c", V: int64(3)}, {K: "get", Req: "c"}, {K: "commit"}, {K: "new"}, {K: "get", I: 1, Req: "b"}}},
		// schema violation at commit leaves the committed bag unchanged
		{Rules: []rule{{Req: "a", Sto: "p"}, {Req: "b", Sto: "q"}},
			Ops: []op{{K: "new"}, {K: "set", Req: "a", V: int64(1)}, {K: "commit"}, {K: "set", Req: "b", V: int64(99)}, {K: "commit"}, {K: "new"}, {K: "get", I: 1, Req: "a"}, {K: "get", I: 1, Req: "b"}}},
		// two transactions writing unrelated paths, both commit
		{Rules: []rule{{Req: "a.{x}", Sto: "p.{x}"}, {Req: "b", Sto: "q.r"}},
			Ops: []op{{K: "new"}, {K: "new"}, {K: "set", Req: "a.c", V: int64(1)}, {K: "set", I: 1, Req: "b", V: map[string]interface{}{"d": int64(2)}},
				{K: "commit", I: 1}, {K: "commit"}, {K: "new"}, {K: "get", I: 2, Req: "a.c"}, {K: "get", I: 2, Req: "b"}}},
		// nested storage paths under one request prefix: the inner path belongs to the smaller / the larger request string
		{Rules: []rule{{Req: "a.b", Sto: "p.q"}, {Req: "a.c", Sto: "p"}},
			Ops: []op{{K: "new"}, {K: "set", Req: "a", V: map[string]interface{}{"b": int64(1), "c": map[string]interface{}{"d": int64(2)}}},
				{K: "get", Req: "a.b"}, {K: "get", Req: "a.c"}, {K: "get", Req: "a"}, {K: "commit"}, {K: "new"}, {K: "get", I: 1, Req: "a.b"}, {K: "get", I: 1, Req: "a"}}},
		{Rules: []rule{{Req: "a.b", Sto: "p"}, {Req: "a.c", Sto: "p.q"}},
			Ops: []op{{K: "new"}, {K: "set", Req: "a", V: map[string]interface{}{"c": int64(1), "b": map[string]interface{}{"d": int64(2)}}},
				{K: "get", Req: "a.c"}, {K: "get", Req: "a.b"}, {K: "get", Req: "a"}, {K: "commit"}, {K: "new"}, {K: "get", I: 1, Req: "a.c"}, {K: "get", I: 1, Req: "a"}}},
		// bare databag: the second write fails the schema, the first one stays behind
		{Rules: []rule{{Req: "a.b", Sto: "p"}, {Req: "a.c", Sto: "q"}},
			Ops: []op{{K: "bare", Req: "a", V: map[string]interface{}{"b": int64(1), "c": int64(99)}}, {K: "bare", Req: "a.b", V: int64(2)},
				{K: "new"}, {K: "set", Req: "a", V: map[string]interface{}{"b": int64(1), "c": int64(99)}}, {K: "commit"}}},
		// order-dependent suffixes (b and b.c): accepted or BadRequest, never a partial effect
		{Rules: []rule{{Req: "a.b", Sto: "p"}, {Req: "a.b.c", Sto: "q"}, {Req: "a.d", Sto: "r"}},
			Ops: []op{{K: "new"}, {K: "set", Req: "a", V: map[string]interface{}{"b": map[string]interface{}{"c": int64(1)}, "d": int64(2)}},
				{K: "get", Req: "a.b"}, {K: "get", Req: "a.d"}, {K: "commit"}, {K: "new"}, {K: "get", I: 1, Req: "a"}}},
		// a placeholder left in the unmatched suffix: filled from the keys of the value
		{Rules: []rule{{Req: "a.{x}.b", Sto: "p.{x}"}, {Req: "c", Sto: "q"}},
			Ops: []op{{K: "new"}, {K: "set", Req: "a", V: map[string]interface{}{"c": map[string]interface{}{"b": int64(1)}, "d": map[string]interface{}{"b": int64(2)}}},
				{K: "get", Req: "a"}, {K: "get", Req: "a.c"}, {K: "get", Req: "a.d.b"}, {K: "get", Req: ""}, {K: "commit"}, {K: "new"}, {K: "get", I: 1, Req: "a"}}},
		// Unset through an unfilled placeholder: match-all in the middle of the storage path / at its end (removes the level)
		{Rules: []rule{{Req: "a.{x}.b", Sto: "p.{x}.q"}, {Req: "c.{y}", Sto: "r.{y}"}, {Req: "d", Sto: "r"}},
			Ops: []op{{K: "new"}, {K: "set", Req: "a.c.b", V: int64(1)}, {K: "set", Req: "a.d.b", V: int64(2)}, {K: "set", Req: "c.a", V: int64(3)}, {K: "set", Req: "c.b", V: int64(4)},
				{K: "commit"}, {K: "get", Req: ""}, {K: "unset", Req: "a"}, {K: "get", Req: "a"}, {K: "get", Req: "a.c.b"}, {K: "unset", Req: "c"}, {K: "get", Req: "c"}, {K: "get", Req: "d"},
				{K: "commit"}, {K: "new"}, {K: "get", I: 1, Req: ""}, {K: "get", I: 1, Req: "d"}}},
		// match-all Unset meeting a scalar on its way is a decoding error: the transaction can no longer commit
		{Rules: []rule{{Req: "a.{x}.b", Sto: "p.{x}.q"}, {Req: "d", Sto: "p.d"}},
			Ops: []op{{K: "new"}, {K: "set", Req: "a.c.b", V: int64(1)}, {K: "set", Req: "d", V: int64(5)}, {K: "unset", Req: "a"}, {K: "get", Req: "d"}, {K: "commit"}, {K: "new"}, {K: "get", I: 1, Req: "d"}}},
		// nested rules and a prefix request with a value covering the suffixes
		{Rules: []rule{{Req: "a", Sto: "p", Content: []rule{{Req: "b", Sto: "q"}, {Req: "c", Sto: "r", Acc: "read"}}}},
			Ops: []op{{K: "new"}, {K: "set", Req: "a", V: map[string]interface{}{"b": int64(1), "d": int64(2)}}, {K: "get", Req: "a"}, {K: "get", Req: "a.b"}, {K: "set", Req: "a.c", V: int64(5)},
				{K: "unset", Req: "a.b"}, {K: "get", Req: "a"}, {K: "commit"}}},
	}
}

func gen(r *vh.Rand, tier string, n int) []in {
	if n == 0 {
		n = 400
	}
	ins := fixed()
	for k := 0; k < n; k++ {
		if k%3 == 2 {
			ins = append(ins, genNested(r))
		} else if k%9 == 4 {
			ins = append(ins, genOverlap(r))
		} else {
			ins = append(ins, genHist(r))
		}
	}
	return ins
}

func main() { vh.Run(gen, exec) }
