//go:build verif

package quota

// VerifSetNumCPU fixes what the package believes runtime.NumCPU() returns (the same variable the package's own
// tests replace through MockRuntimeNumCPU in export_test.go). Only present in builds of the /verif C36 driver.
func VerifSetNumCPU(n int) {
	runtimeNumCPU = func() int { return n }
}
