//go:build verif

// Driver for C27: writes a generated desktop file into meta/gui of a snap (with or without an instance key, varied file
// names) under a scratch root directory, runs the real (unexported) deriveDesktopFilesContent — hence the real
// sanitizeDesktopFile with the installed name the production code computes, and the name filter in front of it — and prints
// input + produced bytes (or the absence of an entry) as Coq terms of type V.models.Desktop.case.
package wrappers

import (
	"fmt"
	"os"
	"path/filepath"
	"sort"
	"strings"
	"testing"

	"github.com/snapcore/snapd/dirs"
	"github.com/snapcore/snapd/osutil"
	"github.com/snapcore/snapd/snap"
	"github.com/snapcore/snapd/zzverif/vh"
)

type c27B []byte // survives JSON exactly (base64)

type c27In struct {
	Snap    string   `json:"snap"`
	Key     string   `json:"key"`
	Apps    []string `json:"apps"`
	File    string   `json:"file"` // base name of the desktop file inside meta/gui
	Content c27B     `json:"content"`
	Text    string   `json:"text"` // readable rendering, informational only
}

func c27Info(in c27In) *snap.Info {
	info := &snap.Info{SuggestedName: in.Snap, InstanceKey: in.Key, Apps: map[string]*snap.AppInfo{}}
	info.Revision = snap.R(7)
	for _, a := range in.Apps {
		info.Apps[a] = &snap.AppInfo{Snap: info, Name: a}
	}
	return info
}

var c27Locales = []string{"", "[de]", "[en_GB]", "[sr@latin]", "[zh_CN.UTF-8]", "[pt_BR.ISO-8859-1@euro]", "[DE]", "[de", "[de]]", "[]", "[d e]"}
var c27Keys = []string{"Type", "Version", "Name", "GenericName", "NoDisplay", "Comment", "Icon", "Hidden", "OnlyShowIn", "NotShowIn",
	"Terminal", "Actions", "MimeType", "Categories", "Keywords", "StartupNotify", "StartupWMClass", "PrefersNonDefaultGPU",
	"SingleMainWindow", "X-Ayatana-Desktop-Shortcuts", "TargetEnvironment",
	"TryExec", "X-GNOME-Autostart", "DBusActivatable", "Path", "URL", "Implements", "name", " Name", "Exec ", "X-SnapInstanceName"}

func c27Line(r *vh.Rand, in c27In) string {
	apps := in.Apps
	app := ""
	if len(apps) > 0 {
		app = apps[r.Intn(len(apps))]
	}
	cmd := snap.JoinSnapApp(in.Snap, app)
	switch r.Intn(16) {
	case 0:
		return r.Pick([]string{"", " ", "\t", "  \t ", "\f", "\v", "\r", " \r"})
	case 1:
		return r.Pick([]string{"#", "# comment ${SNAP}", "  # indented", "\t#x", "#Exec=/bin/sh", "; not a comment"})
	case 2:
		return r.Pick([]string{"[Desktop Entry]", "[Desktop Entry] ", " [Desktop Entry]", "[Desktop Action new-window]", "[Desktop Action ]",
			"[Desktop Action a b]", "[new Shortcut Group]", "[ Shortcut Group]", "[Desktop Entry]x", "[desktop entry]", "[Other Group]", "[${SNAP}]"})
	case 3, 4, 5:
		// Exec forms
		return "Exec=" + r.Pick([]string{cmd, cmd + " %U", cmd + " --flag ${SNAP}/x %f", cmd + "-evil", cmd + "\t%U", cmd + ";rm -rf /", cmd + "  x",
			"/bin/sh", "sh -c id", "", " " + cmd, " " + cmd + " %U", "  " + cmd + " --flag %f", "\t" + cmd + " %U", " \t " + cmd + " a b", cmd + " %U  ", " " + cmd + " ", in.Snap, in.Snap + "." + app + " %u", in.Snap + "_" + in.Key + "." + app, "snap run " + cmd,
			"env X=1 " + cmd, cmd + "=x", "other.app", "${SNAP}/bin/x", cmd + " \"a b\" 'c'", cmd + " %U\x01\x7f\xff"})
	case 6, 7:
		// Icon forms
		return "Icon=" + r.Pick([]string{"${SNAP}/meta/gui/icon.png", "${SNAP}/../other/icon.png", "${SNAP}/a/../../b", "${SNAP}//a.png", "${SNAP}/a/./b.png",
			"${SNAP}/a/", "${SNAP}/", "${SNAP}", "${SNAP}x/a", "/usr/share/icons/x.png", "../x.png", "a/b.png", "foo", "", "snap." + in.Snap + ".icon",
			"snap." + in.Snap + ".", "snap." + in.Snap, "snap.other.icon", "snap.", "snapx", "snap." + in.Snap + "_" + in.Key + ".icon", "${SNAP}/a/..", "${SNAP}/..a/b", "${SNAP}/a/...", "x${SNAP}/a"})
	case 8:
		return r.Pick(c27Keys) + r.Pick(c27Locales) + "=" + r.Pick([]string{"", "value", "${SNAP}/x", "a=b", "ünï", "\xff\xfe", "${SNAP}${SNAP}", "${SNA", "$${SNAP}}"})
	case 9:
		return r.Pick(c27Keys) + "=" + r.Str("az AZ09;/.%${}SNAP=\\\"'", 0, 12)
	case 10:
		return r.Pick([]string{"Exec", "Exec =x", "exec=" + cmd, "EXEC=" + cmd, "Exec[de]=" + cmd, "TryExec=" + cmd, "X-Exec=" + cmd, "Icon[de]=foo", "Icon =foo"})
	case 11:
		return r.Str("\x00\x01\t \"#$%=[]\\az{}\x7f\x80\xe2\x82\xac\xff", 0, 10)
	case 12:
		return "Name=" + strings.Repeat("x", r.Range(100, 400))
	}
	// a plausible ordinary line
	return r.Pick([]string{"Type=Application", "Name=Foo", "Name[de]=Fuu", "Comment=does things", "Terminal=false", "Categories=Utility;", "StartupNotify=true", "Version=1.0"})
}

func c27Gen(r *vh.Rand, tier string, n int) []c27In {
	if n == 0 {
		n = 300
	}
	var ins []c27In
	snaps := []struct {
		name, key string
		apps      []string
	}{
		{"foo", "", []string{"app"}}, {"foo", "", []string{"foo", "app", "app2"}}, {"foo", "inst", []string{"app"}},
		{"foo", "k1", []string{"foo", "bar"}}, {"hello-world", "", []string{"hello-world", "h2"}}, {"foo", "", nil}, {"a0", "x", []string{"a0"}},
	}
	files := []string{"app.desktop", "foo.desktop", "bar.desktop", "other.desktop", "app", "app.v2.desktop", ".desktop", "h2.desktop",
		"a b.desktop", "a sh -c id x.desktop", "a\tb.desktop", "a\nExec=sh -c id\nX-Y.desktop", "x=y.desktop", "${SNAP}.desktop", "app .desktop", "a0.desktop",
		"a\" sh -c id \"x.desktop", "a\\\" sh x.desktop", "100%U.desktop", "a%%b c.desktop", "`id`.desktop", "$(id).desktop", "a'b.desktop",
		"x${SNAP}\"y z.desktop", "a\x7fb.desktop", "a\xc2\x85b.desktop", "a\x01.desktop", "a\xc2b \xff.desktop", "app.desktop.bak", "a;b|c&d.desktop",
		// a control character FIRST, and names made of control characters only
		"\nExec=sh -c id #.desktop", "\n[Desktop Entry]\nExec=sh #.desktop", "\rx.desktop", "\tx.desktop", "\x7fx.desktop", "\xc2\x85x.desktop",
		"\x01app.desktop", "\n.desktop", "\x01\x02.desktop", "\xc2\x85.desktop", "\x7f.desktop", "\n\n.desktop"}
	// regression case of the repaired finding (commit 0f3f7c0): the file name must stay ONE word of the command line
	ins = append(ins, c27In{Snap: "foo", Apps: []string{"app"}, File: "a sh -c id x.desktop",
		Content: c27B("[Desktop Entry]\nName=foo\nExec=not-the-app %U\nExec=foo.app %U\n")})
	// a file name that STARTS with a line break must be skipped like any other name with a control character
	ins = append(ins, c27In{Snap: "foo", Apps: []string{"app"}, File: "\nExec=sh -c id #.desktop",
		Content: c27B("[Desktop Entry]\nExec=foo.app %U\n")})
	ins = append(ins, c27In{Snap: "foo", Apps: []string{"app"}, File: "\x7fapp.desktop",
		Content: c27B("[Desktop Entry]\nExec=foo.app\n")})
	// blanks between = and a valid command with arguments: the arguments must be cut at the right offset
	ins = append(ins, c27In{Snap: "foo", Apps: []string{"app"}, File: "other.desktop",
		Content: c27B("[Desktop Entry]\nExec= foo.app %U\nExec=\tfoo.app --x\nExec=  foo.app  y \n")})
	ins = append(ins, c27In{Snap: "foo", Apps: []string{"app"}, File: "app.desktop",
		Content: c27B("[Desktop Entry]\nName=foo\nIcon=${SNAP}/meta/gui/icon.png\nExec=foo.app %U\nTryExec=/bin/sh\nExec=/bin/sh\n")})
	for i := 0; i < n; i++ {
		s := snaps[r.Intn(len(snaps))]
		in := c27In{Snap: s.name, Key: s.key, Apps: s.apps}
		if r.Chance(3, 5) {
			in.File = files[r.Intn(8)] // ordinary names most of the time
		} else {
			in.File = files[r.Intn(len(files))]
		}
		nl := r.Range(0, 9)
		var sb strings.Builder
		for k := 0; k < nl; k++ {
			sb.WriteString(c27Line(r, in))
			switch {
			case k == nl-1 && r.Chance(1, 3): // no final newline
			case r.Chance(1, 10):
				sb.WriteString("\r\n")
			case r.Chance(1, 20):
				sb.WriteString("\n\n")
			default:
				sb.WriteString("\n")
			}
		}
		in.Content = c27B(sb.String())
		ins = append(ins, in)
	}
	for i := range ins {
		ins[i].Text = fmt.Sprintf("%s_%s %v %q %q", ins[i].Snap, ins[i].Key, ins[i].Apps, ins[i].File, ins[i].Content)
	}
	return ins
}

var c27Root string

func c27Exec(in c27In) vh.Out {
	if c27Root == "" {
		d, err := os.MkdirTemp("", "c27")
		if err != nil {
			panic(err)
		}
		c27Root = d
		dirs.SetRootDir(d)
	}
	info := c27Info(in)
	gui := filepath.Join(info.MountDir(), "meta", "gui")
	if err := os.RemoveAll(gui); err != nil {
		panic(err)
	}
	if err := os.MkdirAll(gui, 0755); err != nil {
		panic(err)
	}
	if err := os.WriteFile(filepath.Join(gui, in.File), []byte(in.Content), 0644); err != nil {
		panic(err)
	}
	content, err := deriveDesktopFilesContent(info)
	if err != nil {
		panic(err)
	}
	if len(content) > 1 {
		panic("more than one desktop file derived")
	}
	var out []byte
	have := false
	for name, st := range content {
		if name != info.DesktopPrefix()+"_"+in.File {
			panic("unexpected entry " + name)
		}
		out, have = st.(*osutil.MemoryFileState).Content, true
	}
	apps := append([]string{}, in.Apps...)
	sort.Strings(apps)
	var capps []string
	for _, a := range apps {
		capps = append(capps, vh.CoqBytes(a))
	}
	coq := fmt.Sprintf("(Case (mkInfo %s %s %s %s %s) %s %s %s %s)", vh.CoqBytes(info.SnapName()), vh.CoqBytes(info.InstanceKey), vh.CoqList(capps),
		vh.CoqBytes(dirs.SnapBinariesDir), vh.CoqBytes(info.MountDir()), vh.CoqBytes(dirs.SnapDesktopFilesDir), vh.CoqBytes(in.File),
		vh.CoqBytes(string(in.Content)), vh.CoqOpt(have, vh.CoqBytes(string(out))))
	tags := []string{}
	if in.Key != "" {
		tags = append(tags, "instance-key")
	}
	if strings.ContainsAny(in.File, " \t\n\"'$%") {
		tags = append(tags, "file-name-with-reserved-byte")
	}
	if !have {
		tags = append(tags, "file-skipped")
	}
	if strings.Contains(string(out), "Exec=") {
		tags = append(tags, "exec-kept")
	}
	if strings.Contains(string(out), "Icon=") {
		tags = append(tags, "icon-kept")
	}
	if strings.Contains(string(out), "X-SnapInstanceName=") {
		tags = append(tags, "tagged")
	}
	return vh.Out{Observed: map[string]interface{}{"derived": have, "out": string(out)}, Coq: coq,
		NonTrivial: len(out) > 0, Tags: tags}
}

func TestVerifC27Sanitize(t *testing.T) {
	defer func() {
		if c27Root != "" {
			os.RemoveAll(c27Root)
			dirs.SetRootDir("")
		}
	}()
	vh.Run(c27Gen, c27Exec)
}
