//go:build verif

package daemon

// C26 driver: runs the real Command.ServeHTTP of every entry of the real `api` slice (handlers replaced by a stub on a
// copy of the Command; access checkers, ucrednet parsing, userFromRequest, checkPolkitActionImpl and
// requireInterfaceApiAccessImpl are the real ones) on forged requests, and the real ucrednet print/parse/attach
// functions on generated values. polkit.CheckAuthorization and cgroup.SnapNameFromPid are replaced through the
// package's own mock points; the connection state and the logged-in user are put into a real state.State.

import (
	"errors"
	"fmt"
	"net/http"
	"net/http/httptest"
	"sort"
	"strings"
	"testing"

	"github.com/snapcore/snapd/dirs"
	"github.com/snapcore/snapd/overlord"
	"github.com/snapcore/snapd/overlord/auth"
	"github.com/snapcore/snapd/overlord/hookstate"
	"github.com/snapcore/snapd/overlord/state"
	"github.com/snapcore/snapd/polkit"
	"github.com/snapcore/snapd/zzverif/vh"
)

type c26Cred struct {
	Pid    uint64 `json:"pid"`
	Uid    uint64 `json:"uid"`
	Socket string `json:"socket"`
}

type c26Conn struct {
	Snap        string `json:"snap"` // plug side (instance name)
	Slot        string `json:"slot"` // slot side (instance name)
	Iface       string `json:"iface"`
	Undesired   bool   `json:"undesired"`
	HotplugGone bool   `json:"hotplug_gone"`
	PlugName    string `json:"plug_name,omitempty"` // name of the plug in the connection reference; default plug<i>
	SlotName    string `json:"slot_name,omitempty"` // name of the slot; default slot<i>. Both independent of Iface.
}

type c26In struct {
	Kind string `json:"kind"` // serve | table | cred | parse | attach | attachparse | viewable | snapctl
	// serve
	Ep        int               `json:"ep,omitempty"`
	Path      string            `json:"path,omitempty"` // informational; the driver reads it from api[Ep]
	Method    string            `json:"method,omitempty"`
	Remote    string            `json:"remote,omitempty"`
	Creds     *c26Cred          `json:"creds,omitempty"` // what the generator meant to put on the wire; nil = no credentials
	Pre       []string          `json:"pre,omitempty"`   // interfaces the generator wrote into the forged address
	PkMode    int               `json:"pk_mode"`         // index into the shared vocabulary (c26PkMode), -1 = explicit
	ConnMode  int               `json:"conn_mode"`       // index into c26ConnMode, -1 = explicit
	Auth      string            `json:"auth,omitempty"`  // none | valid | garbage | notmacaroon
	Pk        map[string]string `json:"pk,omitempty"`    // action -> yes|no|dismissed|error
	PkDefault string            `json:"pk_default,omitempty"`
	SnapOfPid string            `json:"snap_of_pid,omitempty"` // "" = cgroup lookup fails
	Conns     []c26Conn         `json:"conns,omitempty"`
	Degraded  bool              `json:"degraded,omitempty"`
	// cred
	Pid    int32  `json:"cpid,omitempty"`
	Uid    uint32 `json:"cuid,omitempty"`
	Socket string `json:"csocket,omitempty"`
	// parse / attach / attachparse
	S     string `json:"s,omitempty"`
	Iface string `json:"iface,omitempty"`
	// viewable: noticeTypesViewableBySnap(types, request with RemoteAddr = Remote); Creds / Pre say what was forged
	Types []string `json:"types,omitempty"`
	// snapctl: POST /v2/snapctl with these args through the real ServeHTTP and the real runSnapctl (ctlcmd.Run recorded)
	Args []string `json:"args,omitempty"`
}

type c26Obs struct {
	Class   string   `json:"class,omitempty"`
	Status  int      `json:"status,omitempty"`
	HCred   string   `json:"hcred,omitempty"`
	HIfaces []string `json:"hifaces,omitempty"`
	Out     string   `json:"out,omitempty"`
}

var c26Methods = []string{"GET", "PUT", "POST", "DELETE", "HEAD"}

var c26PkActions = []string{polkitActionLogin, polkitActionManage, polkitActionManageInterfaces, polkitActionManageConfiguration}

const (
	c26Snap      = "some-snap"
	c26InstSnap  = "some-snap_dev" // a parallel instance of the same snap
	c26OtherSnap = "other-snap"
	c26SnapPid   = 42
	c26PlainPid  = 1001
)

var c26Ifaces = []string{"snap-refresh-observe", "snap-themes-control", "snap-interfaces-requests-control", "snap-refresh-control", "network"}

// ---------------------------------------------------------------------------------------------- generator

type c26Remote struct {
	s     string
	creds *c26Cred
	pre   []string // interfaces already written into the forged address
}

func c26RemoteStr(pid, uid interface{}, socket string) string {
	return fmt.Sprintf("pid=%v;uid=%v;socket=%s;", pid, uid, socket)
}

// remotes with credentials: every socket kind x root / plain user x pid of a snap process / of a plain process
func c26GoodRemotes() []c26Remote {
	var out []c26Remote
	for _, sock := range []string{dirs.SnapdSocket, dirs.SnapSocket, "/run/other.socket", ""} {
		for _, uid := range []uint64{0, 1000} {
			for _, pid := range []uint64{c26SnapPid, c26PlainPid} {
				out = append(out, c26Remote{c26RemoteStr(pid, uid, sock), &c26Cred{pid, uid, sock}, nil})
			}
		}
	}
	return out
}

// remotes that carry no usable peer credentials (missing, unparsable, out of range)
func c26BadRemotes() []c26Remote {
	sd := dirs.SnapdSocket
	strs := []string{
		"",
		"pid=;uid=;socket=;", // (*ucrednet)(nil).String()
		"@",                  // what net/http puts there for an unnamed unix peer
		"127.0.0.1:8080",
		c26RemoteStr(0, 0, sd),            // no process
		c26RemoteStr(100, 4294967295, sd), // nobody
		c26RemoteStr("4294967297", 0, sd), // pid out of int32 range
		c26RemoteStr(100, "4294967296", sd),
		c26RemoteStr(-5, 0, sd),
		c26RemoteStr(100, 0, sd) + "x",
		" " + c26RemoteStr(100, 0, sd),
		c26RemoteStr(100, 0, sd+";"+sd),
		"pid=100;uid=0;socket=" + sd,
		"uid=0;pid=100;socket=" + sd + ";",
		"pid=100;uid=0x0;socket=" + sd + ";",
		"pid=100;uid=;socket=" + sd + ";",
		c26RemoteStr(100, 0, sd) + "iface=a;iface=b;",
		c26RemoteStr(100, 0, sd) + "\n",
	}
	var out []c26Remote
	for _, s := range strs {
		out = append(out, c26Remote{s, nil, nil})
	}
	return out
}

// well-formed but unusual spellings that do carry credentials
func c26OddRemotes() []c26Remote {
	sd, sn := dirs.SnapdSocket, dirs.SnapSocket
	return []c26Remote{
		{c26RemoteStr("0042", "00", sd), &c26Cred{42, 0, sd}, nil},
		{c26RemoteStr(1001, 0, sn) + "iface=snap-refresh-observe;", &c26Cred{1001, 0, sn}, []string{"snap-refresh-observe"}}, // forged attachment
		{c26RemoteStr(42, 1000, sn) + "iface=snap-themes-control&network;", &c26Cred{42, 1000, sn}, []string{"snap-themes-control", "network"}},
		{c26RemoteStr(42, 1000, sd) + "iface=;", &c26Cred{42, 1000, sd}, []string{""}},
		{c26RemoteStr(2147483647, 4294967294, sd), &c26Cred{2147483647, 4294967294, sd}, nil},
		{c26RemoteStr(42, 1000, sn+" "), &c26Cred{42, 1000, sn + " "}, nil},
		{c26RemoteStr(42, 0, strings.ToUpper(sd)), &c26Cred{42, 0, strings.ToUpper(sd)}, nil},
	}
}

func c26PkMode(mode int) (map[string]string, string) {
	switch mode {
	case 0:
		return nil, "no"
	case 1:
		return nil, "yes"
	case 2:
		return nil, "dismissed"
	case 3:
		return nil, "error"
	case 4:
		return map[string]string{polkitActionLogin: "yes"}, "no"
	case 5:
		return map[string]string{polkitActionManage: "yes"}, "no"
	case 6:
		return map[string]string{polkitActionManageInterfaces: "yes", polkitActionManageConfiguration: "yes"}, "no"
	}
	return map[string]string{polkitActionManage: "no"}, "yes"
}

const c26PkModes = 8

func c26C(snap, slot, iface string, undesired, gone bool) c26Conn {
	return c26Conn{Snap: snap, Slot: slot, Iface: iface, Undesired: undesired, HotplugGone: gone}
}

func c26ConnMode(mode int) []c26Conn {
	switch mode {
	case 0:
		return nil
	case 1: // everything the gated endpoints ask for, actively connected by the calling snap
		return []c26Conn{c26C(c26Snap, "core", "snap-refresh-observe", false, false), c26C(c26Snap, "core", "snap-themes-control", false, false),
			c26C(c26Snap, "core", "snap-interfaces-requests-control", false, false)}
	case 2: // only inactive or foreign connections
		return []c26Conn{c26C(c26Snap, "core", "snap-refresh-observe", true, false), c26C(c26Snap, "core", "snap-themes-control", false, true),
			c26C(c26OtherSnap, "core", "snap-interfaces-requests-control", false, false), c26C(c26OtherSnap, "core", "snap-refresh-observe", false, false),
			c26C(c26Snap, "core", "network", false, false)}
	case 3:
		return []c26Conn{c26C(c26Snap, "core", "snap-refresh-observe", false, false), c26C(c26Snap, "core", "snap-refresh-observe", true, false)}
	case 4:
		return []c26Conn{c26C(c26Snap, "core", "snap-themes-control", false, false), c26C(c26OtherSnap, "core", "snap-refresh-observe", false, false)}
	case 5:
		return []c26Conn{c26C(c26Snap, "core", "snap-interfaces-requests-control", false, false), c26C(c26Snap, "core", "snap-refresh-control", false, false)}
	}
	return []c26Conn{c26C(c26Snap, "core", "snap-refresh-control", false, false), c26C(c26Snap, "core", "network", false, false)}
}

const c26ConnModes = 7

const c26MutBytes = ";=&0 9apx\n\t"

func c26SnapOf(pid uint64) string {
	if pid == c26SnapPid {
		return c26Snap
	}
	return ""
}

func c26Gen(r *vh.Rand, tier string, n int) []c26In {
	var ins []c26In
	ins = append(ins, c26In{Kind: "table"})
	good, bad, odd := c26GoodRemotes(), c26BadRemotes(), c26OddRemotes()
	all := append(append(append([]c26Remote{}, good...), bad...), odd...)
	mk := func(ep int, m string, rm c26Remote, auth string, pkMode, connMode int, degraded bool) c26In {
		pk, def := c26PkMode(pkMode)
		in := c26In{Kind: "serve", Ep: ep, Path: c26Path(api[ep]), Method: m, Remote: rm.s, Creds: rm.creds, Pre: rm.pre, Auth: auth,
			Pk: pk, PkDefault: def, Conns: c26ConnMode(connMode), Degraded: degraded, PkMode: pkMode, ConnMode: connMode}
		if rm.creds != nil {
			in.SnapOfPid = c26SnapOf(rm.creds.Pid)
		}
		return in
	}
	thorough := tier == "thorough"
	for ep, c := range api {
		for _, m := range c26Methods {
			reg := (m == "GET" && c.GET != nil) || (m == "PUT" && c.PUT != nil) || (m == "POST" && c.POST != nil)
			if !reg {
				// no handler: the answer must not depend on the caller; a root caller on the main socket and one without credentials
				ins = append(ins, mk(ep, m, good[0], "valid", 1, 1, false), mk(ep, m, bad[0], "none", 0, 0, false))
				continue
			}
			// EXHAUSTIVE block: every registered endpoint x verb x credentialed remote x user x polkit{no,yes,dismissed} x conns{none,all}
			for gi, rm := range good {
				if !thorough && gi >= 8 && gi%4 != 0 {
					continue // quick: the two non-snapd sockets with one caller each (root, snap process); thorough: all 16
				}
				for _, auth := range []string{"none", "valid"} {
					// quick: (polkit, conns) in {(no, none), (yes, all connected), (dismissed, all connected)}; thorough: full product
					combos := [][2]int{{0, 0}, {1, 1}, {2, 1}}
					if thorough {
						combos = nil
						for pm := 0; pm < c26PkModes; pm++ {
							for cm := 0; cm < c26ConnModes; cm++ {
								combos = append(combos, [2]int{pm, cm})
							}
						}
					}
					for ci, pc := range combos {
						if !thorough && auth == "valid" && ci == 2 {
							continue // quick: with a logged-in user the dismissed-polkit combination adds nothing
						}
						ins = append(ins, mk(ep, m, rm, auth, pc[0], pc[1], false))
					}
				}
			}
			// no / unusual credentials: with everything else as permissive as it gets, and once with nothing
			for bi, rm := range append(append([]c26Remote{}, bad...), odd...) {
				if !thorough && (bi+ep)%3 != 0 {
					continue // quick: a third of them per endpoint, rotating so that every string meets every checker type
				}
				ins = append(ins, mk(ep, m, rm, "valid", 1, 1, false))
				if thorough {
					ins = append(ins, mk(ep, m, rm, "none", 0, 0, false), mk(ep, m, rm, "none", 1, 1, false))
				}
			}
			// degraded mode, invalid Authorization headers
			ins = append(ins, mk(ep, m, good[0], "valid", 1, 1, true), mk(ep, m, good[3], "garbage", 0, 0, false),
				mk(ep, m, good[3], "notmacaroon", 0, 1, false))
		}
	}

	// WHO-IS-CONNECTED block (exhaustive, both tiers). For every endpoint x verb whose checker is interface-gated, on
	// the snap socket: every calling instance in {some-snap, some-snap_dev (parallel instance), other-snap, lookup
	// fails} x every subset of {some-snap, some-snap_dev, other-snap} holding an active plug-side connection of a
	// listed interface, plus single connections that must NOT count: caller only on the slot side, undesired,
	// hotplug-gone, an interface whose name merely resembles a listed one (prefix, extension, other case), an unlisted
	// interface, and the listed interface connected only by the other instance on the slot side of the caller.
	callers := []string{c26Snap, c26InstSnap, c26OtherSnap, ""}
	owners := []string{c26Snap, c26InstSnap, c26OtherSnap}
	for ep, c := range api {
		for _, m := range []string{"GET", "PUT", "POST"} {
			reg := (m == "GET" && c.GET != nil) || (m == "PUT" && c.PUT != nil) || (m == "POST" && c.POST != nil)
			if !reg {
				continue
			}
			var listed []string
			switch ac := c26Access(c, m).(type) {
			case interfaceOpenAccess:
				listed = ac.Interfaces
			case interfaceAuthenticatedAccess:
				listed = ac.Interfaces
			default:
				continue
			}
			var scenarios [][]c26Conn
			for _, iface := range listed {
				for mask := 0; mask < 1<<len(owners); mask++ {
					var cs []c26Conn
					for oi, o := range owners {
						if mask&(1<<oi) != 0 {
							cs = append(cs, c26Conn{Snap: o, Slot: "core", Iface: iface})
						}
					}
					scenarios = append(scenarios, cs)
				}
				for _, who := range owners {
					peerOf := map[string]string{c26Snap: c26InstSnap, c26InstSnap: c26Snap, c26OtherSnap: c26Snap}[who]
					scenarios = append(scenarios,
						[]c26Conn{{Snap: peerOf, Slot: who, Iface: iface}},                    // `who` is only the slot side
						[]c26Conn{{Snap: "core", Slot: who, Iface: iface}},                    // the same, plugged by a third snap
						[]c26Conn{{Snap: who, Slot: "core", Iface: iface, Undesired: true}},   // inactive
						[]c26Conn{{Snap: who, Slot: "core", Iface: iface, HotplugGone: true}}, // inactive
						[]c26Conn{{Snap: who, Slot: "core", Iface: iface, Undesired: true}, {Snap: peerOf, Slot: "core", Iface: iface}},
						[]c26Conn{{Snap: who, Slot: "core", Iface: iface + "-extra"}},
						[]c26Conn{{Snap: who, Slot: "core", Iface: iface[:len(iface)-1]}},
						[]c26Conn{{Snap: who, Slot: "core", Iface: strings.ToUpper(iface)}},
						[]c26Conn{{Snap: who, Slot: "core", Iface: "network"}},
						[]c26Conn{{Snap: who + "x", Slot: "core", Iface: iface}, {Snap: "x" + who, Slot: "core", Iface: iface}},
						// plug / slot NAMES are independent of the interface: a name that equals a listed interface must not
						// open anything when the connection's interface is another one, and a genuine connection counts
						// whatever its plug and slot are called
						[]c26Conn{{Snap: who, Slot: "core", PlugName: iface, Iface: "content"}},
						[]c26Conn{{Snap: who, Slot: "core", SlotName: iface, Iface: "content"}},
						[]c26Conn{{Snap: who, Slot: "core", PlugName: iface, SlotName: iface, Iface: "content"}},
						[]c26Conn{{Snap: who, Slot: "core", PlugName: "content", SlotName: "content", Iface: iface}},
						[]c26Conn{{Snap: who, Slot: "core", PlugName: "network", SlotName: iface, Iface: iface}},
						[]c26Conn{{Snap: who, Slot: "core", PlugName: iface, Iface: "content"}, {Snap: peerOf, Slot: "core", PlugName: "some-plug", Iface: iface}},
					)
				}
			}
			for _, caller := range callers {
				for _, cs := range scenarios {
					for _, auth := range []string{"none", "valid"} {
						if auth == "valid" && m == "GET" {
							continue // interfaceOpenAccess ignores the user; the Auth variant (themes POST) gets both
						}
						in := c26In{Kind: "serve", Ep: ep, Path: c26Path(c), Method: m, Remote: c26RemoteStr(c26SnapPid, 1000, dirs.SnapSocket),
							Creds: &c26Cred{c26SnapPid, 1000, dirs.SnapSocket}, Auth: auth, PkDefault: "yes", PkMode: 1, ConnMode: -1,
							Conns: cs, SnapOfPid: caller}
						ins = append(ins, in)
					}
				}
			}
		}
	}
	// POLKIT-ACTION block (exhaustive, both tiers): every registered endpoint x verb, plain user on the main socket
	// without macaroon, polkit saying yes to exactly one action (or to the two configuration/interfaces ones): the
	// endpoint must be reached only when its own action is the one granted.
	for ep, c := range api {
		for _, m := range []string{"GET", "PUT", "POST"} {
			reg := (m == "GET" && c.GET != nil) || (m == "PUT" && c.PUT != nil) || (m == "POST" && c.POST != nil)
			if !reg {
				continue
			}
			for _, pm := range []int{4, 5, 6, 7} {
				ins = append(ins, mk(ep, m, good[3], "none", pm, 0, false))
			}
		}
	}
	// random points of the wide product (all remotes x auth x all polkit modes x all conn modes x degraded, any verb)
	if n == 0 {
		n = 1500
	}
	for i := 0; i < n; i++ {
		ep := r.Intn(len(api))
		rm := all[r.Intn(len(all))]
		in := mk(ep, r.Pick(c26Methods), rm, r.Pick([]string{"none", "valid", "garbage", "notmacaroon"}), r.Intn(c26PkModes), r.Intn(c26ConnModes), r.Chance(1, 10))
		if rm.creds != nil && r.Chance(1, 8) { // a plain process that the cgroup lookup maps to a snap, and the reverse
			in.SnapOfPid = r.Pick([]string{c26Snap, c26InstSnap, c26OtherSnap, ""})
		}
		ins = append(ins, in)
	}

	// credential encoding: print, parse back
	pids := []int32{1, 2, 42, 1001, 2147483647, 0, -1, -2147483648, 10, 99999}
	uids := []uint32{0, 1, 1000, 65534, 4294967294, 4294967295, 2147483648}
	socks := []string{dirs.SnapdSocket, dirs.SnapSocket, "", "a;b", ";", "/run/x y", "/run/\u00e9\n", "iface=x", "&"}
	if !thorough {
		socks = []string{dirs.SnapdSocket, "", "a;b", "/run/\u00e9\n", "x;iface=y"}
	}
	for _, p := range pids {
		for _, u := range uids {
			for _, s := range socks {
				ins = append(ins, c26In{Kind: "cred", Pid: p, Uid: u, Socket: s})
			}
		}
	}
	for i := 0; i < n/3; i++ {
		ins = append(ins, c26In{Kind: "cred", Pid: int32(r.U64()), Uid: uint32(r.U64() >> uint(r.Intn(33))), Socket: r.Str("/run.snapd-socket; &=", 0, 12)})
	}
	// parser and attach on arbitrary strings: mutations of valid strings and grammar-shaped garbage
	var strs []string
	for _, rm := range all {
		strs = append(strs, rm.s)
	}
	for i := 0; i < n/2; i++ {
		base := []byte(all[r.Intn(len(all))].s)
		if r.Chance(1, 3) {
			base = []byte(r.Pick([]string{"pid=", "pid=1", "pid=1;uid=", "pid=1;uid=2;socket=", "pid=1;uid=2;socket=s;", "pid=1;uid=2;socket=s;iface=", "pid=1;uid=2;socket=s;iface=a&b&;", "pid=1;uid=2;socket=s;iface=&;"}) + r.Str("pidusocketfa=;&019 ", 0, 6))
		}
		for k := r.Intn(3); k > 0 && len(base) > 0; k-- {
			j := r.Intn(len(base))
			switch r.Intn(3) {
			case 0:
				base = append(base[:j], base[j+1:]...)
			case 1:
				base[j] = c26MutBytes[r.Intn(len(c26MutBytes))]
			default:
				base = append(base[:j], append([]byte{";=&05ai"[r.Intn(7)]}, base[j:]...)...)
			}
		}
		strs = append(strs, string(base))
	}
	for _, s := range strs {
		ins = append(ins, c26In{Kind: "parse", S: s})
		ins = append(ins, c26In{Kind: "attach", S: s, Iface: r.Pick([]string{"a", "b", "snap-themes-control", "network", "", "a&b", "x;y"})})
	}
	// attach then parse back (both tiers, exhaustive over a small scope): every kind of accepted address x every kind of
	// interface string, including the witnesses of C26_roundtrip_unguarded_refuted (separators inside the value)
	base := c26RemoteStr(42, 1000, dirs.SnapSocket)
	bases := []string{base, base + "iface=a;", base + "iface=a&b;", base + "iface=;", base + "iface=&;", base + "iface=b&a&snap-themes-control;",
		c26RemoteStr(42, 1000, "x;iface=y"), c26RemoteStr(42, 1000, "a;b"), c26RemoteStr(1, 0, ""), "garbage", ""}
	for _, b := range bases {
		for _, i := range []string{"a", "b", "c", "snap-themes-control", "", "a&b", "&", "x;y", "a;iface=b", ";"} {
			ins = append(ins, c26In{Kind: "attachparse", S: b, Iface: i})
			ins = append(ins, c26In{Kind: "attachparse", S: ucrednetAttachInterface(b, i), Iface: i}) // the second attach
		}
	}
	// noticeTypesViewableBySnap: every socket kind x what is attached x requested types (all lists of length <= 2 over the
	// six notice types and an unknown one, plus the three refresh-observe types together)
	ntypes := []string{"change-update", "warning", "refresh-inhibit", "snap-run-inhibit", "interfaces-requests-prompt", "interfaces-requests-rule-update", "bogus"}
	typeLists := [][]string{nil, {"change-update", "refresh-inhibit", "snap-run-inhibit"}, {"interfaces-requests-prompt", "interfaces-requests-rule-update", "change-update"}}
	for i, a := range ntypes {
		typeLists = append(typeLists, []string{a})
		for _, b := range ntypes[i+1:] {
			typeLists = append(typeLists, []string{a, b})
		}
	}
	attached := [][]string{nil, {"snap-refresh-observe"}, {"snap-interfaces-requests-control"}, {"snap-refresh-observe", "snap-interfaces-requests-control"},
		{"snap-themes-control"}, {"network", "snap-refresh-observ"}, {"snap-refresh-observe-x", ""}}
	for _, sock := range []string{dirs.SnapdSocket, dirs.SnapSocket, "/run/other.socket"} {
		for _, pre := range attached {
			rm := c26RemoteStr(42, 1000, sock)
			if pre != nil {
				rm += "iface=" + strings.Join(pre, "&") + ";"
			}
			for _, tl := range typeLists {
				ins = append(ins, c26In{Kind: "viewable", Remote: rm, Creds: &c26Cred{42, 1000, sock}, Pre: pre, Types: tl})
			}
		}
	}
	// snapctl: whose uid reaches ctlcmd.Run -- every credentialed / credential-less / unusual address
	for _, rm := range all {
		ins = append(ins, c26In{Kind: "snapctl", Remote: rm.s, Creds: rm.creds, Args: []string{"get", "foo"}})
	}
	for _, uid := range []uint64{0, 1, 1000, 65534, 4294967294} {
		ins = append(ins, c26In{Kind: "snapctl", Remote: c26RemoteStr(77, uid, dirs.SnapSocket), Creds: &c26Cred{77, uid, dirs.SnapSocket}, Args: []string{"set", "a=b"}})
	}
	for _, rm := range []string{"", "pid=;uid=;socket=;", c26RemoteStr(0, 0, dirs.SnapdSocket)} {
		for _, tl := range typeLists[:6] {
			ins = append(ins, c26In{Kind: "viewable", Remote: rm, Types: tl})
		}
	}
	return ins
}

// ---------------------------------------------------------------------------------------------- execution

func c26Path(c *Command) string {
	if c.PathPrefix != "" {
		return c.PathPrefix
	}
	return c.Path
}

type c26StubRsp struct{}

func (c26StubRsp) ServeHTTP(w http.ResponseWriter, r *http.Request) { w.WriteHeader(299) }

var (
	c26State *state.State
	c26User  *auth.UserState
)

func c26Setup() {
	if c26State != nil {
		return
	}
	c26State = state.New(nil)
	c26State.Lock()
	defer c26State.Unlock()
	u, err := auth.NewUser(c26State, auth.NewUserParams{Username: "someone", Email: "someone@example.com", Macaroon: "store-macaroon", Discharges: []string{"d"}})
	if err != nil {
		panic(err)
	}
	c26User = u
}

// the two well-known socket paths are printed by name only when they are the model's constants (default root dir)
func c26CoqSocket(s string) string {
	switch {
	case s == dirs.SnapdSocket && s == "/run/snapd.socket":
		return "snapd_socket"
	case s == dirs.SnapSocket && s == "/run/snapd-snap.socket":
		return "snap_socket"
	}
	return vh.CoqBytes(s)
}

// well-known snap names are printed through the model's vocabulary constants (same bytes) to keep the terms small
func c26CoqName(n string) string {
	switch n {
	case c26Snap:
		return "drv_snap"
	case c26OtherSnap:
		return "drv_other"
	case "core":
		return "drv_core"
	}
	return vh.CoqBytes(n)
}

func c26CoqCred(c *c26Cred) string {
	if c == nil {
		return "None"
	}
	return "(Some (mkUcred " + vh.CoqN(c.Pid) + " " + vh.CoqN(c.Uid) + " " + c26CoqSocket(c.Socket) + "))"
}

func c26CoqUcred(u *ucrednet) string {
	if u == nil {
		return "None"
	}
	return "(Some (mkUcred " + vh.CoqN(uint64(u.Pid)) + " " + vh.CoqN(uint64(u.Uid)) + " " + c26CoqSocket(u.Socket) + "))"
}

func c26CoqStrs(l []string) string {
	var items []string
	for _, s := range l {
		items = append(items, vh.CoqBytes(s))
	}
	return vh.CoqList(items)
}

func c26CoqPk(a string) string {
	switch a {
	case "yes":
		return "PkYes"
	case "dismissed":
		return "PkDismissed"
	case "error":
		return "PkError"
	}
	return "PkNo"
}

func c26Serve(in c26In) vh.Out {
	c26Setup()
	st := c26State
	if in.Ep < 0 || in.Ep >= len(api) {
		return vh.Out{Observed: c26Obs{Out: "no such endpoint"}, Coq: "(CTable 0%nat)", Tags: []string{"bad-endpoint"}}
	}
	orig := api[in.Ep]
	d := &Daemon{state: st}
	if in.Degraded {
		d.degradedErr = errors.New("degraded")
	}
	// a copy of the real Command: same access checkers, stub handlers exactly where the real ones are set
	ran := false
	var hcred *ucrednet
	var hifaces []string
	stub := func(c *Command, r *http.Request, user *auth.UserState) Response {
		ran = true
		uc, ifs, err := ucrednetGetWithInterfaces(r.RemoteAddr)
		if err == nil {
			hcred, hifaces = uc, ifs
		}
		return c26StubRsp{}
	}
	cmd := &Command{Path: orig.Path, PathPrefix: orig.PathPrefix, ReadAccess: orig.ReadAccess, WriteAccess: orig.WriteAccess, d: d}
	if orig.GET != nil {
		cmd.GET = stub
	}
	if orig.PUT != nil {
		cmd.PUT = stub
	}
	if orig.POST != nil {
		cmd.POST = stub
	}

	// state: connections
	conns := map[string]interface{}{}
	for i, c := range in.Conns {
		slot := c.Slot
		if slot == "" {
			slot = "core"
		}
		plugName, slotName := c.PlugName, c.SlotName
		if plugName == "" {
			plugName = fmt.Sprintf("plug%d", i)
		}
		if slotName == "" {
			slotName = fmt.Sprintf("slot%d", i)
		}
		ref := fmt.Sprintf("%s:%s %s:%s", c.Snap, plugName, slot, slotName)
		conns[ref] = map[string]interface{}{"interface": c.Iface, "undesired": c.Undesired, "hotplug-gone": c.HotplugGone}
	}
	st.Lock()
	st.Set("conns", conns)
	st.Unlock()

	// mocks at the package's own mock points
	oldPk, oldCg := polkitCheckAuthorization, cgroupSnapNameFromPid
	defer func() { polkitCheckAuthorization, cgroupSnapNameFromPid = oldPk, oldCg }()
	polkitCheckAuthorization = func(pid int32, uid uint32, actionId string, details map[string]string, flags polkit.CheckFlags) (bool, error) {
		a, ok := in.Pk[actionId]
		if !ok {
			a = in.PkDefault
		}
		switch a {
		case "yes":
			return true, nil
		case "dismissed":
			return false, polkit.ErrDismissed
		case "error":
			return false, errors.New("polkit is not there")
		}
		return false, nil
	}
	cgroupSnapNameFromPid = func(pid int) (string, error) {
		if in.SnapOfPid == "" {
			return "", errors.New("not a snap")
		}
		return in.SnapOfPid, nil
	}

	req := httptest.NewRequest(in.Method, "http://localhost"+strings.NewReplacer("{", "", "}", "").Replace(c26Path(orig)), nil)
	req.RemoteAddr = in.Remote
	switch in.Auth {
	case "valid":
		req.Header.Set("Authorization", fmt.Sprintf(`Macaroon root="%s"`, c26User.Macaroon))
	case "garbage":
		req.Header.Set("Authorization", `Macaroon root="garbage"`)
	case "notmacaroon":
		req.Header.Set("Authorization", "Basic "+c26User.Macaroon)
	}
	rec := httptest.NewRecorder()
	panicked := false
	func() {
		defer func() {
			if e := recover(); e != nil {
				panicked = true
			}
		}()
		cmd.ServeHTTP(rec, req)
	}()

	class, coqClass := "denied", "ODenied"
	switch {
	case panicked:
		class, coqClass = "panic", "OPanic"
	case ran:
		class, coqClass = "served", "OServed"
	case rec.Code == 405:
		class, coqClass = "not-allowed", "ONotAllowed"
	case rec.Code == 500:
		class, coqClass = "internal", "OInternal"
	case rec.Code == 401 || rec.Code == 403:
	default:
		class, coqClass = fmt.Sprintf("status-%d", rec.Code), "OPanic"
	}
	sort.Strings(hifaces)
	obs := c26Obs{Class: class, Status: rec.Code, HIfaces: hifaces}
	if hcred != nil {
		obs.HCred = hcred.String()
	}

	meth := "OTHER"
	switch in.Method {
	case "GET", "PUT", "POST":
		meth = in.Method
	}
	var pkItems []string
	var keys []string
	for k := range in.Pk {
		keys = append(keys, k)
	}
	sort.Strings(keys)
	for _, k := range keys {
		pkItems = append(pkItems, "("+vh.CoqBytes(k)+", "+c26CoqPk(in.Pk[k])+")")
	}
	var connItems []string
	for _, c := range in.Conns {
		slot := c.Slot
		if slot == "" {
			slot = "core"
		}
		connItems = append(connItems, "(mkConn "+c26CoqName(c.Snap)+" "+c26CoqName(slot)+" "+vh.CoqBytes(c.Iface)+" "+vh.CoqBool(c.Undesired)+" "+vh.CoqBool(c.HotplugGone)+")")
	}
	pkCoq := "(pk_table " + vh.CoqList(pkItems) + " " + c26CoqPk(in.PkDefault) + ")"
	if in.PkMode >= 0 && in.PkMode < c26PkModes {
		if pk, def := c26PkMode(in.PkMode); def == in.PkDefault && fmt.Sprint(pk) == fmt.Sprint(in.Pk) {
			pkCoq = "(drv_pk " + vh.CoqNat(in.PkMode) + ")"
		}
	}
	connCoq := vh.CoqList(connItems)
	if in.ConnMode >= 0 && in.ConnMode < c26ConnModes && fmt.Sprint(c26ConnMode(in.ConnMode)) == fmt.Sprint(in.Conns) {
		connCoq = "(drv_conns " + vh.CoqNat(in.ConnMode) + ")"
	}
	snapCoq := vh.CoqOpt(in.SnapOfPid != "", c26CoqName(in.SnapOfPid))
	ctx := "(mkCtx " + vh.CoqBytes(in.Remote) + " " + vh.CoqBool(in.Auth == "valid") + " " + pkCoq + " " +
		snapCoq + " " + connCoq + " " + vh.CoqBool(in.Degraded) + ")"
	coq := "(CServe " + vh.CoqNat(in.Ep) + " " + vh.CoqBytes(c26Path(orig)) + " " + meth + " " + ctx + " " + c26CoqCred(in.Creds) + " " + c26CoqStrs(in.Pre) + " " + coqClass + " " +
		c26CoqUcred(hcred) + " " + c26CoqStrs(hifaces) + ")"

	sockKind := "nocreds"
	if in.Creds != nil {
		switch in.Creds.Socket {
		case dirs.SnapdSocket:
			sockKind = "snapd-socket"
		case dirs.SnapSocket:
			sockKind = "snap-socket"
		default:
			sockKind = "other-socket"
		}
	}
	tags := []string{"serve", class, sockKind, "m-" + in.Method, fmt.Sprintf("access-%T", c26Access(orig, in.Method))}
	if ran && sockKind == "snap-socket" {
		tags = append(tags, "served-on-snap-socket")
	}
	return vh.Out{Observed: obs, Coq: coq, NonTrivial: ran || (in.Creds != nil && class == "denied"), Tags: tags}
}

func c26Access(c *Command, m string) accessChecker {
	switch m {
	case "GET":
		return c.ReadAccess
	case "PUT", "POST":
		return c.WriteAccess
	}
	return nil
}

func c26Exec(in c26In) vh.Out {
	switch in.Kind {
	case "table":
		return vh.Out{Observed: c26Obs{Out: fmt.Sprint(len(api))}, Coq: "(CTable " + vh.CoqNat(len(api)) + ")", Tags: []string{"table"}}
	case "serve":
		return c26Serve(in)
	case "cred":
		u := &ucrednet{Pid: in.Pid, Uid: in.Uid, Socket: in.Socket}
		printed := u.String()
		back, ifs, _ := ucrednetGetWithInterfaces(printed)
		coq := "(CCred " + vh.CoqZ(int64(in.Pid)) + " " + vh.CoqN(uint64(in.Uid)) + " " + vh.CoqBytes(in.Socket) + " " + vh.CoqBytes(printed) + " " +
			c26CoqUcred(back) + " " + c26CoqStrs(ifs) + ")"
		return vh.Out{Observed: c26Obs{Out: printed, HCred: fmt.Sprint(back)}, Coq: coq, NonTrivial: back != nil, Tags: []string{"cred"}}
	case "parse":
		back, ifs, _ := ucrednetGetWithInterfaces(in.S)
		coq := "(CParse " + vh.CoqBytes(in.S) + " " + c26CoqUcred(back) + " " + c26CoqStrs(ifs) + ")"
		tag := "parse-rejected"
		if back != nil {
			tag = "parse-accepted"
		}
		return vh.Out{Observed: c26Obs{HCred: fmt.Sprint(back), HIfaces: ifs}, Coq: coq, NonTrivial: back != nil, Tags: []string{tag}}
	case "snapctl":
		return c26Snapctl(in)
	case "attachparse":
		out := ucrednetAttachInterface(in.S, in.Iface)
		back, ifs, _ := ucrednetGetWithInterfaces(out)
		coq := "(CAttachParse " + vh.CoqBytes(in.S) + " " + vh.CoqBytes(in.Iface) + " " + vh.CoqBytes(out) + " " + c26CoqUcred(back) + " " + c26CoqStrs(ifs) + ")"
		tag := "attachparse-lost"
		if back != nil {
			tag = "attachparse-kept"
		}
		return vh.Out{Observed: c26Obs{Out: out, HCred: fmt.Sprint(back), HIfaces: ifs}, Coq: coq, NonTrivial: back != nil, Tags: []string{tag}}
	case "viewable":
		req := httptest.NewRequest("GET", "http://localhost/v2/notices", nil)
		req.RemoteAddr = in.Remote
		var types []state.NoticeType
		for _, t := range in.Types {
			types = append(types, state.NoticeType(t))
		}
		ok := noticeTypesViewableBySnap(types, req)
		coq := "(CViewable " + c26CoqStrs(in.Types) + " " + vh.CoqBytes(in.Remote) + " " + c26CoqCred(in.Creds) + " " + c26CoqStrs(in.Pre) + " " + vh.CoqBool(ok) + ")"
		tag := "viewable-no"
		if ok {
			tag = "viewable-yes"
		}
		return vh.Out{Observed: c26Obs{Out: fmt.Sprint(ok)}, Coq: coq, NonTrivial: ok && in.Creds != nil && in.Creds.Socket != dirs.SnapdSocket, Tags: []string{tag}}
	case "attach":
		out := ucrednetAttachInterface(in.S, in.Iface)
		coq := "(CAttach " + vh.CoqBytes(in.S) + " " + vh.CoqBytes(in.Iface) + " " + vh.CoqBytes(out) + ")"
		return vh.Out{Observed: c26Obs{Out: out}, Coq: coq, NonTrivial: out != in.S, Tags: []string{"attach"}}
	}
	panic("unknown kind " + in.Kind)
}

var c26Overlord *overlord.Overlord

// the real snapctlCmd (real checker, real runSnapctl) behind the real ServeHTTP; only ctlcmd.Run is replaced, at the
// package's own mock point, by a recorder
func c26Snapctl(in c26In) vh.Out {
	if c26Overlord == nil {
		o := overlord.Mock()
		hm, err := hookstate.Manager(o.State(), o.TaskRunner())
		if err != nil {
			panic(err)
		}
		o.AddManager(hm)
		c26Overlord = o
	}
	d := &Daemon{state: c26Overlord.State(), overlord: c26Overlord}
	cmd := &Command{Path: snapctlCmd.Path, POST: snapctlCmd.POST, WriteAccess: snapctlCmd.WriteAccess, ReadAccess: snapctlCmd.ReadAccess, d: d}
	called, uid := false, uint32(0)
	old := ctlcmdRun
	defer func() { ctlcmdRun = old }()
	ctlcmdRun = func(ctx *hookstate.Context, args []string, u uint32) ([]byte, []byte, error) {
		called, uid = true, u
		return nil, nil, nil
	}
	var items []string
	for _, a := range in.Args {
		items = append(items, fmt.Sprintf("%q", a))
	}
	body := `{"context-id": "", "args": [` + strings.Join(items, ",") + `]}`
	req := httptest.NewRequest("POST", "http://localhost/v2/snapctl", strings.NewReader(body))
	req.RemoteAddr = in.Remote
	rec := httptest.NewRecorder()
	cmd.ServeHTTP(rec, req)
	coq := "(CSnapctl " + vh.CoqBytes(in.Remote) + " " + c26CoqCred(in.Creds) + " " + vh.CoqBool(called) + " " + vh.CoqN(uint64(uid)) + ")"
	tag := "snapctl-refused"
	if called {
		tag = "snapctl-run"
	}
	return vh.Out{Observed: c26Obs{Out: fmt.Sprint(called, " uid=", uid), Status: rec.Code}, Coq: coq, NonTrivial: called, Tags: []string{tag}}
}

func TestVerifC26(t *testing.T) { vh.Run(c26Gen, c26Exec) }
