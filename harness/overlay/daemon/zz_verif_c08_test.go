//go:build verif

// Driver for C08 (API level): calls the real daemon.getNotices on a state filled through State.AddNotice (mocked
// server clock) with requests whose RemoteAddr carries different uids (root, two users, unidentifiable) and whose
// query names user-id / users / types / keys / after in valid and invalid forms. Prints each request with the HTTP
// status and the ids of the notices returned as a Coq term of type V.models.Notices.acase.
package daemon

import (
	"fmt"
	"net/http"
	"net/url"
	"strconv"
	"strings"
	"testing"
	"time"

	"github.com/snapcore/snapd/dirs"
	"github.com/snapcore/snapd/overlord"
	"github.com/snapcore/snapd/overlord/state"
	"github.com/snapcore/snapd/zzverif/vh"
)

type c08Add struct {
	Clock int64   `json:"clock"`
	User  *uint32 `json:"user"`
	Type  string  `json:"type"`
	Key   string  `json:"key"`
	RA    int64   `json:"ra"`
}

type c08In struct {
	Adds   []c08Add `json:"adds"`
	UID    *uint32  `json:"uid"`    // nil: RemoteAddr does not identify a user
	Remote string   `json:"remote"` // RemoteAddr when UID is nil
	UserID []string `json:"user-id"`
	Users  []string `json:"users"`
	Types  []string `json:"types"`
	Keys   []string `json:"keys"`
	After  *int64   `json:"after"`     // offset from the base instant
	BadAft string   `json:"bad-after"` // unparsable after value (used when non-empty)
}

type c08Obs struct {
	Status int      `json:"status"`
	IDs    []uint64 `json:"ids"`
}

var c08Types = []string{"change-update", "warning", "refresh-inhibit", "snap-run-inhibit", "interfaces-requests-prompt",
	"interfaces-requests-rule-update"}
var c08Keys = []string{"a", "b", "-", "c d"}

func c08OptN(u *uint32) string {
	if u == nil {
		return "None"
	}
	return "(Some " + vh.CoqN(uint64(*u)) + ")"
}
func c08Type(t string) string {
	for i, v := range c08Types {
		if v == t {
			return fmt.Sprintf("(ty %d)", i)
		}
	}
	return vh.CoqBytes(t)
}
func c08Key(k string) string {
	for i, v := range c08Keys {
		if v == k {
			return fmt.Sprintf("(ky %d)", i)
		}
	}
	return vh.CoqBytes(k)
}
func c08Strs(l []string) string {
	items := make([]string, len(l))
	for i, s := range l {
		items[i] = vh.CoqBytes(s)
	}
	return vh.CoqList(items)
}

func c08Exec(in c08In) vh.Out {
	base := time.Now().UTC().Truncate(time.Second)
	o := overlord.Mock()
	d := &Daemon{overlord: o, state: o.State()}
	cmd := &Command{d: d}
	st := o.State()
	st.Lock()
	var coqAdds []string
	for _, a := range in.Adds {
		restore := state.MockTime(base.Add(time.Duration(a.Clock)))
		st.AddNotice(a.User, state.NoticeType(a.Type), a.Key, &state.AddNoticeOptions{RepeatAfter: time.Duration(a.RA)})
		restore()
		coqAdds = append(coqAdds, "(mkA "+vh.CoqZ(a.Clock)+" "+c08OptN(a.User)+" "+c08Type(a.Type)+" "+c08Key(a.Key)+" "+
			vh.CoqZ(a.RA)+" None)")
	}
	st.Unlock()

	q := url.Values{}
	for _, v := range in.UserID {
		q.Add("user-id", v)
	}
	for _, v := range in.Users {
		q.Add("users", v)
	}
	for _, v := range in.Types {
		q.Add("types", v)
	}
	for _, v := range in.Keys {
		q.Add("keys", v)
	}
	coqAfter := "None"
	if in.BadAft != "" {
		q.Set("after", in.BadAft)
		coqAfter = "(Some None)"
	} else if in.After != nil {
		q.Set("after", base.Add(time.Duration(*in.After)).Format(time.RFC3339Nano))
		coqAfter = "(Some (Some " + vh.CoqZ(*in.After) + "))"
	}
	req, err := http.NewRequest("GET", "/v2/notices?"+q.Encode(), nil)
	if err != nil {
		panic(err)
	}
	if in.UID != nil {
		req.RemoteAddr = fmt.Sprintf("pid=100;uid=%d;socket=%s;", *in.UID, dirs.SnapdSocket)
	} else {
		req.RemoteAddr = in.Remote
	}
	rsp := getNotices(cmd, req, nil)
	obs := c08Obs{IDs: []uint64{}}
	tags := []string{}
	switch r := rsp.(type) {
	case *apiError:
		obs.Status = r.Status
	case *respJSON:
		obs.Status = r.Status
		ns, ok := r.Result.([]*state.Notice)
		if !ok {
			panic(fmt.Sprintf("unexpected result type %T", r.Result))
		}
		for _, n := range ns {
			// "Notice <id> (...)"
			f := strings.Fields(n.String())
			id, err := strconv.ParseUint(f[1], 10, 64)
			if err != nil {
				panic(err)
			}
			obs.IDs = append(obs.IDs, id)
		}
	default:
		panic(fmt.Sprintf("unexpected response type %T", rsp))
	}
	tags = append(tags, fmt.Sprintf("status-%d", obs.Status))
	if in.UID == nil {
		tags = append(tags, "uid-unknown")
	} else if *in.UID == 0 {
		tags = append(tags, "uid-root")
	} else {
		tags = append(tags, "uid-user")
	}
	ids := make([]string, len(obs.IDs))
	for i, id := range obs.IDs {
		ids[i] = vh.CoqN(id)
	}
	coq := "(ACase " + vh.CoqList(coqAdds) + "\n   (mkQ " + c08OptN(in.UID) + " " + c08Strs(in.UserID) + " " + c08Strs(in.Users) + " " +
		c08Strs(in.Types) + " " + c08Strs(in.Keys) + " " + coqAfter + ") " + vh.CoqN(uint64(obs.Status)) + " " + vh.CoqList(ids) + ")"
	return vh.Out{Observed: obs, Coq: coq, NonTrivial: obs.Status == 200 && len(obs.IDs) > 0 && in.UID != nil && *in.UID != 0, Tags: tags}
}

func c08U32(v uint32) *uint32 { return &v }

func c08GenAdds(r *vh.Rand) []c08Add {
	var adds []c08Add
	clock := int64(r.Range(0, 5))
	users := []*uint32{nil, nil, c08U32(0), c08U32(1000), c08U32(1001)}
	for k := r.Range(2, 8); k > 0; k-- {
		clock += int64(r.Range(-2, 4))
		t := r.Pick(c08Types)
		key := r.Pick(c08Keys)
		if t == "refresh-inhibit" {
			key = "-"
		}
		a := c08Add{Clock: clock, User: users[r.Intn(len(users))], Type: t, Key: key}
		if r.Chance(1, 4) {
			a.RA = int64(r.Range(1, 6))
		}
		adds = append(adds, a)
	}
	return adds
}

func c08Gen(r *vh.Rand, tier string, n int) []c08In {
	var ins []c08In
	// complete cross product of the caller / user-id / users dimensions on one fixed state
	fixed := []c08Add{
		{Clock: 1, User: nil, Type: "warning", Key: "a"},
		{Clock: 2, User: c08U32(1000), Type: "change-update", Key: "b"},
		{Clock: 3, User: c08U32(1001), Type: "warning", Key: "a"},
		{Clock: 4, User: c08U32(0), Type: "snap-run-inhibit", Key: "-"},
	}
	uids := []*uint32{c08U32(0), c08U32(1000), c08U32(1001), nil}
	userIDs := [][]string{nil, {"1000"}, {"1001"}, {"0"}, {"x"}, {"1000,1001"}, {""}}
	userss := [][]string{nil, {"all"}, {"x"}, {""}}
	for _, u := range uids {
		for _, ui := range userIDs {
			for _, us := range userss {
				ins = append(ins, c08In{Adds: fixed, UID: u, Remote: "pid=100;uid=;socket=;", UserID: ui, Users: us})
			}
		}
	}
	if n <= 0 {
		n = 300
	}
	for i := 0; i < n; i++ {
		rr := r.Fork()
		in := c08In{Adds: c08GenAdds(rr)}
		switch rr.Intn(10) {
		case 0, 1, 2, 3:
			in.UID = c08U32(0)
		case 4, 5, 6:
			in.UID = c08U32(1000)
		case 7, 8:
			in.UID = c08U32(1001)
		default:
			in.Remote = rr.Pick([]string{"", "garbage", "pid=100;uid=;socket=;", "pid=100;uid=4294967295;socket=/run/snapd.socket;",
				"uid=0", "pid=100;uid=0"})
		}
		if rr.Chance(2, 5) {
			in.UserID = [][]string{{"1000"}, {"0"}, {"1001"}, {"1000,1001"}, {"abc"}, {"-1"}, {"4294967296"}, {"4294967295"},
				{" 1000 "}, {"1000", "1001"}, {""}, {"+1000"}, {"-0"}, {"1000,"}, {"99999999999999999999"}, {"1 000"}}[rr.Intn(16)]
		}
		if rr.Chance(1, 4) {
			in.Users = [][]string{{"all"}, {"all"}, {"ALL"}, {"all", "x"}, {"x", "all"}, {""}, {" all"}}[rr.Intn(7)]
		}
		if rr.Chance(1, 3) {
			in.Types = [][]string{{"warning"}, {"warning,change-update"}, {"bogus"}, {"bogus,warning"}, {" warning , ,change-update"},
				{"warning,warning"}, {"snap-run-inhibit", "warning"}, {","}, {"refresh-inhibit,interfaces-requests-prompt"}}[rr.Intn(9)]
		}
		if rr.Chance(1, 3) {
			in.Keys = [][]string{{"a"}, {"a,b"}, {" a ,, - "}, {"c d"}, {"zzz"}, {"b", "-"}}[rr.Intn(6)]
		}
		switch rr.Intn(6) {
		case 0:
			off := int64(rr.Range(-2, 12))
			in.After = &off
		case 1:
			in.BadAft = rr.Pick([]string{"yesterday", "12:00", "2024-13-01T00:00:00Z"})
		}
		ins = append(ins, in)
	}
	return ins
}

func TestVerifC08Api(t *testing.T) { vh.Run(c08Gen, c08Exec) }
