//go:build verif && !cgo

// Stubs for the symbols that bootstrap.go (a cgo file, excluded when CGO_ENABLED=0) provides, so that the rest of
// package main of cmd/snap-update-ns (change.go, sorting.go, update.go ...) builds unmodified for the C28 driver.
// Never part of /repo: added to the build through `go -overlay`.
package main

import "errors"

var ErrNoNamespace = errors.New("cannot update mount namespace that was not created yet")

func BootstrapError() error { return nil }

func clearBootstrapError() {}

func validateInstanceName(instanceName string) int { return 0 }

func processArguments(args []string) (snapName string, shouldSetNs bool, processUserFstab bool, uid uint) {
	return "", false, false, 0
}
