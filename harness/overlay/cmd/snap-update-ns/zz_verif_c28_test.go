//go:build verif

// Drivers for C28, in-package (package main of cmd/snap-update-ns, built with CGO_ENABLED=0 and the stubs of
// zz_verif_c28_stubs.go):
//
//	TestVerifC28Codec   osutil mount entry codec (Escape/Unescape, MountEntry.String, ParseMountEntry,
//	                    SaveMountProfileText/LoadMountProfileText) -> V.models.MountEntry.case
//	TestVerifC28Changes histories of desired profiles run through the real executeMountProfileUpdate /
//	                    neededChanges with a simulated Change.Perform -> V.models.MountNS.case
package main

import (
	"errors"
	"fmt"
	"os"
	"path/filepath"
	"sort"
	"strconv"
	"strings"
	"testing"

	"github.com/snapcore/snapd/osutil"
	"github.com/snapcore/snapd/zzverif/vh"
)

// ---------------------------------------------------------------- shared: entries as JSON-serialisable inputs

// byte slices so that arbitrary (non UTF-8) bytes survive the JSON replay file
type c28Ent struct {
	Name []byte   `json:"name"`
	Dir  []byte   `json:"dir"`
	Type []byte   `json:"type"`
	Opts [][]byte `json:"opts"`
	Freq int64    `json:"freq"`
	Pass int64    `json:"pass"`
}

func (e c28Ent) entry() osutil.MountEntry {
	var opts []string
	for _, o := range e.Opts {
		opts = append(opts, string(o))
	}
	return osutil.MountEntry{Name: string(e.Name), Dir: string(e.Dir), Type: string(e.Type), Options: opts,
		DumpFrequency: int(e.Freq), CheckPassNumber: int(e.Pass)}
}

func c28FromEntry(e osutil.MountEntry) c28Ent {
	out := c28Ent{Name: []byte(e.Name), Dir: []byte(e.Dir), Type: []byte(e.Type), Freq: int64(e.DumpFrequency), Pass: int64(e.CheckPassNumber)}
	for _, o := range e.Options {
		out.Opts = append(out.Opts, []byte(o))
	}
	return out
}

func c28CoqEntry(e osutil.MountEntry) string {
	opts := make([]string, len(e.Options))
	for i, o := range e.Options {
		opts[i] = vh.CoqBytes(o)
	}
	return "(mkEntry " + vh.CoqBytes(e.Name) + " " + vh.CoqBytes(e.Dir) + " " + vh.CoqBytes(e.Type) + " " + vh.CoqList(opts) + " " +
		vh.CoqZ(int64(e.DumpFrequency)) + " " + vh.CoqZ(int64(e.CheckPassNumber)) + ")"
}

func c28CoqEntries(es []osutil.MountEntry) string {
	items := make([]string, len(es))
	for i, e := range es {
		items[i] = c28CoqEntry(e)
	}
	return vh.CoqList(items)
}

func c28CoqOptEntry(e osutil.MountEntry, err error) string {
	return vh.CoqOpt(err == nil, c28CoqEntry(e))
}

// ---------------------------------------------------------------- codec driver

type c28CodecIn struct {
	Kind    string   `json:"kind"` // entry | line | esc | profile | text
	E       *c28Ent  `json:"e,omitempty"`
	S       []byte   `json:"s,omitempty"`
	Entries []c28Ent `json:"entries,omitempty"`
}

// the property's guard (fields non-empty, not starting with #, options: at least one, none with a comma, the joined
// text non-empty and not starting with #)
func c28Guarded(e osutil.MountEntry) bool {
	for _, f := range []string{e.Name, e.Dir, e.Type} {
		if f == "" || f[0] == '#' {
			return false
		}
	}
	if len(e.Options) == 0 {
		return false
	}
	for _, o := range e.Options {
		if strings.Contains(o, ",") {
			return false
		}
	}
	j := strings.Join(e.Options, ",")
	return j != "" && j[0] != '#'
}

func c28CodecExec(in c28CodecIn) vh.Out {
	switch in.Kind {
	case "entry":
		e := in.E.entry()
		str := e.String()
		back, err := osutil.ParseMountEntry(str)
		obs := map[string]interface{}{"string": str, "back_ok": err == nil, "back": c28FromEntry(back), "same": err == nil && back.Equal(&e)}
		coq := "(CEntry " + c28CoqEntry(e) + " " + vh.CoqBytes(str) + " " + c28CoqOptEntry(back, err) + ")"
		tag := "entry-unguarded"
		if c28Guarded(e) {
			tag = "entry-guarded"
		}
		tags := []string{tag}
		if strings.ContainsAny(str, "\\") {
			tags = append(tags, "entry-with-escapes")
		}
		return vh.Out{Observed: obs, Coq: coq, NonTrivial: c28Guarded(e), Tags: tags}
	case "line":
		p, err := osutil.ParseMountEntry(string(in.S))
		obs := map[string]interface{}{"ok": err == nil, "parsed": c28FromEntry(p)}
		coq := "(CLine " + vh.CoqBytes(string(in.S)) + " " + c28CoqOptEntry(p, err) + ")"
		tag := "line-rejected"
		if err == nil {
			tag = "line-accepted"
		}
		return vh.Out{Observed: obs, Coq: coq, NonTrivial: err == nil, Tags: []string{tag}}
	case "esc":
		s := string(in.S)
		e, u := osutil.Escape(s), osutil.Unescape(s)
		b := osutil.Unescape(e)
		obs := map[string]interface{}{"escape": []byte(e), "unescape": []byte(u), "back": []byte(b)}
		coq := "(CEsc " + vh.CoqBytes(s) + " " + vh.CoqBytes(e) + " " + vh.CoqBytes(u) + " " + vh.CoqBytes(b) + ")"
		tag := "esc-plain"
		if e != s || u != s {
			tag = "esc-changes"
		}
		return vh.Out{Observed: obs, Coq: coq, NonTrivial: e != s || u != s, Tags: []string{tag}}
	case "profile":
		var p osutil.MountProfile
		for _, e := range in.Entries {
			p.Entries = append(p.Entries, e.entry())
		}
		text, err := osutil.SaveMountProfileText(&p)
		if err != nil {
			panic(err)
		}
		back, lerr := osutil.LoadMountProfileText(text)
		var bes []osutil.MountEntry
		if lerr == nil {
			bes = back.Entries
		}
		obs := map[string]interface{}{"text": []byte(text), "back_ok": lerr == nil, "back_len": len(bes)}
		coq := "(CProfile " + c28CoqEntries(p.Entries) + " " + vh.CoqBytes(text) + " " + vh.CoqOpt(lerr == nil, c28CoqEntries(bes)) + ")"
		allGuarded := true
		for _, e := range p.Entries {
			allGuarded = allGuarded && c28Guarded(e)
		}
		tag := "profile-unguarded"
		if allGuarded {
			tag = "profile-guarded"
		}
		return vh.Out{Observed: obs, Coq: coq, NonTrivial: allGuarded && len(p.Entries) > 0, Tags: []string{tag}}
	case "text":
		back, lerr := osutil.LoadMountProfileText(string(in.S))
		var bes []osutil.MountEntry
		if lerr == nil {
			bes = back.Entries
		}
		obs := map[string]interface{}{"ok": lerr == nil, "len": len(bes)}
		coq := "(CText " + vh.CoqBytes(string(in.S)) + " " + vh.CoqOpt(lerr == nil, c28CoqEntries(bes)) + ")"
		tag := "text-rejected"
		if lerr == nil {
			tag = "text-accepted"
		}
		return vh.Out{Observed: obs, Coq: coq, NonTrivial: lerr == nil && len(bes) > 0, Tags: []string{tag}}
	}
	panic("unknown kind " + in.Kind)
}

var c28Words = []string{"/snap/foo/42/usr", "/usr/share/x", "/var/lib/snapd/hostfs", "tmpfs", "none", "bind", "rbind", "ro", "rw",
	"x-snapd.origin=layout", "x-snapd.kind=symlink", "x-snapd.symlink=/a b", "x-snapd.needed-by=/usr/share/x y", "mode=0755",
	`\040`, `\134`, `\011`, `\012`, `\04`, `\0400`, `\\`, "#", " ", "\t", "\n", "a b", "My Documents", "\r", "\v", "\f",
	"\xc2\x85", "\xc2\xa0", "\xe2\x80\x83", "\xe3\x80\x80", "\xe1\x9a\x80", "\xe2\x81\x9f", "\xc2", "\xff", "é", "defaults", "0"}

const c28Alpha = "ab/ \t\n\\#,=.-x0134\r\v"

// a field value: mostly sane, sometimes hostile
func c28Field(r *vh.Rand, hostile bool) []byte {
	if !hostile {
		switch r.Intn(4) {
		case 0:
			return []byte(r.Pick(c28Words[:14]))
		case 1:
			return []byte("/" + r.Str("abc", 1, 3) + "/" + r.Str("abc d", 1, 4))
		}
		return []byte(r.Str("abcxyz/-._", 1, 8))
	}
	var sb strings.Builder
	n := r.Range(0, 4)
	for i := 0; i < n; i++ {
		if r.Bool() {
			sb.WriteString(r.Pick(c28Words))
		} else {
			sb.WriteString(r.Str(c28Alpha, 1, 3))
		}
	}
	return []byte(sb.String())
}

func c28IntVal(r *vh.Rand) int64 {
	switch r.Intn(8) {
	case 0:
		return int64(r.U64() >> uint(r.Intn(64)))
	case 1:
		return -int64(r.U64() >> uint(1+r.Intn(63)))
	case 2:
		return []int64{-1, 9223372036854775807, -9223372036854775808, 10, 100, -10}[r.Intn(6)]
	}
	return int64(r.Intn(3))
}

func c28RandEntry(r *vh.Rand, hostile bool) c28Ent {
	e := c28Ent{Name: c28Field(r, hostile), Dir: c28Field(r, hostile), Type: c28Field(r, hostile), Freq: c28IntVal(r), Pass: c28IntVal(r)}
	n := r.Range(1, 4)
	if hostile && r.Chance(1, 6) {
		n = 0
	}
	for i := 0; i < n; i++ {
		o := c28Field(r, hostile)
		if !hostile || r.Chance(3, 4) { // mostly comma free
			o = []byte(strings.ReplaceAll(string(o), ",", ";"))
		}
		e.Opts = append(e.Opts, o)
	}
	return e
}

func c28Line(r *vh.Rand) []byte {
	switch r.Intn(6) {
	case 0:
		return []byte(r.Pick([]string{"", " ", "#", "# comment", "a b", "a b c", "a b c d", "a b c d 1", "a b c d 1 2", "a b c d 1 2 3",
			"a b c d x 2", "a b c d 1 y", "a b c d +1 -2", "a b c d 01 002", "a b c d 9223372036854775807 -9223372036854775808",
			"a b c d 9223372036854775808 0", "a b c d -9223372036854775809 0", "a b c d 1_0 0", "a b c d 0x1 0", "a b c d - 0", "a b c d + 0",
			"a b c # d 1 2", "a b #c d 1 2", "a #b c", "#a b c d", "a b c d#e 1 2", "a\tb\t\tc  d\t1 2 ", "  a b c", `a\040b c\011 d\012 e\134 0 0`,
			`\040 \04 \0400 \134040 0 0`, `a b c , 0 0`, `a b c ,, 0 0`, `a b c x,,y 0 0`, "a b c d 1 2 #", "a b c d 1 #2", " a b c", "a b c d"}))
	case 1, 2:
		// a few random fields with random separators
		var sb strings.Builder
		n := r.Range(0, 7)
		for i := 0; i < n; i++ {
			sb.WriteString(r.Pick([]string{" ", "\t", "  ", " \t ", ""}))
			if i >= 4 && r.Chance(3, 4) {
				sb.WriteString(r.Pick([]string{"0", "1", "-1", "+7", "00", "x", "12345678901234567890", "9"}))
			} else {
				sb.Write(c28Field(r, r.Chance(1, 3)))
			}
		}
		return []byte(strings.ReplaceAll(sb.String(), "\n", "n"))
	case 3:
		return []byte(r.Str(c28Alpha, 0, 12))
	}
	e := c28RandEntry(r, r.Chance(1, 4)).entry()
	s := e.String()
	if r.Chance(1, 3) && len(s) > 0 { // damage it
		i := r.Intn(len(s))
		s = s[:i] + r.Pick([]string{" ", "#", "\\", "\t", "x", ""}) + s[i+r.Intn(2)*0:]
	}
	return []byte(s)
}

func c28CodecGen(r *vh.Rand, tier string, n int) []c28CodecIn {
	if n == 0 {
		n = 1200
	}
	var ins []c28CodecIn
	// escape/unescape: every string of length <= 2 over the bytes that matter, then random
	small := []byte{' ', '\t', '\n', '\\', '0', '4', '1', '3', 'a'}
	ins = append(ins, c28CodecIn{Kind: "esc", S: []byte{}})
	for _, a := range small {
		ins = append(ins, c28CodecIn{Kind: "esc", S: []byte{a}})
		for _, b := range small {
			ins = append(ins, c28CodecIn{Kind: "esc", S: []byte{a, b}})
		}
	}
	for _, w := range []string{`\040`, `\011`, `\012`, `\134`, `\0401`, `\\040`, `\134040`, `\04\040`, `\13\134`, `a\040b\011c\012d\134e`, `\041`, `\013`, `\135`} {
		ins = append(ins, c28CodecIn{Kind: "esc", S: []byte(w)})
	}
	for k := 0; k < n/6; k++ {
		ins = append(ins, c28CodecIn{Kind: "esc", S: c28Field(r, true)})
	}
	// entries: edge cases for every guard, then random sane and hostile ones
	b := func(s string) []byte { return []byte(s) }
	edge := []c28Ent{
		{Name: b("a"), Dir: b("b"), Type: b("c"), Opts: [][]byte{b("d")}},
		{Name: b(""), Dir: b("b"), Type: b("c"), Opts: [][]byte{b("d")}},
		{Name: b("a"), Dir: b(""), Type: b("c"), Opts: [][]byte{b("d")}},
		{Name: b("a"), Dir: b("b"), Type: b(""), Opts: [][]byte{b("d")}},
		{Name: b("a"), Dir: b("b"), Type: b("c")},
		{Name: b("a"), Dir: b("b"), Type: b("c"), Opts: [][]byte{b("")}},
		{Name: b("a"), Dir: b("b"), Type: b("c"), Opts: [][]byte{b(""), b("")}},
		{Name: b("a"), Dir: b("b"), Type: b("c"), Opts: [][]byte{b("x,y")}},
		{Name: b("a"), Dir: b("b"), Type: b("c"), Opts: [][]byte{b("x"), b("")}},
		{Name: b("#a"), Dir: b("b"), Type: b("c"), Opts: [][]byte{b("d")}},
		{Name: b("a"), Dir: b("#b"), Type: b("c"), Opts: [][]byte{b("d")}},
		{Name: b("a"), Dir: b("b"), Type: b("#c"), Opts: [][]byte{b("d")}},
		{Name: b("a"), Dir: b("b"), Type: b("c"), Opts: [][]byte{b("#d")}},
		{Name: b("a"), Dir: b("b"), Type: b("c"), Opts: [][]byte{b("d"), b("#e")}},
		{Name: b("a#"), Dir: b("b#b"), Type: b("c"), Opts: [][]byte{b("d")}},
		{Name: b("none"), Dir: b("none"), Type: b("none"), Opts: [][]byte{b("defaults")}},
		{Name: b(" "), Dir: b("\t"), Type: b("\n"), Opts: [][]byte{b("\\")}},
		{Name: b(`\040`), Dir: b(`\134`), Type: b(`\`), Opts: [][]byte{b(`\0`), b(`\04`)}},
		{Name: b("/my dir/x"), Dir: b("/tmp/a\tb"), Type: b("ext 4"), Opts: [][]byte{b("x-snapd.symlink=/a b"), b("ro")}, Freq: -1, Pass: 9223372036854775807},
		{Name: b("a"), Dir: b("b"), Type: b("c"), Opts: [][]byte{b("d")}, Freq: -9223372036854775808, Pass: 10},
		{Name: b("\ra"), Dir: b("b"), Type: b("c"), Opts: [][]byte{b("d")}},
		{Name: b("/a/b"), Dir: b("/a/b"), Type: b(""), Opts: [][]byte{b("rbind"), b("x-snapd.synthetic"), b("x-snapd.needed-by=/a/c"), b("x-snapd.detach")}},
		{Name: b("a\r"), Dir: b("b\r"), Type: b("\rc"), Opts: [][]byte{b("d\r")}},
	}
	for _, e := range edge {
		e := e
		ins = append(ins, c28CodecIn{Kind: "entry", E: &e})
		ins = append(ins, c28CodecIn{Kind: "profile", Entries: []c28Ent{e}})
	}
	for k := 0; k < n/3; k++ {
		e := c28RandEntry(r, r.Chance(1, 2))
		ins = append(ins, c28CodecIn{Kind: "entry", E: &e})
	}
	for k := 0; k < n/4; k++ {
		ins = append(ins, c28CodecIn{Kind: "line", S: c28Line(r)})
	}
	// profiles
	for k := 0; k < n/8; k++ {
		var es []c28Ent
		m := r.Range(0, 4)
		hostile := r.Chance(1, 3)
		for i := 0; i < m; i++ {
			es = append(es, c28RandEntry(r, hostile))
		}
		ins = append(ins, c28CodecIn{Kind: "profile", Entries: es})
	}
	// free profile text: lines, comments, blank lines, odd white space and line endings
	for k := 0; k < n/8; k++ {
		var sb strings.Builder
		m := r.Range(0, 5)
		for i := 0; i < m; i++ {
			sb.WriteString(r.Pick([]string{"", "", "", " ", "\t", "\r", "\v", "\u00a0", "\u2003", "\u3000", "\xc2", "\xe2\x80"}))
			switch r.Intn(5) {
			case 0:
				sb.WriteString(r.Pick([]string{"", "# comment", "#", " # x y z", " # c"}))
			default:
				sb.Write(c28Line(r))
			}
			sb.WriteString(r.Pick([]string{"", "", " ", "\r", "\f", "\u0085", "\u2028", "\u205f", "\x85", "\x80\x80", "\xe2\x80\x8b"}))
			sb.WriteString(r.Pick([]string{"\n", "\n", "\n", "\r\n", "\n\n", ""}))
		}
		ins = append(ins, c28CodecIn{Kind: "text", S: []byte(sb.String())})
	}
	return ins
}

func TestVerifC28Codec(t *testing.T) { vh.Run(c28CodecGen, c28CodecExec) }

// ---------------------------------------------------------------- changes driver

// A history: a simulated pre-existing tree and a sequence of desired profiles. Mount points written "@/x/y" are
// placed under the per-case scratch root. Case K of a history replays steps 0..K through the real
// executeMountProfileUpdate (in-memory profiles, simulated Change.Perform) and reports step K.
// Direct != nil: a single neededChanges call on an arbitrary current profile instead.
type c28Hist struct {
	Dirs    []string   `json:"dirs"`
	Files   []string   `json:"files"`
	Links   []string   `json:"links"`
	Steps   [][]c28Ent `json:"steps"`
	K       int        `json:"k"`
	Current []c28Ent   `json:"current,omitempty"`
	Direct  bool       `json:"direct,omitempty"`
}

func c28Place(root string, dir []byte) string {
	d := string(dir)
	if strings.HasPrefix(d, "@") {
		return root + d[1:]
	}
	return d
}

func c28Entries(root string, es []c28Ent) []osutil.MountEntry {
	out := make([]osutil.MountEntry, 0, len(es))
	for _, e := range es {
		me := e.entry()
		me.Dir = c28Place(root, e.Dir)
		for i, o := range me.Options { // needed-by / id values may name a mount point under the root
			if j := strings.Index(o, "=@"); j >= 0 {
				me.Options[i] = o[:j+1] + root + o[j+2:]
			}
		}
		out = append(out, me)
	}
	return out
}

// in-memory MountProfileUpdateContext
type c28Ctx struct {
	desired, current *osutil.MountProfile
	saved            *osutil.MountProfile
}

func (c *c28Ctx) Lock() (func(), error)                             { return func() {}, nil }
func (c *c28Ctx) Assumptions() *Assumptions                         { return &Assumptions{} }
func (c *c28Ctx) LoadDesiredProfile() (*osutil.MountProfile, error) { return c.desired, nil }
func (c *c28Ctx) LoadCurrentProfile() (*osutil.MountProfile, error) { return c.current, nil }
func (c *c28Ctx) SaveCurrentProfile(p *osutil.MountProfile) error {
	c.saved = &osutil.MountProfile{Entries: append([]osutil.MountEntry(nil), p.Entries...)}
	return nil
}

// simulated Change.Perform: every directory of the pre-existing tree counts as read-only, so a missing mount target
// needs a writable mimic at the first existing directory above it (built with the real createWritableMimic, whose
// own nested changes are no-ops here); what is created inside a mimic disappears when the mimic is unmounted.
type c28Sim struct {
	writable map[string]bool
	created  map[string][]string
	nested   bool
	made     []*Change
}

func c28ExistsAs(e *osutil.MountEntry) bool {
	switch e.XSnapdKind() {
	case "", "ensure-dir":
		return osutil.IsDirectory(e.Dir)
	case "file":
		return osutil.FileExists(e.Dir)
	case "symlink":
		return osutil.IsSymlink(e.Dir)
	}
	return true
}

func (s *c28Sim) perform(c *Change, as *Assumptions) ([]*Change, error) {
	if s.nested {
		return nil, nil
	}
	switch c.Action {
	case Keep:
		return nil, nil
	case Unmount:
		if c.Entry.Type == "tmpfs" && c.Entry.XSnapdSynthetic() {
			for _, p := range s.created[c.Entry.Dir] {
				os.RemoveAll(p)
			}
			delete(s.created, c.Entry.Dir)
			delete(s.writable, c.Entry.Dir)
		}
		return nil, nil
	}
	if c28ExistsAs(&c.Entry) {
		return nil, nil
	}
	if _, err := os.Lstat(c.Entry.Dir); err == nil {
		return nil, errors.New("sim: mount point exists in the wrong form")
	}
	kind := c.Entry.XSnapdKind()
	parent := filepath.Dir(c.Entry.Dir)
	if !filepath.IsAbs(parent) {
		return nil, errors.New("sim: relative mount point")
	}
	r := findFirstRootDirectoryThatExists(parent)
	var synth []*Change
	if !s.writable[r] && kind != "ensure-dir" {
		if c.Entry.XSnapdIgnoreMissing() {
			return nil, ErrIgnoredMissingMount
		}
		s.nested = true
		var err error
		synth, err = createWritableMimic(r, c.Entry.XSnapdEntryID(), as)
		s.nested = false
		if err != nil {
			return nil, err
		}
		s.writable[r] = true
	}
	// create the missing path below r; remember its top-most new element
	rel, _ := filepath.Rel(r, c.Entry.Dir)
	top := filepath.Join(r, strings.Split(rel, "/")[0])
	if err := os.MkdirAll(parent, 0755); err != nil {
		return synth, err
	}
	var err error
	switch kind {
	case "", "ensure-dir":
		err = os.Mkdir(c.Entry.Dir, 0755)
	case "file":
		err = os.WriteFile(c.Entry.Dir, nil, 0644)
	case "symlink":
		err = os.Symlink("x", c.Entry.Dir)
	}
	if kind != "ensure-dir" {
		s.created[r] = append(s.created[r], top)
	}
	return synth, err
}

type c28Observed struct {
	dirs, exists, links []string
	current, desired    []osutil.MountEntry
	changes             []*Change
	unstable            bool
}

// what the file system says about every path neededChanges may ask about: the cleaned desired mount points and all
// their ancestors
func c28Oracle(desired []osutil.MountEntry) (dirs, exists, links []string) {
	seen := map[string]bool{}
	for _, e := range desired {
		p := filepath.Clean(e.Dir)
		for !seen[p] {
			seen[p] = true
			if osutil.IsDirectory(p) {
				dirs = append(dirs, p)
			}
			if osutil.FileExists(p) && !osutil.IsDirectory(p) { // directories are implied (both are os.Stat)
				exists = append(exists, p)
			}
			if osutil.IsSymlink(p) {
				links = append(links, p)
			}
			p = filepath.Dir(p)
		}
	}
	sort.Strings(dirs)
	sort.Strings(exists)
	sort.Strings(links)
	return
}

func c28Unstable(current []osutil.MountEntry) bool {
	if len(current) <= 12 {
		return false
	}
	cur := append([]osutil.MountEntry(nil), current...)
	for i := range cur {
		cur[i].Dir = filepath.Clean(cur[i].Dir)
	}
	s := byOvernameAndMountPoint(cur)
	for i := range cur {
		for j := i + 1; j < len(cur); j++ {
			if !s.Less(i, j) && !s.Less(j, i) {
				return true
			}
		}
	}
	return false
}

// c28Intern shares repeated strings and entries inside one Coq case term through let-bindings: elaborating the
// string literals is what costs time on the Coq side, and a step repeats the same paths and entries many times.
type c28Intern struct {
	root string
	strs map[string]string
	ents map[string]string
	defs []string
}

func newC28Intern(root string) *c28Intern { return &c28Intern{root: root, strs: map[string]string{}, ents: map[string]string{}} }

func (in *c28Intern) str(s string) string {
	if n, ok := in.strs[s]; ok {
		return n
	}
	// factor the (long) scratch root out of paths and option values
	var def string
	if in.root != "" && s != in.root {
		if i := strings.Index(s, in.root); i >= 0 {
			parts := []string{}
			if i > 0 {
				parts = append(parts, in.str(s[:i]))
			}
			parts = append(parts, in.str(in.root))
			if rest := s[i+len(in.root):]; rest != "" {
				parts = append(parts, in.str(rest))
			}
			def = "(" + strings.Join(parts, " ++ ") + ")"
		}
	}
	if def == "" {
		def = vh.CoqBytes(s)
	}
	n := "s" + strconv.Itoa(len(in.strs))
	in.strs[s] = n
	in.defs = append(in.defs, "let "+n+" := "+def+" in ")
	return n
}

func (in *c28Intern) strList(l []string) string {
	items := make([]string, len(l))
	for i, s := range l {
		items[i] = in.str(s)
	}
	return vh.CoqList(items)
}

func (in *c28Intern) entry(e osutil.MountEntry) string {
	key := fmt.Sprintf("%q %q %q %q %d %d", e.Name, e.Dir, e.Type, e.Options, e.DumpFrequency, e.CheckPassNumber)
	if n, ok := in.ents[key]; ok {
		return n
	}
	def := "(mkEntry " + in.str(e.Name) + " " + in.str(e.Dir) + " " + in.str(e.Type) + " " + in.strList(e.Options) + " " +
		vh.CoqZ(int64(e.DumpFrequency)) + " " + vh.CoqZ(int64(e.CheckPassNumber)) + ")"
	n := "e" + strconv.Itoa(len(in.ents))
	in.ents[key] = n
	in.defs = append(in.defs, "let "+n+" := "+def+" in ")
	return n
}

func (in *c28Intern) entries(es []osutil.MountEntry) string {
	items := make([]string, len(es))
	for i, e := range es {
		items[i] = in.entry(e)
	}
	return vh.CoqList(items)
}

func (in *c28Intern) changes(chs []*Change) string {
	items := make([]string, len(chs))
	for i, c := range chs {
		a := "Keep"
		switch c.Action {
		case Mount:
			a = "Mount"
		case Unmount:
			a = "Unmount"
		}
		items[i] = "(" + a + ", " + in.entry(c.Entry) + ")"
	}
	return vh.CoqList(items)
}

func (in *c28Intern) wrap(body string) string { return "(" + strings.Join(in.defs, "") + body + ")" }

var c28Seq int

func c28ChangesExec(h c28Hist) vh.Out {
	base := os.Getenv("VERIF_SCRATCH_DIR")
	if base == "" {
		base = os.TempDir()
	}
	c28Seq++
	root := filepath.Join(base, fmt.Sprintf("t%d", c28Seq))
	if err := os.MkdirAll(root, 0755); err != nil {
		panic(err)
	}
	defer os.RemoveAll(root)
	for _, d := range h.Dirs {
		os.MkdirAll(filepath.Join(root, d), 0755)
	}
	for _, f := range h.Files {
		os.MkdirAll(filepath.Dir(filepath.Join(root, f)), 0755)
		os.WriteFile(filepath.Join(root, f), []byte("x"), 0644)
	}
	for _, l := range h.Links {
		os.MkdirAll(filepath.Dir(filepath.Join(root, l)), 0755)
		os.Symlink("x", filepath.Join(root, l))
	}

	var obs *c28Observed
	oldNC, oldCP := NeededChanges, changePerform
	defer func() { NeededChanges, changePerform = oldNC, oldCP }()
	NeededChanges = func(cur, des *osutil.MountProfile) []*Change {
		o := &c28Observed{current: append([]osutil.MountEntry(nil), cur.Entries...), desired: append([]osutil.MountEntry(nil), des.Entries...)}
		o.dirs, o.exists, o.links = c28Oracle(des.Entries)
		o.unstable = c28Unstable(cur.Entries)
		o.changes = neededChanges(cur, des)
		obs = o
		return o.changes
	}

	ages := map[string]uint64{}
	var nextAge uint64
	var made []*Change
	var saved []osutil.MountEntry
	aborted := false
	if h.Direct {
		cur := &osutil.MountProfile{Entries: c28Entries(root, h.Current)}
		for _, e := range cur.Entries {
			if _, ok := ages[e.String()]; !ok {
				ages[e.String()] = nextAge
			}
			nextAge++
		}
		des := &osutil.MountProfile{Entries: c28Entries(root, h.Steps[0])}
		made = NeededChanges(cur, des)
		for _, c := range made {
			if c.Action != Unmount {
				saved = append(saved, c.Entry)
			}
		}
	} else {
		sim := &c28Sim{writable: map[string]bool{}, created: map[string][]string{}}
		current := &osutil.MountProfile{}
		for k := 0; k <= h.K && k < len(h.Steps); k++ {
			desiredProfile := &osutil.MountProfile{Entries: c28Entries(root, h.Steps[k])}
			if dt, err := osutil.SaveMountProfileText(desiredProfile); err == nil { // desired profiles are read from a file too
				if dp, err := osutil.LoadMountProfileText(dt); err == nil && len(dp.Entries) == len(desiredProfile.Entries) {
					desiredProfile = dp
				}
			}
			ctx := &c28Ctx{desired: desiredProfile, current: current}
			made = nil
			changePerform = func(c *Change, as *Assumptions) ([]*Change, error) {
				synth, err := sim.perform(c, as)
				if !sim.nested {
					made = append(made, synth...)
					if err == nil {
						made = append(made, c)
					}
				}
				return synth, err
			}
			obs = nil
			err := executeMountProfileUpdate(ctx)
			aborted = err != nil || ctx.saved == nil
			if k == h.K || k == len(h.Steps)-1 {
				if ctx.saved != nil {
					saved = ctx.saved.Entries
				}
				break
			}
			if ctx.saved != nil {
				// ages of the entries of the new current profile: kept ones keep theirs, new ones in mount order
				newAges := map[string]uint64{}
				for _, e := range ctx.saved.Entries {
					if a, ok := ages[e.String()]; ok {
						newAges[e.String()] = a
					} else {
						newAges[e.String()] = nextAge
						nextAge++
					}
				}
				ages = newAges
				// the next update reads the profile back from its text form, as the real context does through a file
				// (synthetic bind entries come back with type none instead of an empty type)
				text, err := osutil.SaveMountProfileText(ctx.saved)
				if err != nil {
					panic(err)
				}
				current, err = osutil.LoadMountProfileText(text)
				if err != nil {
					panic(fmt.Sprintf("saved profile does not load: %v\n%s", err, text))
				}
				if len(current.Entries) != len(ctx.saved.Entries) {
					panic("saved profile loads with a different number of entries")
				}
			}
		}
	}
	if obs == nil {
		panic("neededChanges was not reached")
	}
	ageItems := make([]string, len(obs.current))
	for i, e := range obs.current {
		ageItems[i] = vh.CoqN(ages[e.String()])
	}
	if aborted || (!h.Direct && c28Seq%3 != 0) {
		// aborted: the update stopped at a failing layout/overname change, nothing was saved, the recording obligation
		// is void. Otherwise the recording is reported for every third case only (it repeats the change list).
		made, saved = nil, nil
	}
	if c28OrderMode {
		return c28OrderOut(root, obs, ages)
	}
	it := newC28Intern(root)
	coq := it.wrap("CStep (mkFs " + it.strList(obs.dirs) + " " + it.strList(obs.exists) + " " + it.strList(obs.links) + ") " +
		it.entries(obs.current) + " " + vh.CoqList(ageItems) + " " + it.entries(obs.desired) + " " + vh.CoqBool(obs.unstable) + " " +
		it.changes(obs.changes) + " " + it.changes(made) + " " + it.entries(saved))

	nk, nm, nu, nsyn := 0, 0, 0, 0
	chs := make([]string, len(obs.changes))
	for i, c := range obs.changes {
		chs[i] = c.String()
		switch c.Action {
		case Keep:
			nk++
		case Mount:
			nm++
		case Unmount:
			nu++
		}
	}
	for _, e := range obs.current {
		if e.XSnapdSynthetic() {
			nsyn++
		}
	}
	tags := []string{}
	if h.Direct {
		tags = append(tags, "direct")
	} else {
		tags = append(tags, fmt.Sprintf("history-step-%d", h.K))
	}
	if nk > 0 {
		tags = append(tags, "has-keep")
	}
	if nu > 0 {
		tags = append(tags, "has-unmount")
	}
	if nm > 0 {
		tags = append(tags, "has-mount")
	}
	if nsyn > 0 {
		tags = append(tags, "current-has-synthetic")
	}
	if obs.unstable {
		tags = append(tags, "sort-ties-over-12")
	}
	if aborted {
		tags = append(tags, "update-aborted")
	}
	if len(obs.changes) == 0 {
		tags = append(tags, "no-changes")
	}
	cur := make([]string, len(obs.current))
	for i, e := range obs.current {
		cur[i] = e.String()
	}
	des := make([]string, len(obs.desired))
	for i, e := range obs.desired {
		des[i] = e.String()
	}
	// desired entries that are absent afterwards, and desired entries shadowed by a different helper entry of the
	// current profile on the same (dir, type) (reuse is keyed by that pair only)
	present := map[string]bool{}
	for _, c := range obs.changes {
		if c.Action != Unmount {
			present[c.Entry.String()] = true
		}
	}
	desiredIDs := map[string]bool{}
	cdes := append([]osutil.MountEntry(nil), obs.desired...)
	for i := range cdes {
		cdes[i].Dir = filepath.Clean(cdes[i].Dir)
		desiredIDs[cdes[i].XSnapdEntryID()] = true
	}
	missing, shadowed := []string{}, []string{}
	for _, d := range cdes {
		if !present[d.String()] {
			missing = append(missing, d.String())
		}
		for _, c := range obs.current {
			c.Dir = filepath.Clean(c.Dir)
			helper := c.XSnapdOrigin() == "rootfs" || (c.XSnapdSynthetic() && desiredIDs[c.XSnapdNeededBy()])
			if helper && c.Dir == d.Dir && c.Type == d.Type && !c.Equal(&d) {
				shadowed = append(shadowed, d.String())
				break
			}
		}
	}
	if len(shadowed) > 0 {
		tags = append(tags, "desired-shadowed-by-helper")
	}
	// kept entries whose directory lies properly beneath that of an entry unmounted in the same update, split by
	// whether the pair straddles the overname boundary (the current entries are sorted overname-first)
	keptSame, keptCross := []string{}, []string{}
	key := func(d string) string {
		if !strings.HasSuffix(d, "/") {
			d += "/"
		}
		return d
	}
	for _, k := range obs.changes {
		if k.Action != Keep {
			continue
		}
		for _, u := range obs.changes {
			if u.Action != Unmount || key(k.Entry.Dir) == key(u.Entry.Dir) || !strings.HasPrefix(k.Entry.Dir, key(u.Entry.Dir)) {
				continue
			}
			pair := strings.TrimPrefix(k.Entry.Dir, root) + " under " + strings.TrimPrefix(u.Entry.Dir, root)
			if (k.Entry.XSnapdOrigin() == "overname") != (u.Entry.XSnapdOrigin() == "overname") {
				keptCross = append(keptCross, pair)
			} else {
				keptSame = append(keptSame, pair)
			}
		}
	}
	if len(keptCross) > 0 {
		tags = append(tags, "keep-beneath-unmounted-overname")
	}
	return vh.Out{Observed: map[string]interface{}{"root": root, "current": cur, "desired": des, "changes": chs, "dirs": obs.dirs,
		"missing": missing, "shadowed": shadowed, "kept_beneath_same_class": keptSame, "kept_beneath_across_overname": keptCross},
		Coq: coq, NonTrivial: nk+nu > 0 && nm > 0, Tags: tags}
}

// ---- generation

var c28Names = []string{"a", "b", "c", "d"}

func c28RelPath(r *vh.Rand, maxDepth int) string {
	n := r.Range(1, maxDepth)
	parts := make([]string, n)
	for i := range parts {
		parts[i] = c28Names[r.Intn(len(c28Names))]
		if r.Chance(1, 12) {
			parts[i] += r.Pick([]string{"b", "-x", ".d", "a"})
		}
	}
	return strings.Join(parts, "/")
}

func c28Unclean(r *vh.Rand, p string) string {
	switch r.Intn(14) {
	case 0:
		return p + "/"
	case 1:
		return strings.Replace(p, "/", "//", 1)
	case 2:
		return p + "/."
	case 3:
		return p + "/zz/.."
	case 4:
		return strings.Replace(p, "/", "/./", 1)
	}
	return p
}

func c28DesiredEntry(r *vh.Rand, rel string) c28Ent {
	b := func(s string) []byte { return []byte(s) }
	e := c28Ent{Dir: b("@/" + c28Unclean(r, rel)), Name: b("/s/" + r.Str("abc", 1, 3)), Type: b("none")}
	var opts []string
	switch r.Intn(8) {
	case 0:
		e.Type, e.Name = b("tmpfs"), b("tmpfs")
		opts = append(opts, "mode=0755")
	case 1:
		e.Type = b("squashfs")
		opts = append(opts, "ro")
	case 2, 3:
		opts = append(opts, "rbind", "rw")
	default:
		opts = append(opts, "bind", r.Pick([]string{"ro", "rw"}))
	}
	switch r.Intn(10) {
	case 0:
		opts = append(opts, "x-snapd.kind=file")
	case 1:
		e.Type, e.Name = b("none"), b("unused")
		opts = []string{"x-snapd.kind=symlink", "x-snapd.symlink=/oldname"}
	case 2:
		e.Type, e.Name = b("none"), b("none")
		opts = []string{"x-snapd.kind=ensure-dir", "x-snapd.must-exist-dir=@"}
	}
	switch r.Intn(6) {
	case 0, 1:
		opts = append(opts, "x-snapd.origin=layout")
	case 2:
		opts = append(opts, "x-snapd.origin=overname")
	case 3:
		if r.Chance(1, 4) {
			opts = append(opts, "x-snapd.origin="+r.Pick([]string{"rootfs", "other", ""}))
		}
	}
	if r.Chance(1, 12) {
		opts = append(opts, "x-snapd.id="+r.Pick([]string{"id1", "id2", "@/a"}))
	}
	if r.Chance(1, 15) {
		opts = append(opts, "x-snapd.ignore-missing")
	}
	if r.Chance(1, 20) {
		opts = append(opts, "x-snapd.detach")
	}
	for _, o := range opts {
		e.Opts = append(e.Opts, b(o))
	}
	return e
}

func c28CleanKey(e c28Ent) string { return filepath.Clean(string(e.Dir)) }

// a desired profile with pairwise different cleaned mount points
func c28Profile(r *vh.Rand, n int, pool []string) []c28Ent {
	var out []c28Ent
	seen := map[string]bool{}
	for tries := 0; len(out) < n && tries < 4*n+4; tries++ {
		var rel string
		if len(pool) > 0 && r.Chance(2, 3) {
			rel = pool[r.Intn(len(pool))]
			if r.Chance(1, 2) {
				rel += "/" + c28Names[r.Intn(len(c28Names))]
			}
		} else {
			rel = c28RelPath(r, 4)
		}
		e := c28DesiredEntry(r, rel)
		if seen[c28CleanKey(e)] {
			continue
		}
		seen[c28CleanKey(e)] = true
		out = append(out, e)
	}
	return out
}

func c28Mutate(r *vh.Rand, prev []c28Ent, pool []string) []c28Ent {
	switch r.Intn(8) {
	case 0:
		return append([]c28Ent(nil), prev...) // unchanged: everything kept
	case 1:
		return nil // everything goes away
	case 2: // same entries in another order
		out := make([]c28Ent, len(prev))
		for i, j := range r.Perm(len(prev)) {
			out[i] = prev[j]
		}
		return out
	}
	var out []c28Ent
	seen := map[string]bool{}
	for _, e := range prev {
		switch r.Intn(6) {
		case 0: // dropped
			continue
		case 1: // changed
			e = c28DesiredEntry(r, strings.TrimPrefix(filepath.Clean(string(e.Dir)), "@/"))
		}
		if !seen[c28CleanKey(e)] {
			seen[c28CleanKey(e)] = true
			out = append(out, e)
		}
	}
	if len(prev) > 0 && r.Chance(1, 5) { // a tmpfs on the directory above an existing entry: where a mimic may sit
		parent := filepath.Dir(filepath.Clean(string(prev[r.Intn(len(prev))].Dir)))
		if strings.HasPrefix(parent, "@/") {
			e := c28Ent{Name: []byte("tmpfs"), Dir: []byte(parent), Type: []byte("tmpfs"), Opts: [][]byte{[]byte("mode=0755")}}
			if r.Bool() {
				e.Opts = append(e.Opts, []byte("x-snapd.origin=layout"))
			}
			if !seen[c28CleanKey(e)] {
				seen[c28CleanKey(e)] = true
				out = append(out, e)
			}
		}
	}
	for _, e := range c28Profile(r, r.Range(0, 3), pool) {
		if !seen[c28CleanKey(e)] {
			seen[c28CleanKey(e)] = true
			out = append(out, e)
		}
	}
	return out
}

func c28Tree(r *vh.Rand) (dirs, files, links []string) {
	for i, n := 0, r.Range(0, 6); i < n; i++ {
		dirs = append(dirs, c28RelPath(r, 3))
	}
	for i, n := 0, r.Range(0, 2); i < n; i++ {
		files = append(files, c28RelPath(r, 3)+"/f")
	}
	for i, n := 0, r.Range(0, 2); i < n; i++ {
		links = append(links, c28RelPath(r, 3)+"/l")
	}
	return
}

// an arbitrary current profile for direct cases: duplicates, synthetic entries, rootfs, ids
func c28WildCurrent(r *vh.Rand, desired []c28Ent, pool []string) []c28Ent {
	b := func(s string) []byte { return []byte(s) }
	var out []c28Ent
	n := r.Range(0, 7)
	if r.Chance(1, 10) {
		n = r.Range(13, 18)
	}
	for i := 0; i < n; i++ {
		switch r.Intn(6) {
		case 0, 1:
			if len(desired) > 0 { // an entry that is (nearly) desired
				e := desired[r.Intn(len(desired))]
				if r.Chance(1, 3) {
					e.Opts = append(append([][]byte(nil), e.Opts...), b("noatime"))
				}
				if r.Chance(1, 6) {
					e.Type = b("tmpfs")
				}
				out = append(out, e)
				continue
			}
			fallthrough
		case 2: // synthetic helper
			dir := "@/" + c28RelPath(r, 3)
			nb := "@/" + c28RelPath(r, 3)
			if len(desired) > 0 && r.Chance(2, 3) {
				d := desired[r.Intn(len(desired))]
				nb = filepath.Clean(string(d.Dir))
				if r.Chance(1, 2) {
					dir = filepath.Dir(nb)
					if r.Bool() {
						dir += "/" + c28Names[r.Intn(4)]
					}
				}
			}
			e := c28Ent{Name: b("tmpfs"), Dir: b(dir), Type: b("tmpfs"), Opts: [][]byte{b("x-snapd.synthetic"), b("x-snapd.needed-by=" + nb), b("mode=0755")}}
			if r.Bool() {
				e = c28Ent{Name: b(dir), Dir: b(dir), Type: b(""), Opts: [][]byte{b("rbind"), b("x-snapd.synthetic"), b("x-snapd.needed-by=" + nb), b("x-snapd.detach")}}
			}
			out = append(out, e)
		case 3:
			out = append(out, c28Ent{Name: b("/dev/sda"), Dir: b(r.Pick([]string{"/", "@", "@/a"})), Type: b("ext4"), Opts: [][]byte{b("x-snapd.origin=rootfs")}})
		default:
			rel := c28RelPath(r, 4)
			if len(pool) > 0 && r.Bool() {
				rel = pool[r.Intn(len(pool))]
			}
			out = append(out, c28DesiredEntry(r, rel))
		}
	}
	return out
}

func c28ChangesGen(r *vh.Rand, tier string, n int) []c28Hist {
	if n == 0 {
		n = 300
	}
	var ins []c28Hist
	b := func(s string) []byte { return []byte(s) }
	bind := func(dir string, extra ...string) c28Ent {
		e := c28Ent{Name: b("/s/src"), Dir: b(dir), Type: b("none"), Opts: [][]byte{b("bind"), b("rw")}}
		for _, x := range extra {
			e.Opts = append(e.Opts, b(x))
		}
		return e
	}
	// fixed histories: parent and child mounted, kept, then removed; layouts needing nested mimics; overname
	fixed := []c28Hist{
		{Dirs: []string{"a/b"}, Steps: [][]c28Ent{{bind("@/a"), bind("@/a/b")}, {bind("@/a"), bind("@/a/b")}, {}}},
		{Dirs: []string{"a"}, Steps: [][]c28Ent{{bind("@/a/b/c", "x-snapd.origin=layout"), bind("@/a/d", "x-snapd.origin=layout")},
			{bind("@/a/b/c", "x-snapd.origin=layout")}, {bind("@/a/b/c", "x-snapd.origin=layout"), bind("@/a/b/c/d", "x-snapd.origin=layout")}, {}}},
		{Dirs: []string{"a/b", "c"}, Steps: [][]c28Ent{{bind("@/c/x", "x-snapd.origin=overname"), bind("@/a/b"), bind("@/a", "x-snapd.origin=layout")},
			{bind("@/a/b"), bind("@/a", "x-snapd.origin=layout", "ro")}, {}}},
		{Dirs: []string{"a"}, Files: []string{"a/f"}, Links: []string{"a/l"}, Steps: [][]c28Ent{
			{bind("@/a/f", "x-snapd.kind=file"), bind("@/a/g", "x-snapd.kind=file"), {Name: b("unused"), Dir: b("@/a/s"), Type: b("none"), Opts: [][]byte{b("x-snapd.kind=symlink"), b("x-snapd.symlink=/x")}}},
			{bind("@/a/g", "x-snapd.kind=file")}}},
	}
	// siblings whose names differ from the parent's by a byte below '/': only the trailing-slash sort key keeps the
	// children of a changed /a next to it (a, a-x, a/b)
	fixed = append(fixed, c28Hist{Dirs: []string{"a/b", "a-x", "a.d/c"}, Steps: [][]c28Ent{
		{bind("@/a"), bind("@/a-x"), bind("@/a/b"), bind("@/a.d/c"), bind("@/a.d")},
		{bind("@/a", "ro"), bind("@/a-x"), bind("@/a/b"), bind("@/a.d/c"), bind("@/a.d", "ro")},
		{bind("@/a/b"), bind("@/a-x")}}})
	// witness of desired-shadowed-by-helper: /a exists, /a/b does not -> the first update builds a writable mimic (synthetic
	// tmpfs on /a needed by /a/b); the second profile adds a tmpfs layout on /a itself: same (dir, type) as the mimic, which is
	// reused, so the desired tmpfs is neither mounted nor recorded
	tmpfsOn := func(dir string) c28Ent {
		return c28Ent{Name: b("tmpfs"), Dir: b(dir), Type: b("tmpfs"), Opts: [][]byte{b("mode=0755"), b("x-snapd.origin=layout")}}
	}
	fixed = append(fixed, c28Hist{Dirs: []string{"a"}, Steps: [][]c28Ent{
		{bind("@/a/b", "x-snapd.origin=layout")},
		{tmpfsOn("@/a"), bind("@/a/b", "x-snapd.origin=layout")},
		{tmpfsOn("@/a"), bind("@/a/b", "x-snapd.origin=layout")}}})
	// nested entries of different origins whose outer one changes, followed by another entry of the outer one's origin:
	// the reuse scan must still skip the inner entry. All combinations of none/layout/overname for outer and inner.
	for _, oo := range []string{"", "x-snapd.origin=layout", "x-snapd.origin=overname"} {
		for _, io := range []string{"", "x-snapd.origin=layout", "x-snapd.origin=overname"} {
			if oo == io {
				continue
			}
			with := func(dir, origin string, extra ...string) c28Ent {
				if origin != "" {
					extra = append(extra, origin)
				}
				return bind(dir, extra...)
			}
			fixed = append(fixed, c28Hist{Dirs: []string{"a/b/c", "d", "a/b/e"}, Steps: [][]c28Ent{
				{with("@/a", oo), with("@/a/b", io), with("@/d", oo), with("@/a/b/c", io)},
				{with("@/a", oo, "noatime"), with("@/a/b", io), with("@/d", oo), with("@/a/b/c", io)},
				{with("@/a/b", io), with("@/d", oo)}}})
		}
	}
	for _, h := range fixed {
		for k := range h.Steps {
			hh := h
			hh.K = k
			ins = append(ins, hh)
		}
	}
	for len(ins) < n {
		dirs, files, links := c28Tree(r)
		pool := append([]string(nil), dirs...)
		if r.Chance(1, 3) { // direct
			des := c28Profile(r, r.Range(0, 6), pool)
			ins = append(ins, c28Hist{Dirs: dirs, Files: files, Links: links, Steps: [][]c28Ent{des}, Direct: true, Current: c28WildCurrent(r, des, pool)})
			continue
		}
		if r.Chance(1, 8) { // random instance of the nested-origins shape
			origins := []string{"", "x-snapd.origin=layout", "x-snapd.origin=overname", "x-snapd.origin=other"}
			oo, io := origins[r.Intn(4)], origins[r.Intn(4)]
			outer := c28RelPath(r, 2)
			inner := outer + "/" + c28RelPath(r, 2)
			after := r.Pick([]string{"d", "dz", outer + "z", "zz/a"})
			mk := func(rel, origin string, extra ...string) c28Ent {
				e := c28Ent{Name: []byte("/s/" + r.Str("abc", 1, 2)), Dir: []byte("@/" + rel), Type: []byte("none"), Opts: [][]byte{[]byte("bind"), []byte("rw")}}
				for _, x := range append(extra, origin) {
					if x != "" {
						e.Opts = append(e.Opts, []byte(x))
					}
				}
				return e
			}
			o1, in1, af := mk(outer, oo), mk(inner, io), mk(after, oo)
			o2 := mk(outer, oo, "noatime")
			o2.Name = o1.Name
			h := c28Hist{Dirs: append(dirs, inner, after), Files: files, Links: links,
				Steps: [][]c28Ent{{in1, o1, af}, {o2, in1, af}, {in1, af}}}
			if filepath.Clean(after) == filepath.Clean(outer) || strings.HasPrefix(after, outer+"/") {
				continue
			}
			for k := range h.Steps {
				hh := h
				hh.K = k
				ins = append(ins, hh)
			}
			continue
		}
		h := c28Hist{Dirs: dirs, Files: files, Links: links}
		steps := r.Range(2, 5)
		prev := c28Profile(r, r.Range(1, 5), pool)
		h.Steps = append(h.Steps, prev)
		for i := 1; i < steps; i++ {
			prev = c28Mutate(r, prev, pool)
			h.Steps = append(h.Steps, prev)
		}
		for k := range h.Steps {
			hh := h
			hh.K = k
			ins = append(ins, hh)
		}
	}
	return ins
}

func TestVerifC28Changes(t *testing.T) { vh.Run(c28ChangesGen, c28ChangesExec) }

// ---------------------------------------------------------------- unmount order over histories

var c28OrderMode bool

// the same histories, reduced to (mount point, true mount age) of the current entries and the positions of the
// unmounted ones in the order of the Unmount changes -> V.models.MountNS.ocase
func c28OrderOut(root string, obs *c28Observed, ages map[string]uint64) vh.Out {
	cur := append([]osutil.MountEntry(nil), obs.current...)
	for i := range cur {
		cur[i].Dir = filepath.Clean(cur[i].Dir)
	}
	used := make([]bool, len(cur))
	var idx []string
	var idxN []int
	for _, c := range obs.changes {
		if c.Action != Unmount {
			continue
		}
		found := -1
		for i := range cur {
			if used[i] {
				continue
			}
			e := cur[i]
			if e.Equal(&c.Entry) {
				found = i
				break
			}
			e.Options = append(append([]string(nil), e.Options...), osutil.XSnapdDetach())
			if e.Equal(&c.Entry) {
				found = i
				break
			}
		}
		if found < 0 {
			found = len(cur) // refers to nothing: the monitor rejects it
		} else {
			used[found] = true
		}
		idx = append(idx, vh.CoqNat(found))
		idxN = append(idxN, found)
	}
	it := newC28Intern(root)
	items := make([]string, len(cur))
	inOrder := true
	for i, e := range cur {
		items[i] = "(" + it.str(e.Dir) + ", " + vh.CoqN(ages[obs.current[i].String()]) + ")"
		if i > 0 && ages[obs.current[i].String()] < ages[obs.current[i-1].String()] {
			inOrder = false
		}
	}
	coq := it.wrap("COrder " + vh.CoqList(items) + " " + vh.CoqList(idx))
	tags := []string{"current-in-mount-order"}
	if !inOrder {
		tags = []string{"current-not-in-mount-order"}
	}
	dirs := make([]string, len(cur))
	for i, e := range cur {
		dirs[i] = strings.TrimPrefix(e.Dir, root)
	}
	return vh.Out{Observed: map[string]interface{}{"current_dirs": dirs, "unmounted_positions": idxN, "current_in_mount_order": inOrder},
		Coq: coq, NonTrivial: len(idxN) > 1, Tags: tags}
}

func TestVerifC28Order(t *testing.T) {
	c28OrderMode = true
	defer func() { c28OrderMode = false }()
	vh.Run(func(r *vh.Rand, tier string, n int) []c28Hist {
		var out []c28Hist
		for _, h := range c28ChangesGen(r, tier, 3*n) {
			if !h.Direct && h.K > 0 {
				out = append(out, h)
			}
		}
		return out
	}, c28ChangesExec)
}

var _ = strconv.Itoa
