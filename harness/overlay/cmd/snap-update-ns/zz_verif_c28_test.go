//go:build verif

// Drivers for C28, in-package (package main of cmd/snap-update-ns, built with CGO_ENABLED=0 and the stubs of
// zz_verif_c28_stubs.go):
//
//	TestVerifC28Codec   osutil mount entry codec (Escape/Unescape, MountEntry.String, ParseMountEntry,
//	                    SaveMountProfileText/LoadMountProfileText) -> V.models.MountEntry.case
//	TestVerifC28Changes histories of desired profiles run through the real executeMountProfileUpdate /
//	                    neededChanges with a simulated Change.Perform -> V.models.MountNS.case
package main

import (
	"strconv"
	"strings"
	"testing"

	"github.com/snapcore/snapd/osutil"
	"github.com/snapcore/snapd/zzverif/vh"
)

// ---------------------------------------------------------------- shared: entries as JSON-serialisable inputs

// byte slices so that arbitrary (non UTF-8) bytes survive the JSON replay file
type c28Ent struct {
	Name []byte   `json:"name"`
	Dir  []byte   `json:"dir"`
	Type []byte   `json:"type"`
	Opts [][]byte `json:"opts"`
	Freq int64    `json:"freq"`
	Pass int64    `json:"pass"`
}

func (e c28Ent) entry() osutil.MountEntry {
	var opts []string
	for _, o := range e.Opts {
		opts = append(opts, string(o))
	}
	return osutil.MountEntry{Name: string(e.Name), Dir: string(e.Dir), Type: string(e.Type), Options: opts,
		DumpFrequency: int(e.Freq), CheckPassNumber: int(e.Pass)}
}

func c28FromEntry(e osutil.MountEntry) c28Ent {
	out := c28Ent{Name: []byte(e.Name), Dir: []byte(e.Dir), Type: []byte(e.Type), Freq: int64(e.DumpFrequency), Pass: int64(e.CheckPassNumber)}
	for _, o := range e.Options {
		out.Opts = append(out.Opts, []byte(o))
	}
	return out
}

func c28CoqEntry(e osutil.MountEntry) string {
	opts := make([]string, len(e.Options))
	for i, o := range e.Options {
		opts[i] = vh.CoqBytes(o)
	}
	return "(mkEntry " + vh.CoqBytes(e.Name) + " " + vh.CoqBytes(e.Dir) + " " + vh.CoqBytes(e.Type) + " " + vh.CoqList(opts) + " " +
		vh.CoqZ(int64(e.DumpFrequency)) + " " + vh.CoqZ(int64(e.CheckPassNumber)) + ")"
}

func c28CoqEntries(es []osutil.MountEntry) string {
	items := make([]string, len(es))
	for i, e := range es {
		items[i] = c28CoqEntry(e)
	}
	return vh.CoqList(items)
}

func c28CoqOptEntry(e osutil.MountEntry, err error) string {
	return vh.CoqOpt(err == nil, c28CoqEntry(e))
}

// ---------------------------------------------------------------- codec driver

type c28CodecIn struct {
	Kind    string   `json:"kind"` // entry | line | esc | profile | text
	E       *c28Ent  `json:"e,omitempty"`
	S       []byte   `json:"s,omitempty"`
	Entries []c28Ent `json:"entries,omitempty"`
}

// the property's guard (fields non-empty, not starting with #, options: at least one, none with a comma, the joined
// text non-empty and not starting with #)
func c28Guarded(e osutil.MountEntry) bool {
	for _, f := range []string{e.Name, e.Dir, e.Type} {
		if f == "" || f[0] == '#' {
			return false
		}
	}
	if len(e.Options) == 0 {
		return false
	}
	for _, o := range e.Options {
		if strings.Contains(o, ",") {
			return false
		}
	}
	j := strings.Join(e.Options, ",")
	return j != "" && j[0] != '#'
}

func c28CodecExec(in c28CodecIn) vh.Out {
	switch in.Kind {
	case "entry":
		e := in.E.entry()
		str := e.String()
		back, err := osutil.ParseMountEntry(str)
		obs := map[string]interface{}{"string": str, "back_ok": err == nil, "back": c28FromEntry(back), "same": err == nil && back.Equal(&e)}
		coq := "(CEntry " + c28CoqEntry(e) + " " + vh.CoqBytes(str) + " " + c28CoqOptEntry(back, err) + ")"
		tag := "entry-unguarded"
		if c28Guarded(e) {
			tag = "entry-guarded"
		}
		tags := []string{tag}
		if strings.ContainsAny(str, "\\") {
			tags = append(tags, "entry-with-escapes")
		}
		return vh.Out{Observed: obs, Coq: coq, NonTrivial: c28Guarded(e), Tags: tags}
	case "line":
		p, err := osutil.ParseMountEntry(string(in.S))
		obs := map[string]interface{}{"ok": err == nil, "parsed": c28FromEntry(p)}
		coq := "(CLine " + vh.CoqBytes(string(in.S)) + " " + c28CoqOptEntry(p, err) + ")"
		tag := "line-rejected"
		if err == nil {
			tag = "line-accepted"
		}
		return vh.Out{Observed: obs, Coq: coq, NonTrivial: err == nil, Tags: []string{tag}}
	case "esc":
		s := string(in.S)
		e, u := osutil.Escape(s), osutil.Unescape(s)
		b := osutil.Unescape(e)
		obs := map[string]interface{}{"escape": []byte(e), "unescape": []byte(u), "back": []byte(b)}
		coq := "(CEsc " + vh.CoqBytes(s) + " " + vh.CoqBytes(e) + " " + vh.CoqBytes(u) + " " + vh.CoqBytes(b) + ")"
		tag := "esc-plain"
		if e != s || u != s {
			tag = "esc-changes"
		}
		return vh.Out{Observed: obs, Coq: coq, NonTrivial: e != s || u != s, Tags: []string{tag}}
	case "profile":
		var p osutil.MountProfile
		for _, e := range in.Entries {
			p.Entries = append(p.Entries, e.entry())
		}
		text, err := osutil.SaveMountProfileText(&p)
		if err != nil {
			panic(err)
		}
		back, lerr := osutil.LoadMountProfileText(text)
		var bes []osutil.MountEntry
		if lerr == nil {
			bes = back.Entries
		}
		obs := map[string]interface{}{"text": []byte(text), "back_ok": lerr == nil, "back_len": len(bes)}
		coq := "(CProfile " + c28CoqEntries(p.Entries) + " " + vh.CoqBytes(text) + " " + vh.CoqOpt(lerr == nil, c28CoqEntries(bes)) + ")"
		allGuarded := true
		for _, e := range p.Entries {
			allGuarded = allGuarded && c28Guarded(e)
		}
		tag := "profile-unguarded"
		if allGuarded {
			tag = "profile-guarded"
		}
		return vh.Out{Observed: obs, Coq: coq, NonTrivial: allGuarded && len(p.Entries) > 0, Tags: []string{tag}}
	case "text":
		back, lerr := osutil.LoadMountProfileText(string(in.S))
		var bes []osutil.MountEntry
		if lerr == nil {
			bes = back.Entries
		}
		obs := map[string]interface{}{"ok": lerr == nil, "len": len(bes)}
		coq := "(CText " + vh.CoqBytes(string(in.S)) + " " + vh.CoqOpt(lerr == nil, c28CoqEntries(bes)) + ")"
		tag := "text-rejected"
		if lerr == nil {
			tag = "text-accepted"
		}
		return vh.Out{Observed: obs, Coq: coq, NonTrivial: lerr == nil && len(bes) > 0, Tags: []string{tag}}
	}
	panic("unknown kind " + in.Kind)
}

var c28Words = []string{"/snap/foo/42/usr", "/usr/share/x", "/var/lib/snapd/hostfs", "tmpfs", "none", "bind", "rbind", "ro", "rw",
	"x-snapd.origin=layout", "x-snapd.kind=symlink", "x-snapd.symlink=/a b", "x-snapd.needed-by=/usr/share/x y", "mode=0755",
	`\040`, `\134`, `\011`, `\012`, `\04`, `\0400`, `\\`, "#", " ", "\t", "\n", "a b", "My Documents", "\r", "\v", "\f",
	"\xc2\x85", "\xc2\xa0", "\xe2\x80\x83", "\xe3\x80\x80", "\xe1\x9a\x80", "\xe2\x81\x9f", "\xc2", "\xff", "é", "defaults", "0"}

const c28Alpha = "ab/ \t\n\\#,=.-x0134\r\v"

// a field value: mostly sane, sometimes hostile
func c28Field(r *vh.Rand, hostile bool) []byte {
	if !hostile {
		switch r.Intn(4) {
		case 0:
			return []byte(r.Pick(c28Words[:14]))
		case 1:
			return []byte("/" + r.Str("abc", 1, 3) + "/" + r.Str("abc d", 1, 4))
		}
		return []byte(r.Str("abcxyz/-._", 1, 8))
	}
	var sb strings.Builder
	n := r.Range(0, 4)
	for i := 0; i < n; i++ {
		if r.Bool() {
			sb.WriteString(r.Pick(c28Words))
		} else {
			sb.WriteString(r.Str(c28Alpha, 1, 3))
		}
	}
	return []byte(sb.String())
}

func c28IntVal(r *vh.Rand) int64 {
	switch r.Intn(8) {
	case 0:
		return int64(r.U64() >> uint(r.Intn(64)))
	case 1:
		return -int64(r.U64() >> uint(1+r.Intn(63)))
	case 2:
		return []int64{-1, 9223372036854775807, -9223372036854775808, 10, 100, -10}[r.Intn(6)]
	}
	return int64(r.Intn(3))
}

func c28RandEntry(r *vh.Rand, hostile bool) c28Ent {
	e := c28Ent{Name: c28Field(r, hostile), Dir: c28Field(r, hostile), Type: c28Field(r, hostile), Freq: c28IntVal(r), Pass: c28IntVal(r)}
	n := r.Range(1, 4)
	if hostile && r.Chance(1, 6) {
		n = 0
	}
	for i := 0; i < n; i++ {
		o := c28Field(r, hostile)
		if !hostile || r.Chance(3, 4) { // mostly comma free
			o = []byte(strings.ReplaceAll(string(o), ",", ";"))
		}
		e.Opts = append(e.Opts, o)
	}
	return e
}

func c28Line(r *vh.Rand) []byte {
	switch r.Intn(6) {
	case 0:
		return []byte(r.Pick([]string{"", " ", "#", "# comment", "a b", "a b c", "a b c d", "a b c d 1", "a b c d 1 2", "a b c d 1 2 3",
			"a b c d x 2", "a b c d 1 y", "a b c d +1 -2", "a b c d 01 002", "a b c d 9223372036854775807 -9223372036854775808",
			"a b c d 9223372036854775808 0", "a b c d -9223372036854775809 0", "a b c d 1_0 0", "a b c d 0x1 0", "a b c d - 0", "a b c d + 0",
			"a b c # d 1 2", "a b #c d 1 2", "a #b c", "#a b c d", "a b c d#e 1 2", "a\tb\t\tc  d\t1 2 ", "  a b c", `a\040b c\011 d\012 e\134 0 0`,
			`\040 \04 \0400 \134040 0 0`, `a b c , 0 0`, `a b c ,, 0 0`, `a b c x,,y 0 0`, "a b c d 1 2 #", "a b c d 1 #2", " a b c", "a b c d"}))
	case 1, 2:
		// a few random fields with random separators
		var sb strings.Builder
		n := r.Range(0, 7)
		for i := 0; i < n; i++ {
			sb.WriteString(r.Pick([]string{" ", "\t", "  ", " \t ", ""}))
			if i >= 4 && r.Chance(3, 4) {
				sb.WriteString(r.Pick([]string{"0", "1", "-1", "+7", "00", "x", "12345678901234567890", "9"}))
			} else {
				sb.Write(c28Field(r, r.Chance(1, 3)))
			}
		}
		return []byte(strings.ReplaceAll(sb.String(), "\n", "n"))
	case 3:
		return []byte(r.Str(c28Alpha, 0, 12))
	}
	e := c28RandEntry(r, r.Chance(1, 4)).entry()
	s := e.String()
	if r.Chance(1, 3) && len(s) > 0 { // damage it
		i := r.Intn(len(s))
		s = s[:i] + r.Pick([]string{" ", "#", "\\", "\t", "x", ""}) + s[i+r.Intn(2)*0:]
	}
	return []byte(s)
}

func c28CodecGen(r *vh.Rand, tier string, n int) []c28CodecIn {
	if n == 0 {
		n = 1200
	}
	var ins []c28CodecIn
	// escape/unescape: every string of length <= 2 over the bytes that matter, then random
	small := []byte{' ', '\t', '\n', '\\', '0', '4', '1', '3', 'a'}
	ins = append(ins, c28CodecIn{Kind: "esc", S: []byte{}})
	for _, a := range small {
		ins = append(ins, c28CodecIn{Kind: "esc", S: []byte{a}})
		for _, b := range small {
			ins = append(ins, c28CodecIn{Kind: "esc", S: []byte{a, b}})
		}
	}
	for _, w := range []string{`\040`, `\011`, `\012`, `\134`, `\0401`, `\\040`, `\134040`, `\04\040`, `\13\134`, `a\040b\011c\012d\134e`, `\041`, `\013`, `\135`} {
		ins = append(ins, c28CodecIn{Kind: "esc", S: []byte(w)})
	}
	for k := 0; k < n/6; k++ {
		ins = append(ins, c28CodecIn{Kind: "esc", S: c28Field(r, true)})
	}
	// entries: edge cases for every guard, then random sane and hostile ones
	b := func(s string) []byte { return []byte(s) }
	edge := []c28Ent{
		{Name: b("a"), Dir: b("b"), Type: b("c"), Opts: [][]byte{b("d")}},
		{Name: b(""), Dir: b("b"), Type: b("c"), Opts: [][]byte{b("d")}},
		{Name: b("a"), Dir: b(""), Type: b("c"), Opts: [][]byte{b("d")}},
		{Name: b("a"), Dir: b("b"), Type: b(""), Opts: [][]byte{b("d")}},
		{Name: b("a"), Dir: b("b"), Type: b("c")},
		{Name: b("a"), Dir: b("b"), Type: b("c"), Opts: [][]byte{b("")}},
		{Name: b("a"), Dir: b("b"), Type: b("c"), Opts: [][]byte{b(""), b("")}},
		{Name: b("a"), Dir: b("b"), Type: b("c"), Opts: [][]byte{b("x,y")}},
		{Name: b("a"), Dir: b("b"), Type: b("c"), Opts: [][]byte{b("x"), b("")}},
		{Name: b("#a"), Dir: b("b"), Type: b("c"), Opts: [][]byte{b("d")}},
		{Name: b("a"), Dir: b("#b"), Type: b("c"), Opts: [][]byte{b("d")}},
		{Name: b("a"), Dir: b("b"), Type: b("#c"), Opts: [][]byte{b("d")}},
		{Name: b("a"), Dir: b("b"), Type: b("c"), Opts: [][]byte{b("#d")}},
		{Name: b("a"), Dir: b("b"), Type: b("c"), Opts: [][]byte{b("d"), b("#e")}},
		{Name: b("a#"), Dir: b("b#b"), Type: b("c"), Opts: [][]byte{b("d")}},
		{Name: b("none"), Dir: b("none"), Type: b("none"), Opts: [][]byte{b("defaults")}},
		{Name: b(" "), Dir: b("\t"), Type: b("\n"), Opts: [][]byte{b("\\")}},
		{Name: b(`\040`), Dir: b(`\134`), Type: b(`\`), Opts: [][]byte{b(`\0`), b(`\04`)}},
		{Name: b("/my dir/x"), Dir: b("/tmp/a\tb"), Type: b("ext 4"), Opts: [][]byte{b("x-snapd.symlink=/a b"), b("ro")}, Freq: -1, Pass: 9223372036854775807},
		{Name: b("a"), Dir: b("b"), Type: b("c"), Opts: [][]byte{b("d")}, Freq: -9223372036854775808, Pass: 10},
		{Name: b("\ra"), Dir: b("b"), Type: b("c"), Opts: [][]byte{b("d")}},
		{Name: b("a\r"), Dir: b("b\r"), Type: b("\rc"), Opts: [][]byte{b("d\r")}},
	}
	for _, e := range edge {
		e := e
		ins = append(ins, c28CodecIn{Kind: "entry", E: &e})
		ins = append(ins, c28CodecIn{Kind: "profile", Entries: []c28Ent{e}})
	}
	for k := 0; k < n/3; k++ {
		e := c28RandEntry(r, r.Chance(1, 2))
		ins = append(ins, c28CodecIn{Kind: "entry", E: &e})
	}
	for k := 0; k < n/4; k++ {
		ins = append(ins, c28CodecIn{Kind: "line", S: c28Line(r)})
	}
	// profiles
	for k := 0; k < n/8; k++ {
		var es []c28Ent
		m := r.Range(0, 4)
		hostile := r.Chance(1, 3)
		for i := 0; i < m; i++ {
			es = append(es, c28RandEntry(r, hostile))
		}
		ins = append(ins, c28CodecIn{Kind: "profile", Entries: es})
	}
	// free profile text: lines, comments, blank lines, odd white space and line endings
	for k := 0; k < n/8; k++ {
		var sb strings.Builder
		m := r.Range(0, 5)
		for i := 0; i < m; i++ {
			sb.WriteString(r.Pick([]string{"", "", "", " ", "\t", "\r", "\v", "\u00a0", "\u2003", "\u3000", "\xc2", "\xe2\x80"}))
			switch r.Intn(5) {
			case 0:
				sb.WriteString(r.Pick([]string{"", "# comment", "#", " # x y z", " # c"}))
			default:
				sb.Write(c28Line(r))
			}
			sb.WriteString(r.Pick([]string{"", "", " ", "\r", "\f", "\u0085", "\u2028", "\u205f", "\x85", "\x80\x80", "\xe2\x80\x8b"}))
			sb.WriteString(r.Pick([]string{"\n", "\n", "\n", "\r\n", "\n\n", ""}))
		}
		ins = append(ins, c28CodecIn{Kind: "text", S: []byte(sb.String())})
	}
	return ins
}

func TestVerifC28Codec(t *testing.T) { vh.Run(c28CodecGen, c28CodecExec) }

var _ = strconv.Itoa
