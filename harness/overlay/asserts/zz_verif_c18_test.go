//go:build verif

// Driver for C18: real asserts.Database.Check / Add on assertions signed with assertstest keys, in every key situation
// (trusted, stored, expired, not yet valid, constrained, other authority, unknown key), with the clock set around the
// boundaries (asserts.MockTimeNow / Database.SetEarliestTime) and with byte and structural mutations of the encoded
// assertion. Prints V.models.AssertCheck.case terms.
package asserts_test

import (
	"bytes"
	"encoding/base64"
	"fmt"
	"sort"
	"strings"
	"testing"
	"time"

	"github.com/snapcore/snapd/asserts"
	"github.com/snapcore/snapd/asserts/assertstest"
	"github.com/snapcore/snapd/zzverif/vh"
)

type c18Mut struct {
	Kind string `json:"kind"` // none | byte | insert | delete | sigswap | unhashed | mpibits | pktlen | oldformat | len5 | mpizero | dupheader | addheader | swaplines
	Pos  int    `json:"pos,omitempty"`
	Xor  byte   `json:"xor,omitempty"`
}

type c18KeySpec struct {
	Where       string        `json:"where"` // trusted | stored | top
	Account     string        `json:"account"`
	Since       int64         `json:"since"`
	Until       int64         `json:"until"`
	Constraints [][][2]string `json:"constraints,omitempty"`
	Rev         int           `json:"rev,omitempty"`
}

type c18In struct {
	KeyWhere    string        `json:"key_where"`   // trusted | stored | top (the backstore of a WithStackedBackstore database) | unknown
	Rev         int           `json:"rev,omitempty"` // revision of the account-key assertion
	// a second revision of the SAME account-key (same key id) in another layer
	Second *c18KeySpec `json:"second,omitempty"`
	KeyAccount  string        `json:"key_account"` // brand-id1 (the authority) | other-acct
	Since       int64         `json:"since"`
	Until       int64         `json:"until"` // 0: none
	Constraints [][][2]string `json:"constraints,omitempty"`
	Type        string        `json:"type"` // model | test-only | test-only-2
	Model       string        `json:"model,omitempty"`
	Extra       string        `json:"extra,omitempty"` // value of the extra header
	Timestamp   int64         `json:"timestamp,omitempty"`
	ClockMode   string        `json:"clock_mode"` // now | earliest
	Clock       int64         `json:"clock"`
	Mut         c18Mut        `json:"mut"`
}

const (
	c18Authority = "brand-id1"
	c18Other     = "other-acct"
	c18Base      = int64(1600000000) // 2020-09-13
)

var (
	c18Root, _   = assertstest.GenerateKey(752)
	c18Key, _    = assertstest.GenerateKey(752)
	c18RootDB    = assertstest.NewSigningDB("canonical", c18Root)
	c18RootAcct  *asserts.Account
	c18RootKey   *asserts.AccountKey
	c18Accts     = map[string]*asserts.Account{}
	c18SigningDB = assertstest.NewSigningDB(c18Authority, c18Key)
)

func c18Time(t int64) string { return time.Unix(t, 0).UTC().Format(time.RFC3339) }

func c18Setup() {
	if c18RootAcct != nil {
		return
	}
	c18RootAcct = assertstest.NewAccount(c18RootDB, "canonical", map[string]interface{}{"account-id": "canonical", "validation": "verified",
		"timestamp": "2015-01-01T00:00:00Z"}, "")
	c18RootKey = assertstest.NewAccountKey(c18RootDB, c18RootAcct, map[string]interface{}{"since": "2000-01-01T00:00:00Z"}, c18Root.PublicKey(), "")
	for _, id := range []string{c18Authority, c18Other} {
		c18Accts[id] = assertstest.NewAccount(c18RootDB, id, map[string]interface{}{"account-id": id, "timestamp": "2015-01-01T00:00:00Z"}, "")
	}
}

func c18Constraints(cs [][][2]string) []interface{} {
	out := []interface{}{}
	for _, c := range cs {
		h := map[string]interface{}{}
		for _, hv := range c {
			h[hv[0]] = hv[1]
		}
		out = append(out, map[string]interface{}{"headers": h})
	}
	return out
}

func c18Decoded(enc []byte) string {
	buf := make([]byte, base64.StdEncoding.DecodedLen(len(enc)))
	n, err := base64.StdEncoding.Decode(buf, enc)
	if err != nil {
		return "!undecodable:" + string(enc)
	}
	return string(buf[:n])
}

// c18AddUnhashed re-encodes an OpenPGP v4 signature packet (after the v1 format byte) with one extra, non-critical,
// private-use subpacket in the UNHASHED area, which the signature hash does not cover.
func c18AddUnhashed(encSig []byte) ([]byte, error) {
	raw := []byte(c18Decoded(bytes.TrimSpace(encSig)))
	if len(raw) < 12 || raw[0] != 0x1 || raw[1] != 0xC2 {
		return nil, fmt.Errorf("unexpected signature framing % x", raw[:4])
	}
	var hdr, blen int
	switch {
	case raw[2] < 192:
		hdr, blen = 3, int(raw[2])
	case raw[2] < 224:
		hdr, blen = 4, (int(raw[2])-192)<<8+int(raw[3])+192
	default:
		return nil, fmt.Errorf("unsupported packet length form")
	}
	body := raw[hdr:]
	if len(body) != blen || body[0] != 4 {
		return nil, fmt.Errorf("unexpected signature packet")
	}
	hashedLen := int(body[4])<<8 | int(body[5])
	u := 6 + hashedLen
	unhashedLen := int(body[u])<<8 | int(body[u+1])
	sub := []byte{3, 100, 0xAA, 0xBB} // length 3: type 100 (private use) + 2 data bytes
	nb := append([]byte{}, body[:u]...)
	nl := unhashedLen + len(sub)
	nb = append(nb, byte(nl>>8), byte(nl))
	nb = append(nb, body[u+2:u+2+unhashedLen]...)
	nb = append(nb, sub...)
	nb = append(nb, body[u+2+unhashedLen:]...)
	out := []byte{0x1, 0xC2}
	if len(nb) < 192 {
		out = append(out, byte(len(nb)))
	} else {
		l := len(nb) - 192
		out = append(out, byte(l>>8)+192, byte(l))
	}
	out = append(out, nb...)
	enc := make([]byte, base64.StdEncoding.EncodedLen(len(out)))
	base64.StdEncoding.Encode(enc, out)
	return append(enc, '\n'), nil
}

// c18Sig is the framing of a v1 signature: format byte, OpenPGP packet header, v4 signature body.
type c18Sig struct {
	form     string // header form: new1 new2 new5 old1 old2 old4
	declared int    // body length the header declares
	body     []byte // what is there (may be shorter than declared)
	u        int    // offset of the unhashed length field in body
	unhashed int    // length of the unhashed subpacket area
	bitlen   int    // declared bit length of the RSA signature MPI
	mpi      []byte // MPI bytes
}

// c18Parse recognises the shapes of a signature that packet.Read + snapd's trailing-data check tolerate (found by
// experiment, see notes/C18.md): any header form, a declared length >= what is there, exactly one MPI up to the end.
func c18Parse(decoded string) (c18Sig, bool) {
	raw := []byte(decoded)
	var g c18Sig
	if len(raw) < 12 || raw[0] != 0x1 {
		return g, false
	}
	h := 0
	switch {
	case raw[1] == 0xC2 && raw[2] < 192:
		g.form, h, g.declared = "new1", 3, int(raw[2])
	case raw[1] == 0xC2 && raw[2] < 224:
		g.form, h, g.declared = "new2", 4, (int(raw[2])-192)<<8+int(raw[3])+192
	case raw[1] == 0xC2 && raw[2] == 255:
		g.form, h, g.declared = "new5", 7, int(raw[3])<<24|int(raw[4])<<16|int(raw[5])<<8|int(raw[6])
	case raw[1] == 0x88:
		g.form, h, g.declared = "old1", 3, int(raw[2])
	case raw[1] == 0x89:
		g.form, h, g.declared = "old2", 4, int(raw[2])<<8|int(raw[3])
	case raw[1] == 0x8A:
		g.form, h, g.declared = "old4", 6, int(raw[2])<<24|int(raw[3])<<16|int(raw[4])<<8|int(raw[5])
	default:
		return g, false
	}
	if h+8 > len(raw) {
		return g, false
	}
	g.body = raw[h:]
	if g.declared < len(g.body) || g.body[0] != 4 {
		return g, false
	}
	hashedLen := int(g.body[4])<<8 | int(g.body[5])
	g.u = 6 + hashedLen
	if g.u+2 > len(g.body) {
		return g, false
	}
	g.unhashed = int(g.body[g.u])<<8 | int(g.body[g.u+1])
	m := g.u + 2 + g.unhashed + 2 // after the hash tag
	if m+2 > len(g.body) {
		return g, false
	}
	g.bitlen = int(g.body[m])<<8 | int(g.body[m+1])
	g.mpi = g.body[m+2:]
	if (g.bitlen+7)/8 != len(g.mpi) {
		return g, false
	}
	return g, true
}

// c18Core is the part of the decoded signature that verification reads: the v4 signature body up to and including the
// hashed subpackets (version, signature type, algorithms, hashed area), the hash tag and the bytes of the MPI. Left out:
// the packet header (form and declared length), the unhashed subpacket area and the MPI's bit-length field. Anything that
// does not parse is its own core.
func c18Core(decoded string) string {
	g, ok := c18Parse(decoded)
	if !ok {
		return decoded
	}
	out := append([]byte("core:"), g.body[:g.u]...)
	out = append(out, g.body[g.u+2+g.unhashed:g.u+2+g.unhashed+2]...)
	return string(append(out, g.mpi...))
}

// c18SigChange names how a decoded signature with the same core differs from the genuine one.
func c18SigChange(decoded, genuine string) string {
	if decoded == genuine {
		return "none"
	}
	if c18Core(decoded) != c18Core(genuine) {
		return "core"
	}
	g, _ := c18Parse(decoded)
	g0, _ := c18Parse(genuine)
	switch {
	case g.unhashed != g0.unhashed:
		return "unhashed"
	case g.form != g0.form:
		return "packet-header-form"
	case g.declared != g0.declared:
		return "packet-length"
	case g.bitlen != g0.bitlen:
		return "mpi-bitlength"
	}
	return "other"
}

// c18Reframe rebuilds the encoded signature from a transformed framing.
func c18Reframe(encSig []byte, f func(g c18Sig) []byte) []byte {
	g, ok := c18Parse(c18Decoded(bytes.TrimSpace(encSig)))
	if !ok {
		panic("genuine signature does not parse")
	}
	out := append([]byte{0x1}, f(g)...)
	enc := make([]byte, base64.StdEncoding.EncodedLen(len(out)))
	base64.StdEncoding.Encode(enc, out)
	return append(enc, '\n')
}

func c18Mutate(encoded []byte, other []byte, m c18Mut) []byte {
	sep := bytes.LastIndex(encoded, []byte("\n\n"))
	content, sig := encoded[:sep], encoded[sep+2:]
	switch m.Kind {
	case "none":
		return encoded
	case "byte":
		out := append([]byte{}, encoded...)
		x := m.Xor
		if x == 0 {
			x = 1
		}
		out[((m.Pos%len(out))+len(out))%len(out)] ^= x
		return out
	case "insert":
		p := ((m.Pos % len(encoded)) + len(encoded)) % len(encoded)
		out := append([]byte{}, encoded[:p]...)
		out = append(out, m.Xor)
		return append(out, encoded[p:]...)
	case "delete":
		p := ((m.Pos % len(encoded)) + len(encoded)) % len(encoded)
		out := append([]byte{}, encoded[:p]...)
		return append(out, encoded[p+1:]...)
	case "sigswap": // the signature of another assertion genuinely signed by the same key
		osep := bytes.LastIndex(other, []byte("\n\n"))
		return append(append(append([]byte{}, content...), '\n', '\n'), other[osep+2:]...)
	case "unhashed":
		ns, err := c18AddUnhashed(sig)
		if err != nil {
			panic(err)
		}
		return append(append(append([]byte{}, content...), '\n', '\n'), ns...)
	case "mpibits", "pktlen", "oldformat", "len5", "mpizero":
		// re-encodings of the signature packet that leave everything verification reads unchanged
		kind := m.Kind
		ns := c18Reframe(sig, func(g c18Sig) []byte {
			body := append([]byte{}, g.body...)
			at := g.u + 2 + g.unhashed + 2 // the MPI bit length
			hdr := []byte{0xC2, byte(len(body))}
			switch kind {
			case "mpibits": // a smaller bit length with the same byte count
				bl := g.bitlen - 1 - (m.Pos % 6)
				if (bl+7)/8 != len(g.mpi) {
					bl = g.bitlen - 1
				}
				body[at], body[at+1] = byte(bl>>8), byte(bl)
			case "pktlen": // the header declares more than there is
				hdr = []byte{0xC2, byte(len(body) + 1 + m.Pos%8)}
			case "oldformat":
				hdr = []byte{0x89, byte(len(body) >> 8), byte(len(body))}
			case "len5":
				hdr = []byte{0xC2, 0xFF, 0, 0, byte(len(body) >> 8), byte(len(body))}
			case "mpizero": // a leading zero byte in the MPI, bit length and packet length adjusted
				bl := g.bitlen + 8
				nb := append([]byte{}, body[:at]...)
				nb = append(nb, byte(bl>>8), byte(bl), 0)
				body = append(nb, g.mpi...)
				hdr = []byte{0xC2, byte(len(body))}
			}
			return append(hdr, body...)
		})
		return append(append(append([]byte{}, content...), '\n', '\n'), ns...)
	case "dupheader", "addheader", "swaplines":
		lines := strings.Split(string(content), "\n")
		p := 1 + ((m.Pos%(len(lines)-1))+(len(lines)-1))%(len(lines)-1)
		switch m.Kind {
		case "dupheader":
			lines = append(lines[:p], append([]string{lines[p]}, lines[p:]...)...)
		case "addheader":
			lines = append(lines[:p], append([]string{"zz-extra: 1"}, lines[p:]...)...)
		default:
			q := 1 + (p % (len(lines) - 1))
			lines[p], lines[q] = lines[q], lines[p]
		}
		return append(append([]byte(strings.Join(lines, "\n")), '\n', '\n'), sig...)
	}
	panic("bad mutation " + m.Kind)
}

func c18Key1(id, account string, since, until int64, cs [][][2]string) string {
	u := "None"
	if until != 0 {
		u = "(Some " + vh.CoqZ(until) + ")"
	}
	alts := make([]string, len(cs))
	for i, c := range cs {
		pairs := make([]string, len(c))
		for j, hv := range c {
			pairs[j] = "(" + vh.CoqBytes(hv[0]) + ", " + vh.CoqBytes(hv[1]) + ")"
		}
		alts[i] = vh.CoqList(pairs)
	}
	idc := vh.CoqBytes(id)
	if id == "\x00k0" {
		idc = "k0"
	}
	// the constraints header: absent (None) or the list of its entries as written, known type or not
	hdr := "None"
	if len(cs) != 0 {
		hdr = "(Some " + vh.CoqList(alts) + ")"
	}
	return "(mkKey " + idc + " " + vh.CoqBytes(account) + " " + vh.CoqZ(since) + " " + u + " " + hdr + ")"
}

func c18Exec(in c18In) vh.Out {
	c18Setup()
	// everything is set up at a quiet moment of the clock
	restore := asserts.MockTimeNow(time.Unix(c18Base, 0))
	defer func() { restore() }()

	specs := []c18KeySpec{}
	if in.KeyWhere != "unknown" {
		specs = append(specs, c18KeySpec{in.KeyWhere, in.KeyAccount, in.Since, in.Until, in.Constraints, in.Rev})
	}
	if in.Second != nil {
		specs = append(specs, *in.Second)
	}
	// layers in the order Database.findAccountKey consults them: trusted, predefined (empty), [stacked top,] own store
	trusted := []asserts.Assertion{c18RootAcct, c18RootKey, c18Accts[c18Authority], c18Accts[c18Other]}
	store := asserts.NewMemoryBackstore()
	top := asserts.NewMemoryBackstore()
	stacked := false
	layerKeys := map[string][]string{"trusted": {c18Key1(c18Root.PublicKey().ID(), "canonical", 946684800, 0, nil)}}
	for _, sp := range specs {
		keyHeaders := map[string]interface{}{"since": c18Time(sp.Since)}
		if sp.Until != 0 {
			keyHeaders["until"] = c18Time(sp.Until)
		}
		if len(sp.Constraints) != 0 {
			keyHeaders["constraints"] = c18Constraints(sp.Constraints)
			keyHeaders["format"] = "1"
		}
		if sp.Rev != 0 {
			keyHeaders["revision"] = fmt.Sprint(sp.Rev)
		}
		accKey := assertstest.NewAccountKey(c18RootDB, c18Accts[sp.Account], keyHeaders, c18Key.PublicKey(), "")
		switch sp.Where {
		case "trusted":
			trusted = append(trusted, accKey)
		case "stored":
			// put directly: Add refuses an account-key whose primary key is also in the trusted set, but a store
			// filled by an earlier snapd can hold one
			if err := store.Put(asserts.AccountKeyType, accKey); err != nil {
				panic(err)
			}
		case "top":
			stacked = true
			if err := top.Put(asserts.AccountKeyType, accKey); err != nil {
				panic(err)
			}
		default:
			panic("bad layer " + sp.Where)
		}
		layerKeys[sp.Where] = append(layerKeys[sp.Where], c18Key1("\x00k0", sp.Account, sp.Since, sp.Until, sp.Constraints))
	}
	db, err := asserts.OpenDatabase(&asserts.DatabaseConfig{Backstore: store, Trusted: trusted})
	if err != nil {
		panic(err)
	}
	if stacked {
		db = db.WithStackedBackstore(top)
	}

	// the assertion, and another one signed by the same key (for swapping signatures)
	mk := func(model, extra string) asserts.Assertion {
		var a asserts.Assertion
		var err error
		if in.Type == "model" {
			a, err = c18SigningDB.Sign(asserts.ModelType, map[string]interface{}{"series": "16", "brand-id": c18Authority, "model": model,
				"architecture": "amd64", "gadget": "gadget", "kernel": "krnl", "extra": extra, "timestamp": c18Time(in.Timestamp)}, nil, "")
		} else if in.Type == "test-only-2" {
			a, err = c18SigningDB.Sign(asserts.TestOnly2Type, map[string]interface{}{"pk1": model, "pk2": "p2", "extra": extra}, nil, "")
		} else {
			a, err = c18SigningDB.Sign(asserts.TestOnlyType, map[string]interface{}{"primary-key": model, "extra": extra}, nil, "")
		}
		if err != nil {
			panic(err)
		}
		return a
	}
	genuine := mk(in.Model, in.Extra)
	other := mk(in.Model, in.Extra+"x")
	content0, encSig0 := genuine.Signature()
	sig0 := c18Decoded(bytes.TrimSpace(encSig0))

	presented := c18Mutate(asserts.Encode(genuine), asserts.Encode(other), in.Mut)
	a, derr := asserts.Decode(presented)

	// the clock of the case
	restore()
	restore = func() {}
	if in.ClockMode == "now" {
		restore = asserts.MockTimeNow(time.Unix(in.Clock, 0))
	} else {
		restore = asserts.MockTimeNow(time.Unix(c18Base, 0)) // must not matter
		db.SetEarliestTime(time.Unix(in.Clock, 0))
	}

	// the genuine key id, content, decoded signature and its core are bound once per case and shared (let-bound names)
	kid := c18Key.PublicKey().ID()
	core0 := c18Core(sig0)
	share := func(x string) string {
		switch x {
		case string(content0):
			return "c0"
		case sig0:
			return "s0"
		case core0:
			return "r0"
		case kid:
			return "k0"
		}
		return vh.CoqBytes(x)
	}
	accepted, added := false, false
	coqA := "(mkA false [] [] None [] [] [] [])"
	if derr == nil {
		accepted = db.Check(a) == nil
		if db.Add(a) == nil {
			if back, err := a.Ref().Resolve(db.Find); err == nil {
				bc, _ := back.Signature()
				ac, _ := a.Signature()
				added = bytes.Equal(bc, ac)
			}
		}
		content, encSig := a.Signature()
		ts := "None"
		if t, ok := a.(interface{ Timestamp() time.Time }); ok {
			ts = "(Some " + vh.CoqZ(t.Timestamp().Unix()) + ")"
		}
		var hs []string
		var names []string
		for k, v := range a.Headers() {
			if _, ok := v.(string); ok {
				names = append(names, k)
			}
		}
		sort.Strings(names)
		for _, k := range names {
			hs = append(hs, "("+vh.CoqBytes(k)+", "+vh.CoqBytes(a.Headers()[k].(string))+")")
		}
		dec := c18Decoded(encSig) // exactly the bytes decodeSignature gets: no trimming (base64 skips only \r and \n)
		coqA = "(mkA " + vh.CoqBool(a.SupportedFormat()) + " " + vh.CoqBytes(a.AuthorityID()) + " " + share(a.SignKeyID()) + " " + ts + " " +
			vh.CoqList(hs) + " " + share(string(content)) + " " + share(dec) + " " + share(c18Core(dec)) + ")"
	}

	layers := []string{vh.CoqList(layerKeys["trusted"]), "[]"}
	if stacked {
		layers = append(layers, vh.CoqList(layerKeys["top"]))
	}
	layers = append(layers, vh.CoqList(layerKeys["stored"]))
	clock := "(CNow " + vh.CoqZ(in.Clock) + ")"
	if in.ClockMode != "now" {
		clock = "(CEarliest " + vh.CoqZ(in.Clock) + ")"
	}
	coq := "(let k0 := " + vh.CoqBytes(kid) + " in let c0 := " + vh.CoqBytes(string(content0)) + " in let s0 := " + vh.CoqBytes(sig0) +
		" in let r0 := " + vh.CoqBytes(core0) + " in CCheck " + vh.CoqList(layers) + " " + clock + " " + vh.CoqBool(derr == nil) + " " + coqA + " (" +
		"k0, c0, r0) s0 " + vh.CoqBool(accepted) + " " + vh.CoqBool(added) + ")"

	sigChange := "undecodable"
	if derr == nil {
		_, es := a.Signature()
		sigChange = c18SigChange(c18Decoded(es), sig0)
	}
	tags := []string{"key:" + in.KeyWhere, "mut:" + in.Mut.Kind, "clock:" + in.ClockMode, "type:" + in.Type}
	if in.KeyAccount != c18Authority {
		tags = append(tags, "other-authority")
	}
	if in.Second != nil {
		tags = append(tags, "two-revisions:"+in.KeyWhere+"+"+in.Second.Where)
	}
	if len(in.Constraints) != 0 {
		tags = append(tags, "constrained")
	}
	if accepted {
		tags = append(tags, "accepted")
	} else if derr != nil {
		tags = append(tags, "decode-failed")
	} else {
		tags = append(tags, "rejected")
	}
	if accepted && sigChange != "none" {
		tags = append(tags, "accepted-with-sig-change:"+sigChange)
	}
	return vh.Out{Observed: map[string]interface{}{"decoded": derr == nil, "accepted": accepted, "added": added, "sig_change": sigChange}, Coq: coq,
		NonTrivial: in.KeyWhere != "unknown", Tags: tags}
}

func c18Gen(r *vh.Rand, tier string, n int) []c18In {
	if n <= 0 {
		n = 300
	}
	var out []c18In
	since, until := c18Base+1000, c18Base+5000
	base := func() c18In {
		return c18In{KeyWhere: "stored", KeyAccount: c18Authority, Since: since, Until: until, Type: "model", Model: "m1", Extra: "e",
			Timestamp: since + 100, ClockMode: "now", Clock: since + 200, Mut: c18Mut{Kind: "none"}}
	}
	// boundaries of the validity window against the clock and against the timestamp, for every key place and both types
	for _, where := range []string{"trusted", "stored"} {
		for _, d := range []int64{-1, 0, 1} {
			for _, edge := range []int64{since, until} {
				i := base()
				i.KeyWhere, i.Clock = where, edge+d
				out = append(out, i)
				i = base()
				i.KeyWhere, i.Timestamp = where, edge+d
				out = append(out, i)
				i = base()
				i.KeyWhere, i.ClockMode, i.Clock = where, "earliest", edge+d
				out = append(out, i)
				i = base()
				i.KeyWhere, i.Type, i.Clock = where, "test-only", edge+d
				out = append(out, i)
			}
		}
	}
	// no until; unknown key; other authority; constraints that admit / do not admit
	i := base()
	i.Until, i.Clock = 0, since+1000000
	out = append(out, i)
	i = base()
	i.KeyWhere = "unknown"
	out = append(out, i)
	for _, where := range []string{"trusted", "stored"} {
		i = base()
		i.KeyWhere, i.KeyAccount = where, c18Other
		out = append(out, i)
		for _, cs := range [][][][2]string{
			{{{"type", "model"}, {"model", "m1"}}},
			{{{"type", "model"}, {"model", "m2"}}},
			{{{"type", "test-only"}}},
			{{{"type", "test-only"}}, {{"type", "model"}, {"extra", "e"}}},
			{{{"type", "model"}, {"nosuch", "x"}}},
		} {
			i = base()
			i.KeyWhere, i.Constraints = where, cs
			out = append(out, i)
			i.Type = "test-only"
			out = append(out, i)
		}
	}
	// constraints naming assertion types this snapd does not know, alone and mixed with known ones, against assertions
	// of three types: an entry for an unknown type matches nothing, it is never dropped, and a key WITH a constraints
	// header never becomes unconstrained
	for _, cs := range [][][][2]string{
		{{{"type", "future-assertion-type"}}},
		{{{"type", "future-assertion-type"}, {"extra", "e"}}},
		{{{"type", "future-assertion-type"}}, {{"type", "another-future-type"}}},
		{{{"type", "future-assertion-type"}}, {{"type", "model"}}},
		{{{"type", "model"}}, {{"type", "future-assertion-type"}}},
		{{{"type", "future-assertion-type"}}, {{"type", "test-only"}, {"extra", "e"}}},
		{{{"type", "future-assertion-type"}}, {{"type", "test-only-2"}, {"extra", "nope"}}},
		{{{"type", "test-only-2"}}},
	} {
		for _, typ := range []string{"model", "test-only", "test-only-2"} {
			for _, where := range []string{"trusted", "stored"} {
				i = base()
				i.KeyWhere, i.Constraints, i.Type = where, cs, typ
				out = append(out, i)
			}
		}
	}
	// the SAME account-key at two revisions in two layers: the first layer (trusted < stacked top < own store) decides,
	// whether it holds the newer or the older revision
	for _, pair := range [][2]string{{"trusted", "stored"}, {"top", "stored"}, {"trusted", "top"}} {
		valid := func(where string, rev int) c18KeySpec {
			return c18KeySpec{Where: where, Account: c18Authority, Since: since, Until: until, Rev: rev}
		}
		expired := func(where string, rev int) c18KeySpec {
			return c18KeySpec{Where: where, Account: c18Authority, Since: since, Until: since + 150, Rev: rev}
		}
		constrained := func(where string, rev int) c18KeySpec {
			k := valid(where, rev)
			k.Constraints = [][][2]string{{{"type", "test-only"}}}
			return k
		}
		other := func(where string, rev int) c18KeySpec {
			k := valid(where, rev)
			k.Account = c18Other
			return k
		}
		notYet := func(where string, rev int) c18KeySpec {
			return c18KeySpec{Where: where, Account: c18Authority, Since: since + 1000, Until: until, Rev: rev}
		}
		first, later := pair[0], pair[1]
		for _, ks := range [][2]c18KeySpec{
			{expired(first, 1), valid(later, 0)},     // newer revision expired the key: refuse
			{constrained(first, 1), valid(later, 0)}, // newer revision constrains the key: refuse
			{other(first, 1), valid(later, 0)},       // newer revision moved the key to another account: refuse
			{notYet(first, 1), valid(later, 0)},      // newer revision not yet valid: refuse
			{valid(first, 1), expired(later, 0)},     // newer revision prolonged the key: accept
			{valid(first, 0), expired(later, 1)},     // the OLDER revision is first: it decides (accept)
			{expired(first, 0), valid(later, 1)},     // ... and refuses
			{valid(first, 1), constrained(later, 0)},
		} {
			for _, mode := range []string{"now", "earliest"} {
				i = base()
				p := ks[0]
				i.KeyWhere, i.KeyAccount, i.Since, i.Until, i.Constraints, i.Rev = p.Where, p.Account, p.Since, p.Until, p.Constraints, p.Rev
				sec := ks[1]
				i.Second = &sec
				i.ClockMode = mode
				out = append(out, i)
			}
		}
	}
	// structural mutations of a valid assertion
	for _, k := range []string{"sigswap", "unhashed", "mpibits", "pktlen", "oldformat", "len5", "mpizero", "dupheader", "addheader", "swaplines"} {
		for p := 0; p < 3; p++ {
			i = base()
			i.Mut = c18Mut{Kind: k, Pos: p + 1}
			out = append(out, i)
		}
	}
	// byte mutations of valid assertions: spread over the whole encoding (thorough: many more positions)
	for len(out) < n {
		i = base()
		switch r.Intn(10) {
		case 0:
			i.Type = "test-only"
		case 1:
			i.KeyWhere = "trusted"
		}
		switch r.Intn(6) {
		case 0:
			i.Mut = c18Mut{Kind: "insert", Pos: r.Intn(100000), Xor: byte(r.Pick([]string{"a", "\n", " ", ":", "=", "A"})[0])}
		case 1:
			i.Mut = c18Mut{Kind: "delete", Pos: r.Intn(100000)}
		default:
			i.Mut = c18Mut{Kind: "byte", Pos: r.Intn(100000), Xor: byte(1 << uint(r.Intn(8)))}
			if r.Chance(1, 4) {
				i.Mut.Xor = byte(r.Range(1, 255))
			}
		}
		// sometimes combine with a random key situation / clock
		if r.Chance(1, 5) {
			i.Mut = c18Mut{Kind: "none"}
			i.Clock = since + int64(r.Range(-3, 3)) + []int64{0, until - since}[r.Intn(2)]
			i.Timestamp = since + int64(r.Range(-3, 3)) + []int64{0, until - since, 100}[r.Intn(3)]
			i.ClockMode = r.Pick([]string{"now", "now", "earliest"})
			i.KeyWhere = r.Pick([]string{"trusted", "stored", "stored", "top", "unknown"})
			if r.Chance(1, 5) {
				i.KeyAccount = c18Other
			}
			if r.Chance(1, 4) {
				i.Until = 0
			}
			if r.Chance(1, 3) {
				i.Constraints = [][][2]string{{{"type", r.Pick([]string{"model", "test-only", "future-assertion-type"})}, {"extra", r.Pick([]string{"e", "f"})}}}
				if r.Bool() {
					i.Constraints = append([][][2]string{{{"type", r.Pick([]string{"future-assertion-type", "test-only-2", "model"})}}}, i.Constraints...)
				}
				i.Type = r.Pick([]string{"model", "test-only", "test-only-2"})
			}
		}
		out = append(out, i)
	}
	return out
}

func TestVerifC18(t *testing.T) { vh.Run(c18Gen, c18Exec) }
