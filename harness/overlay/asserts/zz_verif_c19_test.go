//go:build verif

// Driver for C19: runs the same random history of add / get / search / sequence operations on the memory backstore,
// the filesystem backstore (temp dir) and a Database, and prints the observed results as Coq terms of type
// V.models.AssertStore.case.
package asserts_test

import (
	"errors"
	"fmt"
	"os"
	"sort"
	"strconv"
	"strings"
	"testing"
	"time"

	"github.com/snapcore/snapd/asserts"
	"github.com/snapcore/snapd/zzverif/vh"
)

type c19Op struct {
	Kind  string   `json:"kind"` // add | get | search | seq
	Type  int      `json:"type"` // 0 test-only, 1 test-only-2, 2 test-only-seq, 3 account
	Key   []string `json:"key"`  // primary key / hint (empty = wildcard) / sequence key
	Fmt   int      `json:"fmt,omitempty"`
	Rev   int      `json:"rev,omitempty"`
	After int      `json:"after,omitempty"`
	MaxF  int      `json:"maxf,omitempty"`
}

type c19In struct {
	Ops []c19Op `json:"ops,omitempty"`
	Esc *string `json:"esc,omitempty"` // escape case: the directory the filesystem backstore creates for this key value
}

var c19Types = []*asserts.AssertionType{asserts.TestOnlyType, asserts.TestOnly2Type, asserts.TestOnlySeqType, asserts.AccountType}

func c19Bytes(s string) string { return vh.CoqBytes(s) }

func c19Key(k []string) string {
	items := make([]string, len(k))
	for i, x := range k {
		items[i] = c19Bytes(x)
	}
	return "[" + strings.Join(items, "; ") + "]"
}

func c19Headers(t *asserts.AssertionType, key []string) map[string]string {
	h := map[string]string{}
	for i, name := range t.PrimaryKey {
		if i < len(key) && key[i] != "" {
			h[name] = key[i]
		}
	}
	return h
}

// sign an assertion for the add operation number tag
func c19Sign(op c19Op, tag int) (asserts.Assertion, error) {
	t := c19Types[op.Type]
	h := map[string]interface{}{"authority-id": "canonical", "tag": strconv.Itoa(tag)}
	for i, name := range t.PrimaryKey {
		h[name] = op.Key[i]
	}
	if op.Rev > 0 {
		h["revision"] = strconv.Itoa(op.Rev)
	}
	if op.Fmt > 0 {
		h["format"] = strconv.Itoa(op.Fmt)
	}
	if op.Type == 3 {
		h["display-name"], h["validation"], h["timestamp"] = "Name", "unproven", time.Now().Format(time.RFC3339)
	}
	if op.Fmt > t.MaxSupportedFormat() {
		restore := asserts.MockMaxSupportedFormat(t, op.Fmt)
		defer restore()
	}
	return asserts.AssembleAndSignInTest(t, h, nil, testPrivKey0)
}

func c19AddRes(err error) string {
	var re *asserts.RevisionError
	var ue *asserts.UnsupportedFormatError
	switch {
	case err == nil:
		return "(RAdd Accepted)"
	case errors.As(err, &re):
		return "(RAdd RevErr)"
	case errors.As(err, &ue):
		return "(RAdd Unsupported)"
	case strings.Contains(err.Error(), "clashing with a"):
		return "(RAdd Clash)"
	}
	return "ROther"
}

func c19Found(as []asserts.Assertion, err error) string {
	if err != nil {
		if errors.Is(err, &asserts.NotFoundError{}) {
			return "RNotFound"
		}
		return "ROther"
	}
	if len(as) == 0 {
		return "RNotFound"
	}
	var tags []int
	seen := map[int]bool{}
	for _, a := range as {
		n, _ := strconv.Atoi(a.HeaderString("tag"))
		if !seen[n] {
			seen[n] = true
			tags = append(tags, n)
		}
	}
	sort.Ints(tags)
	items := make([]string, len(tags))
	for i, n := range tags {
		items[i] = strconv.Itoa(n)
	}
	return "(RFound [" + strings.Join(items, "; ") + "])"
}

func c19One(a asserts.Assertion, err error) string {
	if err != nil {
		return c19Found(nil, err)
	}
	return c19Found([]asserts.Assertion{a}, nil)
}

func c19BsStep(bs asserts.Backstore, op c19Op, a asserts.Assertion) (res string) {
	defer func() {
		if r := recover(); r != nil {
			res = "ROther"
		}
	}()
	t := c19Types[op.Type]
	switch op.Kind {
	case "add":
		return c19AddRes(bs.Put(t, a))
	case "get":
		return c19One(bs.Get(t, op.Key, op.MaxF))
	case "search":
		var found []asserts.Assertion
		err := bs.Search(t, c19Headers(t, op.Key), func(a asserts.Assertion) { found = append(found, a) }, op.MaxF)
		return c19Found(found, err)
	case "seq":
		sm, err := bs.SequenceMemberAfter(t, op.Key, op.After, op.MaxF)
		if err != nil {
			return c19Found(nil, err)
		}
		return c19Found([]asserts.Assertion{sm}, nil)
	}
	panic("bad op")
}

func c19DbStep(db *asserts.Database, op c19Op, a asserts.Assertion) (res string) {
	defer func() {
		if r := recover(); r != nil {
			res = "ROther"
		}
	}()
	t := c19Types[op.Type]
	switch op.Kind {
	case "add":
		return c19AddRes(db.Add(a))
	case "get":
		return c19One(db.FindMaxFormat(t, c19Headers(t, op.Key), op.MaxF))
	case "search":
		return c19Found(db.FindMany(t, c19Headers(t, op.Key)))
	case "seq":
		sm, err := db.FindSequence(t, c19Headers(t, op.Key), op.After, op.MaxF)
		if err != nil {
			return c19Found(nil, err)
		}
		return c19Found([]asserts.Assertion{sm}, nil)
	}
	panic("bad op")
}

const (
	c19Trusted    = "[(3, [bs \"canonical\"])]"
	c19Predefined = "[(3, [bs \"predefined\"])]"
)

// c19ExecEsc stores a one-key assertion with the given key value in a fresh filesystem backstore and reports the name of
// the directory created for it under asserts-v0/test-only/
func c19ExecEsc(v string) vh.Out {
	dir, err := os.MkdirTemp("", "verif-c19-esc-")
	if err != nil {
		panic(err)
	}
	defer os.RemoveAll(dir)
	fs, err := asserts.OpenFSBackstore(dir)
	if err != nil {
		panic(err)
	}
	a, err := c19Sign(c19Op{Kind: "add", Type: 0, Key: []string{v}}, 1)
	if err != nil {
		panic(fmt.Sprintf("cannot sign key %q: %v", v, err))
	}
	if err := fs.Put(asserts.TestOnlyType, a); err != nil {
		panic(err)
	}
	name := "<none>"
	typeDir := dir + "/asserts-v0/test-only"
	if ents, err := os.ReadDir(typeDir); err == nil && len(ents) == 1 && ents[0].IsDir() {
		if _, err := os.Stat(typeDir + "/" + ents[0].Name() + "/active"); err == nil {
			name = ents[0].Name()
		}
	}
	return vh.Out{Observed: map[string]interface{}{"dirname": name}, Coq: "(CEsc " + vh.CoqBytes(v) + " " + vh.CoqBytes(name) + ")",
		NonTrivial: name != v, Tags: []string{"esc"}}
}

func c19Exec(in c19In) vh.Out {
	if in.Esc != nil {
		return c19ExecEsc(*in.Esc)
	}
	mem := asserts.NewMemoryBackstore()
	dir, err := os.MkdirTemp("", "verif-c19-")
	if err != nil {
		panic(err)
	}
	defer os.RemoveAll(dir)
	fs, err := asserts.OpenFSBackstore(dir)
	if err != nil {
		panic(err)
	}
	predef, err := asserts.AssembleAndSignInTest(asserts.AccountType, map[string]interface{}{"authority-id": "canonical", "account-id": "predefined",
		"validation": "verified", "display-name": "Predef", "timestamp": time.Now().Format(time.RFC3339)}, nil, testPrivKey0)
	if err != nil {
		panic(err)
	}
	db, err := asserts.OpenDatabase(&asserts.DatabaseConfig{
		Backstore: asserts.NewMemoryBackstore(),
		Trusted: []asserts.Assertion{asserts.BootstrapAccountForTest("canonical"),
			asserts.BootstrapAccountKeyForTest("canonical", testPrivKey0.PublicKey())},
		OtherPredefined: []asserts.Assertion{predef},
	})
	if err != nil {
		panic(err)
	}
	var ops, om, of, od []string
	tags := map[string]int{}
	nadd, nacc := 0, 0
	for i, op := range in.Ops {
		var a asserts.Assertion
		switch op.Kind {
		case "add":
			a, err = c19Sign(op, i+1)
			if err != nil {
				panic(fmt.Sprintf("cannot sign %+v: %v", op, err))
			}
			seq := 0
			if sm, ok := a.(asserts.SequenceMember); ok {
				seq = sm.Sequence()
			}
			ops = append(ops, fmt.Sprintf("OAdd (mkA %d %s %d %d %d %d)", op.Type, c19Key(op.Key), op.Fmt, op.Rev, seq, i+1))
			nadd++
		case "get":
			ops = append(ops, fmt.Sprintf("OGet %d %s %d", op.Type, c19Key(op.Key), op.MaxF))
		case "search":
			ops = append(ops, fmt.Sprintf("OSearch %d %s %d", op.Type, c19Key(op.Key), op.MaxF))
		case "seq":
			ops = append(ops, fmt.Sprintf("OSeq %d %s %s %d", op.Type, c19Key(op.Key), vh.CoqZ(int64(op.After)), op.MaxF))
		}
		rm, rf, rd := c19BsStep(mem, op, a), c19BsStep(fs, op, a), c19DbStep(db, op, a)
		om, of, od = append(om, rm), append(of, rf), append(od, rd)
		if rm == "(RAdd Accepted)" {
			nacc++
		}
		for _, r := range []string{rm, rf, rd} {
			tags[op.Kind+"-"+strings.Trim(strings.SplitN(r, " [", 2)[0], "()")]++
		}
	}
	var tl []string
	for k := range tags {
		tl = append(tl, k)
	}
	sort.Strings(tl)
	coq := "(CHist " + c19Trusted + " " + c19Predefined + " [" + strings.Join(ops, "; ") + "] [" + strings.Join(om, "; ") + "] [" +
		strings.Join(of, "; ") + "] [" + strings.Join(od, "; ") + "])"
	return vh.Out{Observed: map[string]interface{}{"mem": om, "fs": of, "db": od}, Coq: coq, NonTrivial: nacc >= 2 && nadd > nacc, Tags: tl}
}

// ---------------------------------------------------------------- generation

// primary-key values that the stores must keep apart and find again: every character that url.QueryEscape, url.PathEscape
// or a file-name glob treat specially, strings that look like escapes of each other, case variants, non-ASCII
// ('/' cannot occur: primary keys containing it are refused when the assertion is assembled)
var c19Special = []string{"$", "&", "+", "=", ":", "@", " ", ",", ";", "%", "?", "#", "*", "[", "]", "\\", "[a]", "a*", "?a", "a$b", "a&b", "a+b", "a b",
	"a=b", "a:b", "a@b", "a,b", "a;b", "a%b", "a?b", "a#b", "a*b", "a[b]", "a\\b", "%2B", "a%2Bb", "a%20b", "a+b ", " a", "A", "a", "aB", "Ab", "é", "日本", "a.b", "a~b", "a_b", "-",
	"...", ".a", "a.", "active", "active.1", "0:a", "1:x", "!", "'", "(a)", "{a}", "|", "<>", "^", "`", "a\"b"}

func c19GenKey(r *vh.Rand, typ int) []string {
	ids := []string{"a", "b", "c"}
	if r.Chance(1, 3) {
		ids = []string{r.Pick(c19Special), r.Pick(c19Special), "a"}
	}
	switch typ {
	case 0:
		return []string{r.Pick(ids)}
	case 1:
		return []string{r.Pick(ids), r.Pick([]string{"x", "y", r.Pick(c19Special)})}
	case 2:
		return []string{r.Pick([]string{"s1", "s2", r.Pick(c19Special)}), strconv.Itoa(r.Range(1, 6))}
	}
	return []string{r.Pick([]string{"canonical", "predefined", "dev1", "dev2"})}
}

func c19History(r *vh.Rand, n int) c19In {
	var ops []c19Op
	nextUnsupp := 100
	for len(ops) < n {
		typ := []int{0, 0, 1, 2, 2, 2, 3}[r.Intn(7)]
		t := c19Types[typ]
		maxS := t.MaxSupportedFormat()
		k := r.Intn(10)
		if typ == 3 {
			k = 0 // accounts only exercise the clash rule of Database.Add; the database's own trusted/predefined entries are not looked up
		}
		switch {
		case k < 5:
			op := c19Op{Kind: "add", Type: typ, Key: c19GenKey(r, typ), Rev: r.Range(0, 5), Fmt: r.Range(0, maxS)}
			if r.Chance(1, 8) { // a format above the supported one: revisions from a range of their own (no ties)
				op.Fmt = maxS + r.Range(1, 2)
				op.Rev = nextUnsupp
				nextUnsupp++
			}
			ops = append(ops, op)
		case k < 7:
			ops = append(ops, c19Op{Kind: "get", Type: typ, Key: c19GenKey(r, typ), MaxF: r.Range(0, maxS+1)})
		case k < 8:
			key := c19GenKey(r, typ)
			for i := range key {
				if r.Bool() {
					key[i] = ""
				}
			}
			ops = append(ops, c19Op{Kind: "search", Type: typ, Key: key, MaxF: r.Range(0, maxS+1)})
		default:
			ops = append(ops, c19Op{Kind: "seq", Type: 2, Key: []string{r.Pick([]string{"s1", "s2", "s3"})}, After: r.Range(-1, 6), MaxF: r.Range(0, 3)})
		}
	}
	return c19In{Ops: c19Lookups(r, ops)}
}

// c19Lookups appends, for every key that was added, a Get and Searches with all, some and none of the primary-key
// headers given (and the sequence lookup for sequence-forming keys)
func c19Lookups(r *vh.Rand, ops []c19Op) []c19Op {
	seen := map[string]bool{}
	seenType := map[int]bool{}
	out := ops
	for _, op := range ops {
		if op.Kind != "add" || op.Type == 3 {
			continue
		}
		id := fmt.Sprintf("%d/%q", op.Type, op.Key)
		if seen[id] {
			continue
		}
		seen[id] = true
		maxS := c19Types[op.Type].MaxSupportedFormat()
		key := append([]string{}, op.Key...)
		out = append(out, c19Op{Kind: "get", Type: op.Type, Key: key, MaxF: maxS}, c19Op{Kind: "search", Type: op.Type, Key: key, MaxF: maxS})
		for i := range key {
			if len(key) > 1 {
				sub := append([]string{}, key...)
				sub[i] = ""
				out = append(out, c19Op{Kind: "search", Type: op.Type, Key: sub, MaxF: maxS})
			}
		}
		if op.Type == 2 {
			out = append(out, c19Op{Kind: "seq", Type: 2, Key: key[:1], After: -1, MaxF: maxS}, c19Op{Kind: "seq", Type: 2, Key: key[:1], After: r.Range(0, 3), MaxF: maxS})
		}
		if !seenType[op.Type] {
			seenType[op.Type] = true
			none := make([]string, len(key))
			out = append(out, c19Op{Kind: "search", Type: op.Type, Key: none, MaxF: maxS})
		}
	}
	return out
}

// c19Sweep: every special value as the key of a test-only assertion, as either component of a two-part key and as the
// sequence key of a sequence-forming one, a few values per history so that look-alikes share a store
func c19Sweep(r *vh.Rand) []c19In {
	var ins []c19In
	vals := append([]string{}, c19Special...)
	for start := 0; start < len(vals); start += 6 {
		end := start + 6
		if end > len(vals) {
			end = len(vals)
		}
		var ops []c19Op
		for _, v := range vals[start:end] {
			ops = append(ops, c19Op{Kind: "add", Type: 0, Key: []string{v}, Rev: r.Range(0, 2)},
				c19Op{Kind: "add", Type: 1, Key: []string{v, "x"}, Rev: r.Range(0, 2)},
				c19Op{Kind: "add", Type: 1, Key: []string{"x", v}, Rev: r.Range(0, 2)},
				c19Op{Kind: "add", Type: 2, Key: []string{v, strconv.Itoa(r.Range(1, 3))}, Rev: r.Range(0, 2), Fmt: r.Range(0, 2)})
		}
		// look-alikes that must stay apart: escapes of each other, neighbours in the list
		ops = append(ops, c19Op{Kind: "get", Type: 0, Key: []string{"a%2Bb"}, MaxF: 1}, c19Op{Kind: "search", Type: 0, Key: []string{"a+b"}, MaxF: 1},
			c19Op{Kind: "search", Type: 0, Key: []string{"a b"}, MaxF: 1}, c19Op{Kind: "search", Type: 0, Key: []string{"a%20b"}, MaxF: 1},
			c19Op{Kind: "search", Type: 0, Key: []string{"*"}, MaxF: 1}, c19Op{Kind: "get", Type: 0, Key: []string{"?"}, MaxF: 1})
		ins = append(ins, c19In{Ops: c19Lookups(r, ops)})
	}
	return ins
}

// c19Dots: primary-key components that are the directory names "." and ".." (kept in histories of their own)
func c19Dots(r *vh.Rand) []c19In {
	var ins []c19In
	for _, v := range []string{".", ".."} {
		ins = append(ins,
			c19In{Ops: c19Lookups(r, []c19Op{{Kind: "add", Type: 0, Key: []string{"a"}, Rev: 1}, {Kind: "add", Type: 0, Key: []string{v}, Rev: 1}})},
			c19In{Ops: c19Lookups(r, []c19Op{{Kind: "add", Type: 1, Key: []string{"a", "x"}}, {Kind: "add", Type: 1, Key: []string{v, "x"}}, {Kind: "add", Type: 1, Key: []string{"x", v}}})},
			c19In{Ops: c19Lookups(r, []c19Op{{Kind: "add", Type: 2, Key: []string{"s1", "1"}}, {Kind: "add", Type: 2, Key: []string{v, "2"}, Fmt: 1}})})
	}
	return ins
}

func c19Gen(r *vh.Rand, tier string, n int) []c19In {
	if n == 0 {
		n = 150
	}
	var ins []c19In
	// small scope: every sequence of three adds to one key over revisions 0..2 and formats 0..1, each followed by gets
	for code := 0; code < 6*6*6; code++ {
		var ops []c19Op
		c := code
		for j := 0; j < 3; j++ {
			v := c % 6
			c /= 6
			ops = append(ops, c19Op{Kind: "add", Type: 0, Key: []string{"a"}, Rev: v % 3, Fmt: v / 3})
			ops = append(ops, c19Op{Kind: "get", Type: 0, Key: []string{"a"}, MaxF: 1}, c19Op{Kind: "get", Type: 0, Key: []string{"a"}, MaxF: 0})
		}
		ins = append(ins, c19In{Ops: ops})
	}
	ins = append(ins, c19Sweep(r)...)
	ins = append(ins, c19Dots(r)...)
	for _, v := range append([]string{".", ".."}, c19Special...) {
		v := v
		ins = append(ins, c19In{Esc: &v})
	}
	for k := 0; k < 60; k++ { // random key values: printable ASCII without '/', some non-ASCII
		v := r.Str("abzAZ09 .-_~$&+=:@,;%?#*[]\\!'(){}|<>^`\"", 1, 6)
		if r.Chance(1, 5) {
			v += r.Pick([]string{"é", "ß", "日", "\u00a0", "€"})
		}
		ins = append(ins, c19In{Esc: &v})
	}
	for k := 0; k < n; k++ {
		ins = append(ins, c19History(r, r.Range(4, 30)))
	}
	return ins
}

func TestVerifC19(t *testing.T) { vh.Run(c19Gen, c19Exec) }
