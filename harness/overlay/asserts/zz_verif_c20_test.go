//go:build verif

// Driver for C20: runs the real header formatter/parser (appendEntry, parseHeaders), Encode/Decode and the stream
// Decoder (default and stressed limits) on generated inputs and prints the observed behaviour as Coq terms of type
// V.models.AssertCodec.case.
package asserts

import (
	"bytes"
	"crypto/rand"
	"crypto/rsa"
	"crypto/sha256"
	"fmt"
	"io"
	"sort"
	"strconv"
	"strings"
	"testing"
	"time"

	"github.com/snapcore/snapd/zzverif/vh"
)

// ---------------------------------------------------------------- inputs

type c20Val struct {
	K string            `json:"k"` // s | l | m
	S string            `json:"s,omitempty"`
	L []c20Val          `json:"l,omitempty"`
	M map[string]c20Val `json:"m,omitempty"`
}

type c20In struct {
	Kind   string            `json:"kind"` // fmt | parse | codec | decode | stream
	V      *c20Val           `json:"v,omitempty"`
	Head   []byte            `json:"head,omitempty"`
	Type   string            `json:"type,omitempty"`
	H      map[string]c20Val `json:"h,omitempty"`
	Body   []byte            `json:"body,omitempty"`
	Enc    []byte            `json:"enc,omitempty"`
	Lim    []int             `json:"lim,omitempty"` // buf, headers, body, sig
	Stream []byte            `json:"stream,omitempty"`
	Tag    string            `json:"tag,omitempty"`
	// chunk: assertions to sign and stream, reader chunk size (0 = whole), final data delivered together with EOF
	Sigs    []c20Signed `json:"sigs,omitempty"`
	Chunk   int         `json:"chunk,omitempty"`
	EOFData bool        `json:"eofdata,omitempty"`
	// encstream: how each of Sigs is handed to the one Encoder: encode | encoded | encoded-trim | cs | cs-trim
	Modes []string `json:"modes,omitempty"`
}

type c20Signed struct {
	Type string            `json:"type"`
	H    map[string]c20Val `json:"h"`
	Body []byte            `json:"body,omitempty"`
}

// c20Chop hands out the data n bytes per Read (n <= 0: as much as fits); with eofData the last bytes come together
// with io.EOF (as testing/iotest.DataErrReader does)
type c20Chop struct {
	data    []byte
	n       int
	eofData bool
}

func (c *c20Chop) Read(p []byte) (int, error) {
	if len(c.data) == 0 {
		return 0, io.EOF
	}
	k := len(p)
	if c.n > 0 && c.n < k {
		k = c.n
	}
	if k > len(c.data) {
		k = len(c.data)
	}
	copy(p, c.data[:k])
	c.data = c.data[k:]
	if c.eofData && len(c.data) == 0 {
		return k, io.EOF
	}
	return k, nil
}

func (v c20Val) iface() interface{} {
	switch v.K {
	case "s":
		return v.S
	case "l":
		l := make([]interface{}, len(v.L))
		for i, e := range v.L {
			l[i] = e.iface()
		}
		return l
	case "m":
		m := make(map[string]interface{}, len(v.M))
		for k, e := range v.M {
			m[k] = e.iface()
		}
		return m
	}
	panic("bad value kind " + v.K)
}

func c20Headers(h map[string]c20Val) map[string]interface{} {
	m := make(map[string]interface{}, len(h))
	for k, e := range h {
		m[k] = e.iface()
	}
	return m
}

// ---------------------------------------------------------------- Coq printing

// Terms that occur several times in one case (the encoding, the headers, the signature ...) are printed once and
// bound with let; c20Exec wraps the case term in the bindings. Pure printing: the term denotes the same value.
var (
	c20Pool    []string
	c20PoolIdx map[string]int
)

func c20Share(term string) string {
	if len(term) < 48 {
		return term
	}
	if i, ok := c20PoolIdx[term]; ok {
		return fmt.Sprintf("s%d", i)
	}
	c20PoolIdx[term] = len(c20Pool)
	c20Pool = append(c20Pool, term)
	return fmt.Sprintf("s%d", len(c20Pool)-1)
}

func c20Exec(i c20In) vh.Out {
	c20Pool, c20PoolIdx = nil, map[string]int{}
	out := c20ExecRaw(i)
	if len(c20Pool) > 0 {
		var sb strings.Builder
		sb.WriteString("(")
		for k, t := range c20Pool {
			fmt.Fprintf(&sb, "let s%d := %s in ", k, t)
		}
		sb.WriteString(out.Coq + ")")
		out.Coq = sb.String()
	}
	return out
}

func c20Bytes(s string) string { return c20Share(c20BytesRaw(s)) }

func c20BytesRaw(s string) string {
	if len(s) == 0 {
		return "[]"
	}
	var parts []string
	printable := func(c byte) bool { return c >= 0x20 && c <= 0x7e && c != '"' }
	runLen := func(i int) int {
		j := i
		for j < len(s) && s[j] == s[i] {
			j++
		}
		return j - i
	}
	i := 0
	for i < len(s) {
		if n := runLen(i); n >= 24 { // long runs of one byte (padding): repeat c n, in pieces of at most 4000
			for left := n; left > 0; {
				k := left
				if k > 4000 {
					k = 4000
				}
				parts = append(parts, fmt.Sprintf("repeat %d%%N %d%%nat", s[i], k))
				left -= k
			}
			i += n
			continue
		}
		j := i
		if printable(s[i]) {
			for j < len(s) && printable(s[j]) && runLen(j) < 24 {
				j++
			}
			parts = append(parts, `bs "`+s[i:j]+`"`)
		} else {
			var nums []string
			for j < len(s) && !printable(s[j]) && runLen(j) < 24 {
				nums = append(nums, strconv.Itoa(int(s[j])))
				j++
			}
			parts = append(parts, "["+strings.Join(nums, ";")+"]%N")
		}
		i = j
	}
	return "(" + strings.Join(parts, " ++ ") + ")"
}

func c20Lines(ls []string) string {
	items := make([]string, len(ls))
	for i, l := range ls {
		items[i] = c20Bytes(l)
	}
	return "[" + strings.Join(items, "; ") + "]"
}

func c20HV(v interface{}) string {
	switch x := v.(type) {
	case string:
		return "(Str " + c20Lines(strings.Split(x, "\n")) + ")"
	case []interface{}:
		items := make([]string, len(x))
		for i, e := range x {
			items[i] = c20HV(e)
		}
		return "(Lst [" + strings.Join(items, "; ") + "])"
	case map[string]interface{}:
		return "(Map " + c20Map(x) + ")"
	}
	panic(fmt.Sprintf("unexpected header value %T", v))
}

func c20Map(m map[string]interface{}) string {
	keys := make([]string, 0, len(m))
	for k := range m {
		keys = append(keys, k)
	}
	sort.Strings(keys)
	items := make([]string, len(keys))
	for i, k := range keys {
		items[i] = "(" + c20Bytes(k) + ", " + c20HV(m[k]) + ")"
	}
	return c20Share("[" + strings.Join(items, "; ") + "]")
}

// ---------------------------------------------------------------- running with panic recovery and a time bound

const c20TimeBound = 20 * time.Second

// c20Guard runs f; reports whether it panicked or did not return within the time bound
func c20Guard(f func()) (panicked, timedOut bool) {
	done := make(chan bool, 1)
	go func() {
		defer func() {
			if r := recover(); r != nil {
				done <- true
				return
			}
			done <- false
		}()
		f()
	}()
	select {
	case p := <-done:
		return p, false
	case <-time.After(c20TimeBound):
		return false, true
	}
}

type c20Res struct {
	Kind    string                 `json:"kind"` // ok | err | eof | panic | timeout
	Headers map[string]interface{} `json:"headers,omitempty"`
	Body    string                 `json:"body,omitempty"`
	Sig     string                 `json:"sig,omitempty"`
	EncLen  int                    `json:"enc-len,omitempty"`
	EncSum  string                 `json:"enc-sha,omitempty"`
	SigOK   bool                   `json:"signature-verifies,omitempty"`
	enc     string                 // asserts.Encode of the returned assertion
	body    string
}

func (r c20Res) coq() string {
	switch r.Kind {
	case "ok":
		return "(OOk " + c20Map(r.Headers) + " " + c20Bytes(r.body) + " " + c20Bytes(r.Sig) + " " + c20Bytes(r.enc) + ")"
	case "eof":
		return "OEof"
	case "panic", "timeout":
		return "OPanic"
	}
	return "OErr"
}

func c20Call(f func() (Assertion, error)) c20Res {
	var a Assertion
	var err error
	p, t := c20Guard(func() { a, err = f() })
	switch {
	case t:
		return c20Res{Kind: "timeout"}
	case p:
		return c20Res{Kind: "panic"}
	case err == io.EOF:
		return c20Res{Kind: "eof"}
	case err != nil:
		return c20Res{Kind: "err"}
	}
	content, sig := a.Signature()
	enc := string(Encode(a))
	if enc != string(content)+"\n\n"+string(sig) {
		panic("Encode is not content + blank line + signature")
	}
	body := string(a.Body())
	if len(body) > 300 {
		body = fmt.Sprintf("%d bytes, sha256 %x", len(body), sha256.Sum256([]byte(body)))
	}
	res := c20Res{Kind: "ok", Headers: a.Headers(), Body: body, Sig: string(sig), EncLen: len(enc), EncSum: fmt.Sprintf("%x", sha256.Sum256([]byte(enc))),
		SigOK: SignatureCheck(a, c20PrivKey().PublicKey()) == nil, enc: enc}
	res.body = string(a.Body())
	return res
}

var c20Key PrivateKey

func c20PrivKey() PrivateKey {
	if c20Key == nil {
		rk, err := rsa.GenerateKey(rand.Reader, 752)
		if err != nil {
			panic(err)
		}
		c20Key = RSAPrivateKey(rk)
	}
	return c20Key
}

func c20Type(name string) *AssertionType {
	t := Type(name)
	if t == nil {
		panic("unknown type " + name)
	}
	return t
}

func c20Sign(typ string, h map[string]c20Val, body []byte) (Assertion, error) {
	if len(body) == 0 {
		body = nil
	}
	return assembleAndSign(c20Type(typ), c20Headers(h), body, c20PrivKey())
}

// ---------------------------------------------------------------- exec

func c20ExecRaw(i c20In) vh.Out {
	switch i.Kind {
	case "fmt":
		v := i.V.iface()
		var buf bytes.Buffer
		appendEntry(&buf, "h:", v, 0)
		lines := strings.Split(buf.String(), "\n")[1:]
		tag := "fmt-" + i.V.K
		return vh.Out{Observed: map[string]interface{}{"lines": lines}, Coq: "(CFmt " + c20HV(v) + " " + c20Lines(lines) + ")",
			NonTrivial: len(lines) > 1, Tags: []string{tag}}
	case "parse":
		var h map[string]interface{}
		var err error
		p, t := c20Guard(func() { h, err = parseHeaders(i.Head) })
		res, tag := "", ""
		switch {
		case p || t:
			res, tag = "PPanic", "parse-panic"
		case err != nil:
			res, tag = "PErr", "parse-rejected"
		default:
			res, tag = "(POk "+c20Map(h)+")", "parse-accepted"
		}
		tags := []string{tag}
		if i.Tag != "" {
			tags = append(tags, i.Tag)
		}
		return vh.Out{Observed: map[string]interface{}{"result": tag, "headers": h}, Coq: "(CParse " + c20Bytes(string(i.Head)) + " " + res + ")",
			NonTrivial: err == nil && !p && !t, Tags: tags}
	case "codec":
		a, err := c20Sign(i.Type, i.H, i.Body)
		if err != nil {
			// the generator aims at signable inputs; a refusal to sign is outside the property
			return vh.Out{Observed: map[string]interface{}{"sign-error": err.Error()}, Coq: "(CDecode [] OErr false)", Tags: []string{"codec-sign-refused"}}
		}
		_, sig := a.Signature()
		enc := Encode(a)
		dec := c20Call(func() (Assertion, error) { return Decode(enc) })
		sdec := c20Call(func() (Assertion, error) { return NewDecoder(bytes.NewReader(enc)).Decode() })
		timeout := dec.Kind == "timeout" || sdec.Kind == "timeout"
		same := dec.Kind == "ok" && sdec.Kind == "ok"
		verified := dec.SigOK && sdec.SigOK
		coq := "(CCodec " + c20Map(a.Headers()) + " " + c20Bytes(string(a.Body())) + " " + c20Bytes(string(sig)) + " " + c20Bytes(string(enc)) +
			" " + dec.coq() + " " + sdec.coq() + " " + vh.CoqBool(verified) + " " + vh.CoqBool(timeout) + ")"
		tags := []string{"codec-" + i.Type, "codec-decoded-" + dec.Kind}
		if i.Tag != "" {
			tags = append(tags, i.Tag)
		}
		if len(i.Body) > 0 {
			tags = append(tags, "codec-with-body")
		}
		return vh.Out{Observed: map[string]interface{}{"decode": dec, "stream": sdec}, Coq: coq, NonTrivial: same, Tags: tags}
	case "decode":
		dec := c20Call(func() (Assertion, error) { return Decode(i.Enc) })
		coq := "(CDecode " + c20Bytes(string(i.Enc)) + " " + dec.coq() + " " + vh.CoqBool(dec.Kind == "timeout") + ")"
		tags := []string{"decode-" + dec.Kind}
		if i.Tag != "" {
			tags = append(tags, i.Tag)
		}
		return vh.Out{Observed: map[string]interface{}{"decode": dec}, Coq: coq, NonTrivial: dec.Kind == "ok", Tags: tags}
	case "stream":
		d := NewDecoderStressed(bytes.NewReader(i.Stream), i.Lim[0], i.Lim[1], i.Lim[2], i.Lim[3])
		var results []c20Res
		var items []string
		timeout := false
		nok := 0
		for len(results) < 12 {
			r := c20Call(d.Decode)
			results = append(results, r)
			items = append(items, r.coq())
			if r.Kind == "timeout" {
				timeout = true
			}
			if r.Kind != "ok" {
				break
			}
			nok++
		}
		last := results[len(results)-1].Kind
		coq := fmt.Sprintf("(CStream (mkLim %d %d %d %d) %s [%s] %s)", i.Lim[0], i.Lim[1], i.Lim[2], i.Lim[3], c20Bytes(string(i.Stream)),
			strings.Join(items, "; "), vh.CoqBool(timeout))
		tags := []string{"stream-ends-" + last, fmt.Sprintf("stream-decoded-%d", nok)}
		if i.Tag != "" {
			tags = append(tags, i.Tag)
		}
		return vh.Out{Observed: map[string]interface{}{"results": results}, Coq: coq, NonTrivial: nok > 0, Tags: tags}
	case "chunk", "encstream":
		var encs [][]byte
		var origs, items []string
		var wbuf bytes.Buffer
		wenc := NewEncoder(&wbuf)
		for k, sg := range i.Sigs {
			a, err := c20Sign(sg.Type, sg.H, sg.Body)
			if err != nil {
				panic(fmt.Sprintf("chunk case must be signable: %v", err))
			}
			_, sig := a.Signature()
			encs = append(encs, Encode(a))
			origs = append(origs, "("+c20Map(a.Headers())+", "+c20Bytes(string(a.Body()))+", "+c20Bytes(string(sig))+", "+c20Bytes(string(Encode(a)))+")")
			if i.Kind == "encstream" {
				content, _ := a.Signature()
				trimmed := bytes.TrimSuffix(sig, nl)
				item := Encode(a)
				var werr error
				switch i.Modes[k] {
				case "encode":
					werr = wenc.Encode(a)
				case "encoded":
					werr = wenc.WriteEncoded(item)
				case "encoded-trim":
					item = bytes.TrimSuffix(item, nl)
					werr = wenc.WriteEncoded(item)
				case "cs":
					werr = wenc.WriteContentSignature(content, sig)
				case "cs-trim":
					item = bytes.TrimSuffix(item, nl)
					werr = wenc.WriteContentSignature(content, trimmed)
				default:
					panic("bad mode " + i.Modes[k])
				}
				if werr != nil {
					panic(werr)
				}
				items = append(items, c20Bytes(string(item)))
			}
		}
		stream := c20Stream(encs)
		if i.Kind == "encstream" {
			stream = append([]byte{}, wbuf.Bytes()...)
		}
		d := NewDecoderStressed(&c20Chop{data: append([]byte{}, stream...), n: i.Chunk, eofData: i.EOFData}, i.Lim[0], i.Lim[1], i.Lim[2], i.Lim[3])
		var results []c20Res
		var ritems []string
		timeout := false
		verified := true
		nok := 0
		for len(results) < len(encs)+2 {
			r := c20Call(d.Decode)
			results = append(results, r)
			ritems = append(ritems, r.coq())
			if r.Kind == "timeout" {
				timeout = true
			}
			if r.Kind != "ok" {
				break
			}
			verified = verified && r.SigOK
			nok++
		}
		coq := fmt.Sprintf("(CChunk (mkLim %d %d %d %d) [%s] %s %d [%s] %s %s)", i.Lim[0], i.Lim[1], i.Lim[2], i.Lim[3], strings.Join(origs, "; "),
			c20Bytes(string(stream)), i.Chunk, strings.Join(ritems, "; "), vh.CoqBool(verified), vh.CoqBool(timeout))
		if i.Kind == "encstream" {
			coq = fmt.Sprintf("(CEnc (mkLim %d %d %d %d) [%s] [%s] %s %d [%s] %s %s)", i.Lim[0], i.Lim[1], i.Lim[2], i.Lim[3], strings.Join(items, "; "),
				strings.Join(origs, "; "), c20Bytes(string(stream)), i.Chunk, strings.Join(ritems, "; "), vh.CoqBool(verified), vh.CoqBool(timeout))
		}
		tags := []string{fmt.Sprintf("chunk-decoded-%d-of-%d", nok, len(encs)), "chunk-ends-" + results[len(results)-1].Kind, fmt.Sprintf("chunk-buf-%d", i.Lim[0])}
		for _, m := range i.Modes {
			tags = append(tags, "encoder-"+m)
		}
		if i.Tag != "" {
			tags = append(tags, i.Tag)
		}
		// the sizes are part of the observation: where the delimiters fall
		first := encs[0]
		return vh.Out{Observed: map[string]interface{}{"results": results, "head-end": bytes.Index(first, nlnl), "sig-start": bytes.LastIndex(first, nlnl) + 2,
			"enc-len": len(first), "stream-len": len(stream)}, Coq: coq, NonTrivial: nok == len(encs), Tags: tags}
	}
	panic("unknown kind " + i.Kind)
}

// ---------------------------------------------------------------- generation

var c20Keys = []string{"a", "b", "k1", "foo", "foo-bar", "x-9", "z"}
var c20BadKeys = []string{"", "A", "a b", "-a", "a-", "a--b", "9a", "a:b", "é"}

func c20Str(r *vh.Rand) string {
	line := func() string {
		switch r.Intn(8) {
		case 0:
			return ""
		case 1:
			return r.Pick([]string{"-", "- x", "  -", "  ", " ", "a:", "a: b", "  a: b", "    x", ":", "\t", "é", "日本", "-\u00a0"})
		}
		return r.Str("ab -:xyz09 ", 1, 8)
	}
	switch r.Intn(10) {
	case 0, 1, 2:
		n := r.Range(2, 4)
		ls := make([]string, n)
		for k := range ls {
			ls[k] = line()
		}
		return strings.Join(ls, "\n")
	case 3:
		return r.Pick([]string{"", "\n", "\n\n", "a\n", "\na", " ", "a\n\nb", "  - x\n  - y", "a:\n  b: c"})
	}
	return line()
}

// normalised = survives the text form (non-empty lists/maps, valid distinct keys)
func c20Value(r *vh.Rand, depth int, normalised bool) c20Val {
	k := r.Intn(10)
	if depth <= 0 || k < 5 {
		return c20Val{K: "s", S: c20Str(r)}
	}
	if k < 8 {
		n := r.Range(1, 3)
		if !normalised && r.Chance(1, 4) {
			n = 0
		}
		l := make([]c20Val, n)
		for j := range l {
			l[j] = c20Value(r, depth-1, normalised)
		}
		return c20Val{K: "l", L: l}
	}
	n := r.Range(1, 3)
	if !normalised && r.Chance(1, 4) {
		n = 0
	}
	m := map[string]c20Val{}
	for j := 0; j < n; j++ {
		key := r.Pick(c20Keys)
		if !normalised && r.Chance(1, 5) {
			key = r.Pick(c20BadKeys)
		}
		m[key] = c20Value(r, depth-1, normalised)
	}
	return c20Val{K: "m", M: m}
}

func c20HeaderMap(r *vh.Rand, normalised bool) map[string]c20Val {
	h := map[string]c20Val{}
	n := r.Range(0, 4)
	for j := 0; j < n; j++ {
		h[r.Pick([]string{"aa", "extra", "foo", "h-1", "plugs", "x", "zz-top"})] = c20Value(r, r.Range(0, 3), normalised)
	}
	return h
}

func c20S(s string) c20Val { return c20Val{K: "s", S: s} }

// a signable input: type, full header map, body
func c20Signable(r *vh.Rand, normalised bool) (string, map[string]c20Val, []byte) {
	h := c20HeaderMap(r, normalised)
	typ := r.Pick([]string{"test-only", "test-only", "test-only-2", "test-only-seq", "test-only-no-authority-pk", "account", "test-only-rev"})
	id := r.Str("abcdefgh0123456789", 1, 6)
	switch typ {
	case "test-only":
		h["primary-key"] = c20S(id)
	case "test-only-2":
		h["pk1"], h["pk2"] = c20S(id), c20S(r.Str("xyz", 1, 3))
	case "test-only-seq":
		h["n"], h["sequence"] = c20S(id), c20S(strconv.Itoa(r.Range(1, 30)))
	case "test-only-no-authority-pk":
		h["pk"] = c20S(id)
	case "test-only-rev":
		h["h"] = c20S(id)
	case "account":
		h["account-id"], h["display-name"], h["validation"], h["timestamp"] = c20S(id), c20S("Name "+id), c20S("unproven"), c20S("2020-01-02T03:04:05Z")
	}
	if typ != "test-only-no-authority-pk" {
		h["authority-id"] = c20S(r.Pick([]string{"canonical", "dev1", "a"}))
	}
	if r.Chance(1, 2) {
		h["revision"] = c20S(strconv.Itoa(r.Range(0, 12)))
	}
	var body []byte
	switch r.Intn(6) {
	case 0:
		body = []byte(c20Str(r))
	case 1:
		body = []byte(r.Pick([]string{"\n", "\n\n", "body\n\nmore", "x\n", "\n\nx", "type: fake\n\nsig", "é\n"}))
	case 2:
		body = []byte(r.Str("abc \n:-", 1, 40))
	}
	return typ, h, body
}

func c20Mutate(r *vh.Rand, b []byte) []byte {
	out := append([]byte{}, b...)
	n := r.Range(1, 3)
	for k := 0; k < n && len(out) > 0; k++ {
		p := r.Intn(len(out))
		switch r.Intn(8) {
		case 0:
			out = out[:p]
		case 1:
			out[p] ^= byte(1 << uint(r.Intn(8)))
		case 2:
			out = append(out[:p], out[p+1:]...)
		case 3:
			ins := r.Pick([]string{"\n", "\n\n", " ", "  ", "-", ":", "  -", "    ", "a: b\n", "\xff", "body-length: 3\n", "body-length: -1\n"})
			out = append(out[:p], append([]byte(ins), out[p:]...)...)
		case 4: // change indentation of the line containing p
			s := p
			for s > 0 && out[s-1] != '\n' {
				s--
			}
			if r.Bool() {
				out = append(out[:s], append([]byte(r.Pick([]string{" ", "  "})), out[s:]...)...)
			} else if out[s] == ' ' {
				out = append(out[:s], out[s+1:]...)
			}
		case 5: // duplicate a line
			s, e := p, p
			for s > 0 && out[s-1] != '\n' {
				s--
			}
			for e < len(out) && out[e] != '\n' {
				e++
			}
			ln := append([]byte{'\n'}, out[s:e]...)
			out = append(out[:e], append(ln, out[e:]...)...)
		case 6:
			out[p] = byte(r.Intn(256))
		case 7:
			out[p] = '\n'
		}
	}
	return out
}

func c20FormatHead(h map[string]c20Val) []byte {
	var buf bytes.Buffer
	keys := make([]string, 0, len(h))
	for k := range h {
		keys = append(keys, k)
	}
	sort.Strings(keys)
	for _, k := range keys {
		appendEntry(&buf, k+":", h[k].iface(), 0)
	}
	if buf.Len() == 0 {
		return nil
	}
	return buf.Bytes()[1:]
}

func c20Enum(alpha string, maxLen int) []string {
	out := []string{""}
	prev := []string{""}
	for l := 1; l <= maxLen; l++ {
		var cur []string
		for _, p := range prev {
			for k := 0; k < len(alpha); k++ {
				cur = append(cur, p+string(alpha[k]))
			}
		}
		out = append(out, cur...)
		prev = cur
	}
	return out
}

func c20Stream(encs [][]byte) []byte {
	var buf bytes.Buffer
	enc := NewEncoder(&buf)
	for _, e := range encs {
		enc.WriteEncoded(e)
	}
	return buf.Bytes()
}

// c20Padded returns a signable test-only assertion whose header block (distance from the start of the encoding to the
// first blank line) is exactly headLen bytes, by sizing a padding header; ok=false if headLen is too small
func c20Padded(r *vh.Rand, headLen int, body []byte) (c20Signed, bool) {
	mk := func(pad int) c20Signed {
		h := map[string]c20Val{"authority-id": c20S("canonical"), "primary-key": c20S("k" + r.Str("abc", 1, 2)), "zz-pad": c20S(strings.Repeat("p", pad))}
		if r.Bool() {
			h["list"] = c20Val{K: "l", L: []c20Val{c20S("a"), c20S("b\nc")}}
		}
		return c20Signed{Type: "test-only", H: h, Body: body}
	}
	sg := mk(1)
	a, err := c20Sign(sg.Type, sg.H, sg.Body)
	if err != nil {
		panic(err)
	}
	pad := 1 + headLen - bytes.Index(Encode(a), nlnl)
	if pad < 1 {
		return sg, false
	}
	sg.H["zz-pad"] = c20S(strings.Repeat("p", pad))
	a, err = c20Sign(sg.Type, sg.H, sg.Body)
	if err != nil {
		panic(err)
	}
	if got := bytes.Index(Encode(a), nlnl); got != headLen {
		panic(fmt.Sprintf("padding failed: head %d, wanted %d", got, headLen))
	}
	return sg, true
}

// c20SigLen is the length of a signature as stored (with its final newline); it does not depend on the content
func c20SigLen() int {
	a, err := c20Sign("test-only", map[string]c20Val{"authority-id": c20S("a"), "primary-key": c20S("k")}, nil)
	if err != nil {
		panic(err)
	}
	_, sig := a.Signature()
	return len(sig)
}

// streams whose delimiters fall on and around the read boundaries of Decoder.readUntil (initial buffer size B, then
// doubling), read through readers of every chunking
func c20Boundary(r *vh.Rand, tier string) []c20In {
	var ins []c20In
	big := 1 << 22
	chunks := func(buf int) (int, bool) {
		c := []int{0, 1, 2, 3, 7, buf - 1, buf, buf + 1, r.Range(1, 2*buf)}[r.Intn(9)]
		if c < 0 {
			c = 0
		}
		return c, r.Chance(1, 4)
	}
	second := func() c20Signed {
		typ, h, body := c20Signable(r, true)
		return c20Signed{Type: typ, H: h, Body: body}
	}
	add := func(first c20Signed, buf int, limH, limB, limS int, tag string) {
		sigs := []c20Signed{first}
		if r.Bool() { // something after it in the stream, which must not be lost
			sigs = append(sigs, second())
		}
		if r.Chance(1, 3) { // the boundary assertion not in first position
			sigs[0], sigs[len(sigs)-1] = sigs[len(sigs)-1], sigs[0]
		}
		c, e := chunks(buf)
		ins = append(ins, c20In{Kind: "chunk", Sigs: sigs, Lim: []int{buf, limH, limB, limS}, Chunk: c, EOFData: e, Tag: tag})
	}
	// 1. the blank line after the headers at offsets B*2^j - 3 .. B*2^j + 1 (readUntil looks at B, 2B, 4B ... bytes)
	type bd struct{ buf, boundary int }
	var bds []bd
	for _, b := range []int{8, 16, 50, 100} {
		for sz := b; sz <= 1100; sz *= 2 {
			// quick tier: each boundary once per family (8: 256, 512, 1024; 16: 256; 50: 200, 400, 800; 100: 400)
			if sz >= 180 && (tier == "thorough" || b == 8 || b == 50 || (b == 16 && sz == 256) || (b == 100 && sz == 400)) {
				bds = append(bds, bd{b, sz})
			}
		}
	}
	for _, x := range bds {
		for delta := -3; delta <= 1; delta++ {
			var body []byte
			if r.Bool() {
				body = []byte(r.Str("abc \n", 1, 30))
			}
			if sg, ok := c20Padded(r, x.boundary+delta, body); ok {
				add(sg, x.buf, big, big, big, fmt.Sprintf("chunk-head-boundary-%d%+d", x.boundary, delta))
			}
		}
	}
	// the production buffer size and its doublings, with the production limits
	bigB := []int{defaultDecoderBufSize, 2 * defaultDecoderBufSize}
	if tier == "thorough" {
		bigB = append(bigB, 4*defaultDecoderBufSize, 8*defaultDecoderBufSize)
	} else {
		bigB = append(bigB, 4*defaultDecoderBufSize)
	}
	for _, boundary := range bigB {
		for delta := -3; delta <= 1; delta++ {
			var body []byte
			if r.Bool() {
				body = []byte("body\n\nmore\n")
			}
			sg, _ := c20Padded(r, boundary+delta, body)
			c, e := chunks(defaultDecoderBufSize)
			ins = append(ins, c20In{Kind: "chunk", Sigs: []c20Signed{sg, second()}, Lim: []int{defaultDecoderBufSize, MaxHeadersSize, MaxBodySize, MaxSignatureSize},
				Chunk: c, EOFData: e, Tag: fmt.Sprintf("chunk-head-boundary-%d%+d", boundary, delta)})
		}
	}
	// 2. the separator after the signature (and, without a body, the one readUntil meets first after the headers):
	// buffer sizes B with B*2^j around the signature length
	sl := c20SigLen()
	for delta := -3; delta <= 2; delta++ {
		for _, div := range []int{1, 2, 4, 8} {
			if (sl+delta)%div != 0 {
				continue
			}
			buf := (sl + delta) / div
			for _, withBody := range []bool{false, true} {
				var body []byte
				if withBody {
					body = []byte(r.Str("abc \n", 1, 30))
				}
				typ, h, _ := c20Signable(r, true)
				add(c20Signed{Type: typ, H: h, Body: body}, buf, big, big, big, fmt.Sprintf("chunk-sig-boundary-%d/%d", sl+delta, div))
			}
		}
	}
	// 3. the body: its end (where the next readUntil starts) at and around the boundaries, bodies ending in newlines
	for _, x := range []bd{{16, 256}, {50, 400}, {100, 400}} {
		for delta := -2; delta <= 2; delta++ {
			typ, h, _ := c20Signable(r, true)
			a, err := c20Sign(typ, h, []byte("x"))
			if err != nil {
				panic(err)
			}
			headEnd := bytes.Index(Encode(a), nlnl) + 2
			n := x.boundary + delta - headEnd
			if n < 2 {
				continue
			}
			body := []byte(strings.Repeat("b", n-1) + r.Pick([]string{"\n", "c"}))
			add(c20Signed{Type: typ, H: h, Body: body}, x.buf, big, big, big, fmt.Sprintf("chunk-body-boundary-%d%+d", x.boundary, delta))
		}
	}
	return ins
}

// c20Body is a body of exactly n bytes: lines of one letter, at most 997 bytes long
func c20Body(n int, letter byte) []byte {
	b := make([]byte, n)
	for i := range b {
		if i%998 == 997 {
			b[i] = '\n'
		} else {
			b[i] = letter
		}
	}
	return b
}

// assertions whose bodies are around and above the decoder's 4096-byte read window, alone and as 2nd/3rd assertion
// of a stream, through the production decoder setup and every kind of reader
func c20BigBodies(r *vh.Rand, tier string) []c20In {
	var ins []c20In
	lim := []int{defaultDecoderBufSize, MaxHeadersSize, MaxBodySize, MaxSignatureSize}
	mk := func(n int, letter byte) c20Signed {
		h := map[string]c20Val{"authority-id": c20S("canonical"), "primary-key": c20S("big" + r.Str("abc", 1, 2)), "note": c20S("x\ny")}
		return c20Signed{Type: "test-only", H: h, Body: c20Body(n, letter)}
	}
	small := func() c20Signed {
		typ, h, body := c20Signable(r, true)
		return c20Signed{Type: typ, H: h, Body: body}
	}
	headLen := func(sg c20Signed) int {
		a, err := c20Sign(sg.Type, sg.H, []byte("x"))
		if err != nil {
			panic(err)
		}
		return bytes.Index(Encode(a), nlnl) + 2
	}
	add := func(tag string, sigs ...c20Signed) {
		c := []int{0, 0, 1, 3, 4095, 4096, 4097, r.Range(1, 9000)}[r.Intn(8)]
		ins = append(ins, c20In{Kind: "chunk", Sigs: sigs, Lim: lim, Chunk: c, EOFData: r.Chance(1, 4), Tag: tag})
	}
	sizes := []int{0, 1, 3600, 3700, 3800, 3900, 4000, 4100, 4200, 4096, 5000, 9000, 70000}
	if tier == "thorough" {
		sizes = append(sizes, 3650, 3750, 3850, 3950, 4050, 4150, 8192, 20000, 200000, 1000000)
	}
	for _, n := range sizes {
		sg := mk(n, 'b')
		if r.Bool() {
			add(fmt.Sprintf("chunk-body-%d", n), sg)
		} else {
			add(fmt.Sprintf("chunk-body-%d", n), sg, small())
		}
	}
	// the body ending exactly on and around the first read window
	for delta := -2; delta <= 2; delta++ {
		sg := mk(1, 'c')
		sg.Body = c20Body(defaultDecoderBufSize+delta-headLen(sg), 'c')
		add(fmt.Sprintf("chunk-body-window%+d", delta), sg, small())
	}
	// large bodies later in the stream
	add("chunk-body-second", small(), mk(5000, 'd'))
	add("chunk-body-third", small(), small(), mk(9000, 'e'))
	add("chunk-body-second", mk(4100, 'f'), mk(70000, 'g'))
	add("chunk-body-third", small(), mk(3900, 'h'), mk(4300, 'i'))
	add("chunk-body-second", small(), mk(4096, 'j'), small())
	return ins
}

func c20Gen(r *vh.Rand, tier string, n int) []c20In {
	if n == 0 {
		n = 400
	}
	var ins []c20In
	// formatter: random trees, also outside the normal form
	for k := 0; k < n/4; k++ {
		v := c20Value(r, r.Range(0, 4), r.Chance(2, 3))
		ins = append(ins, c20In{Kind: "fmt", V: &v})
	}
	// parser: every string of length <= L over a small alphabet of the grammar's significant characters
	maxLen := 4
	if tier == "thorough" {
		maxLen = 6
	}
	for _, s := range c20Enum("a: -\n", maxLen) {
		ins = append(ins, c20In{Kind: "parse", Head: []byte(s), Tag: "parse-enum"})
	}
	for _, s := range []string{"a:\n  -\n    -\n      - x", "a:\n  b:\n    c:\n      d", "a:\n  -", "a:\n  - ", "a:\n  b:", "a:\n  b", "a:\n    ", "a:\n     x", "a:\n   x",
		"a:\n  - x\n  y: z", "a:\n  y: z\n  - x", "a:\n  y: z\n  y: w", "a: 1\na: 2", "a:\n  -\n      x\n      y\n  - z", "a:\n  -\n    b: c\n    d:\n      - e",
		"a:\n  -  x", "a:\n  --", "a:\n  -x", "a:x", "a:", ":", "a", "\xff: a", "a: \xff", "a: \xc0\x80", "a: \xed\xa0\x80", "a: \xf4\x90\x80\x80", "a: \xe2\x82\xac\xf0\x9f\x98\x80"} {
		ins = append(ins, c20In{Kind: "parse", Head: []byte(s), Tag: "parse-edge"})
	}
	for k := 0; k < n/2; k++ {
		head := c20FormatHead(c20HeaderMap(r, r.Chance(3, 4)))
		tag := "parse-formatted"
		if r.Chance(2, 3) {
			head = c20Mutate(r, head)
			tag = "parse-mutated"
		}
		ins = append(ins, c20In{Kind: "parse", Head: head, Tag: tag})
	}
	for k := 0; k < n/8; k++ {
		b := make([]byte, r.Range(0, 24))
		for j := range b {
			if r.Bool() {
				b[j] = byte(r.Intn(256))
			} else {
				b[j] = "a: -\n"[r.Intn(5)]
			}
		}
		ins = append(ins, c20In{Kind: "parse", Head: b, Tag: "parse-random"})
	}
	// whole assertions: sign, encode, decode with both decoders
	var encs [][]byte
	for k := 0; k < n/4; k++ {
		normalised := r.Chance(5, 6)
		typ, h, body := c20Signable(r, normalised)
		tag := "codec-normalised"
		if !normalised {
			tag = "codec-any-tree"
		}
		ins = append(ins, c20In{Kind: "codec", Type: typ, H: h, Body: body, Tag: tag})
		if a, err := c20Sign(typ, h, body); err == nil {
			encs = append(encs, Encode(a))
		}
	}
	// Decode on damaged encodings and on arbitrary bytes
	for k := 0; k < n/4 && len(encs) > 0; k++ {
		e := encs[r.Intn(len(encs))]
		ins = append(ins, c20In{Kind: "decode", Enc: c20Mutate(r, e), Tag: "decode-mutated"})
	}
	for k := 0; k < n/16; k++ {
		b := make([]byte, r.Range(0, 40))
		for j := range b {
			b[j] = byte(r.Intn(256))
		}
		ins = append(ins, c20In{Kind: "decode", Enc: b, Tag: "decode-random"})
	}
	for _, s := range []string{"", "\n", "\n\n", "\n\n\n", "\n\n\n\n", "a: b\n\nsig", "type: test-only\n\n", "type: test-only\nauthority-id: a\nprimary-key: k\nsign-key-sha3-384: x\n\nsig"} {
		ins = append(ins, c20In{Kind: "decode", Enc: []byte(s), Tag: "decode-edge"})
	}
	// streams against stressed limits
	for k := 0; k < n/4 && len(encs) > 0; k++ {
		m := r.Range(1, 3)
		var parts [][]byte
		for j := 0; j < m; j++ {
			parts = append(parts, encs[r.Intn(len(encs))])
		}
		stream := c20Stream(parts)
		tag := "stream-valid"
		switch r.Intn(6) {
		case 0:
			stream = c20Mutate(r, stream)
			tag = "stream-mutated"
		case 1:
			stream = stream[:r.Intn(len(stream)+1)]
			tag = "stream-truncated"
		}
		buf := []int{8, 16, 50, 64, 100, 128, 512, 4096}[r.Intn(8)]
		pick := func(base int) int {
			switch r.Intn(6) {
			case 0:
				return buf
			case 1:
				return buf << uint(r.Range(1, 6))
			case 2:
				return base + r.Range(-3, 3)
			case 3:
				return r.Range(1, 2*base+10)
			}
			return 1 << 20
		}
		first := parts[0]
		headEnd := bytes.Index(first, nlnl) + 2
		sigStart := bytes.LastIndex(first, nlnl) + 2
		bodyLen := sigStart - 2 - headEnd
		if bodyLen < 0 {
			bodyLen = 0
		}
		lim := []int{buf, pick(headEnd), pick(bodyLen), pick(len(first) - sigStart + 1)}
		if lim[2] < 1 {
			lim[2] = 1
		}
		if lim[1] < 1 {
			lim[1] = 1
		}
		if lim[3] < 1 {
			lim[3] = 1
		}
		ins = append(ins, c20In{Kind: "stream", Lim: lim, Stream: stream, Tag: tag})
	}
	ins = append(ins, c20Boundary(r, tier)...)
	ins = append(ins, c20BigBodies(r, tier)...)
	// streams of 1..5 assertions written through ONE Encoder, each handed over in one of the five ways (Encode,
	// WriteEncoded with / without the final newline, WriteContentSignature with / without it): every pair of ways for
	// two assertions, then random longer streams
	modes := []string{"encode", "encoded", "encoded-trim", "cs", "cs-trim"}
	encItem := func() c20Signed {
		typ, h, body := c20Signable(r, true)
		if r.Chance(1, 6) {
			body = []byte(r.Pick([]string{"\n", "x\n\n", "\n\nx", "tail\n"}))
		}
		return c20Signed{Type: typ, H: h, Body: body}
	}
	prodLim := []int{defaultDecoderBufSize, MaxHeadersSize, MaxBodySize, MaxSignatureSize}
	for _, m1 := range modes {
		for _, m2 := range modes {
			ins = append(ins, c20In{Kind: "encstream", Sigs: []c20Signed{encItem(), encItem()}, Modes: []string{m1, m2}, Lim: prodLim, Tag: "encstream-pairs"})
		}
	}
	for k := 0; k < n/8; k++ {
		cnt := r.Range(1, 5)
		var sigs []c20Signed
		var ms []string
		for j := 0; j < cnt; j++ {
			sigs = append(sigs, encItem())
			ms = append(ms, r.Pick(modes))
		}
		lim := prodLim
		chunk := 0
		if r.Bool() {
			buf := []int{8, 16, 50, 100, 512}[r.Intn(5)]
			lim = []int{buf, 1 << 22, 1 << 22, 1 << 22}
			chunk = r.Range(0, 2*buf)
		}
		ins = append(ins, c20In{Kind: "encstream", Sigs: sigs, Modes: ms, Lim: lim, Chunk: chunk, EOFData: r.Chance(1, 4), Tag: "encstream-random"})
	}
	for _, n := range []int{3900, 4096, 9000} { // the same through Decode and NewDecoder side by side
		ins = append(ins, c20In{Kind: "codec", Type: "test-only", H: map[string]c20Val{"authority-id": c20S("canonical"), "primary-key": c20S("k")},
			Body: c20Body(n, 'z'), Tag: "codec-normalised"})
	}
	// random valid streams through chopped readers
	for k := 0; k < n/12; k++ {
		var sigs []c20Signed
		for j := r.Range(1, 3); j > 0; j-- {
			typ, h, body := c20Signable(r, true)
			sigs = append(sigs, c20Signed{Type: typ, H: h, Body: body})
		}
		buf := []int{8, 16, 50, 64, 100, 128, 512, 4096}[r.Intn(8)]
		ins = append(ins, c20In{Kind: "chunk", Sigs: sigs, Lim: []int{buf, 1 << 22, 1 << 22, 1 << 22}, Chunk: r.Range(0, 2*buf), EOFData: r.Chance(1, 4), Tag: "chunk-random"})
	}
	for _, bl := range []string{"-1", "-0", "+3", "03", "3", "x", "99999999999999999999", "2097153", "-5", "-60", "-100000", "-9223372036854775808"} {
		s := "type: test-only\nauthority-id: a\nprimary-key: k\nbody-length: " + bl + "\nsign-key-sha3-384: Jv8_JiHiIzJVcO9M55pPdqSDWUvuhfDIBJUS-3VW7F_idjix7Ffn5qMxB21ZQuij\n\nabc\n\nAXNpZw==\n"
		ins = append(ins, c20In{Kind: "stream", Lim: []int{4096, MaxHeadersSize, MaxBodySize, MaxSignatureSize}, Stream: []byte(s), Tag: "stream-body-length-" + bl})
	}
	// spread the small exhaustive parser cases evenly among the larger ones (the evaluation is sharded by position)
	var small, large, mixed []c20In
	for _, in := range ins {
		if in.Tag == "parse-enum" {
			small = append(small, in)
		} else {
			large = append(large, in)
		}
	}
	for k := 0; k < len(small) || k < len(large); k++ {
		if k < len(large) {
			mixed = append(mixed, large[k])
		}
		if k < len(small) {
			mixed = append(mixed, small[k])
		}
	}
	return mixed
}

func TestVerifC20(t *testing.T) { vh.Run(c20Gen, c20Exec) }
