//go:build verif

package asserts

import (
	"bytes"
	"crypto/rand"
	"crypto/rsa"
	"fmt"
	"testing"
)

func c20try(name string, f func()) {
	defer func() {
		if r := recover(); r != nil {
			fmt.Printf("%s: PANIC %v\n", name, r)
		}
	}()
	f()
}

func TestVerifC20Probe(t *testing.T) {
	rk, _ := rsa.GenerateKey(rand.Reader, 752)
	pk := RSAPrivateKey(rk)
	c20try("neg body-length stream", func() {
		d := NewDecoder(bytes.NewBufferString("type: test-only\nauthority-id: a\nprimary-key: k\nbody-length: -100000\nsign-key-sha3-384: x\n\nAXNpZw=="))
		a, err := d.Decode()
		fmt.Println("neg:", a, err)
	})
	for _, h := range []map[string]interface{}{
		{"authority-id": "a", "primary-key": "k", "foo": []interface{}{[]interface{}{}}},
		{"authority-id": "a", "primary-key": "k", "foo": []interface{}{"a", []interface{}{}}},
		{"authority-id": "a", "primary-key": "k", "foo": map[string]interface{}{"A b": "x"}},
		{"authority-id": "a", "primary-key": "k", "Foo": "x"},
		{"authority-id": "a", "primary-key": "k", "foo": "\xff"},
		{"authority-id": "a", "primary-key": "k", "foo": "a\n\nb\n"},
		{"authority-id": "a", "primary-key": "k", "foo": []interface{}{"a\nb", map[string]interface{}{"x": "y\n", "z": []interface{}{"q"}}}},
	} {
		h := h
		c20try("sign", func() {
			a, err := assembleAndSign(TestOnlyType, h, nil, pk)
			if err != nil {
				fmt.Println("sign err:", err)
				return
			}
			enc := Encode(a)
			b, err := Decode(enc)
			if err != nil {
				fmt.Printf("decode err: %v\n%s\n", err, enc[:120])
				return
			}
			fmt.Printf("ok %v -> %v\n", a.Header("foo"), b.Header("foo"))
		})
	}
}
