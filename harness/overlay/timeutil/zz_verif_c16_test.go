//go:build verif

// Driver for C16 (in-package: sets the unexported timeNow hook). Runs the real ParseSchedule / Schedule.String /
// Schedule.Next / Includes / Next in UTC on grammar-generated timers plus a malformed stream and prints the observed
// behaviour as Coq terms of type V.models.Timer.case.
package timeutil

import (
	"fmt"
	"reflect"
	"strings"
	"testing"
	"time"

	"github.com/snapcore/snapd/zzverif/vh"
)

type c16In struct {
	Kind  string `json:"kind"` // next | top | inc | parse
	Timer string `json:"timer"`
	Last  int64  `json:"last,omitempty"`
	Now   int64  `json:"now,omitempty"`
	MaxD  int64  `json:"maxd,omitempty"` // seconds
	// where last+maxd was placed relative to the earliest window the schedules offer (generator bookkeeping only)
	Boundary string `json:"boundary,omitempty"`
}

func c16Z(n int64) string { return vh.CoqZ(n) }

func c16Clock(c Clock) string { return fmt.Sprintf("(mkClock %s %s)", c16Z(int64(c.Hour)), c16Z(int64(c.Minute))) }
func c16Week(w Week) string {
	return fmt.Sprintf("(mkWeek %s %s)", c16Z(int64(w.Weekday)), c16Z(int64(w.Pos)))
}
func c16Sched(s *Schedule) string {
	var ws, cs []string
	for _, w := range s.WeekSpans {
		ws = append(ws, fmt.Sprintf("mkWS %s %s", c16Week(w.Start), c16Week(w.End)))
	}
	for _, c := range s.ClockSpans {
		cs = append(cs, fmt.Sprintf("mkCS %s %s %s %s", c16Clock(c.Start), c16Clock(c.End), c16Z(int64(c.Split)), vh.CoqBool(c.Spread)))
	}
	return "(mkSched " + vh.CoqList(ws) + " " + vh.CoqList(cs) + ")"
}
func c16Scheds(l []*Schedule) string {
	var out []string
	for _, s := range l {
		out = append(out, c16Sched(s))
	}
	return vh.CoqList(out)
}
func c16Win(w ScheduleWindow) string {
	return fmt.Sprintf("(mkWin %s %s %s)", c16Z(w.Start.Unix()), c16Z(w.End.Unix()), vh.CoqBool(w.Spread))
}

// a span whose end equals its start denotes the single instant whatever its Spread and Split say (ClockSpans returns it
// unsplit, randDur of an empty window is 0); String() prints it as the bare time, so those two fields are not compared
func c16Norm(s *Schedule) *Schedule {
	n := &Schedule{WeekSpans: s.WeekSpans}
	for _, cs := range s.ClockSpans {
		if cs.End == cs.Start {
			cs.Spread, cs.Split = false, 0
		}
		n.ClockSpans = append(n.ClockSpans, cs)
	}
	return n
}

func c16Roundtrip(l []*Schedule) bool {
	for _, s := range l {
		back, err := ParseSchedule(s.String())
		if err != nil || len(back) != 1 || !reflect.DeepEqual(c16Norm(back[0]), c16Norm(s)) {
			return false
		}
	}
	return true
}

func c16Exec(i c16In) vh.Out {
	scheds, err := ParseSchedule(i.Timer)
	if err != nil || i.Kind == "parse" {
		ok := err == nil
		rt := ok && c16Roundtrip(scheds)
		tag := "parse-rejected"
		if ok {
			tag = "parse-accepted"
		}
		var strs []string
		for _, s := range scheds {
			strs = append(strs, s.String())
		}
		return vh.Out{Observed: map[string]interface{}{"accepted": ok, "strings": strs, "roundtrip": rt},
			Coq: fmt.Sprintf("(CParse %s %s %s)", vh.CoqBool(ok), c16Scheds(scheds), vh.CoqBool(rt)), NonTrivial: ok, Tags: []string{tag}}
	}
	old := timeNow
	defer func() { timeNow = old }()
	now := time.Unix(i.Now, 0).UTC()
	timeNow = func() time.Time { return now }
	last := time.Unix(i.Last, 0).UTC()
	switch i.Kind {
	case "next":
		s := scheds[0]
		w := s.Next(last)
		w.Start, w.End = w.Start.UTC(), w.End.UTC()
		incStart := Includes(scheds[:1], w.Start)
		incTail := true
		if w.End.After(w.Start) {
			incTail = Includes(scheds[:1], w.End.Add(-time.Minute))
		}
		tags := []string{"next"}
		if len(s.WeekSpans) > 0 {
			tags = append(tags, "weekspans")
		}
		for _, cs := range s.ClockSpans {
			if cs.Split > 1 {
				tags = append(tags, "split")
			}
			if cs.Spread {
				tags = append(tags, "spread")
			}
			if cs.Start.Hour == 24 {
				tags = append(tags, "start-24:00")
			}
		}
		for _, ws := range s.WeekSpans {
			if ws.Start.Pos != 0 || ws.End.Pos != 0 {
				tags = append(tags, "nth-weekday")
				break
			}
		}
		// which shape the window has (used only to key the two recorded findings): was it produced by a flattened clock
		// span whose START is 24:00 (then its base date is the day before its start), and does its last minute lie on a
		// later calendar day than its start
		from2400 := false
		for _, ts := range s.flattenedClockSpans() {
			if ts.Start.Hour == 24 {
				cand := ts.Window(w.Start.Add(-24 * time.Hour))
				if cand.Start.Equal(w.Start) && cand.End.Equal(w.End) {
					from2400 = true
				}
			}
		}
		tailNextDay := w.End.After(w.Start) && w.End.Add(-time.Minute).Unix()/86400 > w.Start.Unix()/86400
		return vh.Out{Observed: map[string]interface{}{"start": w.Start.Format(time.RFC3339), "end": w.End.Format(time.RFC3339), "spread": w.Spread,
			"start_unix": w.Start.Unix(), "end_unix": w.End.Unix(), "from_span_starting_2400": from2400, "last_minute_on_later_day": tailNextDay,
			"includes_start": incStart, "includes_last_minute": incTail, "sched": s.String()},
			Coq: fmt.Sprintf("(CNext %s %s %s %s %s %s)", c16Sched(s), c16Z(i.Last), c16Z(i.Now), c16Win(w), vh.CoqBool(incStart), vh.CoqBool(incTail)),
			NonTrivial: len(s.WeekSpans) > 0 || len(s.ClockSpans) > 0, Tags: tags}
	case "top":
		var nexts []string
		var nextsObs []string
		for _, sc := range scheds {
			w := sc.Next(last)
			nexts = append(nexts, c16Win(w))
			nextsObs = append(nextsObs, w.Start.UTC().Format(time.RFC3339)+"/"+w.End.UTC().Format(time.RFC3339))
		}
		d := Next(scheds, last, time.Duration(i.MaxD)*time.Second)
		tag := "top"
		if i.Last+i.MaxD < i.Now {
			tag = "top-overdue"
		}
		tags := []string{tag}
		if i.Boundary != "" {
			tags = append(tags, "limit-"+i.Boundary)
		}
		return vh.Out{Observed: map[string]interface{}{"delay_ns": int64(d), "nexts": nextsObs},
			Coq: fmt.Sprintf("(CTop %s %s %s %s %s %s)", c16Scheds(scheds), c16Z(i.Last), c16Z(i.Now), c16Z(i.MaxD), vh.CoqList(nexts), c16Z(int64(d))),
			NonTrivial: true, Tags: tags}
	case "inc":
		r := Includes(scheds, now)
		return vh.Out{Observed: map[string]interface{}{"includes": r},
			Coq: fmt.Sprintf("(CInc %s %s %s)", c16Scheds(scheds), c16Z(i.Now), vh.CoqBool(r)), NonTrivial: r, Tags: []string{"inc"}}
	}
	panic("unknown kind " + i.Kind)
}

var c16Days = []string{"sun", "mon", "tue", "wed", "thu", "fri", "sat"}

func c16GenClock(r *vh.Rand) string {
	switch r.Intn(12) {
	case 0:
		return "24:00"
	case 1:
		return "0:00"
	case 2:
		return "00:00"
	case 3:
		return "23:59"
	}
	h := r.Intn(24)
	m := r.Pick([]string{"00", "00", "30", "15", "05", "59", "01", "45"})
	if r.Bool() {
		return fmt.Sprintf("%d:%s", h, m)
	}
	return fmt.Sprintf("%02d:%s", h, m)
}

func c16GenWday(r *vh.Rand, numbered bool) string {
	d := r.Pick(c16Days)
	if numbered {
		return d + fmt.Sprint(r.Range(1, 5))
	}
	return d
}

func c16GenTimer(r *vh.Rand) string {
	var sets []string
	for n := 1 + r.Intn(5)/4; n > 0; n-- {
		var frags []string
		if r.Chance(3, 5) {
			for k := 1 + r.Intn(4)/3; k > 0; k-- {
				switch r.Intn(8) {
				case 0, 1:
					frags = append(frags, c16GenWday(r, false))
				case 2:
					frags = append(frags, c16GenWday(r, true))
				case 3, 4:
					frags = append(frags, c16GenWday(r, false)+"-"+c16GenWday(r, false))
				case 5:
					frags = append(frags, c16GenWday(r, true)+"-"+c16GenWday(r, false))
				case 6:
					frags = append(frags, c16GenWday(r, false)+"-"+c16GenWday(r, true))
				case 7:
					frags = append(frags, c16GenWday(r, true)+"-"+c16GenWday(r, true))
				}
			}
		}
		if len(frags) == 0 || r.Chance(4, 5) {
			for k := 1 + r.Intn(4)/3; k > 0; k-- {
				f := c16GenClock(r)
				if r.Chance(3, 5) {
					f += r.Pick([]string{"-", "~"}) + c16GenClock(r)
					if r.Chance(1, 3) {
						f += "/" + fmt.Sprint(r.Pick([]string{"1", "2", "3", "4", "5", "7", "24"}))
					}
				}
				frags = append(frags, f)
			}
		}
		sets = append(sets, strings.Join(frags, ","))
	}
	return strings.Join(sets, ",,")
}

// c16Boundary places the limit last+maxd around the earliest window W the real code offers after last (with
// timeNow = now): just before/at/after W.Start, inside W, and around W.End.
func c16Boundary(timer string, last, now int64) []c16In {
	scheds, err := ParseSchedule(timer)
	if err != nil {
		return nil
	}
	old := timeNow
	defer func() { timeNow = old }()
	timeNow = func() time.Time { return time.Unix(now, 0).UTC() }
	var w ScheduleWindow
	for k, sc := range scheds {
		n := sc.Next(time.Unix(last, 0).UTC())
		if k == 0 || n.Start.Before(w.Start) {
			w = n
		}
	}
	ws, we := w.Start.Unix(), w.End.Unix()
	var out []c16In
	for _, b := range []struct {
		name string
		at   int64
	}{{"start-1", ws - 1}, {"start", ws}, {"start+1", ws + 1}, {"start-1h", ws - 3600}, {"start-59m", ws - 3540}, {"start-61m", ws - 3660},
		{"mid", (ws + we) / 2}, {"end-1", we - 1}, {"end", we}, {"end+1", we + 1}} {
		if b.at-last <= 0 {
			continue
		}
		out = append(out, c16In{Kind: "top", Timer: timer, Last: last, Now: now, MaxD: b.at - last, Boundary: b.name})
	}
	return out
}

func c16Gen(r *vh.Rand, tier string, n int) []c16In {
	if n <= 0 {
		n = 600
	}
	var out []c16In
	base := int64(946684800) // 2000-01-01
	rndTime := func() int64 { return base + int64(r.Intn(40*365))*86400 + int64(r.Intn(86400)) }
	delta := func() int64 {
		switch r.Intn(8) {
		case 0:
			return 0
		case 1:
			return -int64(r.Intn(7200))
		case 2, 3:
			return int64(r.Intn(86400))
		case 4, 5:
			return int64(r.Intn(10 * 86400))
		case 6:
			return int64(r.Intn(120 * 86400))
		}
		return int64(60 * r.Intn(600))
	}
	// fixed cases first: the documented examples, the default refresh timer, and the known edge classes
	fixed := []string{"00:00~24:00/4", "mon,10:00,,fri,15:00", "mon,fri,10:00,15:00", "mon-wed,fri,9:00-11:00/2", "mon,9:00~11:00,,wed,22:00~23:00",
		"mon,wed", "mon,,wed", "mon1-wed", "mon-wed1", "mon1", "mon1-mon", "fri4-thu", "mon-fri1", "fri5", "sun5-tue", "23:00-01:00", "23:00~01:00/2",
		"mon,24:00", "24:00~0:00", "sat-mon,22:00-02:00/4", "tue2,0:00-24:00", "mon1-tue2", "wed5-wed5"}
	monday := int64(1722859200) // 2024-08-05 12:00 UTC
	for _, f := range fixed {
		out = append(out, c16In{Kind: "next", Timer: f, Last: monday, Now: monday + 60})
		out = append(out, c16In{Kind: "parse", Timer: f})
		out = append(out, c16In{Kind: "top", Timer: f, Last: monday, Now: monday + 3600, MaxD: 95 * 86400})
	}
	for _, f := range []string{"00:00~24:00/4", "mon,10:00,,fri,15:00", "mon-wed,fri,9:00-11:00/2", "23:00~01:00/2", "fri5", "tue2,0:00-24:00"} {
		out = append(out, c16Boundary(f, monday, monday+60)...)
	}
	malAlpha := "montuewdhfris0123456789:-~/, "
	for len(out) < n {
		k := r.Intn(20)
		l := rndTime()
		switch {
		case k < 9:
			out = append(out, c16In{Kind: "next", Timer: c16GenTimer(r), Last: l, Now: l + delta()})
		case k < 10:
			// the limit placed at the edges of the first window on offer
			l2 := l
			nw := l2 + int64(r.Intn(7200))
			bs := c16Boundary(c16GenTimer(r), l2, nw)
			for _, b := range bs {
				if r.Chance(1, 2) {
					out = append(out, b)
				}
			}
		case k < 12:
			maxd := int64(95 * 86400)
			if r.Chance(1, 3) {
				maxd = int64(r.Intn(3 * 86400))
			}
			nw := l + delta()
			if r.Chance(1, 5) {
				nw = l + maxd + int64(r.Intn(86400)) - 3600
			}
			out = append(out, c16In{Kind: "top", Timer: c16GenTimer(r), Last: l, Now: nw, MaxD: maxd})
		case k < 15:
			out = append(out, c16In{Kind: "inc", Timer: c16GenTimer(r), Now: l})
		case k < 17:
			out = append(out, c16In{Kind: "parse", Timer: c16GenTimer(r)})
		default:
			// malformed stream: random text, or a valid timer with one character changed / inserted / removed
			s := r.Str(malAlpha, 0, 14)
			if r.Bool() {
				b := []byte(c16GenTimer(r))
				p := r.Intn(len(b))
				switch r.Intn(3) {
				case 0:
					b[p] = malAlpha[r.Intn(len(malAlpha))]
				case 1:
					b = append(b[:p], b[p+1:]...)
				default:
					b = append(b[:p], append([]byte{malAlpha[r.Intn(len(malAlpha))]}, b[p:]...)...)
				}
				s = string(b)
			}
			out = append(out, c16In{Kind: "parse", Timer: s})
		}
	}
	return out
}

func TestVerifC16(t *testing.T) { vh.Run(c16Gen, c16Exec) }

// ------------------------------------------------------------------ string level: ParseSchedule / String (V.models.TimerText.tcase)

type c16TextIn struct {
	Text string `json:"text"`
}

func c16TextExec(i c16TextIn) vh.Out {
	scheds, err := ParseSchedule(i.Text)
	if err != nil {
		return vh.Out{Observed: map[string]interface{}{"accepted": false},
			Coq: fmt.Sprintf("(TParse %s None [])", vh.CoqBytes(i.Text)), NonTrivial: false, Tags: []string{"text-rejected"}}
	}
	var strs, strsCoq []string
	for _, s := range scheds {
		strs = append(strs, s.String())
		strsCoq = append(strsCoq, vh.CoqBytes(s.String()))
	}
	return vh.Out{Observed: map[string]interface{}{"accepted": true, "strings": strs},
		Coq:        fmt.Sprintf("(TParse %s (Some %s) %s)", vh.CoqBytes(i.Text), c16Scheds(scheds), vh.CoqList(strsCoq)),
		NonTrivial: true, Tags: []string{"text-accepted"}}
}

func c16TextGen(r *vh.Rand, tier string, n int) []c16TextIn {
	if n <= 0 {
		n = 600
	}
	var out []c16TextIn
	for _, s := range []string{"", ",", ",,", ",,,", "mon,,", ",,mon", "mon,,,tue", "mon,,,,tue", "-", "~", ":", "-:", "~:", "9:00-", "-9:00", "24:00", "24:01", "25:00",
		"9:60", "009:00", "9:0", "9:000", "9:00/2", "9:00-10:00/", "/2", "9:00-10:00/2/3", "9:00~10:00~11:00", "9:00-10:00-11:00", "9:00~10:00-11:00",
		"9:00-10:00~", "mon-tue-wed", "mon0", "mon6", "mon9", "mon5-tue1", "mon2-tue1", "mon1-mon1", "mon3-mon3", "mon1-mon2", "MON", "mon ", " mon", "mo", "monn",
		"mon12", "mon-", "-mon", "mon--tue", "9:00-10:00/4294967296", "9:00-10:00/4294967295", "9:00-10:00/007", "9:00-10:00/+2", "9:00-10:00/0", "9:00-10:00/00",
		"0:00-24:00/24", "24:00-24:00", "24:00~24:00/3", "00:00~0:00", "9:00,mon", "mon,9:00,tue", "mon,9:00,10:00", "sun-sat,0:00", "fri5-thu", "thu-fri5",
		"mon,tue,wed,thu,fri,sat,sun", "1:00,2:00,,3:00", "mon,,9:00", "9:00-10:00,,", "00:00~24:00/4", "mon,10:00,,fri,15:00", "mon-wed,fri,9:00-11:00/2",
		"mon,-", "~/2", "-/2", "9:00~9:00/3", "0:00-24:00/4294967295", "mon1-tue2", "0:00,24:00-7:30", "23:00-01:00", "mon,24:00", "mon..fri", "mon1..fri"} {
		out = append(out, c16TextIn{s})
	}
	malAlpha := "montuewdhfris0123456789:-~/, "
	for len(out) < n {
		switch r.Intn(5) {
		case 0, 1:
			out = append(out, c16TextIn{c16GenTimer(r)})
		case 2:
			out = append(out, c16TextIn{r.Str(malAlpha, 0, 14)})
		default:
			b := []byte(c16GenTimer(r))
			for k := 1 + r.Intn(2); k > 0 && len(b) > 0; k-- {
				p := r.Intn(len(b))
				switch r.Intn(3) {
				case 0:
					b[p] = malAlpha[r.Intn(len(malAlpha))]
				case 1:
					b = append(b[:p], b[p+1:]...)
				default:
					b = append(b[:p], append([]byte{malAlpha[r.Intn(len(malAlpha))]}, b[p:]...)...)
				}
			}
			out = append(out, c16TextIn{string(b)})
		}
	}
	return out
}

func TestVerifC16Text(t *testing.T) { vh.Run(c16TextGen, c16TextExec) }
